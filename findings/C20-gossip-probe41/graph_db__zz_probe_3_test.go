//go:build !test_db_sqlite && !test_db_postgres

package graphdb

import (
	"bytes"
	"testing"

	"github.com/btcsuite/btcd/chainhash/v2"
	"github.com/btcsuite/btcd/wire/v2"
	"github.com/lightningnetwork/lnd/kvdb"
	"github.com/lightningnetwork/lnd/lnwire"
	"github.com/stretchr/testify/require"
)

// probe3Setup creates a KV store with a source node and two channels at the
// given height.
func probe3Setup(t *testing.T) (*KVStore, []*wire.OutPoint, [][]byte,
	[][33]byte) {

	ctx := t.Context()
	v := lnwire.GossipVersion1

	store, ok := NewTestDB(t).(*KVStore)
	require.True(t, ok)

	require.NoError(t, store.SetSourceNode(ctx, createTestVertex(t, v)))

	node1 := createTestVertex(t, v)
	node2 := createTestVertex(t, v)
	require.NoError(t, store.AddNode(ctx, node1))
	require.NoError(t, store.AddNode(ctx, node2))

	var (
		ops    []*wire.OutPoint
		ids    [][]byte
		node1s [][33]byte
	)
	for i := uint32(0); i < 2; i++ {
		info, scid := createEdge(v, 200, i, 0, i, node1, node2)
		require.NoError(t, store.AddChannelEdge(ctx, info))

		op := info.ChannelPoint
		ops = append(ops, &op)

		var id [8]byte
		byteOrder.PutUint64(id[:], scid.ToUint64())
		ids = append(ids, id[:])
		node1s = append(node1s, info.NodeKey1Bytes)
	}

	return store, ops, ids, node1s
}

// TestProbePruneGraphDanglingChanIndex: a channel point index entry without
// its edge index entry (an inconsistent database) must not crash the block
// pruning; the consistent channel spent in the same block must still be pruned.
func TestProbePruneGraphDanglingChanIndex(t *testing.T) {
	t.Parallel()

	store, ops, ids, _ := probe3Setup(t)

	// Remove the edge index entry of the first channel only, leaving its
	// channel point index entry dangling.
	err := kvdb.Update(store.db, func(tx kvdb.RwTx) error {
		edges := tx.ReadWriteBucket(edgeBucket)
		edgeIndex := edges.NestedReadWriteBucket(edgeIndexBucket)

		return edgeIndex.Delete(ids[0])
	}, func() {})
	require.NoError(t, err)

	var blockHash chainhash.Hash
	copy(blockHash[:], bytes.Repeat([]byte{1}, 32))

	var closed int
	require.NotPanics(t, func() {
		chans, _, err := store.PruneGraph(
			t.Context(), ops, &blockHash, 300,
		)
		require.NoError(t, err)
		for _, c := range chans {
			require.NotNil(t, c, "nil channel returned as closed")
		}
		closed = len(chans)
	})
	require.Equal(t, 1, closed)
}

// TestProbeDisconnectBlockMissingPolicyKey: an edge index entry whose policy
// key is absent (an inconsistent database) must not crash the reorg handling.
func TestProbeDisconnectBlockMissingPolicyKey(t *testing.T) {
	t.Parallel()

	store, _, ids, node1s := probe3Setup(t)

	err := kvdb.Update(store.db, func(tx kvdb.RwTx) error {
		edges := tx.ReadWriteBucket(edgeBucket)

		var edgeKey [33 + 8]byte
		copy(edgeKey[:33], node1s[0][:])
		copy(edgeKey[33:], ids[0])
		require.NotNil(t, edges.Get(edgeKey[:]))

		return edges.Delete(edgeKey[:])
	}, func() {})
	require.NoError(t, err)

	var removed int
	require.NotPanics(t, func() {
		chans, err := store.DisconnectBlockAtHeight(t.Context(), 200)
		require.NoError(t, err)
		for _, c := range chans {
			require.NotNil(t, c, "nil channel returned as removed")
		}
		removed = len(chans)
	})
	require.Equal(t, 1, removed)
}
