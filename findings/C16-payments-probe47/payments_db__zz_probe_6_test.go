package paymentsdb

import (
	"crypto/sha256"
	"testing"

	"github.com/lightningnetwork/lnd/record"
	"github.com/stretchr/testify/assert"
	"github.com/stretchr/testify/require"
)

// TestZZProbe6FirstShardTotalVsPaymentAmount: the total announced by the MPP
// record of a shard must be the payment amount. Shards are only compared with
// each other, so the first one (or any one registered while nothing is in
// flight) can announce any total.
func TestZZProbe6FirstShardTotalVsPaymentAmount(t *testing.T) {
	for name, db := range zzSeedStores(t) {
		ctx := t.Context()

		preimg := genPreimage(t)
		rhash := sha256.Sum256(preimg[:])
		info := genPaymentCreationInfo(t, rhash)
		hash := info.PaymentIdentifier
		require.NoError(t, db.InitPayment(ctx, hash, info))

		a := genAttemptWithHash(t, 0, genSessionKey(t), rhash)
		a.Route.FinalHop().AmtToForward = info.Value / 2
		a.Route.FinalHop().MPP = record.NewMPP(
			info.Value*3, [32]byte{1},
		)
		_, err := db.RegisterAttempt(ctx, hash, a)
		assert.Errorf(t, err, "%s: first shard announcing total %v "+
			"admitted on a payment of %v", name, info.Value*3,
			info.Value)
	}
}
