package spec

import (
	"lndlint/internal/an"
)

func init() {
	register(&Spec{
		ID: "C02",
		Loads: []LoadSpec{{Patterns: []string{
			"./lnwallet", "./chanstate", "./channeldb",
		}}},
		Explanation: "Decides structural necessary conditions of crash-safety: the durable write dominates every hand-out of a signature/revocation (PATH), in-memory copies are updated only after the transaction succeeded, each transition's write set is inside one kvdb transaction and on every success path, the last-was-revoke flag constants, writer/reader agreement of the channel codecs (CODEC), every stored key is read by the restore path, and the restore entry point calls every restore step.",
		NotDecided: []string{
			"equality of the reloaded projection with the pre-crash state (needs execution)",
			"that the reloaded channel can continue with its peer",
			"atomicity of kvdb transactions themselves (trusted)",
		},
		Assumptions: commonAssumptions,
		Engines:     "PATH (must-pass-through on the flow graph), CODEC (trace agreement), TABLE, WHO",
		TagMatrix:   [][]string{{"integration"}},
		Run:         runC02,
	})
}

func runC02(r *an.Run) {
	p := r.Prog

	r.Obl("SignNextCommitment.persist-dominates-signature", "PATH",
		"MUST(channelState.AppendRemoteCommitChain ok -> every success return of SignNextCommitment) and BEFORE(it, commitChains.Remote.addCommitment)",
		"a signature handed out before the commit diff is durable cannot be retransmitted after a crash (C02, C03, C06)", 3,
		func(o *an.Obl) {
			f := p.Func("lnwallet.LightningChannel.SignNextCommitment")
			persist := f.Calls(an.CalleeIs("chanstate.OpenChannel.AppendRemoteCommitChain"), false)
			mustPass(o, f, "AppendRemoteCommitChain", persist, an.OkErrNil, f.SuccessReturns())
			add := f.Calls(an.CalleeIs("lnwallet.commitmentChain.addCommitment"), false)
			if need(o, f, "commitChains.Remote.addCommitment", add, 1) {
				mustPass(o, f, "AppendRemoteCommitChain", persist, an.OkErrNil, add)
			}
		})

	r.Obl("RevokeCurrentCommitment.persist-dominates-revocation", "PATH",
		"MUST(channelState.UpdateCommitment ok -> every success return of RevokeCurrentCommitment)",
		"a revocation released before the new local commitment is durable lets a reload broadcast a revoked state", 2,
		func(o *an.Obl) {
			f := p.Func("lnwallet.LightningChannel.RevokeCurrentCommitment")
			persist := f.Calls(an.CalleeIs("chanstate.OpenChannel.UpdateCommitment"), false)
			mustPass(o, f, "UpdateCommitment", persist, an.OkErrNil, f.SuccessReturns())
		})

	r.Obl("ReceiveRevocation.persist-dominates-advance", "PATH",
		"MUST(channelState.AdvanceCommitChainTail ok -> commitChains.Remote.advanceTail and every success return)",
		"advancing the in-memory remote chain before the revocation is durable desynchronises memory and disk", 3,
		func(o *an.Obl) {
			f := p.Func("lnwallet.LightningChannel.ReceiveRevocation")
			persist := f.Calls(an.CalleeIs("chanstate.OpenChannel.AdvanceCommitChainTail"), false)
			adv := f.Calls(an.CalleeIs("lnwallet.commitmentChain.advanceTail"), false)
			if need(o, f, "commitChains.Remote.advanceTail", adv, 1) {
				mustPass(o, f, "AdvanceCommitChainTail", persist, an.OkErrNil, adv)
			}
			mustPass(o, f, "AdvanceCommitChainTail", persist, an.OkErrNil, f.SuccessReturns())
		})

	r.Obl("memory-after-disk", "PATH",
		"OpenChannel.UpdateCommitment assigns c.LocalCommitment only after Db.UpdateChannelCommitment ok; ChannelStateDB.AdvanceCommitChainTail assigns channel.RemoteCommitment only after its kvdb.Update ok; the three OpenChannel wrappers refuse restored channels and delegate to the store",
		"the in-memory commitment is what ForceClose broadcasts; it must never run ahead of disk", 8,
		func(o *an.Obl) {
			f := p.Func("chanstate.OpenChannel.UpdateCommitment")
			persist := f.Calls(an.CalleeNamed("UpdateChannelCommitment"), false)
			asg := f.Assigns(an.Field("chanstate.OpenChannel", "LocalCommitment", nil), false)
			if need(o, f, "assignment of LocalCommitment", asg, 1) {
				mustPass(o, f, "Db.UpdateChannelCommitment", persist, an.OkErrNil, asg)
			}
			mustPass(o, f, "Db.UpdateChannelCommitment", persist, an.OkErrNil, f.SuccessReturns())

			g := p.Func("channeldb.ChannelStateDB.AdvanceCommitChainTail")
			upd := g.Calls(kvUpdate, false)
			asg = g.Assigns(an.Field("chanstate.OpenChannel", "RemoteCommitment", nil), false)
			if need(o, g, "assignment of RemoteCommitment", asg, 1) {
				mustPass(o, g, "kvdb.Update", upd, an.OkErrNil, asg)
			}
			// writers of the two in-memory commitments in non-test code of the
			// three packages
			for _, fld := range []string{"LocalCommitment", "RemoteCommitment"} {
				allowed := map[string]bool{
					"chanstate.OpenChannel.UpdateCommitment":          true, // after the store write (above)
					"channeldb.ChannelStateDB.AdvanceCommitChainTail": true, // after the transaction (above)
					"channeldb.fetchChanCommitments":                  true, // restore from disk
					"chanstate.OpenChannel.Copy":                      true, // deep copy of a snapshot
				}
				for _, fn := range p.Funcs(false, "chanstate", "channeldb", "lnwallet") {
					if fn.Lit != nil {
						continue
					}
					for _, s := range fn.Assigns(an.Field("chanstate.OpenChannel", fld, nil), true) {
						o.Site("writer of OpenChannel.%s: %s", fld, s.String())
						if !allowed[fn.ID] {
							o.FailAt(fn.ID+"#writes-"+fld, s.Where(), "%s assigns OpenChannel.%s; only the persist-then-assign functions and the restore path may", fn.ID, fld)
						}
					}
				}
			}
			for _, w := range []struct{ fn, store string }{
				{"chanstate.OpenChannel.UpdateCommitment", "UpdateChannelCommitment"},
				{"chanstate.OpenChannel.AppendRemoteCommitChain", "AppendRemoteCommitChain"},
				{"chanstate.OpenChannel.AdvanceCommitChainTail", "AdvanceCommitChainTail"},
			} {
				wf := p.Func(w.fn)
				calls := wf.Calls(an.CalleeNamed(w.store), false)
				if !need(o, wf, "Db."+w.store, calls, 1) {
					continue
				}
				restored := an.Truth(an.CallNamed("hasChanStatus", nil, an.PkgVar("chanstate", "ChanStatusRestored")), false, "!hasChanStatus(ChanStatusRestored)")
				guardedAll(o, wf, calls, restored)
			}
		})

	commitStoreTransactions(r)

	r.Obl("restore-calls-every-step", "PATH",
		"NewLightningChannel succeeds only after restoreCommitState ok; restoreCommitState succeeds only after reading RemoteCommitChainTip, UnsignedAckedUpdates, RemoteUnsignedLocalUpdates and restoreStateLogs ok; restoreStateLogs succeeds only after restorePendingRemoteUpdates ok and restorePeerLocalUpdates ok, and restores the peer-unsigned local updates before the pending diff's local updates (log-index order of the local log); restorePendingLocalUpdates is called whenever a pending remote commit exists",
		"a restore step that is skipped drops updates that were covered by a signature", 12,
		func(o *an.Obl) {
			f := p.Func("lnwallet.NewLightningChannel")
			mustPass(o, f, "restoreCommitState", f.Calls(an.CalleeIs("lnwallet.LightningChannel.restoreCommitState"), false), an.OkErrNil, f.SuccessReturns())
			g := p.Func("lnwallet.LightningChannel.restoreCommitState")
			for _, name := range []string{"UnsignedAckedUpdates", "RemoteUnsignedLocalUpdates"} {
				mustPass(o, g, name, g.Calls(an.CalleeIs("chanstate.OpenChannel."+name), false), an.OkErrNil, g.SuccessReturns())
			}
			tip := g.Calls(an.CalleeIs("chanstate.OpenChannel.RemoteCommitChainTip"), false)
			before(o, g, "RemoteCommitChainTip", tip, "success return", g.SuccessReturns())
			mustPass(o, g, "restoreStateLogs", g.Calls(an.CalleeIs("lnwallet.LightningChannel.restoreStateLogs"), false), an.OkErrNil, g.SuccessReturns())
			// both commitments are converted and inserted
			conv := g.Calls(an.CalleeIs("lnwallet.LightningChannel.diskCommitToMemCommit"), false)
			if len(conv) < 3 {
				o.FailAt(g.ID+"#diskCommitToMemCommit-count", g.Where(g.Body.Pos()), "expected 3 diskCommitToMemCommit calls (local, remote, pending remote), found %d", len(conv))
			}
			for _, c := range conv {
				o.Site("%s", c.String())
			}
			h := p.Func("lnwallet.LightningChannel.restoreStateLogs")
			mustPass(o, h, "restorePendingRemoteUpdates", h.Calls(an.CalleeIs("lnwallet.LightningChannel.restorePendingRemoteUpdates"), false), an.OkErrNil, h.SuccessReturns())
			mustPass(o, h, "restorePeerLocalUpdates", h.Calls(an.CalleeIs("lnwallet.LightningChannel.restorePeerLocalUpdates"), false), an.OkErrNil, h.SuccessReturns())
			// restorePendingLocalUpdates on every path on which the pending
			// commit is non-nil: success returns are unreachable once both
			// the `pending == nil` edge and the ok edges of the call are cut.
			pl := h.Calls(an.CalleeIs("lnwallet.LightningChannel.restorePendingLocalUpdates"), false)
			// the local log is rebuilt in log-index order: the updates the peer
			// still has to sign for (lower indexes) before the pending diff's
			if pe := h.Calls(an.CalleeIs("lnwallet.LightningChannel.restorePeerLocalUpdates"), false); len(pe) > 0 && len(pl) > 0 {
				before(o, h, "restorePeerLocalUpdates", pe, "restorePendingLocalUpdates", pl)
				mustPass(o, h, "restorePeerLocalUpdates", pe, an.OkErrNil, pl)
			}
			if need(o, h, "restorePendingLocalUpdates", pl, 1) {
				es, _ := h.UnionOk(pl, an.OkErrNil)
				params := h.Params(false)
				var pend an.Term = an.Param(2)
				_ = params
				for e := range h.EdgesOf(an.IsNil(pend, true, "pendingRemoteCommit == nil")) {
					es[e] = true
				}
				for _, t := range h.SuccessReturns() {
					o.Site("target %s", t.String())
					// direct return of restorePeerLocalUpdates is a tail: fine
					if bad := h.MustPass([]an.Site{t}, es); len(bad) > 0 {
						o.FailAt(constructOf(h, t)+"<-restorePendingLocalUpdates", t.Where(), "with a pending remote commitment, %s", bad[0])
					}
				}
			}
		})

	codecC02(r)
	windowDiscipline(r)
	modifiedMarkerDiscipline(r)
	persistRestoreKindAgreement(r)
	statusWriters(r)
	retrySafeClosures(r, []string{"channeldb", "chanstate"}, `^channeldb\.(ChannelStateDB|ChannelPackager|SwitchPackager)\.|^chanstate\.`, 20, "the channel store's transitions run as kvdb transactions; on the SQL and etcd backends a transaction that hits a serialisation failure is run again, and a closure that continues from the aborted run's value writes a different state than the one it was asked to (C02: the reloaded state is the pre-crash state)")
}
