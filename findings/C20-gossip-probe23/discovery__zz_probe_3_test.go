package discovery

import (
	"context"
	"errors"
	"testing"
	"time"

	graphdb "github.com/lightningnetwork/lnd/graph/db"
	"github.com/stretchr/testify/require"
)

// TestProbeZombieRevivedByInconsistentUpdate: a zombie channel must only be
// resurrected by an update that would itself be acceptable. A correctly
// signed, fresh update whose fields are inconsistent (max_htlc below min_htlc)
// is refused by ValidateChannelUpdateFields for every known channel, so it
// must not take the channel out of the zombie index either.
func TestProbeZombieRevivedByInconsistentUpdate(t *testing.T) {
	ctx := t.Context()

	tCtx, err := createTestCtx(t, 0, false)
	require.NoError(t, err)

	batch, err := tCtx.createRemoteAnnouncements(0)
	require.NoError(t, err)

	peer := &mockPeer{pk: remoteKeyPriv1.PubKey()}

	chanID := batch.chanAnn.ShortChannelID
	require.NoError(t, tCtx.router.MarkEdgeZombie(
		chanID, batch.chanAnn.NodeID1, batch.chanAnn.NodeID2,
	))

	// Fresh, signed by the right node, but max_htlc < min_htlc.
	upd := batch.chanUpdAnn2
	upd.Timestamp = uint32(time.Now().Unix())
	upd.HtlcMaximumMsat = upd.HtlcMinimumMsat / 2
	require.NoError(t, signUpdate(remoteKeyPriv2, upd))

	f := tCtx.gossiper.ProcessRemoteAnnouncement(ctx, upd, peer)

	wCtx, cancel := context.WithTimeout(ctx, 2*time.Second)
	defer cancel()
	err = AwaitGossipResult(wCtx, f)
	t.Logf("result of the inconsistent update: %v", err)

	_, _, _, err = tCtx.router.GetChannelByID(chanID)
	t.Logf("GetChannelByID after the inconsistent update: %v", err)
	require.ErrorIs(t, err, graphdb.ErrZombieEdge, "zombie channel was "+
		"resurrected by an update that can never be accepted")

	// A consistent fresh update from the same node still resurrects the
	// channel: it is stashed until the announcement arrives and applied
	// afterwards.
	upd.Timestamp++
	upd.HtlcMaximumMsat = upd.HtlcMinimumMsat * 2
	require.NoError(t, signUpdate(remoteKeyPriv2, upd))
	f = tCtx.gossiper.ProcessRemoteAnnouncement(ctx, upd, peer)

	require.Eventually(t, func() bool {
		_, _, _, err := tCtx.router.GetChannelByID(chanID)
		return !errors.Is(err, graphdb.ErrZombieEdge)
	}, 2*time.Second, 20*time.Millisecond)

	require.NoError(t, mustProcess(
		t, tCtx.gossiper.ProcessRemoteAnnouncement(
			ctx, batch.chanAnn, peer,
		),
	))
	require.NoError(t, mustProcess(t, f))

	_, _, e2, err := tCtx.router.GetChannelByID(chanID)
	require.NoError(t, err)
	require.NotNil(t, e2)
}
