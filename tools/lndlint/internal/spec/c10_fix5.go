package spec

import (
	"fmt"
	"go/ast"
	"go/token"
	"go/types"
	"regexp"
	"sort"
	"strings"

	"lndlint/internal/an"
	"lndlint/internal/flow"
)

func init() {
	specExtras["C10"] = append(specExtras["C10"], c10f5Records, c10f5Streams, c10f5Presence)
}

// ---------------------------------------------------------------------------
// Byte accounting of TLV record decoders (repair d8797bd).
//
// A function with the tlv.Decoder signature (r, val, buf, l) must consume
// exactly l bytes of r whenever it reports success: the stream decoder hands
// it the unlimited reader (tlv.Stream.decode), so every byte read too much or
// too little shifts the rest of the stream.  The engine below adds up, along
// every path to a return that can report success, the bytes each read of r
// takes (a linear form a*l + k over the record length), collects what the
// conditions on the way say about l (l == C, l >= C, (l+k) % d == 0) and
// compares.
// ---------------------------------------------------------------------------

// c10f5Lin is the value (a*l + k) / div of an integer expression over the
// record length l; need is the smallest l for which no subtraction in the
// expression wraps around.
type c10f5Lin struct {
	ok   bool
	k    int64
	a    int64
	div  int64
	need int64
}

func (x c10f5Lin) String() string {
	if !x.ok {
		return "?"
	}
	s := ""
	switch {
	case x.a == 0:
		s = fmt.Sprint(x.k)
	case x.k == 0:
		s = c10f5Coef(x.a) + "l"
	case x.k < 0:
		s = fmt.Sprintf("%sl - %d", c10f5Coef(x.a), -x.k)
	default:
		s = fmt.Sprintf("%sl + %d", c10f5Coef(x.a), x.k)
	}
	if x.div > 1 {
		s = fmt.Sprintf("(%s) / %d", s, x.div)
	}
	return s
}

func c10f5Coef(a int64) string {
	if a == 1 {
		return ""
	}
	return fmt.Sprint(a) + "*"
}

func c10f5Const(k int64) c10f5Lin { return c10f5Lin{ok: true, k: k, div: 1} }

func c10f5Max(a, b int64) int64 {
	if a > b {
		return a
	}
	return b
}

// c10f5Acct holds what the accounting of one function needs.
type c10f5Acct struct {
	p    *an.Prog
	fn   *an.Func
	robj types.Object // the stream
	lobj types.Object // the record length (nil: none)
	lrw  bool         // the record length is overwritten somewhere
}

func c10f5ConstOf(info *types.Info, e ast.Expr) (int64, bool) {
	tv, ok := info.Types[e]
	if !ok || tv.Value == nil {
		return 0, false
	}
	return constInt64(tv.Value)
}

// lin evaluates e as a linear form over the record length, following unique
// definitions of locals and looking through integer conversions.
func (a *c10f5Acct) lin(e ast.Expr, depth int) c10f5Lin {
	info := a.fn.Info()
	e = ast.Unparen(e)
	if v, ok := c10f5ConstOf(info, e); ok {
		return c10f5Const(v)
	}
	if depth > 6 {
		return c10f5Lin{}
	}
	switch x := e.(type) {
	case *ast.Ident:
		o := c08ObjOf(info, x)
		if o != nil && o == a.lobj {
			if a.lrw {
				return c10f5Lin{}
			}
			return c10f5Lin{ok: true, a: 1, div: 1}
		}
		if d := a.fn.UniqueDef(x); d != nil {
			return a.lin(d, depth+1)
		}
	case *ast.CallExpr:
		if tv, ok := info.Types[x.Fun]; ok && tv.IsType() && len(x.Args) == 1 {
			if b, isBasic := tv.Type.Underlying().(*types.Basic); isBasic && b.Info()&types.IsInteger != 0 {
				return a.lin(x.Args[0], depth)
			}
		}
	case *ast.BinaryExpr:
		l, r := a.lin(x.X, depth), a.lin(x.Y, depth)
		if !l.ok || !r.ok {
			return c10f5Lin{}
		}
		need := c10f5Max(l.need, r.need)
		switch x.Op {
		case token.ADD, token.SUB:
			if l.div != 1 || r.div != 1 {
				return c10f5Lin{}
			}
			if x.Op == token.SUB {
				r.k, r.a = -r.k, -r.a
			}
			out := c10f5Lin{ok: true, k: l.k + r.k, a: l.a + r.a, div: 1, need: need}
			if x.Op == token.SUB && out.a == 1 && out.k < 0 {
				out.need = c10f5Max(out.need, -out.k)
			}
			if out.a < 0 || (out.a == 0 && out.k < 0) {
				return c10f5Lin{}
			}
			return out
		case token.MUL:
			if l.div != 1 || r.div != 1 {
				return c10f5Lin{}
			}
			if l.a == 0 {
				return c10f5Lin{ok: true, k: l.k * r.k, a: l.k * r.a, div: 1, need: need}
			}
			if r.a == 0 {
				return c10f5Lin{ok: true, k: l.k * r.k, a: r.k * l.a, div: 1, need: need}
			}
		case token.QUO:
			if r.a == 0 && r.div == 1 && r.k > 0 && l.div == 1 {
				if l.a == 0 {
					return c10f5Const(l.k / r.k)
				}
				l.div = r.k
				l.need = need
				return l
			}
		}
	}
	return c10f5Lin{}
}

// c10f5Facts is what the conditions passed on a path say about l.
type c10f5Facts struct {
	eq   *int64
	ge   int64
	mods [][2]int64 // (k, d): (l + k) % d == 0
}

func (f c10f5Facts) clone() c10f5Facts {
	out := c10f5Facts{ge: f.ge, mods: append([][2]int64(nil), f.mods...)}
	if f.eq != nil {
		v := *f.eq
		out.eq = &v
	}
	return out
}

func (f c10f5Facts) atLeast() int64 {
	if f.eq != nil {
		return c10f5Max(*f.eq, f.ge)
	}
	return f.ge
}

func (f c10f5Facts) hasMod(k, d int64) bool {
	if d == 1 {
		return true
	}
	for _, m := range f.mods {
		if m[0] == k && m[1] == d {
			return true
		}
	}
	if f.eq != nil && *f.eq+k >= 0 && (*f.eq+k)%d == 0 {
		return true
	}
	return false
}

func (f c10f5Facts) String() string {
	var parts []string
	if f.eq != nil {
		parts = append(parts, fmt.Sprintf("l == %d", *f.eq))
	}
	if f.ge > 0 {
		parts = append(parts, fmt.Sprintf("l >= %d", f.ge))
	}
	for _, m := range f.mods {
		parts = append(parts, fmt.Sprintf("(l%+d) %% %d == 0", m[0], m[1]))
	}
	if len(parts) == 0 {
		return "nothing"
	}
	return strings.Join(parts, ", ")
}

func c10f5Pow2(d int64) bool { return d > 0 && d&(d-1) == 0 }

// along adds what edge e establishes; feasible=false when it contradicts what
// is known already.
func (a *c10f5Acct) along(e *flow.Edge, f c10f5Facts) (c10f5Facts, bool) {
	if e.From.Kind != flow.KCond || (e.Kind != flow.ETrue && e.Kind != flow.EFalse) {
		return f, true
	}
	be, ok := ast.Unparen(e.From.Node.(ast.Expr)).(*ast.BinaryExpr)
	if !ok {
		return f, true
	}
	rel, ok := c10f5RelOf(be.Op)
	if !ok {
		return f, true
	}
	if e.Kind == flow.EFalse {
		rel = (an.LT | an.EQ | an.GT) &^ rel
	}
	info := a.fn.Info()
	x, y := ast.Unparen(be.X), ast.Unparen(be.Y)
	// (X % d) == 0
	for i := 0; i < 2; i++ {
		if rem, isRem := x.(*ast.BinaryExpr); isRem && rem.Op == token.REM {
			d, dOK := c10f5ConstOf(info, rem.Y)
			z, zOK := c10f5ConstOf(info, y)
			l := a.lin(rem.X, 0)
			if dOK && zOK && z == 0 && d > 0 && l.ok && l.a == 1 && l.div == 1 && rel == an.EQ {
				f = f.clone()
				f.mods = append(f.mods, [2]int64{l.k, d})
				// for l < -k the difference wraps to 2^64 - (-k - l); a
				// power of two d divides 2^64, so d would have to divide
				// -k - l, a number between 1 and -k: impossible when -k < d
				if l.k < 0 && c10f5Pow2(d) && -l.k < d {
					f.ge = c10f5Max(f.ge, -l.k)
				}
				return f, true
			}
		}
		x, y = y, x
	}
	// l REL c
	lx, ly := a.lin(x, 0), a.lin(y, 0)
	if ly.ok && ly.a == 1 && lx.ok && lx.a == 0 {
		lx, ly = ly, lx
		rel = c10f5Swap(rel)
	}
	if !(lx.ok && lx.a == 1 && lx.div == 1 && lx.k == 0 && ly.ok && ly.a == 0 && ly.div == 1) {
		return f, true
	}
	c := ly.k
	f = f.clone()
	switch rel {
	case an.EQ:
		if (f.eq != nil && *f.eq != c) || c < f.ge {
			return f, false
		}
		f.eq = &c
	case an.GE:
		f.ge = c10f5Max(f.ge, c)
	case an.GT:
		f.ge = c10f5Max(f.ge, c+1)
	case an.LT:
		if c == 1 {
			z := int64(0)
			f.eq = &z
		}
		if f.eq != nil && *f.eq >= c {
			return f, false
		}
	case an.LE:
		if c == 0 {
			z := int64(0)
			f.eq = &z
		}
		if f.eq != nil && *f.eq > c {
			return f, false
		}
	case an.NE:
		if f.eq != nil && *f.eq == c {
			return f, false
		}
		if c == 0 {
			f.ge = c10f5Max(f.ge, 1)
		}
	}
	if f.eq != nil && *f.eq < f.ge {
		return f, false
	}
	return f, true
}

func c10f5Swap(r an.Rel) an.Rel {
	out := r & an.EQ
	if r&an.LT != 0 {
		out |= an.GT
	}
	if r&an.GT != 0 {
		out |= an.LT
	}
	return out
}

func c10f5RelOf(op token.Token) (an.Rel, bool) {
	switch op {
	case token.LSS:
		return an.LT, true
	case token.LEQ:
		return an.LE, true
	case token.GTR:
		return an.GT, true
	case token.GEQ:
		return an.GE, true
	case token.EQL:
		return an.EQ, true
	case token.NEQ:
		return an.NE, true
	}
	return 0, false
}

// c10f5IsDecoderSig: (io.Reader, interface{}, *[8]byte, uint64) error.
func c10f5IsDecoderSig(sig *types.Signature) bool {
	if sig == nil || sig.Params().Len() != 4 || sig.Results().Len() != 1 || sig.Variadic() {
		return false
	}
	ps := sig.Params()
	if ps.At(0).Type().String() != "io.Reader" {
		return false
	}
	if it, ok := ps.At(1).Type().Underlying().(*types.Interface); !ok || it.NumMethods() != 0 {
		return false
	}
	if ps.At(2).Type().String() != "*[8]byte" {
		return false
	}
	if b, ok := ps.At(3).Type().(*types.Basic); !ok || b.Kind() != types.Uint64 {
		return false
	}
	return an.IsErrorType(sig.Results().At(0).Type())
}

func c10f5FuncSig(f *an.Func) *types.Signature {
	if f.Obj != nil {
		s, _ := f.Obj.Type().(*types.Signature)
		return s
	}
	if f.Lit != nil {
		s, _ := f.Info().TypeOf(f.Lit).(*types.Signature)
		return s
	}
	return nil
}

// c10f5BufLen is the number of bytes io.ReadFull(r, e) takes: the static
// length of a slice of an array, or the size a local buffer was made with.
func (a *c10f5Acct) bufLen(e ast.Expr) c10f5Lin {
	if n, ok := staticSliceLen(a.fn, e); ok {
		return c10f5Const(n)
	}
	e = ast.Unparen(e)
	if se, ok := e.(*ast.SliceExpr); ok && se.Low == nil && se.High == nil && se.Max == nil {
		e = ast.Unparen(se.X)
	}
	id, ok := e.(*ast.Ident)
	if !ok {
		return c10f5Lin{}
	}
	d := a.fn.UniqueDef(id)
	if d == nil {
		return c10f5Lin{}
	}
	c, ok := ast.Unparen(d).(*ast.CallExpr)
	if !ok || an.CalleeID(a.fn.Info(), c) != "builtin.make" || len(c.Args) != 2 {
		return c10f5Lin{}
	}
	if _, isSlice := a.fn.Info().TypeOf(c).Underlying().(*types.Slice); !isSlice {
		return c10f5Lin{}
	}
	return a.lin(c.Args[1], 0)
}

// c10f5ElemWidth derives the number of bytes lnwire.ReadElement takes for a
// destination of static type t from the case clause of that type: the sum of
// the fixed-size reads the clause makes, all of them at the top level of the
// clause.  ok=false for clauses that read a run-time amount.
func c10f5ElemWidth(p *an.Prog, t types.Type, depth int) (int64, bool) {
	re := p.Func("lnwire.ReadElement")
	if depth > 3 {
		return 0, false
	}
	ps := re.Params(false)
	if len(ps) != 2 || ps[0] == nil {
		return 0, false
	}
	tl, clauses := re.TypeSwitchCases()
	info := re.Info()
	for i, cl := range clauses {
		hit := false
		for _, ct := range tl[i] {
			hit = hit || types.Identical(ct, t)
		}
		if !hit {
			continue
		}
		total, good := int64(0), true
		top := map[ast.Node]bool{}
		for _, st := range cl.Body {
			switch s := st.(type) {
			case *ast.IfStmt:
				if s.Init != nil {
					top[s.Init] = true
				}
			case *ast.AssignStmt, *ast.ExprStmt:
				top[st] = true
			}
		}
		for _, st := range cl.Body {
			ast.Inspect(st, func(n ast.Node) bool {
				switch x := n.(type) {
				case *ast.ForStmt, *ast.RangeStmt, *ast.FuncLit:
					// a loop or closure that touches the stream reads a
					// run-time amount
					ast.Inspect(x, func(m ast.Node) bool {
						if id, ok := m.(*ast.Ident); ok && info.Uses[id] == types.Object(ps[0]) {
							good = false
						}
						return good
					})
					return false
				case *ast.CallExpr:
					usesR := false
					for _, arg := range x.Args {
						if id, ok := ast.Unparen(arg).(*ast.Ident); ok && info.Uses[id] == types.Object(ps[0]) {
							usesR = true
						}
					}
					if sel, ok := x.Fun.(*ast.SelectorExpr); ok {
						if id, ok := ast.Unparen(sel.X).(*ast.Ident); ok && info.Uses[id] == types.Object(ps[0]) {
							usesR = true
						}
					}
					if !usesR {
						return true
					}
					// the read must be a statement of the clause itself
					// (or the init of one of its if statements)
					atTop := false
					for st := range top {
						if st.Pos() <= x.Pos() && x.End() <= st.End() {
							atTop = true
						}
					}
					if !atTop {
						good = false
						return false
					}
					switch id := an.CalleeID(info, x); {
					case id == "io.ReadFull" && len(x.Args) == 2:
						n, ok := staticSliceLen(re, x.Args[1])
						good = good && ok
						total += n
					case id == "lnwire.ReadElement" && len(x.Args) == 2:
						n, ok := c10f5ElemWidth(p, info.TypeOf(x.Args[1]), depth+1)
						good = good && ok
						total += n
					case id == "lnwire.ReadElements":
						for _, arg := range x.Args[1:] {
							n, ok := c10f5ElemWidth(p, info.TypeOf(arg), depth+1)
							good = good && ok
							total += n
						}
					case strings.HasSuffix(id, ".Read") && len(x.Args) == 1:
						n, ok := staticSliceLen(re, x.Args[0])
						good = good && ok && n == 1
						total += n
					default:
						good = false
					}
					return false
				}
				return true
			})
		}
		return total, good
	}
	return 0, false
}

// c10f5Read is one consumption of the stream at a vertex.
type c10f5Read struct {
	v    *flow.Vertex
	amt  c10f5Lin
	node ast.Node
	what string
}

// c10f5Loop is a counted loop whose body reads from the stream.
type c10f5Loop struct {
	stmt    *ast.ForStmt
	cond    *flow.Vertex
	count   c10f5Lin     // number of iterations
	appends types.Object // form B: the slice whose length counts
}

type c10f5Result struct {
	problems []string
	reads    int
	paths    int
	limited  bool
}

func (r *c10f5Result) bad(format string, args ...any) {
	msg := fmt.Sprintf(format, args...)
	for _, p := range r.problems {
		if p == msg {
			return
		}
	}
	r.problems = append(r.problems, msg)
}

// c10f5SuccessCapable: the return can hand nil to the caller.
func c10f5SuccessCapable(f *an.Func, s an.Site) bool {
	if f.ClassifyReturn(s) == an.RetFailure {
		return false
	}
	rs, _ := s.Node.(*ast.ReturnStmt)
	if rs != nil && len(rs.Results) == 1 {
		// a value of a concrete error type is never the nil interface
		if t := f.Info().TypeOf(rs.Results[0]); t != nil {
			if _, isIface := t.Underlying().(*types.Interface); !isIface {
				if b, isBasic := t.(*types.Basic); !isBasic || b.Kind() != types.UntypedNil {
					return false
				}
			}
		}
	}
	return true
}

func c10f5Parents(body ast.Node) map[ast.Node]ast.Node {
	parents := map[ast.Node]ast.Node{}
	var stack []ast.Node
	ast.Inspect(body, func(n ast.Node) bool {
		if n == nil {
			stack = stack[:len(stack)-1]
			return true
		}
		if len(stack) > 0 {
			parents[n] = stack[len(stack)-1]
		}
		stack = append(stack, n)
		return true
	})
	return parents
}

// c10f5Account decides whether fn consumes, on every path to a return that
// can report success, exactly as many bytes of robj as lobj says (want="l"),
// or a fixed number of bytes (want="const"; the number is returned).
func c10f5Account(p *an.Prog, fn *an.Func, robj, lobj types.Object, want string, depth int) (*c10f5Result, int64) {
	res := &c10f5Result{}
	a := &c10f5Acct{p: p, fn: fn, robj: robj, lobj: lobj}
	if lobj != nil && len(c08WritesOf(fn, lobj, false)) > 0 {
		a.lrw = true
		res.bad("the record length is overwritten: %s", c08WritesOf(fn, lobj, false)[0])
	}
	info := fn.Info()
	g := fn.Graph()
	parents := c10f5Parents(fn.Body)
	var reads []c10f5Read
	var limited []ast.Expr // N of a LimitedReader over the stream
	var limitedNode []ast.Node

	addRead := func(call *ast.CallExpr, amt c10f5Lin, what string) {
		v := g.Containing(call, false)
		if v == nil {
			res.bad("%s: %s sits in a closure; its place in the control flow is unknown", fn.Where(call.Pos()), an.Text(call))
			return
		}
		if !amt.ok {
			res.bad("%s: cannot tell how many bytes %s takes from the stream (%s)", fn.Where(call.Pos()), an.Text(call), what)
			return
		}
		reads = append(reads, c10f5Read{v: v, amt: amt, node: call, what: what})
	}

	if robj != nil {
		ast.Inspect(fn.Body, func(n ast.Node) bool {
			id, ok := n.(*ast.Ident)
			if !ok || info.Uses[id] != robj {
				return true
			}
			par := parents[id]
			for {
				if pe, ok := par.(*ast.ParenExpr); ok {
					par = parents[pe]
					continue
				}
				break
			}
			switch x := par.(type) {
			case *ast.CallExpr:
				argIdx := -1
				for i, arg := range x.Args {
					if ast.Unparen(arg) == ast.Expr(id) {
						argIdx = i
					}
				}
				if argIdx < 0 {
					res.bad("%s: the stream is called as a function: %s", fn.Where(x.Pos()), an.Text(x))
					return true
				}
				callee := an.Callee(info, x)
				cid := an.CalleeID(info, x)
				var sig *types.Signature
				if callee != nil {
					sig, _ = callee.Type().(*types.Signature)
				} else if t := info.TypeOf(x.Fun); t != nil {
					sig, _ = t.Underlying().(*types.Signature)
				}
				switch {
				case cid == "io.ReadFull" && argIdx == 0 && len(x.Args) == 2:
					addRead(x, a.bufLen(x.Args[1]), "the length of the buffer is not static and not made from the record length")
				case cid == "lnwire.ReadElement" && argIdx == 0 && len(x.Args) == 2:
					n, ok := c10f5ElemWidth(p, info.TypeOf(x.Args[1]), 0)
					amt := c10f5Const(n)
					amt.ok = ok
					addRead(x, amt, "ReadElement reads a run-time amount for a "+types.TypeString(info.TypeOf(x.Args[1]), nil))
				case cid == "lnwire.ReadElements" && argIdx == 0:
					amt := c10f5Const(0)
					for _, arg := range x.Args[1:] {
						n, ok := c10f5ElemWidth(p, info.TypeOf(arg), 0)
						amt.k += n
						amt.ok = amt.ok && ok
					}
					addRead(x, amt, "ReadElements reads a run-time amount for one of its destinations")
				case argIdx == 0 && c10f5IsDecoderSig(sig):
					// a primitive decoder of package tlv (see
					// primitive-decoders-check-length) or a decoder of
					// lnwire (checked by this rule) takes what its
					// length argument says
					addRead(x, a.lin(x.Args[3], 0), "the length handed on is neither the record length nor a constant")
				case cid == "io.LimitReader" && argIdx == 0 && len(x.Args) == 2:
					limited = append(limited, x.Args[1])
					limitedNode = append(limitedNode, x)
				default:
					h := p.FuncOf(callee)
					if h == nil || depth > 2 {
						res.bad("%s: the stream is handed to %s, whose consumption is unknown", fn.Where(x.Pos()), cid)
						return true
					}
					addRead(x, c10f5Helper(p, a, h, x, argIdx, depth), "the helper "+h.ID+" does not read a fixed amount or exactly one of its arguments")
				}
			case *ast.SelectorExpr:
				call, isCall := parents[x].(*ast.CallExpr)
				if !isCall || x.Sel.Name != "Read" || ast.Unparen(x.X) != ast.Expr(id) || len(call.Args) != 1 {
					res.bad("%s: unrecognised use of the stream: %s", fn.Where(x.Pos()), an.Text(parents[x]))
					return true
				}
				amt := a.bufLen(call.Args[0])
				if !amt.ok || amt.a != 0 || amt.k != 1 {
					res.bad("%s: %s may deliver fewer bytes than the buffer holds without an error: a value cut short is accepted", fn.Where(call.Pos()), an.Text(call))
					amt = c10f5Lin{}
				}
				if amt.ok {
					addRead(call, amt, "")
				}
			case *ast.KeyValueExpr:
				lit, _ := parents[x].(*ast.CompositeLit)
				if lit == nil || an.TypeID(info.TypeOf(lit)) != "io.LimitedReader" || an.Text(x.Key) != "R" {
					res.bad("%s: unrecognised use of the stream: %s", fn.Where(x.Pos()), an.Text(parents[x]))
					return true
				}
				var nExpr ast.Expr
				for _, el := range lit.Elts {
					if kv, ok := el.(*ast.KeyValueExpr); ok && an.Text(kv.Key) == "N" {
						nExpr = kv.Value
					}
				}
				limited = append(limited, nExpr)
				limitedNode = append(limitedNode, lit)
			default:
				res.bad("%s: unrecognised use of the stream: %s", fn.Where(id.Pos()), an.Text(par))
			}
			return true
		})
	}
	res.reads = len(reads) + len(limited)

	// the stream wrapped into a reader limited to l bytes: everything is read
	// through the wrapper, and success needs the limit to be used up
	if len(limited) > 0 {
		res.limited = true
		if len(limited) != 1 || len(reads) > 0 {
			res.bad("%s: the stream is read both through a length-limited reader and directly", fn.Where(limitedNode[0].Pos()))
			return res, 0
		}
		n := c10f5Lin{}
		if limited[0] != nil {
			n = a.lin(limited[0], 0)
		}
		if want != "l" || !n.ok || n.a != 1 || n.k != 0 || n.div != 1 {
			res.bad("%s: the limit of the reader wrapped around the stream is %s, expected the record length", fn.Where(limitedNode[0].Pos()), n)
			return res, 0
		}
		used := an.Cmp(canonTerm(`LimitedReader\{.*\}\.N$|^io\.LimitReader\(.*\)\.\(\*io\.LimitedReader\)\.N$`), an.LE, an.IntConst(0), "limit used up")
		for _, rt := range fn.Returns() {
			if !c10f5SuccessCapable(fn, rt) {
				continue
			}
			res.paths++
			if ok, _ := fn.Guarded(rt, used); !ok {
				res.bad("%s: %s can report success while bytes of the record are left unread (no comparison of the remaining limit N with 0 dominates it)", rt.Where(), rt.String())
			}
		}
		return res, 0
	}

	// loops that read
	readsAt := map[*flow.Vertex][]c10f5Read{}
	for _, rd := range reads {
		readsAt[rd.v] = append(readsAt[rd.v], rd)
	}
	loops := map[*flow.Vertex]*c10f5Loop{}
	inLoop := map[*flow.Vertex]*c10f5Loop{}
	ast.Inspect(fn.Body, func(n ast.Node) bool {
		if _, isLit := n.(*ast.FuncLit); isLit {
			return false
		}
		var body *ast.BlockStmt
		switch x := n.(type) {
		case *ast.ForStmt:
			body = x.Body
		case *ast.RangeStmt:
			body = x.Body
		default:
			return true
		}
		var inside []c10f5Read
		for _, rd := range reads {
			if body.Pos() <= rd.node.Pos() && rd.node.End() <= body.End() {
				inside = append(inside, rd)
			}
		}
		if len(inside) == 0 {
			return true
		}
		fs, isFor := n.(*ast.ForStmt)
		if !isFor {
			res.bad("%s: the stream is read inside a range loop: the number of reads is not tied to the record length", fn.Where(n.Pos()))
			return false
		}
		lp := a.loopOf(fs, res)
		if lp == nil {
			return false
		}
		for _, rd := range inside {
			if inLoop[rd.v] != nil {
				res.bad("%s: the stream is read in nested loops", fn.Where(rd.node.Pos()))
			}
			inLoop[rd.v] = lp
		}
		loops[lp.cond] = lp
		return true
	})
	if len(res.problems) > 0 {
		return res, 0
	}

	// per-iteration consumption of each reading loop
	perIter := map[*c10f5Loop]int64{}
	for _, lp := range loops {
		n, ok := a.iteration(lp, readsAt, res)
		if !ok {
			continue
		}
		perIter[lp] = n
		if lp.count.div != n {
			res.bad("%s: every pass of the loop takes %d bytes from the stream but the number of passes is %s: the loop does not consume the bytes the count was computed from", fn.Where(lp.stmt.Pos()), n, lp.count)
		}
	}
	if len(res.problems) > 0 {
		return res, 0
	}

	// all paths to a return that can report success
	type total struct{ k, a, need int64 }
	var constTotal *int64
	var walk func(v *flow.Vertex, t total, f c10f5Facts, onPath map[*flow.Vertex]bool)
	walk = func(v *flow.Vertex, t total, f c10f5Facts, onPath map[*flow.Vertex]bool) {
		if res.paths > 20000 || onPath[v] {
			return
		}
		onPath[v] = true
		defer delete(onPath, v)
		for _, rd := range readsAt[v] {
			if inLoop[v] != nil {
				continue
			}
			t.k += rd.amt.k
			t.a += rd.amt.a
			t.need = c10f5Max(t.need, rd.amt.need)
			if rd.amt.div != 1 {
				res.bad("%s: %s takes %s bytes", fn.Where(rd.node.Pos()), an.Text(rd.node), rd.amt)
			}
		}
		if lp := loops[v]; lp != nil {
			if !f.hasMod(lp.count.k, lp.count.div) {
				res.bad("%s: the loop makes %s passes of %d bytes each, but nothing on the way to it shows that %d divides %s: the bytes that are left over are never read (facts on this path: %s)", fn.Where(lp.stmt.Pos()), lp.count, lp.count.div, lp.count.div, c10f5Lin{ok: true, a: lp.count.a, k: lp.count.k, div: 1}, f)
			}
			t.k += lp.count.k
			t.a += lp.count.a
			t.need = c10f5Max(t.need, lp.count.need)
			for _, e := range v.Out {
				if e.Kind == flow.EFalse {
					nf, feasible := a.along(e, f)
					if feasible {
						walk(e.To, t, nf, onPath)
					}
				}
			}
			return
		}
		if v.Kind == flow.KReturn {
			site := an.Site{Fn: fn, V: v, Node: v.Node}
			if !c10f5SuccessCapable(fn, site) {
				return
			}
			res.paths++
			switch {
			case want == "l" && t.a == 1 && t.k == 0:
				if t.need > f.atLeast() {
					res.bad("%s: on a path to %s the bytes read add up to l only if l >= %d, which nothing on the path shows (known: %s): a shorter record makes the subtraction wrap around", site.Where(), site.String(), t.need, f)
				}
			case want == "l" && t.a == 0 && f.eq != nil && *f.eq == t.k:
			case want == "l":
				res.bad("%s: on a path to %s the decoder takes %s bytes from the stream while all that is known about the record length l there is: %s", site.Where(), site.String(), c10f5Lin{ok: true, a: t.a, k: t.k, div: 1}, f)
			case want == "const":
				if t.a != 0 {
					res.bad("%s: not a fixed amount", site.Where())
				} else if constTotal == nil {
					k := t.k
					constTotal = &k
				} else if *constTotal != t.k {
					res.bad("%s: different success paths take %d and %d bytes", site.Where(), *constTotal, t.k)
				}
			}
			return
		}
		for _, e := range v.Out {
			nf, feasible := a.along(e, f)
			if feasible {
				walk(e.To, t, nf, onPath)
			}
		}
	}
	walk(g.Entry, total{}, c10f5Facts{}, map[*flow.Vertex]bool{})
	if res.paths > 20000 {
		res.bad("%s: too many paths to account for", fn.Where(fn.Body.Pos()))
	}
	if constTotal != nil {
		return res, *constTotal
	}
	return res, 0
}

// c10f5Helper: the bytes a helper that is handed the stream takes: one of its
// arguments (when the helper, analysed with that parameter as the length,
// reads exactly that many), or a fixed number.
func c10f5Helper(p *an.Prog, a *c10f5Acct, h *an.Func, call *ast.CallExpr, argIdx int, depth int) c10f5Lin {
	hps := h.Params(false)
	if len(hps) != len(call.Args) {
		return c10f5Lin{} // variadic or method expression
	}
	if hps[argIdx] == nil {
		return c10f5Const(0)
	}
	hr := types.Object(hps[argIdx])
	for j, arg := range call.Args {
		if j == argIdx || hps[j] == nil {
			continue
		}
		amt := a.lin(arg, 0)
		if !amt.ok || amt.a == 0 {
			continue
		}
		if b, ok := hps[j].Type().Underlying().(*types.Basic); !ok || b.Info()&types.IsInteger == 0 {
			continue
		}
		if r, _ := c10f5Account(p, h, hr, types.Object(hps[j]), "l", depth+1); len(r.problems) == 0 && r.paths > 0 {
			return amt
		}
	}
	if r, k := c10f5Account(p, h, hr, nil, "const", depth+1); len(r.problems) == 0 && r.paths > 0 {
		return c10f5Const(k)
	}
	return c10f5Lin{}
}

// loopOf recognises the two counted forms
//
//	for i := 0; i < n; i++ { ... }          (i is not written in the body)
//	for len(xs) < n { ...; xs = append(xs, one) }   (xs starts empty)
func (a *c10f5Acct) loopOf(fs *ast.ForStmt, res *c10f5Result) *c10f5Loop {
	fn, info := a.fn, a.fn.Info()
	fail := func(why string) *c10f5Loop {
		res.bad("%s: the stream is read in a loop whose number of passes cannot be tied to the record length: %s", fn.Where(fs.Pos()), why)
		return nil
	}
	cond, ok := ast.Unparen(fs.Cond).(*ast.BinaryExpr)
	if fs.Cond == nil || !ok || cond.Op != token.LSS {
		return fail("its condition is not of the form counter < count")
	}
	cv := fn.Graph().VertexOf(fs.Cond)
	if cv == nil {
		cv = fn.Graph().VertexOf(cond)
	}
	if cv == nil || cv.Kind != flow.KCond {
		return fail("its condition is not a single comparison")
	}
	lp := &c10f5Loop{stmt: fs, cond: cv}
	lp.count = a.lin(cond.Y, 0)
	if !lp.count.ok || lp.count.a != 1 {
		return fail("the count " + an.Text(cond.Y) + " is not the record length (less a constant) divided by a constant")
	}
	switch x := ast.Unparen(cond.X).(type) {
	case *ast.Ident:
		iobj := c08ObjOf(info, x)
		init, ok := fs.Init.(*ast.AssignStmt)
		if !ok || len(init.Lhs) != 1 || len(init.Rhs) != 1 || init.Tok != token.DEFINE {
			return fail("the counter is not initialised in the loop header")
		}
		if li, ok := init.Lhs[0].(*ast.Ident); !ok || info.Defs[li] != iobj {
			return fail("the loop header initialises another variable")
		}
		if v, ok := c10f5ConstOf(info, ast.Unparen(init.Rhs[0])); !ok || v != 0 {
			if v2, ok2 := c10f5ConstOf(info, an.Strip(info, init.Rhs[0])); !ok2 || v2 != 0 {
				return fail("the counter does not start at 0")
			}
		}
		post, ok := fs.Post.(*ast.IncDecStmt)
		if !ok || post.Tok != token.INC {
			return fail("the counter is not advanced by ++")
		}
		if pi, ok := ast.Unparen(post.X).(*ast.Ident); !ok || info.Uses[pi] != iobj {
			return fail("the post statement advances another variable")
		}
		if ws := c08WritesOf(fn, iobj, false); len(ws) != 1 {
			return fail("the counter is written in the body as well")
		}
	case *ast.CallExpr:
		if an.CalleeID(info, x) != "builtin.len" || len(x.Args) != 1 || fs.Init != nil || fs.Post != nil {
			return fail("its condition is not of the form counter < count")
		}
		id, ok := ast.Unparen(x.Args[0]).(*ast.Ident)
		if !ok {
			return fail("the length compared is not that of a local slice")
		}
		xs := c08ObjOf(info, id)
		lp.appends = xs
		// xs starts empty and only grows by one element per append inside
		// this loop
		startsEmpty, bad := false, ""
		ast.Inspect(fn.Root().Body, func(n ast.Node) bool {
			switch s := n.(type) {
			case *ast.ValueSpec:
				for i, nm := range s.Names {
					if info.Defs[nm] != xs {
						continue
					}
					if len(s.Values) == 0 {
						startsEmpty = true
					} else if i < len(s.Values) {
						if c, ok := ast.Unparen(s.Values[i]).(*ast.CallExpr); ok && an.CalleeID(info, c) == "builtin.make" && len(c.Args) >= 2 {
							if v, ok := c10f5ConstOf(info, c.Args[1]); ok && v == 0 {
								startsEmpty = true
							}
						}
					}
				}
			case *ast.AssignStmt:
				for i, l := range s.Lhs {
					li, ok := ast.Unparen(l).(*ast.Ident)
					if !ok || c08ObjOf(info, li) != xs {
						continue
					}
					if s.Tok == token.DEFINE && i < len(s.Rhs) {
						if c, ok := ast.Unparen(s.Rhs[i]).(*ast.CallExpr); ok && an.CalleeID(info, c) == "builtin.make" && len(c.Args) >= 2 {
							if v, ok := c10f5ConstOf(info, c.Args[1]); ok && v == 0 {
								startsEmpty = true
								continue
							}
						}
					}
					if c10f5IsAppendOne(info, s, xs) && fs.Body.Pos() <= s.Pos() && s.End() <= fs.Body.End() {
						continue
					}
					bad = an.Text(s)
				}
			}
			return true
		})
		if !startsEmpty || bad != "" {
			return fail("the slice whose length counts the passes does not start empty or is written otherwise (" + bad + ")")
		}
	default:
		return fail("its condition is not of the form counter < count")
	}
	if ws := c10f5WritesOfExpr(fn, cond.Y); ws != "" {
		return fail("the count is overwritten: " + ws)
	}
	return lp
}

// c10f5WritesOfExpr: a local named by e is assigned more than once.
func c10f5WritesOfExpr(fn *an.Func, e ast.Expr) string {
	id, ok := an.Strip(fn.Info(), e).(*ast.Ident)
	if !ok {
		return ""
	}
	if _, isConst := fn.Info().Uses[id].(*types.Const); isConst {
		return ""
	}
	if fn.UniqueDef(id) == nil {
		return an.Text(id) + " has no unique definition"
	}
	return ""
}

func c10f5IsAppendOne(info *types.Info, s *ast.AssignStmt, xs types.Object) bool {
	if s.Tok != token.ASSIGN || len(s.Lhs) != 1 || len(s.Rhs) != 1 {
		return false
	}
	c, ok := ast.Unparen(s.Rhs[0]).(*ast.CallExpr)
	if !ok || an.CalleeID(info, c) != "builtin.append" || len(c.Args) != 2 || c.Ellipsis.IsValid() {
		return false
	}
	id, ok := ast.Unparen(c.Args[0]).(*ast.Ident)
	return ok && info.Uses[id] == xs
}

// iteration adds up what one pass of the loop body takes from the stream;
// every way through the body back to the loop condition must take the same
// fixed amount (and, form B, append exactly once), and none may leave the
// loop or return success.
func (a *c10f5Acct) iteration(lp *c10f5Loop, readsAt map[*flow.Vertex][]c10f5Read, res *c10f5Result) (int64, bool) {
	fn, info := a.fn, a.fn.Info()
	var amount *int64
	ok := true
	n := 0
	var walk func(v *flow.Vertex, t int64, apps int, onPath map[*flow.Vertex]bool)
	walk = func(v *flow.Vertex, t int64, apps int, onPath map[*flow.Vertex]bool) {
		n++
		if n > 20000 || !ok {
			return
		}
		if v == lp.cond {
			if lp.appends != nil && apps != 1 {
				res.bad("%s: a pass of the loop appends %d elements to the slice whose length counts the passes", fn.Where(lp.stmt.Pos()), apps)
				ok = false
			}
			if amount == nil {
				k := t
				amount = &k
			} else if *amount != t {
				res.bad("%s: passes of the loop take different amounts from the stream (%d and %d bytes)", fn.Where(lp.stmt.Pos()), *amount, t)
				ok = false
			}
			return
		}
		if onPath[v] {
			return
		}
		if v.Kind == flow.KReturn {
			if c10f5SuccessCapable(fn, an.Site{Fn: fn, V: v, Node: v.Node}) {
				res.bad("%s: success is reported from inside the loop that reads the entries, before the count is used up", fn.Where(lp.stmt.Pos()))
				ok = false
			}
			return
		}
		if v.Node != nil && (v.Node.Pos() < lp.stmt.Pos() || v.Node.End() > lp.stmt.End()) {
			res.bad("%s: the loop that reads the entries can be left early (%s)", fn.Where(lp.stmt.Pos()), fn.Where(v.Node.Pos()))
			ok = false
			return
		}
		onPath[v] = true
		defer delete(onPath, v)
		for _, rd := range readsAt[v] {
			if rd.amt.a != 0 || rd.amt.div != 1 {
				res.bad("%s: a read inside the loop takes %s bytes, not a fixed amount", fn.Where(rd.node.Pos()), rd.amt)
				ok = false
				return
			}
			t += rd.amt.k
		}
		if as, isAs := v.Node.(*ast.AssignStmt); isAs && lp.appends != nil && c10f5IsAppendOne(info, as, lp.appends) {
			apps++
		}
		for _, e := range v.Out {
			walk(e.To, t, apps, onPath)
		}
	}
	for _, e := range lp.cond.Out {
		if e.Kind == flow.ETrue {
			walk(e.To, 0, 0, map[*flow.Vertex]bool{})
		}
	}
	if amount == nil {
		if ok {
			res.bad("%s: no pass of the loop gets back to its condition", fn.Where(lp.stmt.Pos()))
		}
		return 0, false
	}
	return *amount, ok
}

// c10f5Records: the decoders of lnwire's own TLV record types.
func c10f5Records(r *an.Run) {
	p := r.Prog
	r.Obl("record-decoders-consume-exactly-their-length", "BOUND",
		"every function (or function literal) of package lnwire with the tlv.Decoder signature (r, val, buf, l) takes, on every path to a return that can report success, exactly l bytes from r: the bytes of its reads (io.ReadFull into an array slice or into a buffer made with a size computed from l; ReadElement(s), whose widths are derived from ReadElement's case clauses; a decoder of tlv or lnwire that is handed l or a constant as its length; a helper that provably reads one of its arguments or a fixed amount) add up to l itself, or to a constant C on a path that passed l == C; a loop that reads makes (l - c) / d passes (counter from 0 with ++, or the length of a slice that starts empty and grows by one append per pass), every pass takes exactly d bytes, cannot leave the loop or report success, and (l - c) % d == 0 was checked before; a subtraction l - c needs l >= c on the path, or the divisibility check with d a power of two greater than c (then the wrapped difference cannot pass it); alternatively the stream is wrapped once into a reader limited to l bytes and every success return is dominated by a comparison showing the remaining limit to be 0. Any other use of r (r.Read into more than one byte, handing it to unknown code, a read of a run-time amount not derived from l) is reported",
		"tlv.Stream.decode hands the record decoder the unlimited stream: a decoder that reads 3 bytes of a record announcing 5 (or reads nothing of a record announcing 1) is accepted and the remaining bytes are parsed as the next record's type, so the same bytes decode to a different message than the one encoded, or a malformed stream is accepted although decode-then-encode does not reproduce it", 25,
		func(o *an.Obl) {
			n := 0
			for _, fn := range p.Funcs(false, "lnwire") {
				sig := c10f5FuncSig(fn)
				if !c10f5IsDecoderSig(sig) {
					continue
				}
				n++
				ps := fn.Params(false)
				var robj, lobj types.Object
				if ps[0] != nil {
					robj = ps[0]
				}
				if ps[3] != nil {
					lobj = ps[3]
				}
				res, _ := c10f5Account(p, fn, robj, lobj, "l", 0)
				shape := "reads"
				if res.limited {
					shape = "limited reader"
				}
				o.Site("%s: %d stream uses, %d success paths (%s)", fn.ID, res.reads, res.paths, shape)
				if lobj == nil && res.reads > 0 {
					o.FailAt(fn.ID+"#length-ignored", fn.Where(fn.Body.Pos()), "%s reads from the stream but does not even name its length parameter", fn.ID)
				}
				if res.paths == 0 && len(res.problems) == 0 {
					o.FailAt(fn.ID+"#no-success-path", fn.Where(fn.Body.Pos()), "%s has no return that can report success", fn.ID)
				}
				for i, pr := range res.problems {
					o.FailAt(fmt.Sprintf("%s#length-accounting-%d", fn.ID, i), fn.Where(fn.Body.Pos()), "%s: %s", fn.ID, pr)
				}
			}
			if n < 25 {
				o.FailAt("lnwire#record-decoders", "", "expected at least 25 functions with the tlv.Decoder signature in lnwire, found %d", n)
			}
		})

	r.Obl("decoders-assign-their-target-on-every-success-path", "PATH",
		"in lnwire.ReadElement every case clause for a pointer type writes the destination on every way out of the clause that is not an error return (an assignment to *e or to a part of it, or a call that is handed e, a part of it or its address: io.ReadFull(r, e[:]), ReadElements(r, &e.R, ...), e.Decode(r)); likewise every function with the tlv.Decoder signature in lnwire and tlv writes the value it asserted val to be (`v, ok := val.(*T)`) on every path from the successful assertion to a return that can report success, unless T is an empty struct or the path passed a test of the destination itself that found it empty (len(v.X) == 0: the empty value is there already)",
		"a decoder that assigns only one of the two outcomes (`if b[0] == 1 { *e = true }`) makes the decoded value depend on what the destination held before: decoding into a reused message, or ReadElements into a field that was set, yields a value that is not a function of the bytes, so decode(encode(m)) != m for a target that held true and a wire value of false", 40,
		func(o *an.Obl) {
			re := p.Func("lnwire.ReadElement")
			g := re.Graph()
			info := re.Info()
			var sw *ast.TypeSwitchStmt
			ast.Inspect(re.Body, func(n ast.Node) bool {
				if x, ok := n.(*ast.TypeSwitchStmt); ok && sw == nil {
					sw = x
				}
				return sw == nil
			})
			if sw == nil {
				o.FailAt(re.ID+"#no-type-switch", re.Where(re.Body.Pos()), "ReadElement has no type switch")
				return
			}
			// the variable bound by the switch: one object per clause
			nClauses := 0
			for _, st := range sw.Body.List {
				cl := st.(*ast.CaseClause)
				if len(cl.List) != 1 {
					continue
				}
				t := info.TypeOf(cl.List[0])
				if _, isPtr := t.(*types.Pointer); !isPtr {
					continue
				}
				eobj := info.Implicits[cl]
				if eobj == nil {
					continue
				}
				nClauses++
				writes := c10f5TargetWrites(re, cl.Body, eobj)
				o.Site("ReadElement %s: %d writes of the destination", types.TypeString(t, func(p *types.Package) string { return p.Name() }), len(writes))
				var cv *flow.Vertex
				for _, v := range g.V {
					if v.Kind == flow.KTypeCase && v.Node == ast.Node(cl) {
						cv = v
					}
				}
				if cv == nil {
					o.FailAt(re.ID+"#clause-vertex:"+an.Text(cl.List[0]), re.Where(cl.Pos()), "cannot find the clause in the flow graph")
					continue
				}
				stop := map[*flow.Vertex]bool{}
				for _, w := range writes {
					stop[w] = true
				}
				for _, e := range cv.Out {
					if e.Kind != flow.ETrue {
						continue
					}
					if stop[e.To] {
						continue
					}
					for v := range g.Reach(e.To, nil, stop) {
						if stop[v] {
							continue
						}
						leaves := false
						switch {
						case v.Kind == flow.KReturn:
							leaves = c10f5SuccessCapable(re, an.Site{Fn: re, V: v, Node: v.Node})
						case v.Node != nil && (v.Node.Pos() >= cl.End() || v.Node.Pos() < cl.Pos()):
							leaves = true
						}
						if leaves {
							o.FailAt(re.ID+"#destination-not-written:"+an.Text(cl.List[0]), re.Where(cl.Pos()), "the clause for %s can be left without an error on a path that never writes the destination: the value decoded then depends on what the destination held before", an.Text(cl.List[0]))
							break
						}
					}
				}
			}
			if nClauses < 25 {
				o.FailAt(re.ID+"#pointer-clauses", re.Where(sw.Pos()), "expected at least 25 pointer clauses in ReadElement, found %d", nClauses)
			}
			// TLV decoders
			nDec := 0
			for _, fn := range p.Funcs(false, "lnwire", "tlv") {
				if !c10f5IsDecoderSig(c10f5FuncSig(fn)) {
					continue
				}
				ps := fn.Params(false)
				if ps[1] == nil {
					continue
				}
				finfo := fn.Info()
				// targets: variables defined by a type assertion of val
				type target struct {
					obj, ok types.Object
					typ     types.Type
					def     ast.Node
				}
				var targets []target
				emptyTarget := false
				ast.Inspect(fn.Body, func(n ast.Node) bool {
					if _, isLit := n.(*ast.FuncLit); isLit {
						return false
					}
					as, ok := n.(*ast.AssignStmt)
					if !ok || as.Tok != token.DEFINE || len(as.Rhs) != 1 || len(as.Lhs) == 0 {
						return true
					}
					ta, ok := ast.Unparen(as.Rhs[0]).(*ast.TypeAssertExpr)
					if !ok || ta.Type == nil {
						return true
					}
					if id, ok := ast.Unparen(ta.X).(*ast.Ident); !ok || finfo.Uses[id] != types.Object(ps[1]) {
						return true
					}
					if pt, ok := finfo.TypeOf(ta.Type).(*types.Pointer); ok {
						if st, ok := pt.Elem().Underlying().(*types.Struct); ok && st.NumFields() == 0 {
							emptyTarget = true // nothing to write
						}
					}
					if id, ok := as.Lhs[0].(*ast.Ident); ok && id.Name != "_" {
						if obj := finfo.Defs[id]; obj != nil {
							t := target{obj: obj, typ: finfo.TypeOf(ta.Type), def: as}
							if len(as.Lhs) == 2 {
								if okID, isID := as.Lhs[1].(*ast.Ident); isID {
									t.ok = finfo.Defs[okID]
								}
							}
							targets = append(targets, t)
						}
					}
					return true
				})
				if len(targets) == 0 {
					// a switch over the type of val, or an unnamed target
					if emptyTarget {
						continue
					}
					hasSwitch := false
					ast.Inspect(fn.Body, func(n ast.Node) bool {
						if _, ok := n.(*ast.TypeSwitchStmt); ok {
							hasSwitch = true
						}
						return !hasSwitch
					})
					if !hasSwitch {
						o.FailAt(fn.ID+"#no-target", fn.Where(fn.Body.Pos()), "%s never binds the value it decodes into (no `v, ok := val.(*T)`)", fn.ID)
					}
					continue
				}
				nDec++
				fg := fn.Graph()
				for _, tg := range targets {
					tobj := tg.obj
					if pt, ok := tg.typ.(*types.Pointer); ok {
						if st, ok := pt.Elem().Underlying().(*types.Struct); ok && st.NumFields() == 0 {
							continue
						}
					}
					writes := c10f5TargetWrites(fn, fn.Body.List, tobj)
					o.Site("%s: target %s, %d writes", fn.ID, tobj.Name(), len(writes))
					stop := map[*flow.Vertex]bool{}
					for _, w := range writes {
						stop[w] = true
					}
					// the paths on which the assertion held
					var starts []*flow.Vertex
					if tg.ok != nil {
						for _, v := range fg.V {
							if v.Kind != flow.KCond {
								continue
							}
							if id, isID := ast.Unparen(v.Node.(ast.Expr)).(*ast.Ident); isID && finfo.Uses[id] == tg.ok {
								for _, e := range v.Out {
									if e.Kind == flow.ETrue {
										starts = append(starts, e.To)
									}
								}
							}
						}
					}
					if len(starts) == 0 {
						if v := fg.Containing(tg.def, false); v != nil {
							starts = append(starts, v)
						}
					}
					// a test of the destination itself that finds it empty
					// already stands for the write of the empty value
					empty := fn.EdgesOf(an.Cmp(an.Len(func(f *an.Func, e ast.Expr) bool {
						id := c08RootIdent(ast.Unparen(e))
						return id != nil && f.Info().Uses[id] == tobj
					}), an.LE, an.IntConst(0), "destination empty"))
					reach := map[*flow.Vertex]bool{}
					for _, st := range starts {
						if stop[st] {
							continue
						}
						for v := range fg.Reach(st, empty, stop) {
							reach[v] = true
						}
					}
					for _, rt := range fn.Returns() {
						if stop[rt.V] || !reach[rt.V] || !c10f5SuccessCapable(fn, rt) {
							continue
						}
						o.FailAt(fn.ID+"#target-not-written:"+tobj.Name(), rt.Where(), "%s can report success at %s on a path that never writes the value it decodes into: the result depends on what the destination held before", fn.ID, rt.String())
					}
				}
			}
			if nDec < 30 {
				o.FailAt("decoders#targets", "", "expected at least 30 TLV decoders with a bound target in lnwire and tlv, found %d", nDec)
			}
		})
}

// c10f5TargetWrites lists the vertices at which the pointee of the variable
// obj is written: an assignment whose left side is rooted in obj (*e = ...,
// e.X = ..., e[i] = ...), or a call handed obj, a part of it, its address, or
// called on it.
func c10f5TargetWrites(fn *an.Func, stmts []ast.Stmt, obj types.Object) []*flow.Vertex {
	info := fn.Info()
	g := fn.Graph()
	seen := map[*flow.Vertex]bool{}
	var out []*flow.Vertex
	add := func(n ast.Node) {
		if v := g.Containing(n, false); v != nil && !seen[v] {
			seen[v] = true
			out = append(out, v)
		}
	}
	rooted := func(e ast.Expr) bool {
		for {
			switch x := ast.Unparen(e).(type) {
			case *ast.UnaryExpr:
				if x.Op != token.AND {
					return false
				}
				e = x.X
				continue
			case *ast.CallExpr:
				// a conversion such as (*uint16)(e)
				if tv, ok := info.Types[x.Fun]; ok && tv.IsType() && len(x.Args) == 1 {
					e = x.Args[0]
					continue
				}
				return false
			case *ast.Ident:
				return info.Uses[x] == obj
			default:
				id := c08RootIdent(ast.Unparen(e))
				return id != nil && info.Uses[id] == obj
			}
		}
	}
	for _, st := range stmts {
		ast.Inspect(st, func(n ast.Node) bool {
			switch x := n.(type) {
			case *ast.FuncLit:
				return false
			case *ast.AssignStmt:
				for _, l := range x.Lhs {
					if _, isIdent := ast.Unparen(l).(*ast.Ident); isIdent {
						continue // rebinding the variable does not write the pointee
					}
					if rooted(l) {
						add(x)
					}
				}
			case *ast.CallExpr:
				if tv, ok := info.Types[x.Fun]; ok && tv.IsType() {
					return true
				}
				if id := an.CalleeID(info, x); strings.HasPrefix(id, "builtin.") || strings.HasPrefix(id, "fmt.") || strings.Contains(id, "NewTypeFor") {
					return true
				}
				for _, arg := range x.Args {
					if _, isDeref := ast.Unparen(arg).(*ast.StarExpr); isDeref {
						continue // handed over by value
					}
					if rooted(arg) {
						add(x)
					}
				}
				if sel, ok := x.Fun.(*ast.SelectorExpr); ok && rooted(sel.X) {
					add(x)
				}
			}
			return true
		})
	}
	sort.Slice(out, func(i, j int) bool { return out[i].ID < out[j].ID })
	return out
}

// c10f5ByteLen is the static length of a byte slice expression: a slice of an
// array, or a local made with a constant length.
func c10f5ByteLen(fn *an.Func, e ast.Expr) (int64, bool) {
	a := &c10f5Acct{fn: fn}
	l := a.bufLen(e)
	if l.ok && l.a == 0 && l.div == 1 {
		return l.k, true
	}
	return 0, false
}

func c10f5SiteOf(fn *an.Func, n ast.Node) an.Site {
	return an.Site{Fn: fn, V: fn.Graph().Containing(n, false), Node: n}
}

// c10f5Streams: reads that may come back short, length prefixes narrower than
// the length they carry, and the two families of variable-length integers.
func c10f5Streams(r *an.Run) {
	p := r.Prog

	r.Obl("stream-reads-are-never-partial", "GUARD",
		"in the non-test code of lnwire and tlv no value of more than one byte is read with a bare Read call (a method Read([]byte) (int, error) on any reader): such reads go through io.ReadFull. A Read is accepted only where it cannot come back short: into a buffer of static length 1, or on a *bufio.Reader below a successful Peek of at least as many bytes on the same reader",
		"io.Reader.Read may deliver fewer bytes than the buffer holds and report no error: a list record cut off inside its last entry was accepted, the missing bytes zero or left over from the previous entry, so a malformed stream decodes to a value whose re-encoding differs from the input", 8,
		func(o *an.Obl) {
			n := 0
			for _, fn := range p.Funcs(false, "lnwire", "tlv") {
				info := fn.Info()
				ast.Inspect(fn.Body, func(x ast.Node) bool {
					if _, isLit := x.(*ast.FuncLit); isLit {
						return false // literals are functions of their own in p.Funcs
					}
					call, ok := x.(*ast.CallExpr)
					if !ok || len(call.Args) != 1 {
						return true
					}
					sel, ok := call.Fun.(*ast.SelectorExpr)
					if !ok || sel.Sel.Name != "Read" {
						return true
					}
					sig, _ := info.TypeOf(call.Fun).(*types.Signature)
					if sig == nil || sig.Params().Len() != 1 || sig.Results().Len() != 2 || sig.Params().At(0).Type().String() != "[]byte" {
						return true
					}
					n++
					site := c10f5SiteOf(fn, call)
					size, known := c10f5ByteLen(fn, call.Args[0])
					o.Site("%s reads %d bytes (static=%v)", site.String(), size, known)
					if known && size == 1 {
						return true
					}
					// a buffered reader that was shown to hold the bytes
					if an.TypeID(info.TypeOf(sel.X)) == "bufio.Reader" && known {
						var peeks []an.Site
						for _, pk := range fn.Calls(an.CalleeNamed("Peek"), false) {
							pc := pk.Node.(*ast.CallExpr)
							ps, ok := pc.Fun.(*ast.SelectorExpr)
							if !ok || len(pc.Args) != 1 || fn.Canon(ps.X) != fn.Canon(sel.X) {
								continue
							}
							if v, ok := c10f5ConstOf(info, pc.Args[0]); ok && v >= size {
								peeks = append(peeks, pk)
							}
						}
						if len(peeks) > 0 {
							mustPass(o, fn, "Peek", peeks, an.OkErrNil, []an.Site{site})
							return true
						}
					}
					o.FailAt(fn.Root().ID+"#partial-read:"+an.Text(call.Args[0]), site.Where(), "%s reads with a bare Read into a buffer of %d bytes (static=%v): the call may deliver fewer bytes without an error, and the value is then built from bytes that were never sent; use io.ReadFull", site.String(), size, known)
					return true
				})
			}
			if n < 8 {
				o.FailAt("lnwire#read-calls", "", "expected at least 8 bare Read calls (single bytes in ReadElement, the end-of-stream probe of DecodeFailure) in lnwire and tlv, found %d", n)
			}
		})

	r.Obl("length-prefixes-fit-their-width", "BOUND",
		"in every function of lnwire that writes to a stream (it has an io.Writer or *bytes.Buffer parameter) a conversion of a length (an expression over len(X), directly or through a local) to an 8- or 16-bit integer is the length prefix of X and must not wrap: it is dominated by a comparison that bounds the converted expression by a constant the target type can hold; for a 16-bit prefix it is alternatively enough that X itself is written in full to the same stream in that function (w.Write(X), WriteBytes(w, X), or a loop over X that writes every element), because then the 65535-byte frame bound (write-message-bound) refuses what the prefix cannot express. An 8-bit prefix has no such backstop",
		"WriteDNSAddress wrote uint8(len(Hostname)) and then the whole hostname: a hostname of 256 or more bytes encoded without error to a prefix of len mod 256 followed by all the bytes, which decodes to a different address list (or to garbage), so a well-formed value does not decode back to an equal value", 15,
		func(o *an.Obl) {
			n := 0
			for _, fn := range p.Funcs(false, "lnwire") {
				root := fn.Root()
				var writers []types.Object
				for _, v := range root.Params(false) {
					if v == nil {
						continue
					}
					if ts := v.Type().String(); ts == "io.Writer" || ts == "*bytes.Buffer" {
						writers = append(writers, v)
					}
				}
				if len(writers) == 0 || fn != root {
					continue
				}
				info := fn.Info()
				ast.Inspect(fn.Body, func(x ast.Node) bool {
					call, ok := x.(*ast.CallExpr)
					if !ok || len(call.Args) != 1 {
						return true
					}
					tv, ok := info.Types[call.Fun]
					if !ok || !tv.IsType() {
						return true
					}
					b, ok := tv.Type.Underlying().(*types.Basic)
					if !ok {
						return true
					}
					var max int64
					switch b.Kind() {
					case types.Uint8:
						max = 255
					case types.Int8:
						max = 127
					case types.Uint16:
						max = 65535
					case types.Int16:
						max = 32767
					default:
						return true
					}
					// the len() the operand is computed from
					var measured ast.Expr
					var find func(e ast.Expr, depth int)
					find = func(e ast.Expr, depth int) {
						ast.Inspect(e, func(m ast.Node) bool {
							switch y := m.(type) {
							case *ast.CallExpr:
								if an.CalleeID(info, y) == "builtin.len" && len(y.Args) == 1 && measured == nil {
									measured = y.Args[0]
								}
							case *ast.Ident:
								if depth < 2 {
									if d := fn.UniqueDef(y); d != nil {
										if _, isConst := info.Types[d]; isConst && info.Types[d].Value != nil {
											return true
										}
										find(d, depth+1)
									}
								}
							}
							return measured == nil
						})
					}
					if t := info.TypeOf(call.Args[0]); t != nil {
						if ab, ok := t.Underlying().(*types.Basic); ok && (ab.Kind() == types.Uint8 || ab.Kind() == types.Uint16 && max >= 65535) {
							return true // no narrowing
						}
					}
					find(call.Args[0], 0)
					if measured == nil {
						return true
					}
					n++
					site := c10f5SiteOf(fn, call)
					if site.V == nil {
						o.FailAt(fn.ID+"#prefix-in-closure:"+an.Text(call), fn.Where(call.Pos()), "%s converts a length inside a closure", fn.ID)
						return true
					}
					ub, bounded := fn.UpperBoundConst(site, call.Args[0])
					if !bounded {
						// a bound on the len() itself when the operand is the len
						ub, bounded = fn.UpperBoundConst(site, an.Strip(info, call.Args[0]))
					}
					written := ""
					if max >= 32767 {
						written = c10f5WrittenInFull(fn, writers, measured, call)
					}
					o.Site("%s: %s of %s: bound %d (found=%v), written in full: %q", fn.ID, an.Text(call), an.Text(measured), ub, bounded, written)
					switch {
					case bounded && ub <= max:
					case bounded:
						o.FailAt(fn.ID+"#prefix-bound-too-wide:"+an.Text(call), site.Where(), "%s: %s is dominated by a bound of %d, but the prefix holds at most %d", fn.ID, an.Text(call), ub, max)
					case written != "":
					case max < 32767:
						o.FailAt(fn.ID+"#prefix-unbounded:"+an.Text(call), site.Where(), "%s: %s writes the length of %s into one byte but no comparison bounding it by %d dominates the conversion: a longer value encodes to a prefix of its length modulo 256", fn.ID, an.Text(call), an.Text(measured), max)
					default:
						o.FailAt(fn.ID+"#prefix-unbounded:"+an.Text(call), site.Where(), "%s: %s writes the length of %s into two bytes; the length is not bounded by a dominating comparison, and %s itself is not written in full to the same stream in this function, so the frame bound does not stand in for the missing check", fn.ID, an.Text(call), an.Text(measured), an.Text(measured))
					}
					return true
				})
			}
			if n < 15 {
				o.FailAt("lnwire#length-prefixes", "", "expected at least 15 narrowing conversions of lengths in the writers of lnwire, found %d", n)
			}
		})

	r.Obl("variable-length-integer-families-pair-up", "MIRROR",
		"for every type of lnwire that has an Encode and a Decode method, Encode calls the BigSize writer tlv.WriteVarInt as often as Decode calls the BigSize reader tlv.ReadVarInt, and the same holds for each primitive of btcd's CompactSize family (wire.WriteVarInt/ReadVarInt, WriteVarBytes/ReadVarBytes, WriteVarString/ReadVarString); the CompactSize family is used in lnwire only by the tabled element codecs of a Bitcoin script (WriteElement, WritePkScript, ReadElement)",
		"BigSize is big-endian, CompactSize little-endian with the same discriminator bytes 0xfd/0xfe/0xff: a field written with one and read with the other round-trips only below 253, so invalid_onion_payload{Type: 253} decoded to type 64768 and a canonical encoding was refused while a non-canonical one was accepted", 2,
		func(o *an.Obl) {
			family := func(info *types.Info, c *ast.CallExpr) string {
				callee := an.Callee(info, c)
				if callee == nil || callee.Pkg() == nil {
					return ""
				}
				path := callee.Pkg().Path()
				name := callee.Name()
				switch {
				case strings.HasSuffix(path, "lnd/tlv") && (name == "WriteVarInt" || name == "ReadVarInt"):
					return "BigSize:VarInt:" + name[:strings.Index(name, "Var")]
				case strings.Contains(path, "btcd/wire") && (strings.HasPrefix(name, "WriteVar") || strings.HasPrefix(name, "ReadVar")):
					return "CompactSize:" + name[strings.Index(name, "Var"):] + ":" + name[:strings.Index(name, "Var")]
				}
				return ""
			}
			// uses per function
			type use struct{ fam, kind, dir string }
			uses := map[string][]use{}
			compactUsers := map[string]bool{}
			total := 0
			for _, fn := range p.Funcs(false, "lnwire") {
				info := fn.Info()
				ast.Inspect(fn.Body, func(x ast.Node) bool {
					if _, isLit := x.(*ast.FuncLit); isLit {
						return false
					}
					c, ok := x.(*ast.CallExpr)
					if !ok {
						return true
					}
					if f := family(info, c); f != "" {
						parts := strings.Split(f, ":")
						uses[fn.ID] = append(uses[fn.ID], use{parts[0], parts[1], parts[2]})
						total++
						o.Site("%s uses %s", fn.ID, f)
						if parts[0] == "CompactSize" {
							compactUsers[fn.Root().ID] = true
						}
					}
					return true
				})
			}
			allowed := map[string]string{
				"lnwire.WriteElement":  "PkScript: a Bitcoin script, CompactSize-prefixed",
				"lnwire.WritePkScript": "PkScript: a Bitcoin script, CompactSize-prefixed",
				"lnwire.ReadElement":   "PkScript: a Bitcoin script, CompactSize-prefixed",
			}
			for id := range compactUsers {
				if _, ok := allowed[id]; !ok {
					o.FailAt(id+"#compactsize-on-a-lightning-field", "", "%s uses btcd's CompactSize primitives: lightning fields of variable length are BigSize (big-endian); only the element codecs of a Bitcoin script are tabled", id)
				}
			}
			// per type: Encode against Decode
			pkg := p.Pkg("lnwire")
			pairs := 0
			for _, name := range pkg.Types.Scope().Names() {
				enc, dec := p.FuncOpt("lnwire."+name+".Encode"), p.FuncOpt("lnwire."+name+".Decode")
				if enc == nil || dec == nil {
					continue
				}
				count := func(id, dir string) map[string]int {
					m := map[string]int{}
					for _, u := range uses[id] {
						if u.dir == dir {
							m[u.fam+" "+u.kind]++
						}
					}
					return m
				}
				w, rd := count(enc.ID, "Write"), count(dec.ID, "Read")
				// a primitive used in the wrong direction
				for _, u := range uses[enc.ID] {
					if u.dir != "Write" {
						w["misplaced "+u.fam+" "+u.kind+" "+u.dir]++
					}
				}
				for _, u := range uses[dec.ID] {
					if u.dir != "Read" {
						rd["misplaced "+u.fam+" "+u.kind+" "+u.dir]++
					}
				}
				if len(w)+len(rd) == 0 {
					continue
				}
				pairs++
				keys := map[string]bool{}
				for k := range w {
					keys[k] = true
				}
				for k := range rd {
					keys[k] = true
				}
				for k := range keys {
					if w[k] != rd[k] {
						o.FailAt("lnwire."+name+"#varint-family:"+k, dec.Where(dec.Body.Pos()), "%s: Encode writes %d and Decode reads %d values with the %s primitive: a field written as BigSize (big-endian) and read as CompactSize (little-endian), or the reverse, round-trips only below 253", name, w[k], rd[k], k)
					}
				}
			}
			if pairs < 1 || total < 4 {
				o.FailAt("lnwire#varint-users", "", "expected at least one Encode/Decode pair using variable-length integers and 4 uses in lnwire, found %d pairs and %d uses", pairs, total)
			}
		})
}

// c10f5WrittenInFull: after the conversion `conv`, fn hands the measured
// value x (or x[:]) to a call that also involves one of the writers, or ranges
// over x in a loop whose body writes to one of them.
func c10f5WrittenInFull(fn *an.Func, writers []types.Object, x ast.Expr, conv ast.Node) string {
	info := fn.Info()
	want := fn.Canon(x)
	isWriter := func(e ast.Expr) bool {
		id, ok := ast.Unparen(e).(*ast.Ident)
		if !ok {
			return false
		}
		for _, w := range writers {
			if info.Uses[id] == w {
				return true
			}
		}
		return false
	}
	involvesWriter := func(c *ast.CallExpr) bool {
		for _, a := range c.Args {
			if isWriter(a) {
				return true
			}
		}
		if sel, ok := c.Fun.(*ast.SelectorExpr); ok && isWriter(sel.X) {
			return true
		}
		return false
	}
	same := func(e ast.Expr) bool {
		e = ast.Unparen(e)
		if se, ok := e.(*ast.SliceExpr); ok && se.Low == nil && se.High == nil {
			e = se.X
		}
		return fn.Canon(e) == want
	}
	found := ""
	ast.Inspect(fn.Body, func(n ast.Node) bool {
		if found != "" {
			return false
		}
		switch y := n.(type) {
		case *ast.CallExpr:
			if y.Pos() < conv.End() || !involvesWriter(y) {
				return true
			}
			for _, a := range y.Args {
				if same(a) {
					found = an.Text(y)
				}
			}
		case *ast.RangeStmt:
			if y.Pos() < conv.End() || !same(y.X) || y.Value == nil {
				return true
			}
			ast.Inspect(y.Body, func(m ast.Node) bool {
				if c, ok := m.(*ast.CallExpr); ok && involvesWriter(c) {
					found = "range " + an.Text(y.X) + " { " + an.Text(c) + " }"
				}
				return found == ""
			})
		}
		return true
	})
	return found
}

// ---------------------------------------------------------------------------
// Optional parts of a message (repair bc85958, seed C10-h).
// ---------------------------------------------------------------------------

// c10f5FieldRefs lists the vertices of fn at which the struct field fld is
// used: a selector naming it, or a call of a method of the same type whose
// body (one level down) uses it.
func c10f5FieldRefs(p *an.Prog, fn *an.Func, fld *types.Var, depth int) map[*flow.Vertex]bool {
	out := map[*flow.Vertex]bool{}
	info := fn.Info()
	g := fn.Graph()
	mentions := func(n ast.Node) bool {
		hit := false
		ast.Inspect(n, func(m ast.Node) bool {
			switch x := m.(type) {
			case *ast.SelectorExpr:
				if info.Uses[x.Sel] == types.Object(fld) {
					hit = true
				}
			case *ast.CallExpr:
				if depth < 2 {
					if callee := an.Callee(info, x); callee != nil {
						if sig, _ := callee.Type().(*types.Signature); sig != nil && sig.Recv() != nil {
							if h := p.FuncOf(callee); h != nil && h != fn && h.Pkg == fn.Pkg && c10f5BodyMentions(h, fld) {
								hit = true
							}
						}
					}
				}
			}
			return !hit
		})
		return hit
	}
	for _, v := range g.V {
		for _, n := range v.OwnNodes() {
			if mentions(n) {
				out[v] = true
			}
		}
	}
	return out
}

func c10f5BodyMentions(h *an.Func, fld *types.Var) bool {
	hit := false
	ast.Inspect(h.Body, func(m ast.Node) bool {
		if x, ok := m.(*ast.SelectorExpr); ok && h.Info().Uses[x.Sel] == types.Object(fld) {
			hit = true
		}
		return !hit
	})
	return hit
}

// c10f5Decider is a condition of a codec method on which it depends whether a
// field is handled at all.
type c10f5Decider struct {
	v      *flow.Vertex
	atom   string
	handle flow.EdgeKind // the edge towards the handling of the field
}

// c10f5Deciders: the conditions of fn that decide between handling field fld
// and finishing successfully without ever touching it.
func c10f5Deciders(p *an.Prog, fn *an.Func, fld *types.Var) (refs map[*flow.Vertex]bool, skippable bool, out []c10f5Decider) {
	g := fn.Graph()
	refs = c10f5FieldRefs(p, fn, fld, 0)
	if len(refs) == 0 {
		return refs, false, nil
	}
	// B: vertices from which a success return is reachable without a use
	B := map[*flow.Vertex]bool{}
	var work []*flow.Vertex
	for _, rt := range fn.Returns() {
		if !refs[rt.V] && c10f5SuccessCapable(fn, rt) {
			B[rt.V] = true
			work = append(work, rt.V)
		}
	}
	for len(work) > 0 {
		v := work[len(work)-1]
		work = work[:len(work)-1]
		for _, e := range v.In {
			if refs[e.From] || B[e.From] {
				continue
			}
			B[e.From] = true
			work = append(work, e.From)
		}
	}
	if !B[g.Entry] {
		return refs, false, nil
	}
	// vertices that can still get to a use
	toRef := map[*flow.Vertex]bool{}
	for v := range refs {
		for u := range g.BackReach(v, nil) {
			toRef[u] = true
		}
	}
	A := g.Reach(g.Entry, nil, refs)
	for _, v := range g.V {
		if !A[v] || !B[v] || refs[v] || (v.Kind != flow.KCond && v.Kind != flow.KCase) {
			continue
		}
		var skip, handle *flow.Edge
		for _, e := range v.Out {
			if e.Kind != flow.ETrue && e.Kind != flow.EFalse {
				continue
			}
			switch {
			case B[e.To]:
				skip = e
			case refs[e.To] || toRef[e.To]:
				handle = e
			}
		}
		if skip != nil && handle != nil && !B[handle.To] {
			out = append(out, c10f5Decider{v: v, atom: fn.AtomCanon(v), handle: handle.Kind})
		}
	}
	return refs, true, out
}

var c10f5RecvFieldRe = regexp.MustCompile(`\$recv\.([A-Za-z_][A-Za-z0-9_]*)`)

func c10f5RecvFieldsIn(atom string) []string {
	var out []string
	for _, m := range c10f5RecvFieldRe.FindAllStringSubmatch(atom, -1) {
		out = append(out, m[1])
	}
	return out
}

// c10f5Presence: a codec method that can finish successfully without touching
// a field it handles elsewhere must decide that on something the other side
// can decide too.
func c10f5Presence(r *an.Run) {
	p := r.Prog
	r.Obl("optional-fields-are-decided-by-what-is-on-the-wire", "MIRROR",
		"for every struct type of lnwire with an Encode and a Decode method (messages, onion failures, nested codecs) and every field F that its Encode uses: if Encode can report success on a path that never uses F, every condition that decides between that path and the handling of F is a test over receiver fields of which at least one was used (written) before the condition on every path, so that the reader has it when it must decide; Decode, and DataToSign where the type has one, then handle F below a condition with the same canonical form and the same polarity. Conversely a condition over another receiver field under which Decode or DataToSign skips F appears in the same form in Encode. A test of F itself (F == nil, len(F) != 0, F.IsSome()) is a use of F, not a skip",
		"channel_reestablish with a nil commit point returned early: the nonce and dyn-height records were silently dropped and ExtraData written where the reader expects the commit secret, so a well-formed value did not decode back to an equal value; channel_update reading htlc_maximum_msat under message_flags == 1 while Encode and DataToSign write it under the bit test accepts bytes whose re-encoding is 8 bytes longer and refuses well-formed updates with a second flag bit", 3,
		func(o *an.Obl) {
			conditional := 0
			// every struct type of lnwire with an Encode and a Decode method:
			// the messages and the onion failures
			var codecs []msgType
			scope := p.Pkg("lnwire").Types.Scope()
			for _, name := range scope.Names() {
				tn, ok := scope.Lookup(name).(*types.TypeName)
				if !ok || tn.IsAlias() {
					continue
				}
				nt, ok := tn.Type().(*types.Named)
				if !ok {
					continue
				}
				if _, isStruct := nt.Underlying().(*types.Struct); isStruct {
					codecs = append(codecs, msgType{nt, name})
				}
			}
			nCodecs := 0
			for _, mt := range codecs {
				enc, dec := p.FuncOpt("lnwire."+mt.name+".Encode"), p.FuncOpt("lnwire."+mt.name+".Decode")
				if enc == nil || dec == nil || an.IsTestish(enc.Filename()) {
					continue
				}
				nCodecs++
				sibs := []*an.Func{dec}
				if dts := p.FuncOpt("lnwire." + mt.name + ".DataToSign"); dts != nil {
					sibs = append(sibs, dts)
				}
				st, ok := mt.named.Underlying().(*types.Struct)
				if !ok {
					continue
				}
				for i := 0; i < st.NumFields(); i++ {
					fld := st.Field(i)
					encRefs, skippable, deciders := c10f5Deciders(p, enc, fld)
					if len(encRefs) == 0 {
						continue
					}
					if skippable {
						conditional++
						var atoms []string
						for _, d := range deciders {
							atoms = append(atoms, fmt.Sprintf("%s[%v]", d.atom, d.handle == flow.ETrue))
						}
						o.Site("%s.%s: Encode can succeed without it; decided by %v", mt.name, fld.Name(), atoms)
						if len(deciders) == 0 {
							o.FailAt(mt.name+"."+fld.Name()+"#skipped-undecided", enc.Where(enc.Body.Pos()), "%s.Encode can report success without using %s although it handles the field elsewhere, and no condition decides between the two", mt.name, fld.Name())
						}
					}
					for _, d := range deciders {
						key := mt.name + "." + fld.Name()
						// 1. over a field the reader has by then
						var known []string
						for _, gname := range c10f5RecvFieldsIn(d.atom) {
							if gname == fld.Name() {
								continue
							}
							var gf *types.Var
							for j := 0; j < st.NumFields(); j++ {
								if st.Field(j).Name() == gname {
									gf = st.Field(j)
								}
							}
							if gf == nil {
								continue
							}
							grefs := c10f5FieldRefs(p, enc, gf, 0)
							delete(grefs, d.v)
							// every path to the condition passes a use of G
							if len(grefs) > 0 && !enc.Graph().Reach(enc.Graph().Entry, nil, grefs)[d.v] {
								known = append(known, gname)
							}
						}
						if len(known) == 0 {
							o.FailAt(key+"#decided-by-nothing-on-the-wire", enc.Where(d.v.Pos()), "%s.Encode decides by `%s` whether %s is written at all, but no receiver field of that condition has been written before it: the reader cannot know, and a value with %s set encodes to bytes that decode to something else (or the field is dropped silently); refuse such a value or carry the field", mt.name, an.Text(d.v.Node), fld.Name(), fld.Name())
							continue
						}
						// 2. the siblings decide the same way
						for _, sib := range sibs {
							srefs := c10f5FieldRefs(p, sib, fld, 0)
							if len(srefs) == 0 {
								continue
							}
							same := flow.EdgeSet{}
							for _, v := range sib.Graph().V {
								if (v.Kind == flow.KCond || v.Kind == flow.KCase) && sib.AtomCanon(v) == d.atom {
									for _, e := range v.Out {
										if e.Kind == d.handle {
											same[e] = true
										}
									}
								}
							}
							reach := sib.Graph().Reach(sib.Graph().Entry, same, nil)
							for v := range srefs {
								if reach[v] {
									o.FailAt(key+"#presence-differs:"+sib.ID, sib.Where(v.Pos()), "%s.Encode handles %s exactly when `%s` is %v, but %s uses the field at %s without that same test: the sides disagree for some value of %v, the bytes of the field are then taken for what follows it", mt.name, fld.Name(), d.atom, d.handle == flow.ETrue, sib.ID, sib.Where(v.Pos()), known)
									break
								}
							}
						}
					}
					// the converse: a sibling skipping F on a receiver test
					for _, sib := range sibs {
						_, sskip, sdec := c10f5Deciders(p, sib, fld)
						if !sskip {
							continue
						}
						for _, d := range sdec {
							others := 0
							for _, gname := range c10f5RecvFieldsIn(d.atom) {
								if gname != fld.Name() {
									others++
								}
							}
							if others == 0 {
								continue // decided by the stream, not by a field
							}
							o.Site("%s.%s: %s decides by %s[%v]", mt.name, fld.Name(), sib.ID, d.atom, d.handle == flow.ETrue)
							found := false
							for _, ed := range deciders {
								found = found || (ed.atom == d.atom && ed.handle == d.handle)
							}
							if !found {
								o.FailAt(mt.name+"."+fld.Name()+"#presence-differs:"+sib.ID, sib.Where(d.v.Pos()), "%s handles %s exactly when `%s` is %v, but Encode does not decide by that test (Encode: %d deciding conditions): the sides disagree on when the field is on the wire", sib.ID, fld.Name(), d.atom, d.handle == flow.ETrue, len(deciders))
							}
						}
					}
				}
			}
			o.Site("%d types with Encode and Decode examined", nCodecs)
			if conditional < 1 || nCodecs < 55 {
				o.FailAt("lnwire#conditional-fields", "", "expected at least 55 types with an Encode and a Decode method and one conditionally encoded field (ChannelUpdate1.HtlcMaximumMsat), found %d and %d", nCodecs, conditional)
			}
		})
}
