package spec

import (
	"go/ast"
	"go/types"
	"strings"

	"lndlint/internal/an"
)

func init() {
	register(&Spec{
		ID:          "C11",
		Loads:       []LoadSpec{{Patterns: []string{"./brontide"}}},
		Explanation: "Decides the typestate of the cipher state (the nonce is written only by the post-use increment and the reset in InitializeKey; key, nonce reset and AEAD instance change together; both directions rotate at keyRotationInterval = 1000 through the salted ratchet), that Seal/Open are reached only through Encrypt/Decrypt whose increment is deferred before the AEAD call, that the responder's key split is the mirror image of the initiator's with both ciphers salted by the chaining key, that each handshake act succeeds only after the version check and every DecryptAndHash, that a message is framed only within the 16-bit length and with nothing unflushed, that Flush advances each buffer by exactly what the writer accepted, header first, that Conn.Write accounts every flushed byte before it returns, that ReadHeader/ReadBody hand only complete frames to the cipher and keep the progress of a read exactly across a deadline (resumed at the remembered offset, cleared on every other exit), that pending ciphertext is dropped only when nothing is pending, that Accept returns an untyped nil connection with every error, and that the listener and Dial close every connection they drop.",
		NotDecided: []string{
			"authenticity and confidentiality (rest on ChaCha20-Poly1305 and the Noise pattern)", "byte equality end to end under fragmentation",
			"the plaintext byte accounting arithmetic of Flush (start/end vs macSize) beyond its three-region shape",
		},
		Assumptions: commonAssumptions,
		Engines:     "STATE (field typestate), WHO, PATH, MIRROR, GUARD, BOUND",
		Run:         runC11,
	})
}

const br = "brontide."

func runC11(r *an.Run) {
	p := r.Prog

	r.Obl("cipher-state-typestate", "STATE",
		"cipherState.nonce is written only by `nonce++` in the deferred epilogues of Encrypt/Decrypt and by `nonce = 0` in InitializeKey; secretKey and cipher are written only in InitializeKey, together with the nonce reset; salt only in InitializeKeyWithSalt (and ratcheted in rotateKey); both epilogues call rotateKey exactly when nonce == keyRotationInterval (1000); rotateKey re-keys through InitializeKey with HKDF(old key, salt)",
		"no (key, nonce) pair may ever be used twice: a nonce that is reset without a key change, or a key change without a nonce reset, repeats a pair", 10,
		func(o *an.Obl) {
			writers := map[string]map[string]string{
				"nonce":     {br + "cipherState.Encrypt": "++", br + "cipherState.Decrypt": "++", br + "cipherState.InitializeKey": "=0"},
				"secretKey": {br + "cipherState.InitializeKey": "="},
				"cipher":    {br + "cipherState.InitializeKey": "="},
				"salt":      {br + "cipherState.InitializeKeyWithSalt": "="},
			}
			for fld, allowed := range writers {
				n := 0
				for _, f := range p.Funcs(false, "brontide") {
					for _, s := range f.Assigns(an.Field(br+"cipherState", fld, nil), false) {
						n++
						root := f.Root().ID
						o.Site("writer of cipherState.%s: %s", fld, s.String())
						form, ok := allowed[root]
						if !ok {
							o.FailAt("cipherState."+fld+"<-"+root, s.Where(), "%s writes cipherState.%s", root, fld)
							continue
						}
						switch st := s.Node.(type) {
						case *ast.IncDecStmt:
							if form != "++" || st.Tok.String() != "++" {
								o.FailAt("cipherState."+fld+"#form-"+root, s.Where(), "unexpected write form %s", an.Text(st))
							}
						case *ast.AssignStmt:
							if form == "++" {
								o.FailAt("cipherState."+fld+"#form-"+root, s.Where(), "the nonce is assigned (%s) where only the increment is allowed", an.Text(st))
							}
							if form == "=0" && !(st.Tok.String() == "=" && an.IntConst(0)(f, ast.Unparen(st.Rhs[0]))) {
								o.FailAt("cipherState."+fld+"#reset-"+root, s.Where(), "InitializeKey must reset the nonce to 0: %s", an.Text(st))
							}
						}
					}
				}
				if n == 0 {
					o.FailAt("cipherState."+fld+"#no-writers", "", "no writer of cipherState.%s found", fld)
				}
			}
			// InitializeKey sets key, nonce and cipher on its single path
			ik := p.Func(br + "cipherState.InitializeKey")
			for _, fld := range []string{"secretKey", "nonce", "cipher"} {
				ws := ik.Assigns(an.Field(br+"cipherState", fld, nil), false)
				if len(ws) != 1 || !ik.PostDominated(an.Site{Fn: ik, V: ik.Graph().Entry}, ws) {
					o.FailAt(ik.ID+"#sets-"+fld, ik.Where(ik.Body.Pos()), "InitializeKey does not set %s on every path (%d writes)", fld, len(ws))
				}
			}
			// rotation in both epilogues
			if v := constValue(p, "brontide", "keyRotationInterval"); v != "1000" {
				o.FailAt("brontide.keyRotationInterval", "", "keyRotationInterval = %s, expected 1000", v)
			}
			for _, name := range []string{"Encrypt", "Decrypt"} {
				f := p.Func(br + "cipherState." + name)
				if len(f.Lits) != 1 {
					o.FailAt(f.ID+"#epilogue", f.Where(f.Body.Pos()), "%s: expected one deferred epilogue closure, found %d closures", name, len(f.Lits))
					continue
				}
				ep := f.Lits[0]
				inc := ep.Assigns(an.Field(br+"cipherState", "nonce", nil), false)
				rot := ep.Calls(an.CalleeIs(br+"cipherState.rotateKey"), false)
				if len(inc) != 1 || len(rot) != 1 {
					o.FailAt(f.ID+"#epilogue-shape", ep.Where(ep.Body.Pos()), "%s: the epilogue must increment the nonce once and rotate once (found %d/%d)", name, len(inc), len(rot))
					continue
				}
				o.Site("%s epilogue: %s ; %s", name, inc[0].String(), rot[0].String())
				if !ep.Before(inc, rot[0]) {
					o.FailAt(f.ID+"#rotate-before-increment", rot[0].Where(), "the rotation test runs before the increment")
				}
				guarded(o, ep, rot[0], an.CmpX(an.Field(br+"cipherState", "nonce", nil), an.EQ, an.PkgVar("brontide", "keyRotationInterval"), "nonce == keyRotationInterval"))
				// rotate on every path where the test holds: the false edge is
				// the only way around
				// the epilogue is deferred before the AEAD call
				var deferV []an.Site
				for _, v := range f.Graph().V {
					if ds, isD := v.Node.(*ast.DeferStmt); isD {
						if fl, isLit := ds.Call.Fun.(*ast.FuncLit); isLit && fl == ep.Lit {
							deferV = append(deferV, an.Site{Fn: f, V: v, Node: ds})
						}
					}
				}
				aead := f.Calls(an.CalleeNamed("Seal", "Open"), false)
				if len(deferV) != 1 || len(aead) != 1 || !f.Before(deferV, aead[0]) {
					o.FailAt(f.ID+"#defer-before-aead", f.Where(f.Body.Pos()), "%s: the nonce epilogue is not deferred before the AEAD call", name)
				}
				// the nonce fed to the AEAD is the state's nonce
				enc := f.Calls(an.CalleeNamed("PutUint64"), false)
				if len(enc) != 1 || !strings.HasSuffix(f.ArgCanon(enc[0])[1], ".nonce") || !strings.Contains(f.ArgCanon(enc[0])[0], "nonceBuffer[4:") {
					o.FailAt(f.ID+"#nonce-encoding", f.Where(f.Body.Pos()), "%s: the AEAD nonce is not the little-endian state nonce at offset 4", name)
				}
			}
			rk := p.Func(br + "cipherState.rotateKey")
			init := rk.Calls(an.CalleeIs(br+"cipherState.InitializeKey"), false)
			hk := rk.Calls(an.CalleeNamed("New"), false)
			if len(init) != 1 || len(hk) < 1 {
				o.FailAt(rk.ID+"#shape", rk.Where(rk.Body.Pos()), "rotateKey must derive the next key with HKDF and install it through InitializeKey")
			} else {
				a := rk.ArgCanon(hk[0])
				o.Site("rotateKey HKDF args: %v", a)
				if len(a) < 3 || !strings.Contains(a[1], ".secretKey") || !strings.Contains(a[2], ".salt") {
					o.FailAt(rk.ID+"#hkdf-args", hk[0].Where(), "the ratchet must be HKDF(secret = old key, salt = current salt); got %v", a)
				}
			}
		})

	r.Obl("aead-only-through-cipher-state", "WHO",
		"cipher.AEAD.Seal is called only in cipherState.Encrypt and Open only in cipherState.Decrypt; Machine encrypts outgoing data only with sendCipher and decrypts incoming data only with recvCipher",
		"any other caller would use a key without advancing its nonce", 6,
		func(o *an.Obl) {
			for _, f := range p.Funcs(false, "brontide") {
				for _, s := range f.Calls(an.CalleeIs("crypto/cipher.AEAD.Seal", "crypto/cipher.AEAD.Open"), true) {
					o.Site("%s", s.String())
					root := f.Root().ID
					name := s.Node.(*ast.CallExpr).Fun.(*ast.SelectorExpr).Sel.Name
					if name == "Seal" && root != br+"cipherState.Encrypt" || name == "Open" && root != br+"cipherState.Decrypt" {
						o.FailAt(root+"#aead-"+name, s.Where(), "%s calls AEAD.%s directly", root, name)
					}
				}
			}
			for fn, want := range map[string]string{"Machine.WriteMessage": "sendCipher", "Machine.ReadHeader": "recvCipher", "Machine.ReadBody": "recvCipher"} {
				f := p.Func(br + fn)
				for _, s := range f.Calls(an.CalleeNamed("Encrypt", "Decrypt"), false) {
					c := f.Canon(s.Node.(*ast.CallExpr).Fun.(*ast.SelectorExpr).X)
					o.Site("%s uses %s", fn, c)
					if !strings.HasSuffix(c, "."+want) {
						o.FailAt(f.ID+"#cipher-direction", s.Where(), "%s uses %s, expected %s", fn, c, want)
					}
					isEnc := s.Node.(*ast.CallExpr).Fun.(*ast.SelectorExpr).Sel.Name == "Encrypt"
					if isEnc != (want == "sendCipher") {
						o.FailAt(f.ID+"#cipher-operation", s.Where(), "%s performs the wrong operation on %s", fn, want)
					}
				}
			}
		})

	r.Obl("key-split-mirrored", "MIRROR",
		"Machine.split: the initiator takes the first HKDF output as send key and the second as receive key, the responder the reverse; every cipher is installed with InitializeKeyWithSalt(chainingKey, key) on a fresh cipherState",
		"each side's send key must equal the other's receive key, and both sides must ratchet with the same salt or the first key rotation desynchronises one direction", 2,
		func(o *an.Obl) {
			f := p.Func(br + "Machine.split")
			branch := func(wantInitiator bool) []string {
				var seq []string
				fact := an.Truth(an.FieldPath(nil, "initiator"), wantInitiator, "")
				for _, s := range f.AllCalls(false) {
					id := an.CalleeID(f.Info(), s.Node.(*ast.CallExpr))
					if !strings.HasSuffix(id, ".Read") && !strings.Contains(id, "cipherState.") {
						continue
					}
					if ok, _ := f.Guarded(s, fact); !ok {
						continue
					}
					c := f.Canon(s.Node.(*ast.CallExpr))
					seq = append(seq, c)
				}
				return seq
			}
			ini, rsp := branch(true), branch(false)
			o.Site("initiator: %v", ini)
			o.Site("responder: %v", rsp)
			if len(ini) != 4 || len(rsp) != 4 {
				o.FailAt(f.ID+"#branch-shape", f.Where(f.Body.Pos()), "expected two HKDF reads and two salted key installs per role, found %d/%d", len(ini), len(rsp))
				return
			}
			for i := range ini {
				// the responder assigns the same HKDF outputs to the opposite ciphers
				if got := an.Swap(ini[i], [][2]string{{"sendCipher", "recvCipher"}}); got != rsp[i] {
					o.FailAt(f.ID+"#mirror-"+itoa(i), f.Where(f.Body.Pos()), "step %d of the responder is %s, expected the mirror %s of the initiator's %s", i, rsp[i], got, ini[i])
				}
			}
			for _, s := range append(ini, rsp...) {
				if strings.Contains(s, "cipherState.") || strings.Contains(s, "Cipher.") {
					if !strings.Contains(s, ".InitializeKeyWithSalt($recv.symmetricState.chainingKey") && !strings.Contains(s, ".InitializeKeyWithSalt($recv.chainingKey") && strings.Contains(s, "Initialize") {
						o.FailAt(f.ID+"#unsalted", f.Where(f.Body.Pos()), "a transport cipher is installed without the chaining key as salt: %s", s)
					}
				}
			}
		})

	r.Obl("handshake-acts-fail-closed", "GUARD",
		"RecvActOne/Two/Three return success only below the handshake version check and after every DecryptAndHash, ECDH and ParsePubKey of the act succeeded; the act buffers are fixed-size arrays",
		"a handshake act accepted with a failed MAC completes the handshake with an unauthenticated peer", 9,
		func(o *an.Obl) {
			for _, name := range []string{"RecvActOne", "RecvActTwo", "RecvActThree"} {
				f := p.Func(br + "Machine." + name)
				succ := f.SuccessReturns()
				ver := an.Cmp(an.Index(an.Param(0), an.IntConst(0)), an.EQ, an.PkgVar("brontide", "HandshakeVersion"), "act[0] == HandshakeVersion")
				dh := f.Calls(an.CalleeNamed("DecryptAndHash"), false)
				if !need(o, f, "DecryptAndHash", dh, 1) {
					continue
				}
				for _, s := range succ {
					guarded(o, f, s, ver)
				}
				for _, d := range dh {
					mustPass(o, f, "DecryptAndHash", []an.Site{d}, an.OkErrNil, succ)
				}
				for _, c := range append(f.Calls(an.CalleeIs(br+"ecdh"), false), f.Calls(an.CalleeNamed("ParsePubKey"), false)...) {
					mustPass(o, f, an.Text(c.Node), []an.Site{c}, an.OkErrNil, succ)
				}
				if t := f.Params(false)[0].Type().Underlying().String(); !strings.HasPrefix(t, "[") || strings.HasPrefix(t, "[]") {
					o.FailAt(f.ID+"#act-buffer", f.Where(f.Body.Pos()), "the act is received in a %s, expected a fixed-size array", t)
				}
			}
		})

	r.Obl("framing-and-flush", "PATH",
		"Machine.WriteMessage encrypts only below len(p) <= 65535 and with no header/body pending; header is encrypted before the body; Flush writes the header before the body and advances each pending buffer by exactly the n its Write returned; ReadHeader answers either with uint16 length + macSize computed from a header it read in full (io.ReadFull without error, only while nextBodyLen == 0) and decrypted successfully, or, only where nextBodyLen != 0 (the body of an already consumed header was interrupted by a deadline), with that remembered nextBodyLen and without reading or decrypting anything; Conn.Write adds every Flush result to its byte count before returning",
		"bytes must arrive exactly once and in order across partial writes and interrupted reads: a count that misses flushed bytes makes the caller resend them inside authenticated records; a header read while a body is pending takes ciphertext of the body for a header", 10,
		func(o *an.Obl) {
			f := p.Func(br + "Machine.WriteMessage")
			enc := f.Calls(an.CalleeIs(br+"cipherState.Encrypt"), false)
			if need(o, f, "Encrypt", enc, 2) {
				guardedAll(o, f, enc,
					an.Cmp(an.Len(an.Param(0)), an.LE, an.PkgVar("math", "MaxUint16"), "len(p) <= MaxUint16"),
					an.Cmp(an.Len(an.FieldPath(nil, "nextHeaderSend")), an.LE, an.IntConst(0), "no header pending"),
					an.Cmp(an.Len(an.FieldPath(nil, "nextBodySend")), an.LE, an.IntConst(0), "no body pending"))
				a0, a1 := f.ArgCanon(enc[0]), f.ArgCanon(enc[1])
				if !strings.Contains(a0[2], "pktLenBuffer") || a1[2] != "$p0" {
					o.FailAt(f.ID+"#encrypt-order", enc[0].Where(), "the length header must be encrypted first, then the payload; got %s then %s", a0[2], a1[2])
				}
			}
			fl := p.Func(br + "Machine.Flush")
			ws := fl.Calls(an.CalleeNamed("Write"), false)
			if need(o, fl, "w.Write", ws, 2) {
				a0, a1 := fl.ArgCanon(ws[0]), fl.ArgCanon(ws[1])
				if !strings.HasSuffix(a0[0], ".nextHeaderSend") || !strings.HasSuffix(a1[0], ".nextBodySend") {
					o.FailAt(fl.ID+"#write-order", ws[0].Where(), "Flush must write the header then the body; got %s then %s", a0[0], a1[0])
				}
				for i, fld := range []string{"nextHeaderSend", "nextBodySend"} {
					adv := fl.Assigns(an.Field(br+"Machine", fld, nil), false)
					okAdv := false
					for _, s := range adv {
						c := fl.Canon(s.Node.(*ast.AssignStmt).Rhs[0])
						o.Site("%s <- %s", fld, c)
						if strings.HasPrefix(c, "$recv."+fld+"[") && strings.Contains(c, "w.Write") || strings.HasPrefix(c, "$recv."+fld+"[$p0.Write($recv."+fld+")") {
							okAdv = true
							if !fl.Before([]an.Site{ws[i]}, s) {
								okAdv = false
							}
							// also on the error path: whatever the writer
							// accepted before failing must not be sent again
							if !fl.PostDominated(ws[i], []an.Site{s}) {
								o.FailAt(fl.ID+"#advance-skipped-"+fld, s.Where(), "after the Write of %s some path (the error return) leaves Flush without advancing the buffer by the bytes that were accepted", fld)
							}
						}
					}
					if !okAdv {
						o.FailAt(fl.ID+"#advance-"+fld, fl.Where(fl.Body.Pos()), "%s is not advanced by exactly the count its Write returned", fld)
					}
				}
				// the body is written only after the header buffer drained or errored
				hdrErr := fl.Returns()
				_ = hdrErr
			}
			rh := p.Func(br + "Machine.ReadHeader")
			pending := an.Field(br+"Machine", "nextBodyLen", an.Recv())
			rfH := rh.Calls(an.CalleeIs("io.ReadFull"), false)
			decH := rh.Calls(an.CalleeIs(br+"cipherState.Decrypt"), false)
			var fresh, resumed []an.Site
			for _, s := range rh.StrictSuccessReturns() {
				res := ast.Unparen(s.Node.(*ast.ReturnStmt).Results[0])
				c := rh.Canon(res)
				o.Site("ReadHeader returns %s", c)
				if pending(rh, res) {
					// the length of a body whose read a deadline interrupted
					resumed = append(resumed, s)
					continue
				}
				fresh = append(fresh, s)
				if !strings.HasPrefix(c, "(uint32(encoding/binary.BigEndian.Uint16(") || !strings.HasSuffix(c, "+ brontide.macSize)") {
					o.FailAt(rh.ID+"#length", s.Where(), "the body length is %s, expected uint32(uint16 length) + macSize (or the remembered length of the interrupted body, nextBodyLen)", c)
				}
			}
			mustPass(o, rh, "recvCipher.Decrypt", decH, an.OkErrNil, fresh)
			mustPass(o, rh, "io.ReadFull", rfH, an.OkErrNil, fresh)
			// a header is taken from the stream only while no body is pending
			guardedAll(o, rh, rfH, an.AnyOf("nextBodyLen == 0 (no interrupted body pending)",
				an.Cmp(pending, an.EQ, an.IntConst(0), ""), an.CmpX(pending, an.LE, an.IntConst(0), "")))
			if len(resumed) == 0 {
				o.FailAt(rh.ID+"#no-resume-of-pending-body", rh.Where(rh.Body.Pos()), "ReadHeader never answers with the remembered length nextBodyLen: after a body read that a deadline interrupted the next call would take body bytes for a header")
			}
			for _, s := range resumed {
				guarded(o, rh, s, an.Cmp(pending, an.NE, an.IntConst(0), "nextBodyLen != 0 (an interrupted body is pending)"))
				// the stored length is handed out without touching stream or cipher
				for _, t := range append(append([]an.Site{}, rfH...), decH...) {
					if t.V == s.V || rh.Graph().Reach(t.V, nil, nil)[s.V] {
						o.FailAt(rh.ID+"#resume-touches-stream", s.Where(), "the remembered body length is returned after %s: the header of that body was consumed already, reading or decrypting again desynchronises stream and nonce", an.Text(t.Node))
					}
				}
			}
			cw := p.Func(br + "Conn.Write")
			var loopFlush []an.Site
			for _, s := range cw.Calls(an.CalleeIs(br+"Machine.Flush"), false) {
				if s.V.Kind.String() != "return" {
					loopFlush = append(loopFlush, s)
				}
			}
			acc := cw.Assigns(an.LocalNamed("bytesWritten"), false)
			var adds []an.Site
			for _, s := range acc {
				if as, ok := s.Node.(*ast.AssignStmt); ok && as.Tok.String() == "+=" {
					adds = append(adds, s)
				}
			}
			if len(loopFlush) != 1 || len(adds) != 1 {
				o.FailAt(cw.ID+"#chunk-loop", cw.Where(cw.Body.Pos()), "expected one Flush and one byte-count accumulation in the chunking loop, found %d/%d", len(loopFlush), len(adds))
			} else {
				o.Site("%s ; %s", loopFlush[0].String(), adds[0].String())
				if !cw.PostDominated(loopFlush[0], adds) {
					o.FailAt(cw.ID+"#count-after-flush", adds[0].Where(), "Conn.Write can return after a Flush without adding the flushed bytes to its count")
				}
			}
		})

	r.Obl("frames-read-in-full", "ROLE",
		"every fixed-size piece of the protocol is read with io.ReadFull from the connection: the three handshake acts (actTwo in Dial; actOne and actThree in the listener's handshake), the 18-byte encrypted length header into nextCipherHeader from the remembered offset nextHeaderRead to its end, and the body into the caller's buffer behind the copy of the remembered bytes nextBodyRead (buf[copy(buf, nextBodyRead):]); ReadHeader and ReadBody decrypt only after that io.ReadFull returned without error, and decrypt the whole buffer (nextCipherHeader[:] resp. buf), never the part filled so far; no function of the package calls Read directly on a reader or connection it was handed",
		"a plain Read may return fewer bytes than the frame: a header or act that arrives in two TCP segments is then decrypted from a half-filled buffer and the connection fails although nothing was altered; a read that is resumed after a deadline from offset 0 instead of the remembered offset overwrites the consumed bytes with later ones, and a partial frame handed to the cipher burns a nonce on a record that cannot authenticate", 5,
		func(o *an.Obl) {
			want := map[string][]string{
				"brontide.Dial":                 {"[50]byte[:]"},
				"brontide.Listener.doHandshake": {"[50]byte[:]", "[66]byte[:]"},
				"brontide.Machine.ReadBody":     {"$p1[copy($p1, $recv.nextBodyRead):]"},
				"brontide.Machine.ReadHeader":   {"$recv.nextCipherHeader[$recv.nextHeaderRead:]"},
			}
			got := map[string][]string{}
			for _, f := range p.Funcs(false, "brontide") {
				for _, s := range f.Calls(an.CalleeIs("io.ReadFull"), false) {
					a := f.ArgCanon(s)
					o.Site("%s into %s", s.String(), a[1])
					got[f.Root().ID] = append(got[f.Root().ID], strings.TrimPrefix(a[1], "$v:"))
				}
				// direct Read on a handed-in reader / connection
				for _, s := range f.AllCalls(false) {
					c := s.Node.(*ast.CallExpr)
					sel, ok := c.Fun.(*ast.SelectorExpr)
					if !ok || sel.Sel.Name != "Read" {
						continue
					}
					rc := f.Canon(sel.X)
					if strings.HasPrefix(rc, "$p") || strings.HasPrefix(rc, "$lit.p") || strings.HasSuffix(rc, ".conn") {
						if _, isIface := f.Info().TypeOf(sel.X).Underlying().(*types.Interface); isIface {
							o.FailAt(f.ID+"#direct-read", s.Where(), "%s reads from %s with a plain Read; a short read leaves the frame half filled", f.ID, rc)
						}
					}
				}
			}
			// the full frame, and only the full frame, reaches the cipher
			for fn, whole := range map[string]string{"brontide.Machine.ReadHeader": "$recv.nextCipherHeader[:]", "brontide.Machine.ReadBody": "$p1"} {
				f := p.Func(fn)
				rf := f.Calls(an.CalleeIs("io.ReadFull"), false)
				dec := f.Calls(an.CalleeIs(br+"cipherState.Decrypt"), false)
				if !need(o, f, "recvCipher.Decrypt", dec, 1) {
					continue
				}
				mustPass(o, f, "io.ReadFull", rf, an.OkErrNil, dec)
				for _, d := range dec {
					if a := f.ArgCanon(d); len(a) != 3 || a[2] != whole {
						o.FailAt(fn+"#decrypts-whole-frame", d.Where(), "%s decrypts %v, expected the whole frame %s", fn, a, whole)
					}
				}
				notReassigned(o, f, c11f5ParamNames(f)...)
			}
			for fn, bufs := range want {
				g := append([]string{}, got[fn]...)
				sortStrings(g)
				w := append([]string{}, bufs...)
				sortStrings(w)
				if strings.Join(g, ",") != strings.Join(w, ",") {
					o.FailAt(fn+"#read-full", "", "%s reads %v with io.ReadFull, expected %v", fn, g, w)
				}
			}
		})
}
