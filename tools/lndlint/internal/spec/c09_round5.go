package spec

import (
	"go/ast"
	"go/types"
	"sort"
	"strings"

	"lndlint/internal/an"
)

func init() { specExtras["C09"] = append(specExtras["C09"], c09r5Rules) }

// the forwarding-policy field and the edge-policy field it mirrors
var c09r5Mirror = map[string]string{
	"BaseFee":       "FeeBaseMSat",
	"FeeRate":       "FeeProportionalMillionths",
	"TimeLockDelta": "TimeLockDelta",
	"MinHTLCOut":    "MinHTLC",
	"MaxHTLC":       "MaxHTLC",
	"InboundFee":    "InboundFee",
}

func c09r5IsModels(t types.Type, name string) bool {
	n := an.NamedOf(t)
	return n != nil && n.Obj().Name() == name && n.Obj().Pkg() != nil && strings.HasSuffix(n.Obj().Pkg().Path(), "graph/db/models")
}

// c09r5Leaf is a place a value was read from: a variable and a field path.
type c09r5Leaf struct {
	obj  types.Object
	path string
}

type c09r5Tracer struct {
	root *an.Func
	info *types.Info
	seen map[types.Object]bool
	out  map[c09r5Leaf]string
}

// selPath resolves x.a.b to (object of x, ".a.b"); aliases with a unique
// definition are followed.
func (t *c09r5Tracer) selPath(e ast.Expr) (types.Object, string, bool) {
	e = an.Strip(t.info, e)
	switch x := e.(type) {
	case *ast.Ident:
		o := t.info.Uses[x]
		if o == nil {
			o = t.info.Defs[x]
		}
		if _, isVar := o.(*types.Var); !isVar {
			return nil, "", false
		}
		if d := t.root.UniqueDef(x); d != nil {
			if o2, p2, ok := t.selPath(d); ok {
				return o2, p2, true
			}
		}
		return o, "", true
	case *ast.SelectorExpr:
		if s := t.info.Selections[x]; s != nil && s.Kind() == types.FieldVal {
			if o, p, ok := t.selPath(x.X); ok {
				return o, p + "." + x.Sel.Name, true
			}
		}
	}
	return nil, "", false
}

// trace collects the leaves a value is computed from: field reads, and
// variables that are not defined in the function (parameters). Calls pass
// through their receiver and arguments; the parameter of a function literal
// handed to a method (opt.WhenSome(func(v){…})) stands for the receiver.
func (t *c09r5Tracer) trace(e ast.Expr) {
	if e == nil {
		return
	}
	e = an.Strip(t.info, e)
	switch x := e.(type) {
	case *ast.SelectorExpr:
		if o, p, ok := t.selPath(x); ok && p != "" {
			t.out[c09r5Leaf{o, p}] = an.Text(x)
			return
		}
		t.trace(x.X)
	case *ast.Ident:
		o, isVar := t.info.Uses[x].(*types.Var)
		if !isVar || o.IsField() {
			return
		}
		if o.Pkg() != nil && o.Parent() == o.Pkg().Scope() {
			t.out[c09r5Leaf{o, ""}] = x.Name
			return
		}
		if t.seen[o] {
			return
		}
		t.seen[o] = true
		rhs, _ := t.assignments(o)
		if recv := t.litParamSource(o); recv != nil {
			t.trace(recv)
			return
		}
		if len(rhs) == 0 {
			t.out[c09r5Leaf{o, ""}] = x.Name
			return
		}
		for _, r := range rhs {
			t.trace(r)
		}
	case *ast.CallExpr:
		if sel, ok := ast.Unparen(x.Fun).(*ast.SelectorExpr); ok {
			if s := t.info.Selections[sel]; s != nil {
				t.trace(sel.X)
			}
		}
		for _, a := range x.Args {
			if _, isLit := ast.Unparen(a).(*ast.FuncLit); isLit {
				continue
			}
			t.trace(a)
		}
	case *ast.CompositeLit:
		for _, el := range x.Elts {
			if kv, ok := el.(*ast.KeyValueExpr); ok {
				t.trace(kv.Value)
			} else {
				t.trace(el)
			}
		}
	case *ast.BinaryExpr:
		t.trace(x.X)
		t.trace(x.Y)
	case *ast.UnaryExpr:
		t.trace(x.X)
	case *ast.IndexExpr:
		t.trace(x.X)
	}
}

// assignments returns every expression assigned to o anywhere in the root
// function (closures included).
func (t *c09r5Tracer) assignments(o types.Object) ([]ast.Expr, bool) {
	var out []ast.Expr
	declared := false
	ast.Inspect(t.root.Body, func(n ast.Node) bool {
		switch x := n.(type) {
		case *ast.AssignStmt:
			for i, l := range x.Lhs {
				id, ok := ast.Unparen(l).(*ast.Ident)
				if !ok || (t.info.Defs[id] != o && t.info.Uses[id] != o) {
					continue
				}
				declared = true
				if len(x.Lhs) == len(x.Rhs) {
					out = append(out, x.Rhs[i])
				} else if len(x.Rhs) == 1 {
					out = append(out, x.Rhs[0])
				}
			}
		case *ast.ValueSpec:
			for i, nm := range x.Names {
				if t.info.Defs[nm] != o {
					continue
				}
				declared = true
				if i < len(x.Values) {
					out = append(out, x.Values[i])
				}
			}
		}
		return true
	})
	return out, declared
}

// litParamSource: if o is a parameter of a function literal that is an
// argument of a method call, the receiver of that call.
func (t *c09r5Tracer) litParamSource(o types.Object) ast.Expr {
	var recv ast.Expr
	ast.Inspect(t.root.Body, func(n ast.Node) bool {
		c, ok := n.(*ast.CallExpr)
		if !ok {
			return true
		}
		sel, ok := ast.Unparen(c.Fun).(*ast.SelectorExpr)
		if !ok || t.info.Selections[sel] == nil {
			return true
		}
		for _, a := range c.Args {
			fl, ok := ast.Unparen(a).(*ast.FuncLit)
			if !ok || fl.Type.Params == nil {
				continue
			}
			for _, fld := range fl.Type.Params.List {
				for _, nm := range fld.Names {
					if t.info.Defs[nm] == o {
						recv = sel.X
					}
				}
			}
		}
		return true
	})
	return recv
}

func c09r5SiteOf(fn *an.Func, node ast.Node) (an.Site, bool) {
	for _, v := range fn.Graph().V {
		found := false
		v.Inspect(false, func(n ast.Node) bool {
			if n == node {
				found = true
			}
			return !found
		})
		if found {
			return an.Site{Fn: fn, V: v, Node: node}, true
		}
	}
	return an.Site{}, false
}

// c09r5Rules: seeded change C09-i.
func c09r5Rules(r *an.Run) {
	p := r.Prog
	r.Obl("enforced-policy-mirrors-the-advertised-edge", "MIRROR",
		"a models.ForwardingPolicy that is built from a channel edge policy (the value handed to the switch after a policy update) takes every field from that one edge: BaseFee<-FeeBaseMSat, FeeRate<-FeeProportionalMillionths, TimeLockDelta<-TimeLockDelta, MinHTLCOut<-MinHTLC, MaxHTLC<-MaxHTLC, and an InboundFee computed from nothing but that edge's InboundFee; in UpdatePolicy the edge is the one updateEdge modified before and the one queued for the gossiper",
		"the link enforces the ForwardingPolicy, the network is told the edge policy: a field taken from another source (the update request, a neighbouring field, a zero value) makes the node forward for less than it advertises or reject HTLCs that pay the advertised fee", 8,
		func(o *an.Obl) {
			for _, pkg := range []string{"routing/localchans", "peer"} {
				if !p.HasPkg(pkg) {
					continue
				}
				for _, root := range p.Funcs(false, pkg) {
					if root.Parent != nil {
						continue
					}
					for _, fn := range append([]*an.Func{root}, root.Lits...) {
						c09r5Policies(o, root, fn)
					}
				}
			}
		})
}

func c09r5Policies(o *an.Obl, root, fn *an.Func) {
	info := fn.Info()
	var lits []*ast.CompositeLit
	ast.Inspect(fn.Body, func(n ast.Node) bool {
		if _, nested := n.(*ast.FuncLit); nested {
			return false
		}
		if cl, ok := n.(*ast.CompositeLit); ok && c09r5IsModels(info.TypeOf(cl), "ForwardingPolicy") {
			lits = append(lits, cl)
		}
		return true
	})
	for _, cl := range lits {
		tr := &c09r5Tracer{root: root, info: info}
		vals := map[string]ast.Expr{}
		var edge types.Object
		for _, el := range cl.Elts {
			kv, ok := el.(*ast.KeyValueExpr)
			if !ok {
				continue
			}
			k, ok := kv.Key.(*ast.Ident)
			if !ok {
				continue
			}
			vals[k.Name] = kv.Value
			if ob, path, ok := tr.selPath(kv.Value); ok && path != "" && edge == nil {
				if v, isVar := ob.(*types.Var); isVar && c09r5IsModels(v.Type(), "ChannelEdgePolicy") {
					edge = ob
				}
			}
		}
		if edge == nil {
			continue // not built from an edge policy (defaults, test helpers)
		}
		site, ok := c09r5SiteOf(fn, cl)
		if !ok {
			o.FailAt(fn.ID+"#policy-literal-not-in-graph", fn.Where(cl.Pos()), "cannot locate the ForwardingPolicy literal in the flow graph of %s", fn.ID)
			continue
		}
		keys := make([]string, 0, len(c09r5Mirror))
		for k := range c09r5Mirror {
			keys = append(keys, k)
		}
		sort.Strings(keys)
		for _, k := range keys {
			want := c09r5Mirror[k]
			v := vals[k]
			if v == nil {
				o.FailAt(fn.ID+"#policy-"+k+"-unset", fn.Where(cl.Pos()), "%s builds a ForwardingPolicy from the edge %s without setting %s: the link enforces the zero value while the edge advertises %s", fn.ID, edge.Name(), k, want)
				continue
			}
			o.Site("%s: ForwardingPolicy.%s <- %s.%s (%s)", fn.ID, k, "edge", want, fn.Where(v.Pos()))
			tr.seen, tr.out = map[types.Object]bool{}, map[c09r5Leaf]string{}
			tr.trace(v)
			if len(tr.out) == 0 {
				o.FailAt(fn.ID+"#policy-"+k+"-constant", fn.Where(v.Pos()), "%s: ForwardingPolicy.%s = %s is not read from the edge policy (expected its %s)", fn.ID, k, an.Text(v), want)
				continue
			}
			var bad []string
			for lf, txt := range tr.out {
				if lf.obj != edge || lf.path != "."+want {
					bad = append(bad, txt)
				}
			}
			sort.Strings(bad)
			if len(bad) > 0 {
				o.FailAt(fn.ID+"#policy-"+k+"-source", fn.Where(v.Pos()),
					"%s: ForwardingPolicy.%s (the value the link enforces) is computed from %s; the advertised value is %s.%s of the edge the other fields are read from — the enforced and the advertised policy can differ",
					fn.ID, k, strings.Join(bad, ", "), edge.Name(), want)
			}
		}
		// the edge is the one updateEdge modified (before) and the one that
		// is queued for the gossiper
		var upd []an.Site
		for _, s := range fn.Calls(an.CalleeNamed("updateEdge"), false) {
			upd = append(upd, s)
			c := s.Node.(*ast.CallExpr)
			if len(c.Args) < 2 {
				continue
			}
			if ob, path, ok := tr.selPath(c.Args[1]); !ok || ob != edge || path != "" {
				o.FailAt(fn.ID+"#policy-edge-is-not-the-updated-edge", s.Where(), "%s applies the new policy to %s but builds the link's ForwardingPolicy from %s", fn.ID, an.Text(c.Args[1]), edge.Name())
			}
		}
		if len(upd) > 0 {
			mustPass(o, fn, "updateEdge", upd, an.OkErrNil, []an.Site{site})
			ast.Inspect(fn.Body, func(n ast.Node) bool {
				ecl, ok := n.(*ast.CompositeLit)
				if !ok {
					return true
				}
				if nm := an.NamedOf(info.TypeOf(ecl)); nm == nil || nm.Obj().Name() != "EdgeWithInfo" {
					return true
				}
				for _, el := range ecl.Elts {
					kv, ok := el.(*ast.KeyValueExpr)
					if !ok {
						continue
					}
					if k, ok := kv.Key.(*ast.Ident); ok && k.Name == "Edge" {
						o.Site("%s: edge queued for the gossiper: %s", fn.ID, an.Text(kv.Value))
						if ob, path, ok := tr.selPath(kv.Value); !ok || ob != edge || path != "" {
							o.FailAt(fn.ID+"#policy-edge-is-not-the-announced-edge", fn.Where(kv.Value.Pos()), "%s queues %s for the gossiper but builds the link's ForwardingPolicy from %s", fn.ID, an.Text(kv.Value), edge.Name())
						}
					}
				}
				return true
			})
		}
	}
}
