package spec

import (
	"go/ast"

	"lndlint/internal/an"
)

func init() {
	register(&Spec{
		ID: "C02",
		Loads: []LoadSpec{{Patterns: []string{
			"./lnwallet", "./chanstate", "./channeldb",
		}}},
		Explanation: "Decides structural necessary conditions of crash-safety: the durable write dominates every hand-out of a signature/revocation (PATH), in-memory copies are updated only after the transaction succeeded, each transition's write set is inside one kvdb transaction and on every success path, the last-was-revoke flag constants, writer/reader agreement of the channel codecs (CODEC), every stored key is read by the restore path, and the restore entry point calls every restore step.",
		NotDecided: []string{
			"equality of the reloaded projection with the pre-crash state (needs execution)",
			"that the reloaded channel can continue with its peer",
			"atomicity of kvdb transactions themselves (trusted)",
		},
		Assumptions: commonAssumptions,
		Engines:     "PATH (must-pass-through on the flow graph), CODEC (trace agreement), TABLE, WHO",
		TagMatrix:   [][]string{{"integration"}},
		Run:         runC02,
	})
}

func runC02(r *an.Run) {
	p := r.Prog

	r.Obl("SignNextCommitment.persist-dominates-signature", "PATH",
		"MUST(channelState.AppendRemoteCommitChain ok -> every success return of SignNextCommitment) and BEFORE(it, commitChains.Remote.addCommitment); the value persisted is the diff createCommitDiff built from the view that was signed (fetchCommitmentView(Remote, ..)), and that same view is what extends the remote chain",
		"a signature handed out before the commit diff is durable cannot be retransmitted after a crash (C02, C03, C06)", 3,
		func(o *an.Obl) {
			f := p.Func("lnwallet.LightningChannel.SignNextCommitment")
			persist := f.Calls(an.CalleeIs("chanstate.OpenChannel.AppendRemoteCommitChain"), false)
			mustPass(o, f, "AppendRemoteCommitChain", persist, an.OkErrNil, f.SuccessReturns())
			add := f.Calls(an.CalleeIs("lnwallet.commitmentChain.addCommitment"), false)
			if need(o, f, "commitChains.Remote.addCommitment", add, 1) {
				mustPass(o, f, "AppendRemoteCommitChain", persist, an.OkErrNil, add)
			}
			// what is made durable is the diff built from the view that was
			// signed, and the same view then extends the in-memory chain
			c02ParamsStable(o, f)
			diff := f.Calls(an.CalleeIs(lw+"LightningChannel.createCommitDiff"), false)
			if needExactly(o, f, "createCommitDiff", diff, 1) && needExactly(o, f, "AppendRemoteCommitChain", persist, 1) && needExactly(o, f, "addCommitment", add, 1) {
				view := f.ArgCanon(diff[0])[0]
				c02ArgsAre(o, f, diff[0], "createCommitDiff", map[int]string{0: `^\$recv\.fetchCommitmentView\(lntypes\.Remote, `})
				c02ArgsAre(o, f, persist[0], "AppendRemoteCommitChain", map[int]string{0: `^\$recv\.createCommitDiff\(`})
				c02ArgsAre(o, f, add[0], "commitChains.Remote.addCommitment", map[int]string{0: "^" + regexpQuote(view) + "$"})
				if recv := f.Canon(add[0].Node.(*ast.CallExpr).Fun); recv != "$recv.commitChains.Remote.addCommitment" {
					o.FailAt(f.ID+"#extended-chain", add[0].Where(), "the signed view is added through %s, expected the remote commitment chain", recv)
				}
				mustPass(o, f, "createCommitDiff", diff, an.OkErrNil, persist)
			}
		})

	r.Obl("RevokeCurrentCommitment.persist-dominates-revocation", "PATH",
		"MUST(channelState.UpdateCommitment ok -> every success return of RevokeCurrentCommitment); UpdateCommitment is given the new tail of the local chain (tail().toDiskCommit(Local), read after the one advanceTail of the local chain) and getUnsignedAckedUpdates()",
		"a revocation released before the new local commitment is durable lets a reload broadcast a revoked state", 2,
		func(o *an.Obl) {
			f := p.Func("lnwallet.LightningChannel.RevokeCurrentCommitment")
			persist := f.Calls(an.CalleeIs("chanstate.OpenChannel.UpdateCommitment"), false)
			mustPass(o, f, "UpdateCommitment", persist, an.OkErrNil, f.SuccessReturns())
			// the commitment made durable is the new tail of the local chain
			// (after advanceTail) together with the acked updates still to sign
			if needExactly(o, f, "UpdateCommitment", persist, 1) {
				c02ArgsAre(o, f, persist[0], "UpdateCommitment", map[int]string{
					0: `^\$recv\.commitChains\.Local\.tail\(\)\.toDiskCommit\(lntypes\.Local\)$`,
					1: `^\$recv\.getUnsignedAckedUpdates\(\)$`,
				})
				adv := f.Calls(an.CalleeIs(lw+"commitmentChain.advanceTail"), false)
				if needExactly(o, f, "commitChains.Local.advanceTail", adv, 1) {
					if recv := f.Canon(adv[0].Node.(*ast.CallExpr).Fun); recv != "$recv.commitChains.Local.advanceTail" {
						o.FailAt(f.ID+"#advanced-chain", adv[0].Where(), "RevokeCurrentCommitment advances %s, expected the local chain", recv)
					}
					// tail() is read after the tail was advanced
					for _, tl := range f.Calls(an.CalleeIs(lw+"commitmentChain.tail"), false) {
						if !f.Before([]an.Site{tl}, persist[0]) || f.Before([]an.Site{tl}, adv[0]) {
							continue // the trace statement before the advance
						}
						before(o, f, "commitChains.Local.advanceTail", adv, "the tail() that is persisted", []an.Site{tl})
					}
				}
			}
		})

	r.Obl("ReceiveRevocation.persist-dominates-advance", "PATH",
		"MUST(channelState.AdvanceCommitChainTailWithRevocation ok -> commitChains.Remote.advanceTail and every success return); that call is given the secret of the message (NewHash(revMsg.Revocation)), the message's NextRevocationKey, the forwarding package built for this revocation, unsignedLocalUpdates(remote tip's local index, local tail's local index) and the two output indexes found on the revoked commitment; ReceiveRevocation itself neither adds to the revocation store nor assigns the remote revocation points nor calls the store transition directly; OpenChannel.AdvanceCommitChainTailWithRevocation takes the channel mutex once (released by defer only), refuses restored channels, and below the lock does, in this order and each exactly once: RevocationStore.AddNextEntry(secret parameter) whose failure leaves before anything else changes, RemoteCurrentRevocation = RemoteNextRevocation, RemoteNextRevocation = the point parameter, Db.AdvanceCommitChainTail(c, the package, the updates, the two indexes) whose result is what every non-failing return hands out",
		"advancing the in-memory remote chain before the revocation is durable desynchronises memory and disk; a secret or point that changes in memory outside the step that persists it (or after a failed insertion) is replaced by a reload or persisted next to a commitment it does not belong to", 30,
		func(o *an.Obl) {
			f := p.Func("lnwallet.LightningChannel.ReceiveRevocation")
			persist := f.Calls(an.CalleeIs("chanstate.OpenChannel.AdvanceCommitChainTailWithRevocation"), false)
			adv := f.Calls(an.CalleeIs("lnwallet.commitmentChain.advanceTail"), false)
			if need(o, f, "commitChains.Remote.advanceTail", adv, 1) {
				mustPass(o, f, "AdvanceCommitChainTailWithRevocation", persist, an.OkErrNil, adv)
			}
			mustPass(o, f, "AdvanceCommitChainTailWithRevocation", persist, an.OkErrNil, f.SuccessReturns())
			// what is made durable: the secret and the next point of this
			// message, the forwarding package built for this
			// revocation, our updates the peer still has to sign (bounds of
			// unsignedLocalUpdates: remote tip's and local tail's local index)
			// and the output indexes found on the revoked commitment
			c02ParamsStable(o, f)
			if needExactly(o, f, "AdvanceCommitChainTailWithRevocation", persist, 1) {
				c02ArgsAre(o, f, persist[0], "AdvanceCommitChainTailWithRevocation", map[int]string{
					0: `(^|[./])chainhash(/v2)?\.NewHash\(\$p0\.Revocation\[:\]\)$`,
					1: `^\$p0\.NextRevocationKey$`,
					2: `^channeldb\.NewFwdPkg\(`,
					3: `^\$recv\.unsignedLocalUpdates\(\$recv\.commitChains\.Remote\.tip\(\)\.messageIndices\.Local, \$recv\.commitChains\.Local\.tail\(\)\.messageIndices\.Local\)$`,
					4: `^lnwallet\.findOutputIndexesFromRemote\(.*\)$`,
					5: `^lnwallet\.findOutputIndexesFromRemote\(.*\)#1$`,
				})
				if recv := f.Canon(persist[0].Node.(*ast.CallExpr).Fun); recv != "$recv.channelState.AdvanceCommitChainTailWithRevocation" {
					o.FailAt(f.ID+"#persisted-channel", persist[0].Where(), "ReceiveRevocation persists through %s, expected the channel's own state", recv)
				}
				if needExactly(o, f, "commitChains.Remote.advanceTail", adv, 1) {
					if recv := f.Canon(adv[0].Node.(*ast.CallExpr).Fun); recv != "$recv.commitChains.Remote.advanceTail" {
						o.FailAt(f.ID+"#advanced-chain", adv[0].Where(), "ReceiveRevocation advances %s, expected the remote chain", recv)
					}
				}
			}
			// the revocation state changes in the persisting step only
			point := an.Or(an.Field("chanstate.OpenChannel", "RemoteCurrentRevocation", nil), an.Field("chanstate.OpenChannel", "RemoteNextRevocation", nil),
				an.Field("chanstate.OpenChannel", "RevocationStore", nil))
			for _, fn := range append([]*an.Func{f}, f.Lits...) {
				for _, s := range fn.Assigns(c02StoredInto(point), false) {
					o.FailAt(f.ID+"#rotates-outside-the-persisting-step", s.Where(), "ReceiveRevocation changes the remote revocation state itself (%s): the change is not covered by the lock and the write of AdvanceCommitChainTailWithRevocation", s.String())
				}
				for _, s := range fn.Calls(an.CalleeNamed("AddNextEntry"), false) {
					o.FailAt(f.ID+"#stores-outside-the-persisting-step", s.Where(), "ReceiveRevocation adds to the revocation store itself (%s): the insertion is not covered by the lock and the write of AdvanceCommitChainTailWithRevocation", s.String())
				}
				for _, s := range fn.Calls(an.CalleeNamed("AdvanceCommitChainTail"), false) {
					o.FailAt(f.ID+"#second-persist", s.Where(), "ReceiveRevocation also calls %s: the remote chain is advanced on disk once per revocation, together with the secret", s.String())
				}
			}

			// the persisting step of the channel state
			g := p.Func("chanstate.OpenChannel.AdvanceCommitChainTailWithRevocation")
			c02ParamsStable(o, g)
			locks := g.Calls(an.CalleeNamed("Lock", "RLock"), true)
			unlocks := g.Calls(an.CalleeNamed("Unlock", "RUnlock"), true)
			add := g.Calls(an.CalleeNamed("AddNextEntry"), true)
			store := g.Calls(an.CalleeNamed("AdvanceCommitChainTail"), true)
			cur := g.Assigns(c02StoredInto(an.Field("chanstate.OpenChannel", "RemoteCurrentRevocation", nil)), true)
			next := g.Assigns(c02StoredInto(an.Field("chanstate.OpenChannel", "RemoteNextRevocation", nil)), true)
			if len(g.Lits) > 0 {
				o.FailAt(g.ID+"#closures", g.Where(g.Body.Pos()), "%s contains %d function literals; its steps are expected in the method body, under the lock", g.ID, len(g.Lits))
			}
			if !needExactly(o, g, "c.Lock()", locks, 1) || !needExactly(o, g, "c.Unlock()", unlocks, 1) ||
				!needExactly(o, g, "RevocationStore.AddNextEntry", add, 1) || !needExactly(o, g, "Db.AdvanceCommitChainTail", store, 1) ||
				!needExactly(o, g, "assignment of RemoteCurrentRevocation", cur, 1) || !needExactly(o, g, "assignment of RemoteNextRevocation", next, 1) {
				return
			}
			for what, s := range map[string]an.Site{"Lock": locks[0], "Unlock": unlocks[0]} {
				if recv := g.Canon(s.Node.(*ast.CallExpr).Fun); recv != "$recv."+what {
					o.FailAt(g.ID+"#mutex-"+what, s.Where(), "%s calls %s, expected the channel's own mutex ($recv.%s)", g.ID, recv, what)
				}
			}
			if !c07IsDeferredCall(g, unlocks[0].Node.(*ast.CallExpr)) {
				o.FailAt(g.ID+"#explicit-unlock", unlocks[0].Where(), "%s releases the channel mutex by an explicit call (%s): the steps after it are not covered", g.ID, unlocks[0].String())
			}
			if c07IsDeferredCall(g, locks[0].Node.(*ast.CallExpr)) {
				o.FailAt(g.ID+"#deferred-lock", locks[0].Where(), "%s defers taking the channel mutex", g.ID)
			}
			steps := []struct {
				what string
				s    an.Site
			}{{"RevocationStore.AddNextEntry", add[0]}, {"RemoteCurrentRevocation = …", cur[0]}, {"RemoteNextRevocation = …", next[0]}, {"Db.AdvanceCommitChainTail", store[0]}}
			restored := an.Truth(an.CallNamed("hasChanStatus", an.Recv(), an.PkgVar("chanstate", "ChanStatusRestored")), false, "!hasChanStatus(ChanStatusRestored)")
			for i, st := range steps {
				before(o, g, "c.Lock()", locks, st.what, []an.Site{st.s})
				guarded(o, g, st.s, restored)
				if i > 0 {
					before(o, g, steps[i-1].what, []an.Site{steps[i-1].s}, st.what, []an.Site{st.s})
				}
			}
			// a refused secret changes nothing
			mustPass(o, g, "RevocationStore.AddNextEntry", add, an.OkErrNil, []an.Site{cur[0], next[0], store[0]})
			mustPass(o, g, "Db.AdvanceCommitChainTail", store, an.OkErrNil, g.SuccessReturns())
			if recv := g.Canon(add[0].Node.(*ast.CallExpr).Fun); recv != "$recv.RevocationStore.AddNextEntry" {
				o.FailAt(g.ID+"#store", add[0].Where(), "the secret is added through %s, expected the channel's RevocationStore", recv)
			}
			c02ArgsAre(o, g, add[0], "AddNextEntry", map[int]string{0: `^\$p0$`})
			if recv := g.Canon(store[0].Node.(*ast.CallExpr).Fun); recv != "$recv.Db.AdvanceCommitChainTail" {
				o.FailAt(g.ID+"#db", store[0].Where(), "the transition is written through %s, expected the channel's Db", recv)
			}
			c02ArgsAre(o, g, store[0], "Db.AdvanceCommitChainTail", map[int]string{0: `^\$recv$`, 1: `^\$p2$`, 2: `^\$p3$`, 3: `^\$p4$`, 4: `^\$p5$`})
			for _, pr := range []struct {
				s          an.Site
				lhs, rhs   string
				whatIsThat string
			}{
				{cur[0], "$recv.RemoteCurrentRevocation", "$recv.RemoteNextRevocation", "the point that was next"},
				{next[0], "$recv.RemoteNextRevocation", "$p1", "the point parameter"},
			} {
				as, ok := pr.s.Node.(*ast.AssignStmt)
				if !ok || len(as.Lhs) != 1 || len(as.Rhs) != 1 || as.Tok.String() != "=" {
					o.FailAt(g.ID+"#rotation-shape", pr.s.Where(), "%s: expected a plain assignment of one revocation point", pr.s.String())
					continue
				}
				l, r := g.Canon(as.Lhs[0]), g.Canon(as.Rhs[0])
				o.Site("%s: %s <- %s", g.ID, l, r)
				if l != pr.lhs || r != pr.rhs {
					o.FailAt(g.ID+"#rotation-"+pr.lhs, pr.s.Where(), "%s assigns %s <- %s, expected %s <- %s (%s)", g.ID, l, r, pr.lhs, pr.rhs, pr.whatIsThat)
				}
			}
		})

	r.Obl("memory-after-disk", "PATH",
		"OpenChannel.UpdateCommitment assigns c.LocalCommitment only after Db.UpdateChannelCommitment ok, and assigns the commitment it handed to the store; ChannelStateDB.AdvanceCommitChainTail assigns channel.RemoteCommitment (or any part of it) exactly once, after its kvdb.Update ok and never inside the transaction closure, from the Commitment of the diff read under commitDiffKey in that transaction; no other non-test function writes the two commitments or a part of them (the funding flow fills parts of the not yet persisted partialState); the four OpenChannel wrappers (UpdateCommitment, AppendRemoteCommitChain, AdvanceCommitChainTail, AdvanceCommitChainTailWithRevocation) refuse restored channels and delegate to the store",
		"the in-memory commitment is what ForceClose broadcasts; it must never run ahead of disk", 8,
		func(o *an.Obl) {
			f := p.Func("chanstate.OpenChannel.UpdateCommitment")
			persist := f.Calls(an.CalleeNamed("UpdateChannelCommitment"), false)
			asg := f.Assigns(an.Field("chanstate.OpenChannel", "LocalCommitment", nil), false)
			if need(o, f, "assignment of LocalCommitment", asg, 1) {
				mustPass(o, f, "Db.UpdateChannelCommitment", persist, an.OkErrNil, asg)
			}
			asg0 := asg
			mustPass(o, f, "Db.UpdateChannelCommitment", persist, an.OkErrNil, f.SuccessReturns())

			g := p.Func("channeldb.ChannelStateDB.AdvanceCommitChainTail")
			upd := g.Calls(kvUpdate, false)
			// also the writes inside the transaction closure and writes to a
			// part of the commitment: a closure can be run again or rolled back
			asg = g.Assigns(c02StoredInto(an.Field("chanstate.OpenChannel", "RemoteCommitment", nil)), true)
			if needExactly(o, g, "assignment of RemoteCommitment", asg, 1) {
				mustPass(o, g, "kvdb.Update", upd, an.OkErrNil, asg)
				// the value is the commitment of the diff read in the transaction
				if as, ok := asg[0].Node.(*ast.AssignStmt); ok && len(as.Rhs) == 1 {
					rhs := as.Rhs[0]
					if st, ok := ast.Unparen(rhs).(*ast.StarExpr); ok {
						rhs = st.X
					}
					obj := c02ObjOf(g, rhs)
					cl := theLit(g, kvUpdate, "kvdb.Update")
					var forms []string
					for _, s := range cl.Assigns(func(fn *an.Func, e ast.Expr) bool { return obj != nil && c02ObjOf(fn, e) == obj }, false) {
						if a, ok := s.Node.(*ast.AssignStmt); ok && len(a.Rhs) == 1 {
							forms = append(forms, cl.Canon(a.Rhs[0]))
						}
					}
					o.Site("RemoteCommitment <- %s <- %v", an.Text(as.Rhs[0]), forms)
					if len(forms) != 1 || !reMatch(`^&channeldb\.deserializeCommitDiff\(bytes\.NewReader\(.*\.Get\(channeldb\.commitDiffKey\)\)\)\.Commitment$`, forms[0]) {
						o.FailAt(g.ID+"#new-remote-commitment", asg[0].Where(), "the in-memory RemoteCommitment is set from %v, expected the Commitment of the commit diff read under commitDiffKey in the same transaction", forms)
					}
				}
			}
			for _, s := range f.Assigns(c02StoredInto(an.Field("chanstate.OpenChannel", "LocalCommitment", nil)), true) {
				found := false
				for _, a := range asg0 {
					found = found || a.Node == s.Node
				}
				if !found {
					o.FailAt(f.ID+"#writes-LocalCommitment", s.Where(), "%s writes (a part of) LocalCommitment at %s, which is not the assignment after the store write", f.ID, s.String())
				}
			}
			if len(asg0) == 1 {
				if as, ok := asg0[0].Node.(*ast.AssignStmt); ok && len(as.Rhs) == 1 {
					c := f.Canon(as.Rhs[0])
					o.Site("LocalCommitment <- %s", c)
					if c != "*$p0" {
						o.FailAt(f.ID+"#new-local-commitment", asg0[0].Where(), "the in-memory LocalCommitment is set to %s, expected the commitment handed to the store", c)
					}
					c02ArgsAre(o, f, persist[0], "Db.UpdateChannelCommitment", map[int]string{0: `^\$recv$`, 1: `^\$p0$`, 2: `^\$p1$`})
					c02ParamsStable(o, f)
				}
			}
			// writers of the two in-memory commitments in non-test code of the
			// three packages
			for _, fld := range []string{"LocalCommitment", "RemoteCommitment"} {
				allowed := map[string]bool{
					"chanstate.OpenChannel.UpdateCommitment":          true, // after the store write (above)
					"channeldb.ChannelStateDB.AdvanceCommitChainTail": true, // after the transaction (above)
					"channeldb.fetchChanCommitments":                  true, // restore from disk
					"chanstate.OpenChannel.Copy":                      true, // deep copy of a snapshot
				}
				for _, fn := range p.Funcs(false, "chanstate", "channeldb", "lnwallet") {
					if fn.Lit != nil {
						continue
					}
					for _, s := range fn.Assigns(c02StoredInto(an.Field("chanstate.OpenChannel", fld, nil)), true) {
						o.Site("writer of OpenChannel.%s: %s", fld, s.String())
						// the funding flow fills in parts of the commitments of
						// the reservation's partial state, which is not on disk
						// (and not a channel) before SyncPending
						if as, ok := s.Node.(*ast.AssignStmt); ok && len(as.Lhs) == 1 && len(fn.Assigns(an.Field("chanstate.OpenChannel", fld, nil), true)) == 0 &&
							reMatch(`^lnwallet\.LightningWallet\.handle(ChanPointReady|FundingCounterPartySigs|SingleFunderSigs)$`, fn.ID) &&
							reMatch(`\.partialState\.`+fld+`\.[A-Za-z]+$`, fn.Canon(as.Lhs[0])) {
							continue
						}
						if !allowed[fn.ID] {
							o.FailAt(fn.ID+"#writes-"+fld, s.Where(), "%s assigns OpenChannel.%s; only the persist-then-assign functions and the restore path may", fn.ID, fld)
						}
					}
				}
			}
			for _, w := range []struct{ fn, store string }{
				{"chanstate.OpenChannel.UpdateCommitment", "UpdateChannelCommitment"},
				{"chanstate.OpenChannel.AppendRemoteCommitChain", "AppendRemoteCommitChain"},
				{"chanstate.OpenChannel.AdvanceCommitChainTail", "AdvanceCommitChainTail"},
				{"chanstate.OpenChannel.AdvanceCommitChainTailWithRevocation", "AdvanceCommitChainTail"},
			} {
				wf := p.Func(w.fn)
				calls := wf.Calls(an.CalleeNamed(w.store), false)
				if !need(o, wf, "Db."+w.store, calls, 1) {
					continue
				}
				restored := an.Truth(an.CallNamed("hasChanStatus", nil, an.PkgVar("chanstate", "ChanStatusRestored")), false, "!hasChanStatus(ChanStatusRestored)")
				guardedAll(o, wf, calls, restored)
			}
		})

	commitStoreTransactions(r)

	r.Obl("restore-calls-every-step", "PATH",
		"NewLightningChannel succeeds only after restoreCommitState ok; restoreCommitState succeeds only after reading RemoteCommitChainTip, UnsignedAckedUpdates, RemoteUnsignedLocalUpdates and restoreStateLogs ok; restoreStateLogs succeeds only after restorePendingRemoteUpdates ok and restorePeerLocalUpdates ok, and restores the peer-unsigned local updates before the pending diff's local updates (log-index order of the local log); restorePendingLocalUpdates is called whenever a pending remote commit exists; a failed RemoteCommitChainTip read is handed out unless it is ErrNoPendingCommit; every step receives the value its role names: the three diskCommitToMemCommit calls (party, disk commitment, commit points), the chain each converted commitment is added to (pending one last, and always when a pending diff exists), the arguments of restoreStateLogs and of the three log restorers (update list, commitment height), and the log each commitment's HTLCs are restored into",
		"a restore step that is skipped drops updates that were covered by a signature", 12,
		func(o *an.Obl) {
			f := p.Func("lnwallet.NewLightningChannel")
			mustPass(o, f, "restoreCommitState", f.Calls(an.CalleeIs("lnwallet.LightningChannel.restoreCommitState"), false), an.OkErrNil, f.SuccessReturns())
			g := p.Func("lnwallet.LightningChannel.restoreCommitState")
			for _, name := range []string{"UnsignedAckedUpdates", "RemoteUnsignedLocalUpdates"} {
				mustPass(o, g, name, g.Calls(an.CalleeIs("chanstate.OpenChannel."+name), false), an.OkErrNil, g.SuccessReturns())
			}
			tip := g.Calls(an.CalleeIs("chanstate.OpenChannel.RemoteCommitChainTip"), false)
			before(o, g, "RemoteCommitChainTip", tip, "success return", g.SuccessReturns())
			mustPass(o, g, "restoreStateLogs", g.Calls(an.CalleeIs("lnwallet.LightningChannel.restoreStateLogs"), false), an.OkErrNil, g.SuccessReturns())
			// both commitments are converted and inserted
			conv := g.Calls(an.CalleeIs("lnwallet.LightningChannel.diskCommitToMemCommit"), false)
			if len(conv) < 3 {
				o.FailAt(g.ID+"#diskCommitToMemCommit-count", g.Where(g.Body.Pos()), "expected 3 diskCommitToMemCommit calls (local, remote, pending remote), found %d", len(conv))
			}
			for _, c := range conv {
				o.Site("%s", c.String())
			}
			h := p.Func("lnwallet.LightningChannel.restoreStateLogs")
			mustPass(o, h, "restorePendingRemoteUpdates", h.Calls(an.CalleeIs("lnwallet.LightningChannel.restorePendingRemoteUpdates"), false), an.OkErrNil, h.SuccessReturns())
			mustPass(o, h, "restorePeerLocalUpdates", h.Calls(an.CalleeIs("lnwallet.LightningChannel.restorePeerLocalUpdates"), false), an.OkErrNil, h.SuccessReturns())
			// restorePendingLocalUpdates on every path on which the pending
			// commit is non-nil: success returns are unreachable once both
			// the `pending == nil` edge and the ok edges of the call are cut.
			pl := h.Calls(an.CalleeIs("lnwallet.LightningChannel.restorePendingLocalUpdates"), false)
			// the local log is rebuilt in log-index order: the updates the peer
			// still has to sign for (lower indexes) before the pending diff's
			if pe := h.Calls(an.CalleeIs("lnwallet.LightningChannel.restorePeerLocalUpdates"), false); len(pe) > 0 && len(pl) > 0 {
				before(o, h, "restorePeerLocalUpdates", pe, "restorePendingLocalUpdates", pl)
				mustPass(o, h, "restorePeerLocalUpdates", pe, an.OkErrNil, pl)
			}
			if need(o, h, "restorePendingLocalUpdates", pl, 1) {
				es, _ := h.UnionOk(pl, an.OkErrNil)
				params := h.Params(false)
				var pend an.Term = an.Param(2)
				_ = params
				for e := range h.EdgesOf(an.IsNil(pend, true, "pendingRemoteCommit == nil")) {
					es[e] = true
				}
				for _, t := range h.SuccessReturns() {
					o.Site("target %s", t.String())
					// direct return of restorePeerLocalUpdates is a tail: fine
					if bad := h.MustPass([]an.Site{t}, es); len(bad) > 0 {
						o.FailAt(constructOf(h, t)+"<-restorePendingLocalUpdates", t.Where(), "with a pending remote commitment, %s", bad[0])
					}
				}
			}
			c02RestoreRoles(o, p)
		})

	codecC02(r)
	windowDiscipline(r)
	modifiedMarkerDiscipline(r)
	persistRestoreKindAgreement(r)
	statusWriters(r)
	c02DiskCopyIntact(r)
	retrySafeClosures(r, []string{"channeldb", "chanstate"}, `^channeldb\.(ChannelStateDB|ChannelPackager|SwitchPackager)\.|^chanstate\.`, 20, "the channel store's transitions run as kvdb transactions; on the SQL and etcd backends a transaction that hits a serialisation failure is run again, and a closure that continues from the aborted run's value writes a different state than the one it was asked to (C02: the reloaded state is the pre-crash state)")
}
