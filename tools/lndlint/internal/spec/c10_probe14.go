package spec

import (
	"go/ast"
	"go/token"
	"go/types"
	"strings"

	"lndlint/internal/an"
	"lndlint/internal/flow"
)

func init() {
	specExtras["C10"] = append(specExtras["C10"], c10RecordLengths)
}

// c10RecordLengths: the length of a TLV record and the width of a decoded
// position are honoured (repairs 9bf2239, 31624a4, a213add, 4c380f2).
func c10RecordLengths(r *an.Run) {
	p := r.Prog
	r.Obl("variable-size-values-fill-their-record-and-positions-fit-their-type", "GUARD",
		"every use of tlv.DBigSize inside tlv and lnwire is a call in a decoder that, after the call succeeded, returns success only where VarIntSize of the decoded value was compared equal to the record length l (it is never stored as a record's decoder directly); DBigSize narrows the value read to uint32 only below a comparison showing that the narrowing loses nothing; every make / io.CopyN size in package tlv is a constant, derived from a narrow value, from len() of held data, clamped or dominated by an upper-bound comparison (for make: a bound of at most 128 KB; the incremental reader of oversized values is tabled); ReadElement reads a ShortChannelID with a single io.ReadFull of 8 bytes; RawFeatureVector.decode sets a bit only below a comparison of its position with math.MaxUint16",
		"DBigSize reads one BigSize whatever l says: a record shorter or longer than its value shifts the rest of the stream; a silently truncated value decodes to a different number; a length of 2^64-1 panics in makeslice on the non-p2p path; three partial reads make a cut-off ID look like the regular end of a zlib list; FeatureBit is 16 bits wide, position 65536 wraps onto bit 0", 8,
		func(o *an.Obl) {
			// 1. users of DBigSize
			users := map[string]bool{}
			for _, fn := range p.Funcs(false, "tlv", "lnwire") {
				callFuns := map[ast.Node]bool{}
				ast.Inspect(fn.Body, func(n ast.Node) bool {
					if c, ok := n.(*ast.CallExpr); ok {
						callFuns[ast.Unparen(c.Fun)] = true
						if se, ok := ast.Unparen(c.Fun).(*ast.SelectorExpr); ok {
							callFuns[se.Sel] = true
						}
					}
					return true
				})
				ast.Inspect(fn.Body, func(n ast.Node) bool {
					id, ok := n.(*ast.Ident)
					if !ok || id.Name != "DBigSize" {
						return true
					}
					fo, ok := fn.Info().Uses[id].(*types.Func)
					if !ok || an.FuncID(fo) != "tlv.DBigSize" {
						return true
					}
					users[fn.Root().ID] = true
					if !callFuns[id] {
						o.FailAt(fn.Root().ID+"#bigsize-decoder-used-directly", fn.Where(id.Pos()), "tlv.DBigSize is used as a value in %s: as a record's decoder it ignores the record length", fn.Root().ID)
					}
					return true
				})
			}
			o.Site("functions calling tlv.DBigSize: %v", c10KeysOf(users))
			if len(users) < 2 {
				o.FailAt("tlv.DBigSize#users", "", "expected at least the two decoders built on DBigSize (tlv.dBigSizeRecord, lnwire.decodeMilliSatoshis), found %v", c10KeysOf(users))
			}
			for id := range users {
				f := p.Func(id)
				calls := f.Calls(an.CalleeIs("tlv.DBigSize"), true)
				for _, c := range calls {
					fn := c.Fn
					lparam := -1
					for i, v := range fn.Root().Params(false) {
						if v != nil && v.Name() == "l" {
							lparam = i
						}
					}
					if lparam < 0 {
						o.FailAt(id+"#record-length-parameter", c.Where(), "%s calls tlv.DBigSize but has no record length parameter to compare with", id)
						continue
					}
					size := an.Or(canonTerm(`VarIntSize\(`), an.LocalNamed("size"))
					fact := an.Cmp(size, an.EQ, an.Param(lparam), "VarIntSize(value) == l")
					after := fn.Graph().Reach(c.V, nil, nil)
					n := 0
					for _, s := range fn.StrictSuccessReturns() {
						if !after[s.V] {
							continue
						}
						n++
						guarded(o, fn, s, fact)
					}
					if n == 0 {
						o.FailAt(id+"#success-after-bigsize", c.Where(), "no success return after the DBigSize call of %s", id)
					}
					// a local named size is only ever the VarIntSize of the value
					for _, w := range fn.Assigns(an.LocalNamed("size"), false) {
						as, ok := w.Node.(*ast.AssignStmt)
						if ok && len(as.Rhs) == 1 && !strings.Contains(fn.Canon(as.Rhs[0]), "VarIntSize(") {
							o.FailAt(id+"#size-origin", w.Where(), "the size compared with the record length is %s, expected VarIntSize of the decoded value", an.Text(as.Rhs[0]))
						}
					}
				}
			}

			// 2. no silent truncation in DBigSize
			d := p.Func("tlv.DBigSize")
			lossless := an.Fact{Desc: "uint64(uint32(v)) == v", Hold: func(f *an.Func, e *flow.Edge) bool {
				if e.From.Kind != flow.KCond {
					return false
				}
				be, ok := ast.Unparen(e.From.Node.(ast.Expr)).(*ast.BinaryExpr)
				if !ok || (be.Op != token.NEQ && be.Op != token.EQL) {
					return false
				}
				if (be.Op == token.NEQ) != (e.Kind == flow.EFalse) {
					return false
				}
				x, y := an.Text(be.X), an.Text(be.Y)
				return x == "uint64(uint32("+y+"))" || y == "uint64(uint32("+x+"))"
			}}
			nNarrow := 0
			for _, v := range d.Graph().V {
				as, ok := v.Node.(*ast.AssignStmt)
				if !ok || len(as.Rhs) != 1 {
					continue
				}
				c, ok := as.Rhs[0].(*ast.CallExpr)
				if !ok || an.Text(c.Fun) != "uint32" || len(c.Args) != 1 {
					continue
				}
				nNarrow++
				guarded(o, d, an.Site{Fn: d, V: v, Node: as}, lossless)
			}
			if nNarrow != 1 {
				o.FailAt(d.ID+"#narrowing-sites", d.Where(d.Body.Pos()), "expected one narrowing assignment in DBigSize, found %d", nNarrow)
			}

			// 3. allocation sizes in tlv
			tabled := map[string]string{
				"tlv.dLargeVarBytes#copyn": "reads a value longer than MaxRecordSize piece by piece into a growing buffer: memory follows the bytes delivered, not l; l <= MaxInt64 is checked first",
			}
			nSites := 0
			for _, f := range p.Funcs(false, "tlv") {
				for _, s := range f.SizeSites() {
					if s.Kind == "slice" {
						continue
					}
					nSites++
					site := an.Site{Fn: f, V: s.V, Node: s.Node}
					cls := s.Class
					if _, ok := f.ClampBound(site, s.Size); ok {
						cls = "clamped"
					}
					o.Site("%s %s %s: %s [%s]", cls, s.Kind, f.ID, an.Text(s.Node), s.Why)
					key := f.Root().ID + "#" + strings.ToLower(s.Kind)
					if cls == "guarded" && s.Kind == "make" {
						if ub, ok := f.UpperBoundConst(site, s.Size); !ok || ub > 1<<17 {
							cls = "guarded-too-wide"
							s.Why = "upper bound " + itoa(int(ub)) + " is no allocation bound"
						}
					}
					switch cls {
					case "const", "narrow", "len", "guarded", "clamped":
					default:
						if _, ok := tabled[key]; ok {
							continue
						}
						o.FailAt(key+":"+an.Text(s.Size), site.Where(), "%s in %s: the size %s (%s) comes from the stream and is bounded neither by type, by a clamp nor by a dominating comparison: a length field of 2^64-1 panics or allocates what it claims", an.Text(s.Node), f.Root().ID, an.Text(s.Size), s.Why)
					}
				}
			}
			if nSites < 3 {
				o.FailAt("tlv#size-sites", "", "expected at least 3 allocation / copy sizes in package tlv, found %d", nSites)
			}

			// 4. ShortChannelID read in one piece
			re := p.Func("lnwire.ReadElement")
			types_, clauses := re.TypeSwitchCases()
			found := false
			for i, cl := range clauses {
				for _, t := range types_[i] {
					if _, isPtr := t.(*types.Pointer); !isPtr || an.TypeID(t) != "lnwire.ShortChannelID" {
						continue
					}
					found = true
					var reads []*ast.CallExpr
					ast.Inspect(cl, func(n ast.Node) bool {
						if c, ok := n.(*ast.CallExpr); ok && an.CalleeID(re.Info(), c) == "io.ReadFull" {
							reads = append(reads, c)
						}
						return true
					})
					o.Site("ReadElement *ShortChannelID: %d io.ReadFull calls", len(reads))
					if len(reads) != 1 {
						o.FailAt(re.ID+"#scid-reads", re.Where(cl.Pos()), "a ShortChannelID is read with %d io.ReadFull calls: a stream cut off between two of them ends with a bare io.EOF, which list decoders take for the regular end", len(reads))
					} else if n, ok := staticSliceLen(re, reads[0].Args[1]); !ok || n != 8 {
						o.FailAt(re.ID+"#scid-read-size", re.Where(reads[0].Pos()), "the ShortChannelID read takes %s (%d bytes, known=%v), expected 8", an.Text(reads[0].Args[1]), n, ok)
					}
				}
			}
			if !found {
				o.FailAt(re.ID+"#scid-case", re.Where(re.Body.Pos()), "ReadElement has no case for *ShortChannelID")
			}

			// 5. feature positions
			fd := p.Func("lnwire.RawFeatureVector.decode")
			sets := fd.Calls(an.CalleeIs("lnwire.RawFeatureVector.Set"), false)
			if need(o, fd, "fv.Set", sets, 1) {
				for _, s := range sets {
					a := fd.ArgCanon(s)
					ce, ok := callArg(s, 0).(*ast.CallExpr)
					if !ok || len(ce.Args) != 1 {
						o.FailAt(fd.ID+"#set-argument", s.Where(), "decode sets %s, expected the conversion of the bit position", a[0])
						continue
					}
					guarded(o, fd, s, an.Cmp(an.TextIs(an.Text(ce.Args[0])), an.LE, canonTerm(`^math\.MaxUint16$|^65535$`), "position <= math.MaxUint16"))
				}
			}
		})
}

func c10KeysOf(m map[string]bool) []string {
	var out []string
	for k := range m {
		out = append(out, k)
	}
	sortStrings(out)
	return out
}
