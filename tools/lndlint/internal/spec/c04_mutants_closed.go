package spec

// Reported gaps (tools/scripts/gaps/advB-report.md, section C04) that the
// obligations report since they were completed.
func init() {
	registry["C04"].Mutants = append(registry["C04"].Mutants, []Mutant{
		{Name: "closed-obfuscator-dual-funder-compare-flipped", File: "lnwallet/wallet.go",
			Old:    "\t\tswitch bytes.Compare(ourSer, theirSer) {",
			New:    "\t\tswitch bytes.Compare(theirSer, ourSer) {",
			Expect: "state-hint-obfuscator-order"},
		{Name: "closed-obfuscator-dual-funder-serialisations-exchanged", File: "lnwallet/wallet.go",
			Old:    "\t\tourSer := ourContribution.PaymentBasePoint.PubKey.SerializeCompressed()\n\t\ttheirSer := theirContribution.PaymentBasePoint.PubKey.SerializeCompressed()",
			New:    "\t\tourSer := theirContribution.PaymentBasePoint.PubKey.SerializeCompressed()\n\t\ttheirSer := ourContribution.PaymentBasePoint.PubKey.SerializeCompressed()",
			Expect: "state-hint-obfuscator-order"},
		{Name: "closed-obfuscator-fundee-multisig-keys", File: "lnwallet/wallet.go",
			Old:    "\t\tpendingReservation.theirContribution.PaymentBasePoint.PubKey,\n\t\tpendingReservation.ourContribution.PaymentBasePoint.PubKey,\n\t)\n\terr = initStateHints(",
			New:    "\t\tpendingReservation.theirContribution.MultiSigKey.PubKey,\n\t\tpendingReservation.ourContribution.MultiSigKey.PubKey,\n\t)\n\terr = initStateHints(",
			Expect: "state-hint-obfuscator-order"},
		{Name: "closed-obfuscator-restore-multisig-keys", File: "lnwallet/commitment.go",
			Old:    "\t\treturn DeriveStateHintObfuscator(\n\t\t\tstate.LocalChanCfg.PaymentBasePoint.PubKey,\n\t\t\tstate.RemoteChanCfg.PaymentBasePoint.PubKey,",
			New:    "\t\treturn DeriveStateHintObfuscator(\n\t\t\tstate.LocalChanCfg.MultiSigKey.PubKey,\n\t\t\tstate.RemoteChanCfg.MultiSigKey.PubKey,",
			Expect: "state-hint-obfuscator-order"},
		{Name: "closed-obfuscator-local-named-initiator-negated", File: "lnwallet/commitment.go",
			Old:    "\tif state.IsInitiator {\n\t\treturn DeriveStateHintObfuscator(",
			New:    "\tinitiator := !state.IsInitiator\n\tif initiator {\n\t\treturn DeriveStateHintObfuscator(",
			Expect: "state-hint-obfuscator-order"},
		{Name: "closed-obfuscator-hash-order-swapped", File: "lnwallet/wallet.go",
			Old:    "\th.Write(key1.SerializeCompressed())\n\th.Write(key2.SerializeCompressed())",
			New:    "\th.Write(key2.SerializeCompressed())\n\th.Write(key1.SerializeCompressed())",
			Expect: "state-hint-obfuscator-order"},
		{Name: "closed-obfuscator-watcher-other-channel-flag", File: "contractcourt/chain_watcher.go",
			Old:    "\tif chanState.IsInitiator {\n\t\tstateHint = lnwallet.DeriveStateHintObfuscator(",
			New:    "\tif !chanState.IsInitiator {\n\t\tstateHint = lnwallet.DeriveStateHintObfuscator(",
			Expect: "state-hint-obfuscator-order"},
		{Name: "closed-lease-zeroed-for-initiator", File: "lnwallet/channel.go",
			Old:    "\t\tleaseExpiry = chanState.ThawHeight\n\t}\n\n\tauxResult, err := fn.MapOptionZ(\n\t\tleafStore, func(s AuxLeafStore) fn.Result[CommitDiffAuxResult] {\n\t\t\treturn s.FetchLeavesFromRevocation(revokedLog)",
			New:    "\t\tleaseExpiry = chanState.ThawHeight\n\t}\n\tif chanState.IsInitiator {\n\t\tleaseExpiry = 0\n\t}\n\n\tauxResult, err := fn.MapOptionZ(\n\t\tleafStore, func(s AuxLeafStore) fn.Result[CommitDiffAuxResult] {\n\t\t\treturn s.FetchLeavesFromRevocation(revokedLog)",
			Expect: "justice-tx-honours-lease-locktime"},
		{Name: "closed-lease-halved", File: "lnwallet/channel.go",
			Old:    "\t\tleaseExpiry = chanState.ThawHeight\n\t}\n\n\tauxResult, err := fn.MapOptionZ(\n\t\tleafStore, func(s AuxLeafStore) fn.Result[CommitDiffAuxResult] {\n\t\t\treturn s.FetchLeavesFromRevocation(revokedLog)",
			New:    "\t\tleaseExpiry = chanState.ThawHeight\n\t}\n\tleaseExpiry /= 2\n\n\tauxResult, err := fn.MapOptionZ(\n\t\tleafStore, func(s AuxLeafStore) fn.Result[CommitDiffAuxResult] {\n\t\t\treturn s.FetchLeavesFromRevocation(revokedLog)",
			Expect: "justice-tx-honours-lease-locktime"},
	}...)
}
