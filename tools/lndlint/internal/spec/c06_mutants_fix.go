package spec

// Witnesses for c06_probe13.go: each restores the shape one of the repairs
// e0a347c, b337b37, 82950e8 removed.
func init() {
	registry["C06"].Mutants = append(registry["C06"].Mutants, []Mutant{
		{Name: "fixrev-secret-stored-before-the-point-check", File: "lnwallet/channel.go",
			// since repair 3b9a88f the store is filled inside the chanstate
			// method; the reversal of e0a347c is a store insertion ahead of
			// the comparison in ReceiveRevocation
			Old:    "\tcurrentCommitPoint := lc.channelState.RemoteCurrentRevocation\n\tderivedCommitPoint := input.ComputeCommitmentPoint(revMsg.Revocation[:])\n",
			New:    "\tif err := lc.channelState.RevocationStore.AddNextEntry(revocation); err != nil {\n\t\treturn nil, nil, err\n\t}\n\tcurrentCommitPoint := lc.channelState.RemoteCurrentRevocation\n\tderivedCommitPoint := input.ComputeCommitmentPoint(revMsg.Revocation[:])\n",
			Expect: "secret-reaches-the-store-only-after-it-revoked-the-current-commitment"},
		{Name: "point-check-against-the-next-revocation", File: "lnwallet/channel.go",
			Old:    "\tcurrentCommitPoint := lc.channelState.RemoteCurrentRevocation\n\tderivedCommitPoint := input.ComputeCommitmentPoint(revMsg.Revocation[:])",
			New:    "\tcurrentCommitPoint := lc.channelState.RemoteNextRevocation\n\tderivedCommitPoint := input.ComputeCommitmentPoint(revMsg.Revocation[:])",
			Expect: "secret-reaches-the-store-only-after-it-revoked-the-current-commitment"},
		{Name: "fixrev-48-buckets", File: "shachain/store.go",
			Old: "\tbuckets [maxHeight + 1]element", New: "\tbuckets [maxHeight]element",
			Expect: "secret-reaches-the-store-only-after-it-revoked-the-current-commitment"},
		{Name: "counting-loop-runs-past-the-array", File: "shachain/utils.go",
			Old: "\tfor ; zeros < maxHeight; zeros++ {", New: "\tfor ; zeros <= maxHeight; zeros++ {",
			Expect: "secret-reaches-the-store-only-after-it-revoked-the-current-commitment"},
		{Name: "fixrev-unchecked-serialised-bucket-count", File: "shachain/store.go",
			Old:    "\tif int(store.lenBuckets) > len(store.buckets) {\n\t\treturn nil, fmt.Errorf(\"invalid number of shachain buckets: \"+\n\t\t\t\"%v, max %v\", store.lenBuckets, len(store.buckets))\n\t}\n",
			New:    "\t_ = fmt.Sprint()\n",
			Expect: "secret-reaches-the-store-only-after-it-revoked-the-current-commitment"},
	}...)
}
