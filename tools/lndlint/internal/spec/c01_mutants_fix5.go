package spec

// Witnesses of the rules in c01_fix5.go: the reversal of repair d1709e7 with
// two variants, and the two seeded changes of round 4 (C01/g, C01/h) with
// variants.
func init() {
	registry["C01"].Mutants = append(registry["C01"].Mutants, []Mutant{
		// ---- accepted-local-fee-rate-is-signable (d1709e7)
		{Name: "fixrev-updatefee-floor-check-dropped", File: "lnwallet/channel.go",
			Old:    "	if feePerKw < chainfee.FeePerKwFloor {\n		return fmt.Errorf(\"cannot apply fee_update=%v, below fee \"+\n			\"floor %v\", feePerKw, chainfee.FeePerKwFloor)\n	}\n",
			New:    "",
			Expect: "accepted-local-fee-rate-is-signable"},
		{Name: "c01f5-updatefee-tests-the-absolute-floor", File: "lnwallet/channel.go",
			Old:    "	if feePerKw < chainfee.FeePerKwFloor {\n		return fmt.Errorf(\"cannot apply",
			New:    "	if feePerKw < chainfee.AbsoluteFeePerKwFloor {\n		return fmt.Errorf(\"cannot apply",
			Expect: "accepted-local-fee-rate-is-signable"},
		{Name: "c01f5-updatefee-floor-only-for-anchor-channels", File: "lnwallet/channel.go",
			Old:    "	if feePerKw < chainfee.FeePerKwFloor {\n		return fmt.Errorf(\"cannot apply",
			New:    "	if feePerKw < chainfee.FeePerKwFloor && lc.channelState.ChanType.HasAnchors() {\n		return fmt.Errorf(\"cannot apply",
			Expect: "accepted-local-fee-rate-is-signable"},
		{Name: "c01f5-updatefee-floor-tested-after-append", File: "lnwallet/channel.go",
			Old:    "	if feePerKw < chainfee.FeePerKwFloor {\n		return fmt.Errorf(\"cannot apply fee_update=%v, below fee \"+\n			\"floor %v\", feePerKw, chainfee.FeePerKwFloor)\n	}\n\n	// Ensure that the passed fee rate meets our current requirements.\n	if err := lc.validateFeeRate(feePerKw); err != nil {\n		return err\n	}\n\n	pd := &paymentDescriptor{\n		ChanID:    lc.ChannelID(),\n		LogIndex:  lc.updateLogs.Local.logIndex,\n		Amount:    lnwire.NewMSatFromSatoshis(btcutil.Amount(feePerKw)),\n		EntryType: FeeUpdate,\n	}\n\n	lc.updateLogs.Local.appendFeeUpdate(pd)\n",
			New:    "	// Ensure that the passed fee rate meets our current requirements.\n	if err := lc.validateFeeRate(feePerKw); err != nil {\n		return err\n	}\n\n	pd := &paymentDescriptor{\n		ChanID:    lc.ChannelID(),\n		LogIndex:  lc.updateLogs.Local.logIndex,\n		Amount:    lnwire.NewMSatFromSatoshis(btcutil.Amount(feePerKw)),\n		EntryType: FeeUpdate,\n	}\n\n	lc.updateLogs.Local.appendFeeUpdate(pd)\n	if feePerKw < chainfee.FeePerKwFloor {\n		return fmt.Errorf(\"cannot apply fee_update=%v, below fee \"+\n			\"floor %v\", feePerKw, chainfee.FeePerKwFloor)\n	}\n",
			Expect: "accepted-local-fee-rate-is-signable"},

		// ---- view-reads-only-the-chain-being-extended (seed C01/g)
		{Name: "seed4-C01g-fallback-fee-rate-from-local-chain", File: "lnwallet/channel.go",
			Old:    "	view.FeePerKw = commitChain.tip().feePerKw\n",
			New:    "	view.FeePerKw = lc.commitChains.Local.tip().feePerKw\n",
			Expect: "view-reads-only-the-chain-being-extended"},
		{Name: "c01f5-fallback-fee-rate-from-chain-tail", File: "lnwallet/channel.go",
			Old:    "	view.FeePerKw = commitChain.tip().feePerKw\n",
			New:    "	view.FeePerKw = commitChain.tail().feePerKw\n",
			Expect: "view-reads-only-the-chain-being-extended"},
		{Name: "c01f5-next-height-from-remote-chain", File: "lnwallet/channel.go",
			Old:    "	nextHeight := commitChain.tip().height + 1\n\n	// Initiate feePerKw",
			New:    "	nextHeight := lc.commitChains.Remote.tip().height + 1\n\n	// Initiate feePerKw",
			Expect: "view-reads-only-the-chain-being-extended"},
		{Name: "c01f5-fallback-fee-rate-of-counterparty-chain", File: "lnwallet/channel.go",
			Old:    "	view.FeePerKw = commitChain.tip().feePerKw\n",
			New:    "	view.FeePerKw = lc.commitChains.GetForParty(whoseCommitChain.CounterParty()).tip().feePerKw\n",
			Expect: "view-reads-only-the-chain-being-extended"},

		// ---- noop-add-only-with-tapscript-root (seed C01/h)
		{Name: "seed4-C01h-noop-add-on-any-taproot-channel", File: "lnwallet/channel.go",
			Old:    "	if noopFlag && chanType.HasTapscriptRoot() {\n		return NoOpAdd",
			New:    "	if noopFlag && chanType.IsTaproot() {\n		return NoOpAdd",
			Expect: "noop-add-only-with-tapscript-root"},
		{Name: "c01f5-noop-add-without-the-record", File: "lnwallet/channel.go",
			Old:    "	if noopFlag && chanType.HasTapscriptRoot() {\n		return NoOpAdd",
			New:    "	if noopFlag || chanType.HasTapscriptRoot() {\n		return NoOpAdd",
			Expect: "noop-add-only-with-tapscript-root"},
		{Name: "c01f5-noop-add-classified-by-the-receiver", File: "lnwallet/channel.go",
			Old:    "	_, noopFlag := records[noopTLV]\n",
			New:    "	_, noopFlag := records[noopTLV]\n	noopFlag = noopFlag || len(records) > 0\n",
			Expect: "noop-add-only-with-tapscript-root"},
		{Name: "c01f5-noop-add-for-a-forced-channel-type", File: "lnwallet/channel.go",
			Old:    "	entryType := lc.entryTypeForHtlc(\n		customRecords, lc.channelState.ChanType,\n	)\n\n	return &paymentDescriptor{\n		ChanID:         htlc.ChanID,\n		EntryType:      entryType,\n		RHash:          PaymentHash(htlc.PaymentHash),\n		Timeout:        htlc.Expiry,\n		Amount:         htlc.Amount,\n		LogIndex:       lc.updateLogs.Local.logIndex,",
			New:    "	entryType := lc.entryTypeForHtlc(\n		customRecords, lc.channelState.ChanType|channeldb.TapscriptRootBit,\n	)\n\n	return &paymentDescriptor{\n		ChanID:         htlc.ChanID,\n		EntryType:      entryType,\n		RHash:          PaymentHash(htlc.PaymentHash),\n		Timeout:        htlc.Expiry,\n		Amount:         htlc.Amount,\n		LogIndex:       lc.updateLogs.Local.logIndex,",
			Expect: "noop-add-only-with-tapscript-root"},
	}...)
}
