package chancloser

import (
	"bytes"
	"testing"

	"github.com/btcsuite/btcd/chaincfg/v2"
	"github.com/btcsuite/btcd/txscript/v2"
	"github.com/btcsuite/btcd/wire/v2"
	"github.com/lightningnetwork/lnd/channeldb"
	"github.com/lightningnetwork/lnd/fn/v2"
	"github.com/lightningnetwork/lnd/lntypes"
	"github.com/lightningnetwork/lnd/lnwallet"
	"github.com/lightningnetwork/lnd/lnwallet/chainfee"
	"github.com/lightningnetwork/lnd/lnwire"
	"github.com/lightningnetwork/lnd/protofsm"
	"github.com/stretchr/testify/require"
)

type probe5Observer struct{}

func (probe5Observer) NoDanglingUpdates() bool                     { return true }
func (probe5Observer) DisableIncomingAdds() error                  { return nil }
func (probe5Observer) DisableOutgoingAdds() error                  { return nil }
func (probe5Observer) DisableChannel() error                       { return nil }
func (probe5Observer) MarkCoopBroadcasted(*wire.MsgTx, bool) error { return nil }
func (probe5Observer) MarkShutdownSent([]byte, bool) error         { return nil }
func (probe5Observer) FinalBalances() fn.Option[ShutdownBalances] {
	return fn.None[ShutdownBalances]()
}

func probe5Script(b byte) lnwire.DeliveryAddress {
	return append(
		[]byte{txscript.OP_0, txscript.OP_DATA_20},
		bytes.Repeat([]byte{b}, 20)...,
	)
}

func probe5Negotiation(ch *lnwallet.LightningChannel, local,
	remote lnwire.DeliveryAddress) (*ClosingNegotiation, *Environment) {

	chanPoint := ch.ChannelPoint()
	env := &Environment{
		ChainParams:  chaincfg.RegressionNetParams,
		ChanPoint:    chanPoint,
		ChanID:       lnwire.NewChanIDFromOutPoint(chanPoint),
		ChanType:     ch.ChanType(),
		FeeEstimator: &SimpleCoopFeeEstimator{},
		ChanObserver: probe5Observer{},
		CloseSigner:  ch,
	}

	snapshot := ch.StateSnapshot()
	terms := &CloseChannelTerms{
		ShutdownScripts: ShutdownScripts{
			LocalDeliveryScript:  local,
			RemoteDeliveryScript: remote,
		},
		ShutdownBalances: ShutdownBalances{
			LocalBalance:  snapshot.LocalBalance,
			RemoteBalance: snapshot.RemoteBalance,
		},
	}

	return &ClosingNegotiation{
		PeerState: lntypes.Dual[AsymmetricPeerState]{
			Local:  &LocalCloseStart{CloseChannelTerms: terms},
			Remote: &RemoteCloseStart{CloseChannelTerms: terms},
		},
		CloseChannelTerms: terms,
	}, env
}

func probe5SentMsg[T lnwire.Message](t *testing.T,
	transition *CloseStateTransition) T {

	var (
		msg   T
		found bool
	)
	transition.NewEvents.WhenSome(func(ev RbfEvent) {
		for _, ext := range ev.ExternalEvents {
			send, ok := ext.(*protofsm.SendMsgEvent[ProtocolEvent])
			if !ok {
				continue
			}
			for _, m := range send.Msgs {
				if typed, ok := m.(T); ok {
					msg, found = typed, true
				}
			}
		}
	})
	require.True(t, found)

	return msg
}

// TestProbeClosingSigMustEchoTheOffer: BOLT 2 wants the receiver of closing_sig
// to refuse it when closer_scriptpubkey, closee_scriptpubkey, fee_satoshis or
// locktime don't match the closing_complete it answers. Only the closer script
// is compared.
func TestProbeClosingSigMustEchoTheOffer(t *testing.T) {
	t.Parallel()

	tamper := map[string]func(*lnwire.ClosingSig){
		"closee script": func(m *lnwire.ClosingSig) {
			m.CloseeScript = probe5Script(0xee)
		},
		"fee": func(m *lnwire.ClosingSig) {
			m.FeeSatoshis++
		},
		"lock time": func(m *lnwire.ClosingSig) {
			m.LockTime++
		},
	}

	for name, mutate := range tamper {
		t.Run(name, func(t *testing.T) {
			aliceChan, bobChan, err := lnwallet.CreateTestChannels(
				t, channeldb.SingleFunderTweaklessBit,
			)
			require.NoError(t, err)

			aliceScript := probe5Script(0xa1)
			bobScript := probe5Script(0xb0)

			// Bob offers.
			bobNeg, bobEnv := probe5Negotiation(
				bobChan, bobScript, aliceScript,
			)
			offer, err := bobNeg.ProcessEvent(&SendOfferEvent{
				TargetFeeRate: chainfee.SatPerVByte(10),
			}, bobEnv)
			require.NoError(t, err)
			closingComplete := probe5SentMsg[*lnwire.ClosingComplete](
				t, offer,
			)

			// Alice signs.
			aliceNeg, aliceEnv := probe5Negotiation(
				aliceChan, aliceScript, bobScript,
			)
			answer, err := aliceNeg.ProcessEvent(&OfferReceivedEvent{
				SigMsg: *closingComplete,
			}, aliceEnv)
			require.NoError(t, err)
			closingSig := probe5SentMsg[*lnwire.ClosingSig](t, answer)

			// The answer is tampered with on its way back.
			mutate(closingSig)

			bobNext, ok := offer.NextState.(*ClosingNegotiation)
			require.True(t, ok)
			_, err = bobNext.ProcessEvent(&LocalSigReceived{
				SigMsg: *closingSig,
			}, bobEnv)
			require.Error(t, err, "closing_sig with a different %v "+
				"than the offer was accepted", name)
		})
	}
}
