package spec

import (
	"go/ast"
	"go/token"
	"go/types"
	"regexp"
	"strings"

	"lndlint/internal/an"
)

// The CLTV budget of a path search (RestrictParams.CltvLimit) bounds the sum
// of the hops' deltas only: findPath compares against CltvLimit plus the final
// expiry it was handed, and the route construction (newRoute) then adds a
// final delta of its own choice on top of the hops. A caller that promises a
// limit on the route's total time lock therefore has to hand over the limit
// minus that final delta (repairs 465b109, 4db5f3a).

// c19f4Delta is one final delta the route construction adds.
type c19f4Delta struct {
	blinded bool
	x       ast.Expr // plain: the delta expression; blinded: the path set whose FinalCLTVDelta() is added
	what    string
	slug    string // for construct keys
	// bounded: the delta was compared with the limit before this function
	// runs (the payment's own final delta, validated with padding where the
	// payment was accepted); otherwise the function itself must compare it
	bounded bool
}

// c19f4BlindedDeltaOf: e (conversions stripped, unique definitions of locals
// followed) is <set>.FinalCLTVDelta(); it returns <set>.
func c19f4BlindedDeltaOf(f *an.Func, e ast.Expr, depth int) ast.Expr {
	if e == nil {
		return nil
	}
	e = an.Strip(f.Info(), e)
	if c, ok := e.(*ast.CallExpr); ok {
		if an.CalleeID(f.Info(), c) == "routing.BlindedPaymentPathSet.FinalCLTVDelta" {
			if sel, ok := ast.Unparen(c.Fun).(*ast.SelectorExpr); ok {
				return sel.X
			}
		}
		return nil
	}
	if id, ok := e.(*ast.Ident); ok && depth < 4 {
		if d := f.UniqueDef(id); d != nil {
			return c19f4BlindedDeltaOf(f, d, depth+1)
		}
	}
	return nil
}

// carriedBy: the expression e holds the delta d.
func (d c19f4Delta) carriedBy(f *an.Func, e ast.Expr) bool {
	if e == nil {
		return false
	}
	if d.blinded {
		x := c19f4BlindedDeltaOf(f, e, 0)
		return x != nil && c19f4SameValue(f, x, f, d.x)
	}
	return c19f4SameValue(f, an.Strip(f.Info(), e), f, an.Strip(f.Info(), d.x))
}

// c19f4Same is the term "the same value as x".
func c19f4Same(x ast.Expr) an.Term {
	return func(f *an.Func, e ast.Expr) bool {
		return c19f4SameValue(f, an.Strip(f.Info(), e), f, an.Strip(f.Info(), x))
	}
}

// c19f4ValueDefs lists the places of f where the local obj receives a value
// (declarations without value excluded).
func c19f4ValueDefs(f *an.Func, obj types.Object) []c19LocalDef {
	if obj == nil {
		return nil
	}
	_, defs := c19LocalDefs(f.Root(), obj.Name())
	var out []c19LocalDef
	for _, d := range defs {
		if d.Obj == obj && d.Tok != "zero" {
			out = append(out, d)
		}
	}
	return out
}

// c19f4Local returns the local variable of f an expression names (nil for
// parameters, fields and everything that is not an identifier).
func c19f4Local(f *an.Func, e ast.Expr) types.Object {
	o := c19VarObj(f, e)
	if o == nil {
		return nil
	}
	for fn := f; fn != nil; fn = fn.Parent {
		for _, p := range fn.Params(true) {
			if p == o {
				return nil
			}
		}
	}
	return o
}

// c19f4Budget is a value of the shape `limit - reserve`.
type c19f4Budget struct {
	limit   ast.Expr
	reserve ast.Expr
	sub     an.Site
	local   types.Object // the local that holds the budget, if any
}

// c19f4BudgetOf resolves the value handed over as CltvLimit to the
// subtraction that produced it: `limit - reserve` written in place, a local
// defined once as such a difference, or a local that is defined and then
// reduced once (`x -= reserve`, `x = x - reserve`).
func c19f4BudgetOf(f *an.Func, v ast.Expr) *c19f4Budget {
	v = ast.Unparen(v)
	if be, ok := v.(*ast.BinaryExpr); ok && be.Op == token.SUB {
		return &c19f4Budget{limit: be.X, reserve: be.Y, sub: c19SiteFor(f, v)}
	}
	obj := c19f4Local(f, v)
	defs := c19f4ValueDefs(f, obj)
	for _, d := range defs {
		if d.Fn != f {
			return nil
		}
	}
	diff := func(d c19LocalDef) *ast.BinaryExpr {
		if d.Rhs == nil || (d.Tok != "=" && d.Tok != ":=" && d.Tok != "var") {
			return nil
		}
		be, ok := ast.Unparen(d.Rhs).(*ast.BinaryExpr)
		if !ok || be.Op != token.SUB {
			return nil
		}
		return be
	}
	switch len(defs) {
	case 1:
		if be := diff(defs[0]); be != nil {
			return &c19f4Budget{limit: be.X, reserve: be.Y, sub: defs[0].site(), local: obj}
		}
	case 2:
		if defs[1].Tok == "-=" && defs[1].Rhs != nil {
			return &c19f4Budget{limit: v, reserve: defs[1].Rhs, sub: defs[1].site(), local: obj}
		}
		if be := diff(defs[1]); be != nil && c19VarObj(f, be.X) == obj {
			return &c19f4Budget{limit: v, reserve: be.Y, sub: defs[1].site(), local: obj}
		}
	}
	return nil
}

// c19f4Terms splits a sum into its terms.
func c19f4Terms(e ast.Expr) []ast.Expr {
	e = ast.Unparen(e)
	if be, ok := e.(*ast.BinaryExpr); ok && be.Op == token.ADD {
		return append(c19f4Terms(be.X), c19f4Terms(be.Y)...)
	}
	return []ast.Expr{e}
}

// c19f4NoWrap: the delta that the definition at def puts into the reserve is
// known not to exceed the limit it is subtracted from: the definition sits
// below `delta <= limit`, or every path from it to the subtraction passes a
// successful routing.ValidateCLTVLimit(limit, delta, ..).
func c19f4NoWrap(o *an.Obl, f *an.Func, key string, def an.Site, holders []ast.Expr, b *c19f4Budget) {
	isDelta := func(fn *an.Func, e ast.Expr) bool {
		for _, h := range holders {
			if h != nil && c19f4Same(h)(fn, e) {
				return true
			}
		}
		return false
	}
	cmp := an.Cmp(isDelta, an.LE, c19f4Same(b.limit), "delta <= limit")
	if def.Node != nil {
		if ok, _ := f.Guarded(def, cmp); ok {
			o.Site("%s: %s below delta <= %s", key, def.String(), an.Text(b.limit))
			return
		}
	} else if ok, _ := f.Guarded(b.sub, cmp); ok {
		o.Site("%s: %s below delta <= %s", key, b.sub.String(), an.Text(b.limit))
		return
	}
	what := "the function entry"
	if def.Node != nil {
		what = def.String()
	}
	var vs []an.Site
	for _, s := range f.Calls(an.CalleeIs("routing.ValidateCLTVLimit"), false) {
		if c19f4Same(b.limit)(f, callArg(s, 0)) && isDelta(f, callArg(s, 1)) {
			vs = append(vs, s)
		}
	}
	if len(vs) > 0 {
		es, _ := f.UnionOk(vs, an.OkErrNil)
		if !f.Graph().Reach(def.V, es, nil)[b.sub.V] {
			o.Site("%s: from %s the delta is validated against %s before the subtraction", key, what, an.Text(b.limit))
			return
		}
	}
	o.FailAt(key+"#reserve-may-exceed-the-limit", b.sub.Where(), "from %s the delta %s reaches %s without having been compared with %s: the unsigned subtraction wraps around and the search runs without a time lock limit", what, an.Text(holders[0]), b.sub.String(), an.Text(b.limit))
}

// c19f4Covers decides whether term t of the reserve stands for the delta d
// and, if it does, checks that it holds at least that delta whenever the
// subtraction is reached.
func c19f4Covers(o *an.Obl, f *an.Func, key string, t ast.Expr, d c19f4Delta, b *c19f4Budget, formChecked map[types.Object]bool) bool {
	wrap := !d.bounded
	t = an.Strip(f.Info(), t)
	g := f.Graph()
	tObj := c19f4Local(f, t)
	defs := c19f4ValueDefs(f, tObj)
	if !d.blinded && d.carriedBy(f, t) {
		// the delta itself is subtracted
		o.Site("%s: the reserve subtracts %s itself (%s)", key, an.Text(t), d.what)
		for _, df := range defs {
			if wrap && df.Fn == f {
				c19f4NoWrap(o, f, key, df.site(), []ast.Expr{t, df.Rhs}, b)
			}
		}
		if wrap && len(defs) == 0 {
			// not a local of this function (a field, a parameter): it holds
			// its value from the start
			c19f4NoWrap(o, f, key, an.Site{Fn: f, V: g.Entry}, []ast.Expr{t}, b)
		}
		return true
	}
	if tObj == nil || len(defs) == 0 {
		if d.carriedBy(f, t) {
			o.Site("%s: the reserve subtracts %s (%s)", key, an.Text(t), d.what)
			return true
		}
		return false
	}
	var carry []c19LocalDef
	for _, df := range defs {
		if d.carriedBy(f, df.Rhs) {
			carry = append(carry, df)
		}
	}
	if len(carry) == 0 {
		return false
	}
	var carrySites []an.Site
	stop := map[*an.FlowVertex]bool{}
	for _, c := range carry {
		carrySites = append(carrySites, c.site())
		stop[c.site().V] = true
	}
	for _, df := range defs {
		if formChecked[tObj] {
			break
		}
		st := df.site()
		if df.Fn != f || st.V == nil || df.Rhs == nil || (df.Tok != "=" && df.Tok != ":=" && df.Tok != "var") {
			o.FailAt(key+"#reserve-form", f.Where(df.Node.Pos()), "%s %s: a reserve is expected to be given whole values only", an.Text(t), df.form())
			continue
		}
		o.Site("%s: reserve %s %s", key, an.Text(t), df.form())
		// a definition that replaces an earlier one may only raise the reserve
		overwrites := false
		for _, other := range defs {
			if ov := other.site().V; other.Node != df.Node && ov != nil && g.Reach(ov, nil, nil)[st.V] {
				overwrites = true
			}
		}
		if overwrites {
			guarded(o, f, st, an.Cmp(c19f4Same(df.Rhs), an.GE, c19f4Same(t), "new reserve >= reserve so far"))
		}
	}
	formChecked[tObj] = true
	for _, c := range carry {
		st := c.site()
		if st.V == nil {
			continue
		}
		if !d.blinded {
			// the delta is complete when it is copied
			if xo := c19f4Local(f, an.Strip(f.Info(), d.x)); xo != nil {
				after := g.Reach(st.V, nil, nil)
				for _, xd := range c19f4ValueDefs(f, xo) {
					if xs := xd.site(); xs.V != nil && xs.V != st.V && after[xs.V] {
						o.FailAt(key+"#delta-changed-after-it-was-reserved", xs.Where(), "%s changes the final delta after %s copied it into the reserve: the route gets a delta the budget did not keep free", xs.String(), st.String())
					}
				}
			}
		}
		if wrap {
			c19f4NoWrap(o, f, key, st, []ast.Expr{t, c.Rhs}, b)
		}
	}
	// whenever the subtraction is reached the reserve has received the delta
	if bo := c19f4Local(f, d.x); d.blinded && bo != nil && len(c19f4ValueDefs(f, bo)) > 0 {
		for _, bd := range c19f4ValueDefs(f, bo) {
			bs := bd.site()
			if bd.Rhs != nil && an.IsNilIdent(f.Info(), bd.Rhs) || bs.V == nil {
				continue
			}
			o.Site("%s: from %s every path to the subtraction passes %s", key, bs.String(), carrySites[0].String())
			if g.Reach(bs.V, nil, stop)[b.sub.V] && !stop[bs.V] {
				o.FailAt(key+"#reserve-skips-the-blinded-delta", b.sub.Where(), "%s can be reached from %s without the reserve receiving %s", b.sub.String(), bs.String(), d.what)
			}
		}
	} else {
		var skips []an.Fact
		if d.blinded {
			skips = append(skips, an.IsNil(c19f4Same(d.x), true, "no blinded path set"))
			for _, c := range carry {
				skips = append(skips, an.Cmp(c19f4Same(c.Rhs), an.LE, c19f4Same(t), "blinded delta <= reserve so far"))
			}
		}
		mustDoUnless(o, f, "the reserve receiving "+d.what, carrySites, []an.Site{b.sub}, skips...)
	}
	return true
}

// c19f4Reserve checks that the reserve of budget b covers every delta of ds.
func c19f4Reserve(o *an.Obl, f *an.Func, key string, b *c19f4Budget, ds []c19f4Delta) {
	terms := c19f4Terms(b.reserve)
	o.Site("%s: budget %s - (%s) at %s", key, an.Text(b.limit), an.Text(b.reserve), b.sub.Where())
	formChecked := map[types.Object]bool{}
	for _, d := range ds {
		found := false
		for _, t := range terms {
			if c19f4Covers(o, f, key, t, d, b, formChecked) {
				found = true
			}
		}
		if !found {
			o.FailAt(key+"#cltv-limit-without-"+d.slug, b.sub.Where(), "the budget handed to the path search is %s - (%s): the reserve does not hold %s, which the route construction adds on top of the hops; the route's total time lock exceeds the caller's limit by up to that delta", an.Text(b.limit), an.Text(b.reserve), d.what)
		}
	}
	// the terms of a sum are validated one by one: at most one of them is set
	if len(terms) > 1 {
		g := f.Graph()
		var sets [][]c19LocalDef
		for _, t := range terms {
			sets = append(sets, c19f4ValueDefs(f, c19f4Local(f, an.Strip(f.Info(), t))))
		}
		for i := range sets {
			for j := range sets {
				if i == j {
					continue
				}
				for _, a := range sets[i] {
					for _, c := range sets[j] {
						if av, cv := a.site().V, c.site().V; av != nil && cv != nil && g.Reach(av, nil, nil)[cv] {
							o.FailAt(key+"#reserve-terms-set-together", c.site().Where(), "%s and %s can both be set on one path: each was compared with the limit alone, their sum was not", an.Text(terms[i]), an.Text(terms[j]))
						}
					}
				}
			}
		}
	}
}

// c19f4KV returns the value of key k of a composite literal.
func c19f4KV(cl *ast.CompositeLit, k string) ast.Expr {
	if cl == nil {
		return nil
	}
	for _, el := range cl.Elts {
		if kv, ok := el.(*ast.KeyValueExpr); ok && an.Text(kv.Key) == k {
			return kv.Value
		}
	}
	return nil
}

// c19f4LitArg returns the composite literal an argument stands for: written
// in place or the unique definition of a local.
func c19f4LitArg(f *an.Func, e ast.Expr) *ast.CompositeLit {
	if cl := c19AsLit(e); cl != nil {
		return cl
	}
	return c19LitOf(f, e)
}

func c19f4IsZeroConst(f *an.Func, e ast.Expr) bool {
	tv, ok := f.Info().Types[e]
	return ok && tv.Value != nil && tv.Value.ExactString() == "0"
}

func c19f4CltvBudget(r *an.Run) {
	p := r.Prog
	rpType := p.LookupType("routing", "RestrictParams")
	reviewed := map[ast.Node]bool{}

	r.Obl("payment-cltv-budget-reserves-the-final-delta-the-route-adds", "MIRROR",
		"paymentSession.RequestRoute hands the path finder CltvLimit = payment.CltvLimit - reserve, computed once; the reserve is a single local that first receives the final delta RequestRoute later gives newRoute (finalHopParams.cltvDelta, the same variable, complete - padding included - when it is copied) and, for the blinded path set RequestRoute gives newRoute, receives <that set>.FinalCLTVDelta() on every path to the subtraction on which the set is not nil and that delta is not already covered; a definition that replaces an earlier reserve only raises it (it sits below new >= reserve) and the blinded delta enters the reserve only below delta <= payment.CltvLimit (or after a successful ValidateCLTVLimit), so the unsigned subtraction cannot wrap; the restrictions' CltvLimit is not rewritten afterwards",
		"findPath bounds the hops' deltas by CltvLimit + finalHtlcExpiry and newRoute then adds its own final delta - the blinded set's whole cltv_expiry_delta for an introduction-node-only path - on top: a budget that reserved less returns a route whose total time lock exceeds the payment's CLTV limit (220 against 170 in the probe)", 9,
		func(o *an.Obl) {
			f := p.Func("routing.paymentSession.RequestRoute")
			key := f.ID
			nr := f.Calls(an.CalleeIs("routing.newRoute"), true)
			if !needExactly(o, f, "newRoute call", nr, 1) {
				return
			}
			fh := c19f4LitArg(f, callArg(nr[0], 3))
			dx := c19f4KV(fh, "cltvDelta")
			if dx == nil {
				o.FailAt(key+"#final-hop-delta", nr[0].Where(), "cannot find the cltvDelta RequestRoute gives newRoute in %s", an.Text(callArg(nr[0], 3)))
				return
			}
			ds := []c19f4Delta{{x: dx, bounded: true, slug: "final-delta", what: "the final delta given to newRoute (" + an.Text(dx) + ")"}}
			if bx := callArg(nr[0], 4); !an.IsNilIdent(f.Info(), bx) {
				ds = append(ds, c19f4Delta{blinded: true, x: bx, slug: "blinded-final-delta", what: "the final delta of the blinded path set given to newRoute (" + an.Text(bx) + ".FinalCLTVDelta())"})
			}
			n := 0
			for _, cl := range p.CompositeLitsOf(rpType) {
				if cl.Fn == nil || cl.Fn.ID != f.ID {
					continue
				}
				n++
				lit := cl.Node.(*ast.CompositeLit)
				reviewed[lit] = true
				v := c19f4KV(lit, "CltvLimit")
				b := c19f4BudgetOf(f, v)
				if v == nil || b == nil {
					o.FailAt(key+"#cltv-limit-without-reserve", cl.Where, "the restrictions' CltvLimit is %s: expected the payment's limit minus the final delta the route will carry", an.Text(v))
					continue
				}
				if c := f.Canon(b.limit); c != "$recv.payment.CltvLimit" {
					o.FailAt(key+"#limit", b.sub.Where(), "the budget starts from %s, expected the payment's CltvLimit", c)
				}
				c19f4Reserve(o, f, key, b, ds)
				// the literal is what the path finder is handed, as built
				var pf []an.Site
				for _, g := range append([]*an.Func{f}, f.Lits...) {
					for _, s := range g.AllCalls(false) {
						if g.Canon(s.Node.(*ast.CallExpr).Fun) == "$recv.pathFinder" {
							pf = append(pf, s)
							if c19f4LitArg(g, callArg(s, 1)) != lit {
								o.FailAt(key+"#path-finder-restrictions", s.Where(), "the path finder is given the restrictions %s, which are not the ones built at %s", an.Text(callArg(s, 1)), cl.Where)
							} else if ro := c19f4Local(g, callArg(s, 1)); ro != nil {
								for _, w := range c19FieldWrites(f, ro)["CltvLimit"] {
									o.FailAt(key+"#cltv-limit-rewritten", f.Where(w.Pos()), "%s rewrites the budget after it was derived", an.Text(w))
								}
							}
						}
					}
				}
				needExactly(o, f, "call of the session's path finder", pf, 1)
			}
			if n != 1 {
				o.FailAt(key+"#restrictions", f.Where(f.Body.Pos()), "expected one RestrictParams literal in RequestRoute, found %d", n)
			}
		})

	r.Obl("route-request-cltv-budget-reserves-the-final-delta-the-route-adds", "MIRROR",
		"NewRouteRequest stores its restrictions, blinded path set and final expiry unchanged, the expiry being its finalExpiry argument or, only below blindedPathSet != nil, blindedPathSet.FinalCLTVDelta(); FindRoute hands findPath req.Restrictions and currentHeight + req.FinalExpiry and newRoute the same height, req.FinalExpiry and req.BlindedPathSet; every caller of NewRouteRequest whose restrictions carry a CltvLimit derives it as limit - reserve, subtracted once on every path to the call, where the reserve has a term for the finalExpiry argument (unless that is the constant 0) and a term for <blinded path set argument>.FinalCLTVDelta() (unless that argument is nil): the argument variable itself, or a local that received that delta on every path from the definition of the path set to the subtraction; neither argument variable changes between the subtraction and the call; every definition of a reserve term is followed, before the subtraction, by a successful routing.ValidateCLTVLimit(limit, term, ..) (or sits below term <= limit) and two terms are never set on one path; RestrictParams.CltvLimit is filled nowhere else (no assignment to the field, no other literal with the key); extractIntentFromSendRequest returns a payment only after ValidateCLTVLimit(payIntent.CltvLimit, payIntent.FinalCLTVDelta, true) succeeded",
		"FindRoute adds req.FinalExpiry on top of the hops' deltas the budget bounds: QueryRoutes with a blinded introduction-node-only path subtracted nothing and returned 180 blocks for a caller that allowed 100; a final delta that is not compared with the limit first makes the unsigned subtraction wrap", 17,
		func(o *an.Obl) {
			// the construction side
			nrq := p.Func("routing.NewRouteRequest")
			notReassigned(o, nrq, "restrictions", "blindedPathSet", "finalExpiry")
			nReq := 0
			for _, cl := range p.CompositeLitsOf(p.LookupType("routing", "RouteRequest")) {
				if cl.Fn == nil || cl.Fn.ID != nrq.ID {
					continue
				}
				nReq++
				lit := cl.Node.(*ast.CompositeLit)
				for k, want := range map[string]string{"Restrictions": "$p4", "BlindedPathSet": "$p7"} {
					if got := nrq.Canon(c19f4KV(lit, k)); got != want {
						o.FailAt(nrq.ID+"#"+k, cl.Where, "the request's %s is %s, expected the argument unchanged", k, got)
					}
				}
				ev := c19f4KV(lit, "FinalExpiry")
				eo := c19f4Local(nrq, ev)
				defs := c19f4ValueDefs(nrq, eo)
				o.Site("NewRouteRequest: FinalExpiry: %s (%d definitions)", an.Text(ev), len(defs))
				nPlain := 0
				for _, d := range defs {
					c := ""
					if d.Rhs != nil {
						c = nrq.Canon(d.Rhs)
					}
					switch {
					case c == "$p8" && d.Tok != "=":
						nPlain++
					case c == "$p7.FinalCLTVDelta()" && d.Tok == "=":
						guarded(o, nrq, d.site(), an.IsNil(an.Param(7), false, "blindedPathSet != nil"))
					default:
						o.FailAt(nrq.ID+"#FinalExpiry", nrq.Where(d.Node.Pos()), "the request's final expiry %s: expected the finalExpiry argument or the blinded path set's FinalCLTVDelta()", d.form())
					}
				}
				if eo == nil && nrq.Canon(ev) == "$p8" {
					nPlain++
				}
				if nPlain != 1 {
					o.FailAt(nrq.ID+"#FinalExpiry-start", cl.Where, "the request's final expiry must start as the finalExpiry argument")
				}
			}
			if nReq != 1 {
				o.FailAt(nrq.ID+"#request", nrq.Where(nrq.Body.Pos()), "expected one RouteRequest literal in NewRouteRequest, found %d", nReq)
			}
			fr := p.Func("routing.ChannelRouter.FindRoute")
			notReassigned(o, fr, "req")
			// FindRoute's own call of findPath; the other user of findPath takes
			// it as a value (paymentSession.pathFinder) and is the subject of the
			// obligation above, which identifies the call by the field
			fps := fr.Calls(func(id string, _ *ast.CallExpr) bool { return id == "routing.findPath" }, false)
			nrs := fr.Calls(an.CalleeIs("routing.newRoute"), false)
			if needExactly(o, fr, "findPath call", fps, 1) && needExactly(o, fr, "newRoute call", nrs, 1) {
				fa, na := fr.ArgCanon(fps[0]), fr.ArgCanon(nrs[0])
				h := strings.TrimSuffix(strings.TrimPrefix(na[2], "uint32("), ")")
				if fa[1] != "$p0.Restrictions" {
					o.FailAt(fr.ID+"#restrictions", fps[0].Where(), "findPath is given the restrictions %s, expected the request's", fa[1])
				}
				if want := "(" + h + " + int32($p0.FinalExpiry))"; fa[8] != want || !strings.HasPrefix(na[2], "uint32(") || strings.HasPrefix(h, "$v:") {
					o.FailAt(fr.ID+"#final-expiry", fps[0].Where(), "findPath is given the final expiry %s and newRoute the height %s, expected %s and uint32 of the same height", fa[8], na[2], want)
				}
				if got := fr.Canon(c19f4KV(c19f4LitArg(fr, callArg(nrs[0], 3)), "cltvDelta")); got != "$p0.FinalExpiry" {
					o.FailAt(fr.ID+"#final-delta", nrs[0].Where(), "newRoute is given the final delta %s, expected the request's FinalExpiry (what findPath's expiry was computed from)", got)
				}
				if na[4] != "$p0.BlindedPathSet" {
					o.FailAt(fr.ID+"#blinded-set", nrs[0].Where(), "newRoute is given the blinded path set %s, expected the request's", na[4])
				}
			}

			// the callers
			nCallers := 0
			for _, f := range p.Funcs(false) {
				for _, s := range f.Calls(an.CalleeIs("routing.NewRouteRequest"), false) {
					nCallers++
					key := f.Root().ID
					lit := c19f4LitArg(f, callArg(s, 4))
					if lit == nil {
						o.FailAt(key+"#restrictions", s.Where(), "cannot find the RestrictParams literal behind %s", an.Text(callArg(s, 4)))
						continue
					}
					reviewed[lit] = true
					if ro := c19f4Local(f, callArg(s, 4)); ro != nil {
						for _, w := range c19FieldWrites(f.Root(), ro)["CltvLimit"] {
							o.FailAt(key+"#cltv-limit-rewritten", f.Where(w.Pos()), "%s rewrites the budget after it was derived", an.Text(w))
						}
					}
					var ds []c19f4Delta
					ex, bx := callArg(s, 8), callArg(s, 7)
					if !c19f4IsZeroConst(f, ex) {
						ds = append(ds, c19f4Delta{x: ex, slug: "final-delta", what: "the final expiry given to NewRouteRequest (" + an.Text(ex) + ")"})
					}
					if !an.IsNilIdent(f.Info(), bx) {
						ds = append(ds, c19f4Delta{blinded: true, x: bx, slug: "blinded-final-delta", what: "the final delta of the blinded path set given to NewRouteRequest (" + an.Text(bx) + ".FinalCLTVDelta())"})
					}
					v := c19f4KV(lit, "CltvLimit")
					o.Site("%s: NewRouteRequest with CltvLimit: %s, final expiry %s, blinded set %s", f.ID, an.Text(v), an.Text(ex), an.Text(bx))
					if v == nil || len(ds) == 0 {
						continue // no limit promised, or nothing is added on top of the hops
					}
					b := c19f4BudgetOf(f, v)
					if b == nil {
						for _, d := range ds {
							o.FailAt(key+"#cltv-limit-without-"+d.slug, s.Where(), "the restrictions' CltvLimit is %s as it stands: nothing is kept free for %s, which FindRoute adds on top of the hops' deltas, so the route's total time lock can exceed that limit by the delta", an.Text(v), d.what)
						}
						continue
					}
					if b.sub.V != s.V && !f.Before([]an.Site{b.sub}, s) {
						o.FailAt(key+"#subtraction-skipped", s.Where(), "%s can be reached without %s", s.String(), b.sub.String())
					}
					c19f4Reserve(o, f, key, b, ds)
					after := f.Graph().Reach(b.sub.V, nil, nil)
					for _, a := range []ast.Expr{ex, bx} {
						for _, d := range c19f4ValueDefs(f, c19f4Local(f, an.Strip(f.Info(), a))) {
							if ds := d.site(); ds.V != nil && ds.V != b.sub.V && after[ds.V] {
								o.FailAt(key+"#argument-changed-after-the-subtraction", ds.Where(), "%s changes %s after its delta was subtracted from the budget", ds.String(), an.Text(a))
							}
						}
					}
				}
			}
			if nCallers < 2 {
				o.FailAt("routing.NewRouteRequest#callers", "", "found %d callers of NewRouteRequest, expected QueryRoutes' request parser and the fee estimate", nCallers)
			}

			// nobody else fills the budget
			for _, cl := range p.CompositeLitsOf(rpType) {
				lit := cl.Node.(*ast.CompositeLit)
				if v := c19f4KV(lit, "CltvLimit"); v != nil && !reviewed[lit] {
					o.FailAt("routing.RestrictParams.CltvLimit#unreviewed-literal", cl.Where, "RestrictParams{CltvLimit: %s} is built outside RequestRoute and the callers of NewRouteRequest: how its budget relates to the final delta of the route is not known", an.Text(v))
				}
			}
			for _, f := range p.Funcs(false) {
				for _, s := range f.Assigns(an.Field("routing.RestrictParams", "CltvLimit", nil), false) {
					o.FailAt("routing.RestrictParams.CltvLimit#assigned", s.Where(), "%s assigns the budget outside the literal that builds the restrictions", s.String())
				}
			}

			// the payment's own limit exceeds its final delta plus padding
			ex := p.Func("lnrpc/routerrpc.RouterBackend.extractIntentFromSendRequest")
			var vs []an.Site
			for _, s := range ex.Calls(an.CalleeIs("routing.ValidateCLTVLimit"), false) {
				a := ex.ArgCanon(s)
				m := regexp.MustCompile(`^(.+)\.CltvLimit$`).FindStringSubmatch(a[0])
				if m != nil && a[1] == m[1]+".FinalCLTVDelta" && a[2] == "true" {
					vs = append(vs, s)
				}
			}
			var rets []an.Site
			for _, s := range ex.StrictSuccessReturns() {
				rets = append(rets, s)
			}
			if need(o, ex, "success return", rets, 1) {
				mustPass(o, ex, "ValidateCLTVLimit(payIntent.CltvLimit, payIntent.FinalCLTVDelta, true)", vs, an.OkErrNil, rets)
			}
		})
}
