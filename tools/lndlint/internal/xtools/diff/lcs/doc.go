// Copyright 2022 The Go Authors. All rights reserved.
// Use of this source code is governed by a BSD-style
// license that can be found in the LICENSE file.

// package lcs contains code to find longest-common-subsequences
// (and diffs)
package lcs

/*
Compute longest-common-subsequences of two slices A, B using
algorithms from Myers' paper. A longest-common-subsequence
(LCS from now on) of A and B is a maximal set of lexically increasing
pairs of subscripts (x,y) with A[x]==B[y]. There may be many LCS, but
they all have the same length. An LCS determines a sequence of edits
that changes A into B.

The key concept is the edit graph of A and B.
If A has length N and B has length M, then the edit graph has
vertices v[i][j] for 0 <= i <= N, 0 <= j <= M. There is a
horizontal edge from v[i][j] to v[i+1][j] whenever both are in
the graph, and a vertical edge from v[i][j] to f[i][j+1] similarly.
When A[i] == B[j] there is a diagonal edge from v[i][j] to v[i+1][j+1].

A path between in the graph between (0,0) and (N,M) determines a sequence
of edits converting A into B: each horizontal edge corresponds to removing
an element of A, and each vertical edge corresponds to inserting an
element of B.

A vertex (x,y) is on (forward) diagonal k if x-y=k. A path in the graph
is of length D if it has D non-diagonal edges. The algorithms generate
forward paths (in which at least one of x,y increases at each edge),
or backward paths (in which at least one of x,y decreases at each edge),
or a combination. (Note that the orientation is the traditional mathematical one,
with the origin in the lower-left corner.)

Here is the edit graph for A:"aabbaa", B:"aacaba". (I know the diagonals look weird.)
          ⊙   -------   ⊙   -------   ⊙   -------   ⊙   -------   ⊙   -------   ⊙   -------   ⊙
   a      |   ___/‾‾‾   |   ___/‾‾‾   |             |             |   ___/‾‾‾   |   ___/‾‾‾   |
          ⊙   -------   ⊙   -------   ⊙   -------   ⊙   -------   ⊙   -------   ⊙   -------   ⊙
   b      |             |             |   ___/‾‾‾   |   ___/‾‾‾   |             |             |
          ⊙   -------   ⊙   -------   ⊙   -------   ⊙   -------   ⊙   -------   ⊙   -------   ⊙
   a      |   ___/‾‾‾   |   ___/‾‾‾   |             |             |   ___/‾‾‾   |   ___/‾‾‾   |
          ⊙   -------   ⊙   -------   ⊙   -------   ⊙   -------   ⊙   -------   ⊙   -------   ⊙
   c      |             |             |             |             |             |             |
          ⊙   -------   ⊙   -------   ⊙   -------   ⊙   -------   ⊙   -------   ⊙   -------   ⊙
   a      |   ___/‾‾‾   |   ___/‾‾‾   |             |             |   ___/‾‾‾   |   ___/‾‾‾   |
          ⊙   -------   ⊙   -------   ⊙   -------   ⊙   -------   ⊙   -------   ⊙   -------   ⊙
   a      |   ___/‾‾‾   |   ___/‾‾‾   |             |             |   ___/‾‾‾   |   ___/‾‾‾   |
          ⊙   -------   ⊙   -------   ⊙   -------   ⊙   -------   ⊙   -------   ⊙   -------   ⊙
                 a             a             b             b             a             a


The algorithm labels a vertex (x,y) with D,k if it is on diagonal k and at
the end of a maximal path of length D. (Because x-y=k it suffices to remember
only the x coordinate of the vertex.)

The forward algorithm: Find the longest diagonal starting at (0,0) and
label its end with D=0,k=0. From that vertex take a vertical step and
then follow the longest diagonal (up and to the right), and label that vertex
with D=1,k=-1. From the D=0,k=0 point take a horizontal step and the follow
the longest diagonal (up and to the right) and label that vertex
D=1,k=1. In the same way, having labelled all the D vertices,
from a vertex labelled D,k find two vertices
tentatively labelled D+1,k-1 and D+1,k+1. There may be two on the same
diagonal, in which case take the one with the larger x.

Eventually the path gets to (N,M), and the diagonals on it are the LCS.

Here is the edit graph with the ends of D-paths labelled. (So, for instance,
0/2,2 indicates that x=2,y=2 is labelled with 0, as it should be, since the first
step is to go up the longest diagonal from (0,0).)
A:"aabbaa", B:"aacaba"
          ⊙   -------   ⊙   -------   ⊙   -------(3/3,6)-------   ⊙   -------(3/5,6)-------(4/6,6)
   a      |   ___/‾‾‾   |   ___/‾‾‾   |             |             |   ___/‾‾‾   |   ___/‾‾‾   |
          ⊙   -------   ⊙   -------   ⊙   -------(2/3,5)-------   ⊙   -------   ⊙   -------   ⊙
   b      |             |             |   ___/‾‾‾   |   ___/‾‾‾   |             |             |
          ⊙   -------   ⊙   -------   ⊙   -------   ⊙   -------   ⊙   -------(3/5,4)-------   ⊙
   a      |   ___/‾‾‾   |   ___/‾‾‾   |             |             |   ___/‾‾‾   |   ___/‾‾‾   |
          ⊙   -------   ⊙   -------(1/2,3)-------(2/3,3)-------   ⊙   -------   ⊙   -------   ⊙
   c      |             |             |             |             |             |             |
          ⊙   -------   ⊙   -------(0/2,2)-------(1/3,2)-------(2/4,2)-------(3/5,2)-------(4/6,2)
   a      |   ___/‾‾‾   |   ___/‾‾‾   |             |             |   ___/‾‾‾   |   ___/‾‾‾   |
          ⊙   -------   ⊙   -------   ⊙   -------   ⊙   -------   ⊙   -------   ⊙   -------   ⊙
   a      |   ___/‾‾‾   |   ___/‾‾‾   |             |             |   ___/‾‾‾   |   ___/‾‾‾   |
          ⊙   -------   ⊙   -------   ⊙   -------   ⊙   -------   ⊙   -------   ⊙   -------   ⊙
                 a             a             b             b             a             a

The 4-path is reconstructed starting at (4/6,6), horizontal to (3/5,6), diagonal to (3,4), vertical
to (2/3,3), horizontal to (1/2,3), vertical to (0/2,2), and diagonal to (0,0). As expected,
there are 4 non-diagonal steps, and the diagonals form an LCS.

There is a symmetric backward algorithm, which gives (backwards labels are prefixed with a colon):
A:"aabbaa", B:"aacaba"
            ⊙   --------    ⊙   --------    ⊙   --------    ⊙   --------    ⊙   --------    ⊙   --------    ⊙
    a       |   ____/‾‾‾    |   ____/‾‾‾    |               |               |   ____/‾‾‾    |   ____/‾‾‾    |
            ⊙   --------    ⊙   --------    ⊙   --------    ⊙   --------    ⊙   --------(:0/5,5)--------    ⊙
    b       |               |               |   ____/‾‾‾    |   ____/‾‾‾    |               |               |
            ⊙   --------    ⊙   --------    ⊙   --------(:1/3,4)--------    ⊙   --------    ⊙   --------    ⊙
    a       |   ____/‾‾‾    |   ____/‾‾‾    |               |               |   ____/‾‾‾    |   ____/‾‾‾    |
        (:3/0,3)--------(:2/1,3)--------    ⊙   --------(:2/3,3)--------(:1/4,3)--------    ⊙   --------    ⊙
    c       |               |               |               |               |               |               |
            ⊙   --------    ⊙   --------    ⊙   --------(:3/3,2)--------(:2/4,2)--------    ⊙   --------    ⊙
    a       |   ____/‾‾‾    |   ____/‾‾‾    |               |               |   ____/‾‾‾    |   ____/‾‾‾    |
        (:3/0,1)--------    ⊙   --------    ⊙   --------    ⊙   --------(:3/4,1)--------    ⊙   --------    ⊙
    a       |   ____/‾‾‾    |   ____/‾‾‾    |               |               |   ____/‾‾‾    |   ____/‾‾‾    |
        (:4/0,0)--------    ⊙   --------    ⊙   --------    ⊙   --------(:4/4,0)--------    ⊙   --------    ⊙
                    a               a               b               b               a               a

Neither of these is ideal for use in an editor, where it is undesirable to send very long diffs to the
front end. It's tricky to decide exactly what 'very long diffs' means, as "replace A by B" is very short.
We want to control how big D can be, by stopping when it gets too large. The forward algorithm then
privileges common prefixes, and the backward algorithm privileges common suffixes. Either is an undesirable
asymmetry.

Fortunately there is a two-sided algorithm, implied by results in Myers' paper. Here's what the labels in
the edit graph look like.
A:"aabbaa", B:"aacaba"
             ⊙    ---------    ⊙    ---------    ⊙    ---------    ⊙    ---------    ⊙    ---------    ⊙    ---------    ⊙
    a        |    ____/‾‾‾‾    |    ____/‾‾‾‾    |                 |                 |    ____/‾‾‾‾    |    ____/‾‾‾‾    |
             ⊙    ---------    ⊙    ---------    ⊙    --------- (2/3,5) ---------    ⊙    --------- (:0/5,5)---------    ⊙
    b        |                 |                 |    ____/‾‾‾‾    |    ____/‾‾‾‾    |                 |                 |
             ⊙    ---------    ⊙    ---------    ⊙    --------- (:1/3,4)---------    ⊙    ---------    ⊙    ---------    ⊙
    a        |    ____/‾‾‾‾    |    ____/‾‾‾‾    |                 |                 |    ____/‾‾‾‾    |    ____/‾‾‾‾    |
             ⊙    --------- (:2/1,3)--------- (1/2,3) ---------(2:2/3,3)--------- (:1/4,3)---------    ⊙    ---------    ⊙
    c        |                 |                 |                 |                 |                 |                 |
             ⊙    ---------    ⊙    --------- (0/2,2) --------- (1/3,2) ---------(2:2/4,2)---------    ⊙    ---------    ⊙
    a        |    ____/‾‾‾‾    |    ____/‾‾‾‾    |                 |                 |    ____/‾‾‾‾    |    ____/‾‾‾‾    |
             ⊙    ---------    ⊙    ---------    ⊙    ---------    ⊙    ---------    ⊙    ---------    ⊙    ---------    ⊙
    a        |    ____/‾‾‾‾    |    ____/‾‾‾‾    |                 |                 |    ____/‾‾‾‾    |    ____/‾‾‾‾    |
             ⊙    ---------    ⊙    ---------    ⊙    ---------    ⊙    ---------    ⊙    ---------    ⊙    ---------    ⊙
                      a                 a                 b                 b                 a                 a

The algorithm stopped when it saw the backwards 2-path ending at (1,3) and the forwards 2-path ending at (3,5). The criterion
is a backwards path ending at (u,v) and a forward path ending at (x,y), where u <= x and the two points are on the same
diagonal. (Here the edgegraph has a diagonal, but the criterion is x-y=u-v.) Myers proves there is a forward
2-path from (0,0) to (1,3), and that together with the backwards 2-path ending at (1,3) gives the expected 4-path.
Unfortunately the forward path has to be constructed by another run of the forward algorithm; it can't be found from the
computed labels. That is the worst case. Had the code noticed (x,y)=(u,v)=(3,3) the whole path could be reconstructed
from the edgegraph. The implementation looks for a number of special cases to try to avoid computing an extra forward path.

If the two-sided algorithm has stop early (because D has become too large) it will have found a forward LCS and a
backwards LCS. Ideally these go with disjoint prefixes and suffixes of A and B, but disjointness may fail and the two
computed LCS may conflict. (An easy example is where A is a suffix of B, and shares a short prefix. The backwards LCS
is all of A, and the forward LCS is a prefix of A.) The algorithm combines the two
to form a best-effort LCS. In the worst case the forward partial LCS may have to
be recomputed.
*/

/* Eugene Myers paper is titled
"An O(ND) Difference Algorithm and Its Variations"
and can be found at
http://www.xmailserver.org/diff2.pdf

(There is a generic implementation of the algorithm the repository with git hash
b9ad7e4ade3a686d608e44475390ad428e60e7fc)
*/
