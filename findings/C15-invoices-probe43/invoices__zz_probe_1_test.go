package invoices_test

import (
	"database/sql"
	"testing"
	"time"

	"github.com/lightningnetwork/lnd/amp"
	"github.com/lightningnetwork/lnd/channeldb"
	"github.com/lightningnetwork/lnd/clock"
	invpkg "github.com/lightningnetwork/lnd/invoices"
	"github.com/lightningnetwork/lnd/lntypes"
	"github.com/lightningnetwork/lnd/lnwire"
	"github.com/lightningnetwork/lnd/record"
	"github.com/lightningnetwork/lnd/sqldb"
	"github.com/stretchr/testify/require"
)

func probeMakeKV(t *testing.T) (invpkg.InvoiceDB, *clock.TestClock) {
	testClock := clock.NewTestClock(testTime)
	db, err := channeldb.MakeTestInvoiceDB(
		t, channeldb.OptionClock(testClock),
	)
	require.NoError(t, err)

	return db, testClock
}

func probeMakeSQLite(t *testing.T) (invpkg.InvoiceDB, *clock.TestClock) {
	db := sqldb.NewTestSqliteDB(t).BaseDB
	executor := sqldb.NewTransactionExecutor(
		db, func(tx *sql.Tx) invpkg.SQLInvoiceQueries {
			return db.WithTx(tx)
		},
	)
	testClock := clock.NewTestClock(testTime)

	return invpkg.NewSQLStore(executor, testClock), testClock
}

// TestProbeAmpSetIDReuseAfterSettle: an AMP set is settled by one htlc. A
// further, partial htlc then arrives that names the same set id (a different
// circuit). The registry must answer it with a verdict (hold or fail). The
// record of the settled htlc must survive, and a replay of the settled htlc
// must again be answered with its preimage.
//
// OBSERVED on the unmodified tree (KV and SQLite): NotifyExitHopHtlc returns
// the error "htlc already settled" (ErrHTLCAlreadySettled from
// getUpdatedHtlcState via addHTLCs) for htlc 2 instead of a resolution. The
// link turns any error of NotifyExitHopHtlc into a link failure
// (ErrInternalError, htlcswitch/link.go processRemoteAdds), and the htlc is
// replayed with the same result whenever the link comes back.
func TestProbeAmpSetIDReuseAfterSettle(t *testing.T) {
	t.Run("KV", func(t *testing.T) {
		probeAmpSetIDReuseAfterSettle(t, probeMakeKV)
	})
	t.Run("SQLite", func(t *testing.T) {
		probeAmpSetIDReuseAfterSettle(t, probeMakeSQLite)
	})
}

func probeAmpSetIDReuseAfterSettle(t *testing.T,
	makeDB func(t *testing.T) (invpkg.InvoiceDB, *clock.TestClock)) {

	defer timeout()()

	ctx := newTestContext(t, nil, makeDB)
	ctxb := t.Context()

	const expiry = uint32(testCurrentHeight + 20)

	var (
		payAddr = [32]byte{4, 4, 4}
		setID   = [32]byte{5, 5, 5}
	)

	ampInvoice := newInvoice(t, false, true)
	ampInvoice.Terms.PaymentAddr = payAddr
	_, err := ctx.registry.AddInvoice(
		ctxb, ampInvoice, testInvoicePaymentHash,
	)
	require.NoError(t, err)

	value := ampInvoice.Terms.Value

	// Htlc 1 pays the whole invoice in one shard.
	sharer, err := amp.NewSeedSharer()
	require.NoError(t, err)
	child := sharer.Child(0)

	key1 := getCircuitKey(1)
	payload1 := &mockPayload{
		mpp: record.NewMPP(value, payAddr),
		amp: record.NewAMP(child.Share, setID, 0),
	}
	resolution, err := ctx.registry.NotifyExitHopHtlc(
		child.Hash, value, expiry, testCurrentHeight, key1,
		make(chan interface{}, 1), nil, payload1,
	)
	require.NoError(t, err)
	checkSettleResolution(t, resolution, child.Preimage)

	// A replay is answered with the preimage.
	resolution, err = ctx.registry.NotifyExitHopHtlc(
		child.Hash, value, expiry, testCurrentHeight, key1,
		make(chan interface{}, 1), nil, payload1,
	)
	require.NoError(t, err)
	checkSettleResolution(t, resolution, child.Preimage)

	// Htlc 2: other circuit, same set id, half the value.
	key2 := getCircuitKey(2)
	payload2 := &mockPayload{
		mpp: record.NewMPP(value, payAddr),
		amp: record.NewAMP([32]byte{1}, setID, 1),
	}
	resolution, err = ctx.registry.NotifyExitHopHtlc(
		lntypes.Hash{2}, value/2, expiry, testCurrentHeight, key2,
		make(chan interface{}, 1), nil, payload2,
	)
	require.NoError(t, err)
	t.Logf("htlc 2 resolution: %v", resolution)
	require.NotNil(t, resolution, "htlc 2 joined an already settled set")
	_, isFail := resolution.(*invpkg.HtlcFailResolution)
	require.True(t, isFail, "htlc 2 joined an already settled set")

	// Htlc 3: other circuit, same set id, a valid full-value single shard
	// of a new payment. The set id was used, so it must be refused too and
	// must not be tallied into the settled set a second time.
	sharer3, err := amp.NewSeedSharer()
	require.NoError(t, err)
	child3 := sharer3.Child(0)
	payload3 := &mockPayload{
		mpp: record.NewMPP(value, payAddr),
		amp: record.NewAMP(child3.Share, setID, 0),
	}
	resolution, err = ctx.registry.NotifyExitHopHtlc(
		child3.Hash, value, expiry, testCurrentHeight,
		getCircuitKey(3), make(chan interface{}, 1), nil, payload3,
	)
	require.NoError(t, err)
	_, isFail = resolution.(*invpkg.HtlcFailResolution)
	require.True(t, isFail, "a settled set id was settled a second time")

	inv, err := ctx.registry.LookupInvoice(ctxb, testInvoicePaymentHash)
	require.NoError(t, err)
	t.Logf("invoice state=%v amt_paid=%v htlcs=%d amp_state=%+v",
		inv.State, inv.AmtPaid, len(inv.Htlcs), inv.AMPState[setID])

	require.Equal(t, value, inv.AmtPaid)
	require.Equal(t, value, inv.AMPState[setID].AmtPaid)

	htlc1, ok := inv.Htlcs[key1]
	require.True(t, ok, "the record of settled htlc 1 is gone")
	require.Equal(t, invpkg.HtlcStateSettled, htlc1.State)

	// Replay htlc 1 again.
	resolution, err = ctx.registry.NotifyExitHopHtlc(
		child.Hash, value, expiry, testCurrentHeight, key1,
		make(chan interface{}, 1), nil, payload1,
	)
	require.NoError(t, err)
	require.NotNil(t, resolution, "replay of settled htlc 1 was held")
	checkSettleResolution(t, resolution, child.Preimage)
}

// TestProbeStartupGcForgetsCanceledHtlc: a hold-keysend htlc is canceled
// together with its just-in-time invoice. After a restart with
// GcCanceledInvoicesOnStartup the replay of that htlc must still be answered
// as canceled.
//
// OBSERVED on the unmodified tree (KV and SQLite): the startup garbage
// collection (scanInvoicesOnStart -> DeleteCanceledInvoices) removes the
// canceled invoice together with its htlc records, the replayed keysend htlc
// re-creates the invoice and is accepted (held) as a new payment. The
// on-the-fly collection was repaired for exactly this (cancelInvoiceImpl keeps
// an invoice that recorded htlcs), the startup collection was not.
func TestProbeStartupGcForgetsCanceledHtlc(t *testing.T) {
	t.Run("KV", func(t *testing.T) {
		probeStartupGcForgetsCanceledHtlc(t, probeMakeKV)
	})
	t.Run("SQLite", func(t *testing.T) {
		probeStartupGcForgetsCanceledHtlc(t, probeMakeSQLite)
	})
}

func probeStartupGcForgetsCanceledHtlc(t *testing.T,
	makeDB func(t *testing.T) (invpkg.InvoiceDB, *clock.TestClock)) {

	defer timeout()()

	cfg := defaultRegistryConfig()
	cfg.AcceptKeySend = true
	cfg.KeysendHoldTime = time.Minute
	cfg.GcCanceledInvoicesOnStartup = true
	ctx := newTestContext(t, &cfg, makeDB)
	ctxb := t.Context()

	amt := lnwire.MilliSatoshi(1000)
	expiry := uint32(testCurrentHeight + 20)
	preimage := lntypes.Preimage{1, 2, 3}
	hash := preimage.Hash()
	key := getCircuitKey(10)

	keysendPayload := &mockPayload{
		customRecords: map[uint64][]byte{
			record.KeySendType: preimage[:],
		},
	}

	hodlChan := make(chan interface{}, 1)
	resolution, err := ctx.registry.NotifyExitHopHtlc(
		hash, amt, expiry, testCurrentHeight, key, hodlChan, nil,
		keysendPayload,
	)
	require.NoError(t, err)
	require.Nil(t, resolution)

	// The user cancels the held keysend.
	require.NoError(t, ctx.registry.CancelInvoice(ctxb, hash))
	res := <-hodlChan
	checkFailResolution(
		t, res.(invpkg.HtlcResolution), invpkg.ResultCanceled,
	)

	// Replay before the restart: canceled.
	resolution, err = ctx.registry.NotifyExitHopHtlc(
		hash, amt, expiry, testCurrentHeight, key,
		make(chan interface{}, 1), nil, keysendPayload,
	)
	require.NoError(t, err)
	checkFailResolution(t, resolution, invpkg.ResultReplayToCanceled)

	// Restart: a new registry on the same database.
	notifier := newMockNotifier()
	expiryWatcher := invpkg.NewInvoiceExpiryWatcher(
		ctx.clock, 0, uint32(testCurrentHeight), nil, notifier,
	)
	cfg2 := cfg
	cfg2.Clock = ctx.clock
	registry2 := invpkg.NewRegistry(ctx.idb, expiryWatcher, &cfg2)
	require.NoError(t, registry2.Start())
	t.Cleanup(func() {
		require.NoError(t, registry2.Stop())
	})

	// The link replays the htlc after the restart.
	resolution, err = registry2.NotifyExitHopHtlc(
		hash, amt, expiry, testCurrentHeight, key,
		make(chan interface{}, 1), nil, keysendPayload,
	)
	require.NoError(t, err)
	require.NotNil(
		t, resolution, "the replay of a canceled htlc was accepted "+
			"(held) as a new payment after the restart",
	)
	checkFailResolution(t, resolution, invpkg.ResultReplayToCanceled)
}
