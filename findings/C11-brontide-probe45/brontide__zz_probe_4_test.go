package brontide

import (
	"bytes"
	"errors"
	"testing"

	"github.com/stretchr/testify/require"
)

// zzp4Writer accepts `limit` bytes, then fails once with a hard (non-timeout)
// error, then accepts everything.
type zzp4Writer struct {
	wire  bytes.Buffer
	limit int
	fired bool
}

var errZZP4Hard = errors.New("zzp4: broken pipe")

func (w *zzp4Writer) Write(p []byte) (int, error) {
	if !w.fired && len(p) > w.limit {
		w.fired = true
		n, _ := w.wire.Write(p[:w.limit])
		return n, errZZP4Hard
	}
	if !w.fired {
		w.limit -= len(p)
	}
	return w.wire.Write(p)
}

// TestZZProbe4HardWriteErrorFailsSafe: a hard write error in the middle of a
// record leaves a truncated record on the wire. What must hold afterwards is
// that the receiver is never handed anything but the exact sequence written:
// either the sender refuses further messages, or the rest of the record goes
// out first. Dropping the pending bytes and starting a new record would
// desynchronise the stream.
func TestZZProbe4HardWriteErrorFailsSafe(t *testing.T) {
	sender, receiver := zzp1Pair(t)

	w := &zzp4Writer{limit: encHeaderSize + 10}
	first := bytes.Repeat([]byte{1}, 100)
	require.NoError(t, sender.WriteMessage(first))
	_, err := sender.Flush(w)
	require.ErrorIs(t, err, errZZP4Hard)

	// The chunked path of Conn.Write and the single message path both go
	// through WriteMessage first.
	second := []byte("second")
	err = sender.WriteMessage(second)
	if err != nil {
		// Refused: nothing new may have reached the wire.
		require.ErrorIs(t, err, ErrMessageNotFlushed)
		require.Equal(t, encHeaderSize+10, w.wire.Len())

		// Flush is still able to complete the record, after which
		// the stream is intact.
		_, err = sender.Flush(w)
		require.NoError(t, err)
		require.NoError(t, sender.WriteMessage(second))
	}
	_, err = sender.Flush(w)
	require.NoError(t, err)

	rd := bytes.NewReader(w.wire.Bytes())
	got, err := receiver.ReadMessage(rd)
	require.NoError(t, err)
	require.Equal(t, first, got)
	got, err = receiver.ReadMessage(rd)
	require.NoError(t, err)
	require.Equal(t, second, got)
}
