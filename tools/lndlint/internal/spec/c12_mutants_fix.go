package spec

// Witnesses restoring the shape the repairs b3aa835 / 51c8ea1 removed.
func init() {
	registry["C12"].Mutants = append(registry["C12"].Mutants, []Mutant{
		{Name: "fixrev-confirmed-dust-not-failed-back", File: "contractcourt/channel_arbitrator.go",
			Old:    "\t\t\terr := c.abandonForwards(\n\t\t\t\tremoteDangling.Union(confirmedDust),\n\t\t\t)",
			New:    "\t\t\t_ = confirmedDust\n\t\t\terr := c.abandonForwards(remoteDangling)",
			Expect: "confirmed-commitment-dust-is-failed-back-once"},
		{Name: "fixrev-fail-back-not-deduplicated", File: "contractcourt/channel_arbitrator.go",
			Old:    "\thtlcs = htlcs.Diff(c.abandonedForwards)\n",
			New:    "",
			Expect: "confirmed-commitment-dust-is-failed-back-once"},
		{Name: "fixrev-delivered-indexes-not-remembered", File: "contractcourt/channel_arbitrator.go",
			Old:    "\tfor idx := range htlcs {\n\t\tc.abandonedForwards.Add(idx)\n\t}\n",
			New:    "",
			Expect: "confirmed-commitment-dust-is-failed-back-once"},
		{Name: "indexes-remembered-before-delivery-succeeded", File: "contractcourt/channel_arbitrator.go",
			Old:    "\terr := c.cfg.DeliverResolutionMsg(msgsToSend...)\n\tif err != nil {\n\t\tlog.Errorf(\"Unable to send resolution msges to switch: %v\", err)\n\t\treturn err\n\t}\n\n\t// The switch has persisted the messages, remember them so we don't\n\t// cancel these HTLCs a second time.\n\tfor idx := range htlcs {\n\t\tc.abandonedForwards.Add(idx)\n\t}\n",
			New:    "\tfor idx := range htlcs {\n\t\tc.abandonedForwards.Add(idx)\n\t}\n\terr := c.cfg.DeliverResolutionMsg(msgsToSend...)\n\tif err != nil {\n\t\tlog.Errorf(\"Unable to send resolution msges to switch: %v\", err)\n\t\treturn err\n\t}\n",
			Expect: "confirmed-commitment-dust-is-failed-back-once"},
		{Name: "fixrev-remote-merge-by-map-order", File: "contractcourt/channel_arbitrator.go",
			Old:    "\t\t\t\tif ok && known.OutputIndex >= 0 {\n\t\t\t\t\tcontinue\n\t\t\t\t}\n",
			New:    "\t\t\t\t_, _ = known, ok\n",
			Expect: "confirmed-commitment-dust-is-failed-back-once"},
		{Name: "confirmed-fail-back-only-for-chain-triggers", File: "contractcourt/channel_arbitrator.go",
			Old:    "\t\t\terr := c.abandonForwards(\n\t\t\t\tremoteDangling.Union(confirmedDust),\n\t\t\t)\n\t\t\tif err != nil {\n\t\t\t\treturn StateError, closeTx, err\n\t\t\t}\n",
			New:    "\t\t\tif trigger == chainTrigger {\n\t\t\t\terr := c.abandonForwards(\n\t\t\t\t\tremoteDangling.Union(confirmedDust),\n\t\t\t\t)\n\t\t\t\tif err != nil {\n\t\t\t\t\treturn StateError, closeTx, err\n\t\t\t\t}\n\t\t\t}\n",
			Expect: "fail-back-sites-depend-only-on-their-action-set"},
	}...)
}
