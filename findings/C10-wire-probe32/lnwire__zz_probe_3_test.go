package lnwire

import (
	"bytes"
	"net"
	"strings"
	"testing"

	"github.com/stretchr/testify/require"
)

// A node_announcement whose DNS address carries a hostname of more than 255
// bytes can't be represented (the length prefix is one byte). WriteDNSAddress
// truncates the length with uint8(len) instead of refusing, so the message is
// written and the whole address list that follows is corrupted. The encoder
// must either refuse, or produce bytes that decode to an equal address list.
func TestProbeDNSHostnameLengthTruncated(t *testing.T) {
	for _, hostLen := range []int{256, 258, 300} {
		ann := &NodeAnnouncement1{
			Features:  NewRawFeatureVector(),
			Timestamp: 1700000000,
			Addresses: []net.Addr{
				&DNSAddress{
					Hostname: strings.Repeat("a", hostLen),
					Port:     9735,
				},
				&net.TCPAddr{
					IP:   net.IP{1, 2, 3, 4},
					Port: 9735,
				},
			},
			ExtraOpaqueData: make([]byte, 0),
		}
		copy(ann.NodeID[:], bytes.Repeat([]byte{2}, 33))

		var b bytes.Buffer
		_, err := WriteMessage(&b, ann, 0)
		if err != nil {
			t.Logf("hostname of %d bytes refused: %v", hostLen, err)
			continue
		}

		msg, err := ReadMessage(bytes.NewReader(b.Bytes()), 0)
		if err != nil {
			t.Errorf("hostname of %d bytes: encoded without "+
				"error, but the result does not decode: %v",
				hostLen, err)
			continue
		}

		got := msg.(*NodeAnnouncement1).Addresses
		require.Len(t, got, 2, "hostname of %d bytes: address list "+
			"corrupted: %v", hostLen, got)
		require.Equal(t, ann.Addresses[0].String(), got[0].String())
		require.Equal(t, ann.Addresses[1].String(), got[1].String())
	}
}

// The longest representable hostname still round trips.
func TestProbeDNSHostname255(t *testing.T) {
	addr := &DNSAddress{Hostname: strings.Repeat("a", 255), Port: 1}

	var b bytes.Buffer
	require.NoError(t, WriteNetAddrs(&b, []net.Addr{addr}))

	var got []net.Addr
	require.NoError(t, ReadElement(&b, &got))
	require.Equal(t, []net.Addr{addr}, got)
}
