package spec

// Witness for c20_round5.go: seeded change C20/i of the fifth round.
func init() {
	registry["C20"].Mutants = append(registry["C20"].Mutants, []Mutant{
		{Name: "seed5-C20-i", File: "graph/db/kv_store.go",
			Old:    "\t\t// latest block.\n\t\tprunedNodes, err = c.pruneGraphNodes(nodes, edgeIndex)\n\n\t\treturn err\n\t}, func() {\n\t\tchansClosed = nil\n",
			New:    "\t\t// latest block.\n\t\tif len(chansClosed) == 0 {\n\t\t\treturn nil\n\t\t}\n\n\t\tprunedNodes, err = c.pruneGraphNodes(nodes, edgeIndex)\n\n\t\treturn err\n\t}, func() {\n\t\tchansClosed = nil\n",
			Expect: "every-pruned-block-collects-channelless-nodes"},
		{Name: "seed5-C20-i-conditional-call", File: "graph/db/kv_store.go",
			Old:    "\t\t// latest block.\n\t\tprunedNodes, err = c.pruneGraphNodes(nodes, edgeIndex)\n\n\t\treturn err\n\t}, func() {\n\t\tchansClosed = nil\n",
			New:    "\t\t// latest block.\n\t\tif len(chansClosed) > 0 {\n\t\t\tprunedNodes, err = c.pruneGraphNodes(nodes, edgeIndex)\n\t\t}\n\n\t\treturn err\n\t}, func() {\n\t\tchansClosed = nil\n",
			Expect: "every-pruned-block-collects-channelless-nodes"},
		// fix reversal of 41afca5: the sql store leaves the closure without collecting nodes when the block spent no channel
		{Name: "fixrev-sql-prune-skips-node-collection", File: "graph/db/sql_store.go",
			Old:    "\t\t\tprunedNodes, err = s.pruneGraphNodes(ctx, db)\n\t\t\tif err != nil {\n\t\t\t\treturn fmt.Errorf(\"unable to prune graph \"+\n\t\t\t\t\t\"nodes: %w\", err)\n\t\t\t}\n\n\t\t\treturn nil\n",
			New:    "\t\t\treturn nil\n",
			Expect: "every-pruned-block-collects-channelless-nodes"},
	}...)
}
