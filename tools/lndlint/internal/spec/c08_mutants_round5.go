package spec

func init() {
	registry["C08"].Mutants = append(registry["C08"].Mutants, []Mutant{
		{Name: "seed5-C08-j", File: "lnwallet/channel.go",
			Old:    "\n\treturn updates, openedCircuits, closedCircuits, nil",
			New:    "\n\treturn updates, closedCircuits, openedCircuits, nil",
			Expect: "resync-circuit-sets-keep-their-roles"},
	}...)
}
