package spec

import (
	"go/ast"
	"strings"

	"lndlint/internal/an"
)

// linkResyncRoles: the link's part of the reconnect protocol.  Two
// channel_reestablish messages are in play (ours, theirs) and each has one
// role; the channel_ready resend repeats what we announced in ours.
func linkResyncRoles(r *an.Run) {
	p := r.Prog
	r.Obl("link-resync-message-roles", "ROLE",
		"channelLink.syncChanStates sends the message built by chanState.ChanSyncMsg() and hands the message received from the peer (a *lnwire.ChannelReestablish) to ProcessChanSyncMsg; channel_ready is resent only when both messages announce next commitment number 1 and the channel is not pending, with NextRevocationKey() and, for taproot, the verification nonce of OUR reestablish message for this channel's funding txid; every message returned by ProcessChanSyncMsg is sent, in order",
		"the peer takes the latest verification nonce we send: repeating the peer's own nonce (or another channel's) makes it sign our next commitment against a nonce we do not hold, and the channel stalls after the reconnect", 6,
		func(o *an.Obl) {
			f := p.Func("htlcswitch.channelLink.syncChanStates")
			mk := f.Calls(an.CalleeIs("chanstate.OpenChannel.ChanSyncMsg"), false)
			if !need(o, f, "chanState.ChanSyncMsg", mk, 1) {
				return
			}
			sends := f.Calls(an.CalleeNamed("SendMessage"), false)
			sentOurs := false
			for _, s := range sends {
				a := f.ArgCanon(s)
				o.Site("%s sends %s", s.Where(), a[len(a)-1])
				if strings.HasPrefix(a[len(a)-1], "chanstate.OpenChannel.ChanSyncMsg(") || strings.Contains(a[len(a)-1], ".ChanSyncMsg()") {
					sentOurs = true
					mustPass(o, f, "ChanSyncMsg", mk, an.OkErrNil, []an.Site{s})
				}
			}
			if !sentOurs {
				o.FailAt(f.ID+"#sends-own-reestablish", f.Where(f.Body.Pos()), "syncChanStates does not send the message built by ChanSyncMsg()")
			}
			proc := f.Calls(an.CalleeIs("lnwallet.LightningChannel.ProcessChanSyncMsg"), false)
			if need(o, f, "ProcessChanSyncMsg", proc, 1) {
				a := f.ArgCanon(proc[0])
				o.Site("ProcessChanSyncMsg(%s)", a[1])
				// the argument is the variable bound by `x, ok := msg.(*lnwire.ChannelReestablish)`
				// where msg was received from the link's upstream channel
				fromPeer := false
				if id, ok := proc[0].Node.(*ast.CallExpr).Args[1].(*ast.Ident); ok {
					obj := f.Info().Uses[id]
					ast.Inspect(f.Body, func(n ast.Node) bool {
						as, ok := n.(*ast.AssignStmt)
						if !ok || len(as.Lhs) != 2 || len(as.Rhs) != 1 {
							return true
						}
						l, ok := as.Lhs[0].(*ast.Ident)
						if !ok || f.Info().Defs[l] != obj {
							return true
						}
						if ta, ok := as.Rhs[0].(*ast.TypeAssertExpr); ok && an.Text(ta.Type) == "*lnwire.ChannelReestablish" {
							if m, ok := ta.X.(*ast.Ident); ok {
								ast.Inspect(f.Body, func(k ast.Node) bool {
									if cc, ok := k.(*ast.CommClause); ok && cc.Comm != nil {
										if cas, ok := cc.Comm.(*ast.AssignStmt); ok && len(cas.Lhs) == 1 && len(cas.Rhs) == 1 {
											if li, ok := cas.Lhs[0].(*ast.Ident); ok && f.Info().Defs[li] == f.Info().Uses[m] && strings.HasSuffix(an.Text(cas.Rhs[0]), ".upstream") {
												fromPeer = true
											}
										}
									}
									return true
								})
							}
						}
						return true
					})
				}
				if !fromPeer || strings.Contains(a[1], "ChanSyncMsg(") {
					o.FailAt(f.ID+"#processed-message", proc[0].Where(), "ProcessChanSyncMsg is given %s, expected the channel_reestablish received from the peer (type-asserted from the upstream message)", a[1])
				}
			}
			// channel_ready resend
			cr := f.Calls(an.CalleeIs("lnwire.NewChannelReady"), false)
			if need(o, f, "lnwire.NewChannelReady", cr, 1) {
				for _, msgT := range []an.Term{canonTerm(`ChanSyncMsg\(\)\.NextLocalCommitHeight$`), canonTerm(`^\$v:\*lnwire\.ChannelReestablish\.NextLocalCommitHeight$`)} {
					guarded(o, f, cr[0], an.Cmp(msgT, an.EQ, an.IntConst(1), "both sides announce next commitment number 1"))
				}
				guarded(o, f, cr[0], an.Truth(an.CallNamed("IsPending", nil), false, "!l.channel.IsPending()"))
				if a := f.ArgCanon(cr[0]); !strings.Contains(a[1], "NextRevocationKey()") {
					o.FailAt(f.ID+"#channel-ready-point", cr[0].Where(), "the resent channel_ready carries %s, expected NextRevocationKey()", a[1])
				}
			}
			nonce := f.Calls(an.CalleeNamed("LocalVerNonce"), false)
			if need(o, f, "LocalVerNonce", nonce, 1) {
				for _, s := range nonce {
					c := s.Node.(*ast.CallExpr)
					recv := ""
					if sel, ok := c.Fun.(*ast.SelectorExpr); ok {
						recv = f.Canon(sel.X)
					}
					a := f.ArgCanon(s)
					o.Site("channel_ready nonce = %s.LocalVerNonce(%s)", recv, a[0])
					if !strings.Contains(recv, "ChanSyncMsg()") {
						o.FailAt(f.ID+"#nonce-source", s.Where(), "the resent channel_ready takes its nonce from %s, expected our own reestablish message (the nonce we just announced)", recv)
					}
					if !strings.HasSuffix(a[0], ".FundingOutpoint.Hash") || !strings.Contains(a[0], "$recv.channel.State()") {
						o.FailAt(f.ID+"#nonce-channel", s.Where(), "the nonce is looked up for %s, expected this channel's funding txid", a[0])
					}
					guarded(o, f, s, an.Truth(an.CallNamed("IsTaproot", nil), true, "taproot channel"))
				}
			}
			// retransmission: every returned message is sent
			var resend []an.Site
			for _, s := range sends {
				if hdr := enclosingLoopHeader(f, s.Node); strings.Contains(hdr, "ProcessChanSyncMsg(") {
					resend = append(resend, s)
					if a := f.ArgCanon(s); !strings.HasPrefix(a[len(a)-1], "$elem(") {
						o.FailAt(f.ID+"#resent-message", s.Where(), "the retransmission loop sends %s", a[len(a)-1])
					}
				}
			}
			if need(o, f, "retransmission send", resend, 1) {
				loopVisitsAll(o, f, `ProcessChanSyncMsg\(`)
				everyIteration(o, f, `ProcessChanSyncMsg\(`, resend, "SendMessage")
			}
		})
}
