package spec

import (
	"fmt"
	"go/ast"
	"go/constant"
	"go/token"
	"go/types"
	"math/big"
	"strings"

	"lndlint/internal/an"
	"lndlint/internal/flow"
)

func init() {
	specExtras["C09"] = append(specExtras["C09"], c09f5Repairs)
}

// ---------------------------------------------------------------------------
// An evaluator for the straight-line integer code of the two fee formulas.
// Values are unbounded integers that are reduced to the static type of the
// expression after every operation, exactly as the compiled code does; every
// reduction that changes the value of a +, -, * (a wrap-around) is recorded.
// Nothing of lnd is run: the bodies are interpreted from the syntax tree.

type c09f5Interp struct {
	f     *an.Func
	vars  map[types.Object]*big.Int
	sels  map[string]*big.Int // canonical form of a field selection -> value
	wraps []string
}

// c09f5Panic is an evaluation that ends in a run-time panic of the analysed code.
type c09f5Panic struct{ msg string }

func (e c09f5Panic) Error() string { return e.msg }

func c09f5Big(s string) *big.Int {
	v, ok := new(big.Int).SetString(strings.ReplaceAll(s, "_", ""), 10)
	if !ok {
		panic("c09f5Big: " + s)
	}
	return v
}

func c09f5Pow2(n uint) *big.Int { return new(big.Int).Lsh(big.NewInt(1), n) }

// c09f5IntType returns width and signedness of a basic integer type.
func c09f5IntType(t types.Type) (bits uint, signed, ok bool) {
	if t == nil {
		return 0, false, false
	}
	b, isB := t.Underlying().(*types.Basic)
	if !isB {
		return 0, false, false
	}
	switch b.Kind() {
	case types.Int8:
		return 8, true, true
	case types.Int16:
		return 16, true, true
	case types.Int32:
		return 32, true, true
	case types.Int64, types.Int:
		return 64, true, true
	case types.Uint8:
		return 8, false, true
	case types.Uint16:
		return 16, false, true
	case types.Uint32:
		return 32, false, true
	case types.Uint64, types.Uint, types.Uintptr:
		return 64, false, true
	}
	return 0, false, false
}

// c09f5Reduce reduces v to the value an integer variable of the given shape
// holds after the assignment; changed reports whether that altered it.
func c09f5Reduce(v *big.Int, bits uint, signed bool) (*big.Int, bool) {
	m := c09f5Pow2(bits)
	r := new(big.Int).Mod(v, m) // Mod is Euclidean: 0 <= r < m
	if signed && r.Cmp(c09f5Pow2(bits-1)) >= 0 {
		r.Sub(r, m)
	}
	return r, r.Cmp(v) != 0
}

func c09f5Bool(b bool) *big.Int {
	if b {
		return big.NewInt(1)
	}
	return big.NewInt(0)
}

func (in *c09f5Interp) typed(e ast.Expr, exact *big.Int, what string) (*big.Int, error) {
	bits, signed, ok := c09f5IntType(in.f.Info().TypeOf(e))
	if !ok {
		return nil, fmt.Errorf("%s is not of an integer type", an.Text(e))
	}
	r, changed := c09f5Reduce(exact, bits, signed)
	if changed {
		in.wraps = append(in.wraps, fmt.Sprintf("%s (%s) = %s does not fit its %d-bit type and becomes %s", an.Text(e), what, exact, bits, r))
	}
	return r, nil
}

func (in *c09f5Interp) eval(e ast.Expr) (*big.Int, error) {
	info := in.f.Info()
	if tv, ok := info.Types[e]; ok && tv.Value != nil {
		switch tv.Value.Kind() {
		case constant.Bool:
			return c09f5Bool(constant.BoolVal(tv.Value)), nil
		case constant.Int, constant.Float:
			if c := constant.ToInt(tv.Value); c.Kind() == constant.Int {
				if v, ok := new(big.Int).SetString(c.ExactString(), 10); ok {
					return v, nil
				}
			}
		}
		return nil, fmt.Errorf("constant %s is not an integer", an.Text(e))
	}
	switch x := e.(type) {
	case *ast.ParenExpr:
		return in.eval(x.X)
	case *ast.Ident:
		if o := info.Uses[x]; o != nil {
			if v, ok := in.vars[o]; ok {
				return new(big.Int).Set(v), nil
			}
		}
		return nil, fmt.Errorf("%s is neither a parameter nor a local that was given a value", x.Name)
	case *ast.SelectorExpr:
		if v, ok := in.sels[in.f.Canon(x)]; ok {
			return new(big.Int).Set(v), nil
		}
		return nil, fmt.Errorf("%s is not a field of a parameter", an.Text(x))
	case *ast.CallExpr:
		if tv, ok := info.Types[x.Fun]; ok && tv.IsType() && len(x.Args) == 1 {
			bits, signed, ok := c09f5IntType(tv.Type)
			if !ok {
				return nil, fmt.Errorf("conversion %s is not to an integer type", an.Text(x))
			}
			v, err := in.eval(x.Args[0])
			if err != nil {
				return nil, err
			}
			r, _ := c09f5Reduce(v, bits, signed) // an explicit conversion is not a wrap-around of arithmetic
			return r, nil
		}
		switch id := an.CalleeID(info, x); id {
		case "builtin.min", "builtin.max":
			var best *big.Int
			for _, a := range x.Args {
				v, err := in.eval(a)
				if err != nil {
					return nil, err
				}
				if best == nil || (id == "builtin.min") == (v.Cmp(best) < 0) {
					best = v
				}
			}
			if best != nil {
				return best, nil
			}
		}
		return nil, fmt.Errorf("call %s is not understood", an.Text(x))
	case *ast.UnaryExpr:
		v, err := in.eval(x.X)
		if err != nil {
			return nil, err
		}
		switch x.Op {
		case token.NOT:
			return c09f5Bool(v.Sign() == 0), nil
		case token.ADD:
			return v, nil
		case token.SUB:
			return in.typed(x, new(big.Int).Neg(v), "negation")
		}
	case *ast.BinaryExpr:
		l, err := in.eval(x.X)
		if err != nil {
			return nil, err
		}
		switch x.Op {
		case token.LAND:
			if l.Sign() == 0 {
				return l, nil
			}
			return in.eval(x.Y)
		case token.LOR:
			if l.Sign() != 0 {
				return l, nil
			}
			return in.eval(x.Y)
		}
		r, err := in.eval(x.Y)
		if err != nil {
			return nil, err
		}
		c := l.Cmp(r)
		switch x.Op {
		case token.LSS:
			return c09f5Bool(c < 0), nil
		case token.LEQ:
			return c09f5Bool(c <= 0), nil
		case token.GTR:
			return c09f5Bool(c > 0), nil
		case token.GEQ:
			return c09f5Bool(c >= 0), nil
		case token.EQL:
			return c09f5Bool(c == 0), nil
		case token.NEQ:
			return c09f5Bool(c != 0), nil
		case token.ADD:
			return in.typed(x, new(big.Int).Add(l, r), "sum")
		case token.SUB:
			return in.typed(x, new(big.Int).Sub(l, r), "difference")
		case token.MUL:
			return in.typed(x, new(big.Int).Mul(l, r), "product")
		case token.QUO, token.REM:
			if r.Sign() == 0 {
				return nil, c09f5Panic{"division by zero in " + an.Text(x)}
			}
			if x.Op == token.QUO {
				return in.typed(x, new(big.Int).Quo(l, r), "quotient") // truncated, as in Go
			}
			return in.typed(x, new(big.Int).Rem(l, r), "remainder")
		}
	}
	return nil, fmt.Errorf("expression %s is not understood", an.Text(e))
}

// call2 evaluates the multi-valued arithmetic helpers of math/bits.
func (in *c09f5Interp) call2(c *ast.CallExpr) ([]*big.Int, error) {
	id := an.CalleeID(in.f.Info(), c)
	var a []*big.Int
	for _, x := range c.Args {
		v, err := in.eval(x)
		if err != nil {
			return nil, err
		}
		a = append(a, v)
	}
	two64 := c09f5Pow2(64)
	split := func(v *big.Int) []*big.Int {
		return []*big.Int{new(big.Int).Rsh(v, 64), new(big.Int).Mod(v, two64)}
	}
	switch {
	case id == "math/bits.Mul64" && len(a) == 2:
		return split(new(big.Int).Mul(a[0], a[1])), nil // hi, lo
	case id == "math/bits.Div64" && len(a) == 3:
		if a[2].Sign() == 0 {
			return nil, c09f5Panic{"bits.Div64 divides by zero in " + an.Text(c)}
		}
		if a[2].Cmp(a[0]) <= 0 {
			return nil, c09f5Panic{fmt.Sprintf("bits.Div64 panics in %s: the quotient does not fit (hi=%s >= y=%s)", an.Text(c), a[0], a[2])}
		}
		n := new(big.Int).Add(new(big.Int).Lsh(a[0], 64), a[1])
		q, r := new(big.Int).QuoRem(n, a[2], new(big.Int))
		return []*big.Int{q, r}, nil
	case id == "math/bits.Add64" && len(a) == 3:
		s := split(new(big.Int).Add(new(big.Int).Add(a[0], a[1]), a[2]))
		return []*big.Int{s[1], s[0]}, nil // sum, carry
	case id == "math/bits.Sub64" && len(a) == 3:
		d := new(big.Int).Sub(new(big.Int).Sub(a[0], a[1]), a[2])
		if d.Sign() < 0 {
			return []*big.Int{d.Add(d, two64), big.NewInt(1)}, nil
		}
		return []*big.Int{d, big.NewInt(0)}, nil
	}
	return nil, fmt.Errorf("call %s is not understood", an.Text(c))
}

func (in *c09f5Interp) objOf(e ast.Expr) (types.Object, bool, error) {
	id, ok := ast.Unparen(e).(*ast.Ident)
	if !ok {
		return nil, false, fmt.Errorf("assignment to %s is not understood", an.Text(e))
	}
	if id.Name == "_" {
		return nil, true, nil
	}
	info := in.f.Info()
	o := info.Defs[id]
	if o == nil {
		o = info.Uses[id]
	}
	if o == nil {
		return nil, false, fmt.Errorf("cannot resolve %s", id.Name)
	}
	return o, false, nil
}

// exec runs a statement list; done reports that a return was executed.
func (in *c09f5Interp) exec(stmts []ast.Stmt) (val *big.Int, done bool, err error) {
	for _, st := range stmts {
		switch x := st.(type) {
		case *ast.EmptyStmt:
		case *ast.ReturnStmt:
			if len(x.Results) != 1 {
				return nil, false, fmt.Errorf("`%s` does not return one value", an.Text(x))
			}
			v, err := in.eval(x.Results[0])
			return v, true, err
		case *ast.BlockStmt:
			if v, done, err := in.exec(x.List); done || err != nil {
				return v, done, err
			}
		case *ast.IfStmt:
			if x.Init != nil {
				if _, _, err := in.exec([]ast.Stmt{x.Init}); err != nil {
					return nil, false, err
				}
			}
			c, err := in.eval(x.Cond)
			if err != nil {
				return nil, false, err
			}
			var branch []ast.Stmt
			if c.Sign() != 0 {
				branch = x.Body.List
			} else if x.Else != nil {
				branch = []ast.Stmt{x.Else}
			}
			if v, done, err := in.exec(branch); done || err != nil {
				return v, done, err
			}
		case *ast.SwitchStmt:
			if x.Init != nil {
				if _, _, err := in.exec([]ast.Stmt{x.Init}); err != nil {
					return nil, false, err
				}
			}
			var tag *big.Int
			if x.Tag != nil {
				if tag, err = in.eval(x.Tag); err != nil {
					return nil, false, err
				}
			}
			var chosen, deflt *ast.CaseClause
			for _, cs := range x.Body.List {
				cc := cs.(*ast.CaseClause)
				if cc.List == nil {
					deflt = cc
					continue
				}
				for _, ce := range cc.List {
					v, err := in.eval(ce)
					if err != nil {
						return nil, false, err
					}
					if (tag == nil && v.Sign() != 0) || (tag != nil && v.Cmp(tag) == 0) {
						chosen = cc
						break
					}
				}
				if chosen != nil {
					break
				}
			}
			if chosen == nil {
				chosen = deflt
			}
			if chosen != nil {
				for _, s := range chosen.Body {
					if b, ok := s.(*ast.BranchStmt); ok {
						return nil, false, fmt.Errorf("`%s` inside a switch is not understood", an.Text(b))
					}
				}
				if v, done, err := in.exec(chosen.Body); done || err != nil {
					return v, done, err
				}
			}
		case *ast.DeclStmt:
			gd, ok := x.Decl.(*ast.GenDecl)
			if !ok {
				return nil, false, fmt.Errorf("declaration `%s` is not understood", an.Text(x))
			}
			if gd.Tok == token.CONST || gd.Tok == token.TYPE {
				continue // constants are resolved by the type checker
			}
			for _, sp := range gd.Specs {
				vs, ok := sp.(*ast.ValueSpec)
				if !ok || (len(vs.Values) != 0 && len(vs.Values) != len(vs.Names)) {
					return nil, false, fmt.Errorf("declaration `%s` is not understood", an.Text(x))
				}
				for i, nm := range vs.Names {
					v := big.NewInt(0)
					if len(vs.Values) > 0 {
						if v, err = in.eval(vs.Values[i]); err != nil {
							return nil, false, err
						}
					}
					if nm.Name != "_" {
						in.vars[in.f.Info().Defs[nm]] = v
					}
				}
			}
		case *ast.IncDecStmt:
			o, blank, err := in.objOf(x.X)
			if err != nil || blank {
				return nil, false, fmt.Errorf("`%s` is not understood", an.Text(x))
			}
			cur, ok := in.vars[o]
			if !ok {
				return nil, false, fmt.Errorf("%s has no value at `%s`", o.Name(), an.Text(x))
			}
			d := big.NewInt(1)
			if x.Tok == token.DEC {
				d = big.NewInt(-1)
			}
			v, err := in.typed(x.X, new(big.Int).Add(cur, d), "increment")
			if err != nil {
				return nil, false, err
			}
			in.vars[o] = v
		case *ast.AssignStmt:
			switch {
			case x.Tok == token.ASSIGN || x.Tok == token.DEFINE:
				var vals []*big.Int
				switch {
				case len(x.Lhs) == len(x.Rhs):
					for i, r := range x.Rhs {
						if _, blank, _ := in.objOf(x.Lhs[i]); blank {
							vals = append(vals, nil) // `_ = anything` has no effect
							continue
						}
						v, err := in.eval(r)
						if err != nil {
							return nil, false, err
						}
						vals = append(vals, v)
					}
				case len(x.Rhs) == 1:
					c, ok := ast.Unparen(x.Rhs[0]).(*ast.CallExpr)
					if !ok {
						return nil, false, fmt.Errorf("`%s` is not understood", an.Text(x))
					}
					if vals, err = in.call2(c); err != nil {
						return nil, false, err
					}
					if len(vals) != len(x.Lhs) {
						return nil, false, fmt.Errorf("`%s` is not understood", an.Text(x))
					}
				default:
					return nil, false, fmt.Errorf("`%s` is not understood", an.Text(x))
				}
				for i, l := range x.Lhs {
					o, blank, err := in.objOf(l)
					if err != nil {
						return nil, false, err
					}
					if !blank {
						in.vars[o] = vals[i]
					}
				}
			case len(x.Lhs) == 1 && len(x.Rhs) == 1:
				o, blank, err := in.objOf(x.Lhs[0])
				if err != nil || blank {
					return nil, false, fmt.Errorf("`%s` is not understood", an.Text(x))
				}
				cur, ok := in.vars[o]
				if !ok {
					return nil, false, fmt.Errorf("%s has no value at `%s`", o.Name(), an.Text(x))
				}
				r, err := in.eval(x.Rhs[0])
				if err != nil {
					return nil, false, err
				}
				var exact *big.Int
				switch x.Tok {
				case token.ADD_ASSIGN:
					exact = new(big.Int).Add(cur, r)
				case token.SUB_ASSIGN:
					exact = new(big.Int).Sub(cur, r)
				case token.MUL_ASSIGN:
					exact = new(big.Int).Mul(cur, r)
				case token.QUO_ASSIGN:
					if r.Sign() == 0 {
						return nil, false, c09f5Panic{"division by zero in " + an.Text(x)}
					}
					exact = new(big.Int).Quo(cur, r)
				default:
					return nil, false, fmt.Errorf("`%s` is not understood", an.Text(x))
				}
				bits, signed, ok := c09f5IntType(in.f.Info().TypeOf(x.Lhs[0]))
				if !ok {
					return nil, false, fmt.Errorf("`%s` is not integer arithmetic", an.Text(x))
				}
				v, changed := c09f5Reduce(exact, bits, signed)
				if changed {
					in.wraps = append(in.wraps, fmt.Sprintf("`%s` = %s does not fit its %d-bit type and becomes %s", an.Text(x), exact, bits, v))
				}
				in.vars[o] = v
			default:
				return nil, false, fmt.Errorf("`%s` is not understood", an.Text(x))
			}
		default:
			return nil, false, fmt.Errorf("statement `%s` is not understood", an.Text(st))
		}
	}
	return nil, false, nil
}

// c09f5Run evaluates the body of f; vars binds parameter objects, sels binds
// canonical field selections ($p0.FeeRate, $recv.Base).
func c09f5Run(f *an.Func, vars map[types.Object]*big.Int, sels map[string]*big.Int) (*big.Int, []string, error) {
	in := &c09f5Interp{f: f, vars: map[types.Object]*big.Int{}, sels: sels}
	for k, v := range vars {
		in.vars[k] = v
	}
	v, done, err := in.exec(f.Body.List)
	if err == nil && !done {
		err = fmt.Errorf("the body ends without a return")
	}
	return v, in.wraps, err
}

// The amount of all bitcoin that can ever exist, in millisatoshi: no HTLC
// carries more, and no HTLC can pay a fee above it.
var c09f5Supply = c09f5Big("2_100_000_000_000_000_000")

// c09f5FeeFormulas decides both fee formulas by running them on boundary
// values against unbounded-integer arithmetic (fee-formulas in c09.go).
func c09f5FeeFormulas(o *an.Obl, p *an.Prog) {
	maxI64 := new(big.Int).Sub(c09f5Pow2(63), big.NewInt(1))
	million := big.NewInt(1000000)
	reported := map[string]int{}
	report := func(f *an.Func, bad *int, key, format string, a ...any) {
		*bad++
		if reported[f.ID+key]++; reported[f.ID+key] <= 2 {
			o.FailAt(f.ID+key, f.Where(f.Body.Pos()), format, a...)
		}
	}
	notEvaluable := func(f *an.Func, err error, input string) bool {
		if err == nil {
			return false
		}
		if pe, ok := err.(c09f5Panic); ok {
			o.FailAt(f.ID+"#panics", f.Where(f.Body.Pos()), "%s%s panics: %s", f.ID, input, pe.msg)
		} else {
			o.FailAt(f.ID+"#not-evaluable", f.Where(f.Body.Pos()), "cannot evaluate %s: %v; the rule decides the formula by interpreting its body on boundary values and has to be re-anchored", f.ID, err)
		}
		return true
	}

	// --- ExpectedFee(policy, amt) = BaseFee + floor(amt*FeeRate/1e6)
	ef := p.Func(hs + "ExpectedFee")
	eps := ef.Params(false)
	if len(eps) != 2 || eps[0] == nil || eps[1] == nil || an.TypeID(eps[0].Type()) != "graph/db/models.ForwardingPolicy" || an.TypeID(eps[1].Type()) != "lnwire.MilliSatoshi" || len(ef.Results()) != 1 || an.TypeID(ef.Results()[0]) != "lnwire.MilliSatoshi" {
		o.FailAt(ef.ID+"#signature", ef.Where(ef.Body.Pos()), "ExpectedFee is expected to take (models.ForwardingPolicy, lnwire.MilliSatoshi) and return lnwire.MilliSatoshi")
	} else {
		bases := []string{"0", "1", "1000", "2147483647", "2100000000000000000", "9223372036854775807", "9223372036854775808", "18446744073709551615"}
		rates := []string{"0", "1", "999999", "1000000", "1000001", "10000000", "2147483648", "4294967295", "18446744073709551615"}
		amts := []string{"0", "1", "999", "999999", "1000000", "1000001", "4294967296", "4294967297", "4294967298", "18446744073710", "2147483647999", "2100000000000000", "1844674407370955162", "2100000000000000000", "9223372036854775807", "9223372036854775808", "18446744073709551615"}
		bad := 0
	expected:
		for _, bs := range bases {
			for _, rs := range rates {
				for _, as := range amts {
					b, r, a := c09f5Big(bs), c09f5Big(rs), c09f5Big(as)
					input := fmt.Sprintf("(BaseFee=%s, FeeRate=%s, amt=%s)", b, r, a)
					got, wraps, err := c09f5Run(ef, map[types.Object]*big.Int{eps[1]: a}, map[string]*big.Int{"$p0.BaseFee": b, "$p0.FeeRate": r})
					if notEvaluable(ef, err, input) {
						break expected
					}
					exact := new(big.Int).Add(b, new(big.Int).Quo(new(big.Int).Mul(a, r), million))
					o.Site("ExpectedFee%s = %s (exact %s)", input, got, exact)
					for _, w := range wraps {
						report(ef, &bad, "#wraps", "ExpectedFee%s: %s — 64-bit arithmetic on an amount and a rate wraps around here; the product has to be computed with 128 bits (math/bits) and the result checked against its range", input, w)
					}
					switch {
					case exact.Cmp(c09f5Supply) <= 0:
						if got.Cmp(exact) != 0 {
							report(ef, &bad, "#value", "ExpectedFee%s returns %s, exact arithmetic gives BaseFee + floor(amt*FeeRate/1000000) = %s", input, got, exact)
						}
					case got.Cmp(c09f5Supply) <= 0:
						report(ef, &bad, "#value", "ExpectedFee%s returns %s although the exact fee %s is more than any HTLC can pay: a fee that does not fit must saturate, not shrink", input, got, exact)
					case got.Cmp(maxI64) > 0:
						report(ef, &bad, "#saturation", "ExpectedFee%s returns %s, which is negative after the int64 conversion of the forwarding check; the saturated fee must not exceed math.MaxInt64", input, got)
					}
				}
			}
		}
	}

	// --- InboundFee.CalcFee(amt) = Base + trunc(clamp(Rate)*amt/1e6)
	cf := p.Func("graph/db/models.InboundFee.CalcFee")
	cps := cf.Params(false)
	if len(cps) != 1 || cps[0] == nil || cf.Recv() == nil || an.TypeID(cps[0].Type()) != "lnwire.MilliSatoshi" || len(cf.Results()) != 1 {
		o.FailAt(cf.ID+"#signature", cf.Where(cf.Body.Pos()), "InboundFee.CalcFee is expected to take one lnwire.MilliSatoshi and return the fee")
		return
	}
	if bits, signed, ok := c09f5IntType(cf.Results()[0]); !ok || bits != 64 || !signed {
		o.FailAt(cf.ID+"#signature", cf.Where(cf.Body.Pos()), "InboundFee.CalcFee is expected to return an int64")
		return
	}
	maxRate := big.NewInt(10000000)
	slack := new(big.Int).Sub(c09f5Supply, c09f5Pow2(31))
	bases := []string{"-2147483648", "-1000", "-1", "0", "1", "1000", "2147483647"}
	rates := []string{"-2147483648", "-10000001", "-10000000", "-9999999", "-1000000", "-1", "0", "1", "999999", "1000000", "9999999", "10000000", "10000001", "2147483647"}
	amts := []string{"0", "1", "999", "999999", "1000000", "1000001", "922337203685", "922337203686", "950000000000", "1099511627776", "2100000000000000", "210000000000000000", "1844674407370955162", "2100000000000000000", "9223372036854775807", "9223372036854775808", "18446744073709551615"}
	bad := 0
	for _, bs := range bases {
		for _, rs := range rates {
			for _, as := range amts {
				b, r, a := c09f5Big(bs), c09f5Big(rs), c09f5Big(as)
				input := fmt.Sprintf("{Base=%s, Rate=%s}.CalcFee(%s)", b, r, a)
				got, wraps, err := c09f5Run(cf, map[types.Object]*big.Int{cps[0]: a}, map[string]*big.Int{"$recv.Base": b, "$recv.Rate": r})
				if notEvaluable(cf, err, " "+input) {
					return
				}
				rc := new(big.Int).Set(r)
				if rc.CmpAbs(maxRate) > 0 {
					rc.Mul(maxRate, big.NewInt(int64(r.Sign())))
				}
				prop := new(big.Int).Quo(new(big.Int).Mul(rc, a), million) // toward zero
				exact := new(big.Int).Add(b, prop)
				o.Site("InboundFee%s = %s (exact %s)", input, got, exact)
				for _, w := range wraps {
					report(cf, &bad, "#wraps", "InboundFee%s: %s — 64-bit arithmetic on an amount and a rate wraps around here (rate*amt exceeds int64 above 9.22 BTC); the product has to be computed with 128 bits (math/bits) and the result checked against its range", input, w)
				}
				if prop.CmpAbs(c09f5Supply) <= 0 {
					if got.Cmp(exact) != 0 {
						report(cf, &bad, "#value", "InboundFee%s returns %s, exact arithmetic gives Base + rate*amt/1000000 (rate capped at +-10000000, rounded toward zero) = %s", input, got, exact)
					}
					continue
				}
				// a proportional part beyond any payable amount may saturate,
				// but keeps its sign and stays beyond what an HTLC can pay
				signed := new(big.Int).Mul(got, big.NewInt(int64(prop.Sign())))
				if signed.Cmp(slack) < 0 {
					report(cf, &bad, "#value", "InboundFee%s returns %s although the exact fee is %s: a fee whose size does not fit must saturate with its sign, not shrink or flip", input, got, exact)
				}
			}
		}
	}
}

// ---------------------------------------------------------------------------
// 64-bit sums

func c09f5Is64(t types.Type) bool {
	if t == nil {
		return false
	}
	b, ok := t.Underlying().(*types.Basic)
	return ok && (b.Kind() == types.Uint64 || b.Kind() == types.Int64)
}

// c09f5WideSum matches (directly or through the single definition of a local)
// a sum a + b that is computed in 64 bits: the addition itself has a 64-bit
// type, so each operand was widened before it was added.
func c09f5WideSum(a, b an.Term) an.Term {
	return func(f *an.Func, e ast.Expr) bool {
		be, ok := e.(*ast.BinaryExpr)
		if !ok || be.Op != token.ADD || !c09f5Is64(f.Info().TypeOf(be)) {
			return false
		}
		return (an.Match(f, a, be.X) && an.Match(f, b, be.Y)) || (an.Match(f, a, be.Y) && an.Match(f, b, be.X))
	}
}

func c09f5Parents(root ast.Node) map[ast.Node]ast.Node {
	out := map[ast.Node]ast.Node{}
	var stack []ast.Node
	ast.Inspect(root, func(n ast.Node) bool {
		if n == nil {
			stack = stack[:len(stack)-1]
			return true
		}
		if len(stack) > 0 {
			out[n] = stack[len(stack)-1]
		}
		stack = append(stack, n)
		return true
	})
	return out
}

// ---------------------------------------------------------------------------
// the link's lock

const (
	c09f5LkNone  = 0
	c09f5LkRead  = 1
	c09f5LkWrite = 2
)

// c09f5LinkLockLevels computes, for a method of channelLink entered without
// the lock, the level of the link's embedded RWMutex that is held on every
// path to each vertex (deferred unlocks run at exit and do not count).
func c09f5LinkLockLevels(f *an.Func, linkT *types.Named) map[*flow.Vertex]int {
	info := f.Info()
	lockOp := func(c *ast.CallExpr) string {
		sel, ok := ast.Unparen(c.Fun).(*ast.SelectorExpr)
		if !ok {
			return ""
		}
		switch sel.Sel.Name {
		case "Lock", "RLock", "Unlock", "RUnlock":
		default:
			return ""
		}
		s := info.Selections[sel]
		if s == nil || s.Kind() != types.MethodVal {
			return ""
		}
		if nt := an.NamedOf(s.Recv()); nt == nil || nt.Obj() != linkT.Obj() {
			return ""
		}
		if m, ok := s.Obj().(*types.Func); !ok || !strings.HasPrefix(an.FuncID(m), "sync.RWMutex.") {
			return ""
		}
		if f.Canon(sel.X) != "$recv" {
			return ""
		}
		return sel.Sel.Name
	}
	g := f.Graph()
	in := map[*flow.Vertex]int{}
	out := map[*flow.Vertex]int{}
	for _, v := range g.V {
		in[v], out[v] = c09f5LkWrite, c09f5LkWrite
	}
	in[g.Entry], out[g.Entry] = c09f5LkNone, c09f5LkNone
	transfer := func(v *flow.Vertex, s int) int {
		if v.Kind == flow.KDefer || v.Kind == flow.KEntry {
			return s
		}
		v.Inspect(false, func(n ast.Node) bool {
			if _, isGo := n.(*ast.GoStmt); isGo {
				return false
			}
			if c, ok := n.(*ast.CallExpr); ok {
				switch lockOp(c) {
				case "Lock":
					s = c09f5LkWrite
				case "RLock":
					s = c09f5LkRead
				case "Unlock", "RUnlock":
					s = c09f5LkNone
				}
			}
			return true
		})
		return s
	}
	for changed := true; changed; {
		changed = false
		for _, v := range g.V {
			if v == g.Entry || len(v.In) == 0 {
				continue
			}
			s := c09f5LkWrite
			for _, e := range v.In {
				if out[e.From] < s {
					s = out[e.From]
				}
			}
			if s != in[v] {
				in[v], changed = s, true
			}
			if t := transfer(v, s); t != out[v] {
				out[v], changed = t, true
			}
		}
	}
	return in
}

type c09f5PolicyAccess struct {
	fn    *an.Func // root function
	sel   *ast.SelectorExpr
	write bool
	addr  bool
	inLit bool
}

// c09f5PolicyAccesses lists every selection of ChannelLinkConfig.FwrdingPolicy
// in the non-test code of htlcswitch.
func c09f5PolicyAccesses(p *an.Prog) []c09f5PolicyAccess {
	fld := p.Field("htlcswitch", "ChannelLinkConfig", "FwrdingPolicy")
	var out []c09f5PolicyAccess
	for _, f := range p.Funcs(false, "htlcswitch") {
		if f.Lit != nil || f.Body == nil {
			continue
		}
		info := f.Info()
		parents := c09f5Parents(f.Body)
		ast.Inspect(f.Body, func(n ast.Node) bool {
			sel, ok := n.(*ast.SelectorExpr)
			if !ok {
				return true
			}
			s := info.Selections[sel]
			if s == nil || s.Obj() != types.Object(fld) {
				return true
			}
			a := c09f5PolicyAccess{fn: f, sel: sel}
			// the whole l-value this selection is the root of
			var top ast.Node = sel
			for {
				par := parents[top]
				switch x := par.(type) {
				case *ast.ParenExpr:
					top = par
					continue
				case *ast.SelectorExpr:
					if x.X == top {
						top = par
						continue
					}
				case *ast.IndexExpr:
					if x.X == top {
						top = par
						continue
					}
				}
				break
			}
			switch x := parents[top].(type) {
			case *ast.AssignStmt:
				for _, l := range x.Lhs {
					if ast.Node(l) == top {
						a.write = true
					}
				}
			case *ast.IncDecStmt:
				a.write = true
			case *ast.UnaryExpr:
				a.addr = x.Op == token.AND
			}
			for _, lf := range f.Lits {
				if lf.Lit.Pos() <= sel.Pos() && sel.End() <= lf.Lit.End() {
					a.inLit = true
				}
			}
			out = append(out, a)
			return true
		})
	}
	return out
}

// ---------------------------------------------------------------------------

// c09f5Repairs: obligations for the repairs 979958a, 64fd237, bcdf77e in
// htlcswitch (57025d6 and 4449c0c are decided by fee-formulas in c09.go) and
// for the seeded changes C09-g and C09-h of round 4.
func c09f5Repairs(r *an.Run) {
	p := r.Prog

	r.Obl("no-32-bit-sums-in-the-forwarding-check", "BOUND",
		"in CheckHtlcForward, CheckHtlcTransit, canSendHtlc and validateHtlcAmount every addition or multiplication (`+`, `*`, `+=`, `*=`, `++`) of non-constant integers outside logging arguments has a 64-bit type, and no non-constant arithmetic result is converted to a narrower integer type; canSendHtlc contains the two widened sums uint64(heightNow)+uint64(OutgoingCltvRejectDelta) and uint64(MaxOutgoingCltvExpiry)+uint64(heightNow) (which guard they feed: forward-accept-guards)",
		"heightNow+OutgoingCltvRejectDelta and MaxOutgoingCltvExpiry+heightNow were uint32 sums: near the top of the range they wrapped, an outgoing expiry of 5 was accepted at height 2^32-2 and a conforming one refused as expiry_too_far; the decision has to agree with unbounded arithmetic, so every sum of heights and deltas is widened before it is added", 6,
		func(o *an.Obl) {
			for _, id := range []string{hs + "channelLink.CheckHtlcForward", hs + "channelLink.CheckHtlcTransit", hs + "channelLink.canSendHtlc", hs + "channelLink.validateHtlcAmount"} {
				f := p.Func(id)
				info := f.Info()
				for _, v := range f.Graph().V {
					v.Inspect(true, func(n ast.Node) bool {
						switch x := n.(type) {
						case *ast.BinaryExpr:
							if x.Op != token.ADD && x.Op != token.MUL {
								return true
							}
							if tv, ok := info.Types[x]; ok && tv.Value != nil {
								return true
							}
							bits, _, isInt := c09f5IntType(info.TypeOf(x))
							if !isInt || isLogArg(f, v, x) {
								return true
							}
							o.Site("%s: %d-bit %s", f.ID, bits, an.Text(x))
							if !c09f5Is64(info.TypeOf(x)) {
								o.FailAt(f.ID+"#narrow-arithmetic", f.Where(x.Pos()), "%s computes %s in %d bits: the result wraps around near the top of the range; widen the operands to uint64 before adding", f.ID, an.Text(x), bits)
							}
						case *ast.AssignStmt:
							if (x.Tok != token.ADD_ASSIGN && x.Tok != token.MUL_ASSIGN) || len(x.Lhs) != 1 {
								return true
							}
							if bits, _, isInt := c09f5IntType(info.TypeOf(x.Lhs[0])); isInt && !c09f5Is64(info.TypeOf(x.Lhs[0])) {
								o.FailAt(f.ID+"#narrow-arithmetic", f.Where(x.Pos()), "%s computes `%s` in %d bits", f.ID, an.Text(x), bits)
							}
						case *ast.IncDecStmt:
							if bits, _, isInt := c09f5IntType(info.TypeOf(x.X)); isInt && x.Tok == token.INC && !c09f5Is64(info.TypeOf(x.X)) {
								o.FailAt(f.ID+"#narrow-arithmetic", f.Where(x.Pos()), "%s computes `%s` in %d bits", f.ID, an.Text(x), bits)
							}
						case *ast.CallExpr:
							tv, ok := info.Types[x.Fun]
							if !ok || !tv.IsType() || len(x.Args) != 1 {
								return true
							}
							to, _, isInt := c09f5IntType(tv.Type)
							from, _, fromInt := c09f5IntType(info.TypeOf(x.Args[0]))
							if av, ok := info.Types[x.Args[0]]; !isInt || !fromInt || !ok || av.Value != nil || to >= from || isLogArg(f, v, x) {
								return true
							}
							if _, isArith := ast.Unparen(x.Args[0]).(*ast.BinaryExpr); isArith {
								o.FailAt(f.ID+"#narrowing-conversion", f.Where(x.Pos()), "%s narrows the %d-bit result of %s to %d bits", f.ID, from, an.Text(x.Args[0]), to)
							}
						}
						return true
					})
				}
			}
			g := p.Func(hs + "channelLink.canSendHtlc")
			for _, w := range []struct {
				what string
				t    an.Term
			}{
				{"uint64(heightNow) + uint64(OutgoingCltvRejectDelta)", c09f5WideSum(an.Param(4), an.FieldPath(nil, "OutgoingCltvRejectDelta"))},
				{"uint64(MaxOutgoingCltvExpiry) + uint64(heightNow)", c09f5WideSum(an.FieldPath(nil, "MaxOutgoingCltvExpiry"), an.Param(4))},
			} {
				n := 0
				ast.Inspect(g.Body, func(x ast.Node) bool {
					if e, ok := x.(ast.Expr); ok && w.t(g, e) {
						n++
						o.Site("%s: 64-bit sum %s", g.ID, an.Text(e))
					}
					return true
				})
				if n == 0 {
					o.FailAt(g.ID+"#wide-sum-"+w.what, g.Where(g.Body.Pos()), "canSendHtlc no longer computes %s", w.what)
				}
			}
			notReassigned(o, g, "heightNow", "timeout")
		})

	r.Obl("policy-is-read-under-the-link-lock-and-from-one-snapshot", "LOCK",
		"every selection of ChannelLinkConfig.FwrdingPolicy in the non-test code of htlcswitch is made by a method of channelLink on its own cfg, outside function literals, never by address, and at a statement that is reached only with the link's RWMutex held in that same method (RLock or Lock for a read, Lock for a write; a deferred unlock keeps the lock to the end); CheckHtlcForward and CheckHtlcTransit select it exactly once, as the whole value of a local that is written nowhere else (the snapshot); in these two and in canSendHtlc and validateHtlcAmount every field of a models.ForwardingPolicy is selected from that snapshot local (in the helpers: from their policy parameter, which is never written), and ExpectedFee, canSendHtlc and validateHtlcAmount are handed that same local or parameter; getInboundFee returns FwrdingPolicy.InboundFee (who must use it: forwarded-add-packets-carry-the-policy-inputs)",
		"UpdateForwardingPolicy replaces the policy under the write lock on another goroutine: a read outside the lock is a data race, and a second read after the snapshot (even a locked one) judges one HTLC partly by the old and partly by the new policy, so an HTLC that satisfies neither advertised policy is accepted, or a conforming one refused with a failure naming a rule it did not break", 15,
		func(o *an.Obl) {
			linkT := p.LookupType("htlcswitch", "channelLink")
			acc := c09f5PolicyAccesses(p)
			levels := map[*an.Func]map[*flow.Vertex]int{}
			perFn := map[string][]c09f5PolicyAccess{}
			for _, a := range acc {
				f := a.fn
				perFn[f.ID] = append(perFn[f.ID], a)
				what := "read"
				if a.write {
					what = "write"
				}
				where := f.Where(a.sel.Pos())
				rv := f.Recv()
				if rv == nil || an.NamedOf(rv.Type()) == nil || an.NamedOf(rv.Type()).Obj() != linkT.Obj() || f.Canon(a.sel.X) != "$recv.cfg" {
					o.FailAt(f.ID+"#foreign-policy-access", where, "%s %ss %s: the policy of a link is reached from outside the link's own methods, where its lock cannot be seen to be held", f.ID, what, an.Text(a.sel))
					continue
				}
				if a.addr {
					o.FailAt(f.ID+"#policy-address-taken", where, "%s takes the address of %s: the policy can then be read without the lock", f.ID, an.Text(a.sel))
					continue
				}
				if a.inLit {
					o.FailAt(f.ID+"#policy-access-in-closure", where, "%s %ss %s inside a function literal: whether the lock is held when the literal runs cannot be decided", f.ID, what, an.Text(a.sel))
					continue
				}
				if levels[f] == nil {
					levels[f] = c09f5LinkLockLevels(f, linkT)
				}
				v := f.Graph().Containing(a.sel, false)
				if v == nil {
					o.FailAt(f.ID+"#policy-access-site", where, "cannot locate the statement of %s", an.Text(a.sel))
					continue
				}
				lvl, need := levels[f][v], c09f5LkRead
				if a.write {
					need = c09f5LkWrite
				}
				o.Site("%s of FwrdingPolicy in %s at %s: lock level %d", what, f.ID, where, lvl)
				if lvl < need {
					o.FailAt(f.ID+"#unlocked-"+what+"-of-FwrdingPolicy", where, "%s %ss %s (`%s`) without holding the link's lock on every path to this statement (level %d, need %d): UpdateForwardingPolicy writes the policy under the lock from another goroutine", f.ID, what, an.Text(a.sel), an.Text(v.Node), lvl, need)
				}
			}
			if len(acc) < 4 {
				o.FailAt(hs+"channelLink#policy-accesses", "", "expected the policy write of UpdateForwardingPolicy, the two snapshots and the inbound-fee accessor, found %d selections of FwrdingPolicy", len(acc))
			}
			// the writer
			up := p.Func(hs + "channelLink.UpdateForwardingPolicy")
			nw := 0
			for _, a := range perFn[up.ID] {
				if a.write {
					nw++
				}
			}
			if nw != 1 {
				o.FailAt(up.ID+"#policy-write", up.Where(up.Body.Pos()), "expected one write of cfg.FwrdingPolicy in UpdateForwardingPolicy, found %d", nw)
			}
			// the accessor
			gi := p.Func(hs + "channelLink.getInboundFee")
			for _, s := range gi.Returns() {
				rs, _ := s.Node.(*ast.ReturnStmt)
				if rs == nil || len(rs.Results) != 1 || gi.Canon(rs.Results[0]) != "$recv.cfg.FwrdingPolicy.InboundFee" {
					o.FailAt(gi.ID+"#result", s.Where(), "getInboundFee returns `%s`, expected the InboundFee of the link's current policy", an.Text(s.Node))
				} else {
					o.Site("getInboundFee returns %s", gi.Canon(rs.Results[0]))
				}
			}
			// one snapshot per decision
			polT := p.LookupTypeAny("graph/db/models", "ForwardingPolicy")
			polFields := map[types.Object]bool{}
			if st, ok := polT.Underlying().(*types.Struct); ok {
				for i := 0; i < st.NumFields(); i++ {
					polFields[st.Field(i)] = true
				}
			}
			takers := map[string]bool{hs + "ExpectedFee": true, hs + "channelLink.canSendHtlc": true, hs + "channelLink.validateHtlcAmount": true}
			fromOne := func(f *an.Func, src types.Object, srcDesc string) {
				info := f.Info()
				ast.Inspect(f.Body, func(n ast.Node) bool {
					switch x := n.(type) {
					case *ast.SelectorExpr:
						s := info.Selections[x]
						if s == nil || !polFields[s.Obj()] {
							return true
						}
						o.Site("%s: %s", f.ID, an.Text(x))
						if !c15IdentIs(info, x.X, src) {
							o.FailAt(f.ID+"#policy-field-not-from-snapshot", f.Where(x.Pos()), "%s reads %s; every policy field of one forwarding decision has to come from %s", f.ID, an.Text(x), srcDesc)
						}
					case *ast.CallExpr:
						if takers[an.CalleeID(info, x)] && len(x.Args) > 0 {
							o.Site("%s: %s is handed %s", f.ID, an.CalleeID(info, x), an.Text(x.Args[0]))
							if !c15IdentIs(info, x.Args[0], src) {
								o.FailAt(f.ID+"#policy-argument-not-the-snapshot", f.Where(x.Pos()), "%s hands %s to %s, expected %s", f.ID, an.Text(x.Args[0]), an.CalleeID(info, x), srcDesc)
							}
						}
					}
					return true
				})
			}
			onlyWrite := func(f *an.Func, obj types.Object, allowed ast.Node) {
				for _, w := range c15WritesOfLocal(f, obj) {
					if w.site.Node != allowed {
						o.FailAt(f.ID+"#snapshot-rewritten", w.site.Where(), "%s writes its policy value again by `%s`", f.ID, an.Text(w.site.Node))
					}
				}
			}
			for _, id := range []string{hs + "channelLink.CheckHtlcForward", hs + "channelLink.CheckHtlcTransit"} {
				f := p.Func(id)
				as := perFn[id]
				if len(as) != 1 {
					o.FailAt(id+"#policy-snapshots", f.Where(f.Body.Pos()), "%s selects cfg.FwrdingPolicy %d times, expected the one snapshot taken under the read lock: a second read can see another policy than the first", id, len(as))
					continue
				}
				var snap types.Object
				var def ast.Node
				ast.Inspect(f.Body, func(n ast.Node) bool {
					if st, ok := n.(*ast.AssignStmt); ok && st.Tok == token.DEFINE && len(st.Lhs) == 1 && len(st.Rhs) == 1 && ast.Unparen(st.Rhs[0]) == ast.Expr(as[0].sel) {
						if lid, ok := st.Lhs[0].(*ast.Ident); ok {
							snap, def = f.Info().Defs[lid], st
						}
					}
					return true
				})
				if snap == nil {
					o.FailAt(id+"#policy-snapshot-shape", f.Where(as[0].sel.Pos()), "%s uses %s otherwise than as the value of a new local (`policy := l.cfg.FwrdingPolicy`): a field read off the live struct is not a snapshot", id, an.Text(as[0].sel))
					continue
				}
				onlyWrite(f, snap, def)
				fromOne(f, snap, "the snapshot `"+an.Text(def)+"`")
			}
			for _, id := range []string{hs + "channelLink.canSendHtlc", hs + "channelLink.validateHtlcAmount"} {
				f := p.Func(id)
				ps := f.Params(false)
				if len(ps) == 0 || ps[0] == nil || an.NamedOf(ps[0].Type()) == nil || an.NamedOf(ps[0].Type()).Obj() != polT.Obj() {
					o.FailAt(id+"#policy-parameter", f.Where(f.Body.Pos()), "%s is expected to receive the policy snapshot as its first parameter", id)
					continue
				}
				onlyWrite(f, ps[0], nil)
				fromOne(f, ps[0], "the policy parameter "+ps[0].Name())
			}
		})

	r.Obl("policy-update-reaches-links-of-both-indexes", "WHO",
		"Switch.UpdateForwardingPolicies calls UpdateForwardingPolicy on the first result of Switch.getLink(lnwire.NewChanIDFromOutPoint(<key of chanPolicies>)) with the element of chanPolicies, in every iteration of its loop over chanPolicies that getLink did not fail; getLink reads linkIndex[chanID] and pendingLinkIndex[chanID] and declares the link missing only after both reads; a keyed read of Switch.linkIndex or Switch.pendingLinkIndex occurs only in getLink and in the tabled functions that mean live links only (htlcForwarder's close request, HasActiveLink, UpdateShortChanID)",
		"a link that is still in the pending index (its short channel id is not final yet) was skipped by the policy update: once live it went on forwarding by the policy it was created with, not the configured one, so HTLCs were judged against fees and deltas other than those advertised", 10,
		func(o *an.Obl) {
			f := p.Func(hs + "Switch.UpdateForwardingPolicies")
			ups := f.Calls(an.CalleeNamed("UpdateForwardingPolicy"), true)
			getLinkT := an.CallTo(hs+"Switch.getLink", an.Recv())
			if needExactly(o, f, "UpdateForwardingPolicy call", ups, 1) {
				s := ups[0]
				call := s.Node.(*ast.CallExpr)
				sel, _ := ast.Unparen(call.Fun).(*ast.SelectorExpr)
				ok := false
				if sel != nil {
					if id, isID := ast.Unparen(sel.X).(*ast.Ident); isID {
						if c, idx := f.UniqueCallDef(id); c != nil && idx == 0 && an.CalleeID(f.Info(), c) == hs+"Switch.getLink" {
							ok = true
							if a := f.Canon(c.Args[0]); a != "lnwire.NewChanIDFromOutPoint($key($p0))" {
								o.FailAt(f.ID+"#link-key", s.Where(), "the link to update is looked up under %s, expected the channel id of the outpoint the policy is keyed by", a)
							}
						}
					}
				}
				if !ok {
					o.FailAt(f.ID+"#link-source", s.Where(), "the link updated by `%s` is not the result of Switch.getLink: getLink consults the live and the pending index, a lookup in one index misses links of the other", an.Text(call))
				}
				if a := f.ArgCanon(s); len(a) != 1 || a[0] != "$elem($p0)" {
					o.FailAt(f.ID+"#policy-argument", s.Where(), "the link is given %v, expected the policy stored under its outpoint", a)
				}
				everyIterationOr(o, f, `^\$p0$`, ups, an.Cmp(an.ResultOf(getLinkT, 1), an.NE, an.Nil(), "getLink failed"), "link.UpdateForwardingPolicy(policy)")
			}
			g := p.Func(hs + "Switch.getLink")
			reads := map[string][]an.Site{}
			for _, v := range g.Graph().V {
				v.Inspect(false, func(n ast.Node) bool {
					if ix, ok := n.(*ast.IndexExpr); ok {
						c := g.Canon(ix)
						if c == "$recv.linkIndex[$p0]" || c == "$recv.pendingLinkIndex[$p0]" {
							reads[c] = append(reads[c], an.Site{Fn: g, V: v, Node: ix})
						}
					}
					return true
				})
			}
			notReassigned(o, g, "chanID")
			for _, c := range []string{"$recv.linkIndex[$p0]", "$recv.pendingLinkIndex[$p0]"} {
				if len(reads[c]) == 0 {
					o.FailAt(g.ID+"#reads-"+c, g.Where(g.Body.Pos()), "getLink no longer reads %s", c)
					continue
				}
				for _, s := range g.Returns() {
					if g.ClassifyReturn(s) != an.RetFailure {
						continue
					}
					o.Site("getLink: `%s` after %s", an.Text(s.Node), c)
					if !g.Before(reads[c], s) {
						o.FailAt(g.ID+"#not-found-before-"+c, s.Where(), "getLink can declare the link missing (`%s`) without having looked into %s", an.Text(s.Node), c)
					}
				}
			}
			// who reads the indexes by key
			tabled := map[string]string{
				hs + "Switch.getLink":           "the lookup that consults both indexes",
				hs + "Switch.htlcForwarder":     "a cooperative close request addresses a live link",
				hs + "Switch.HasActiveLink":     "asks for a live link by definition",
				hs + "Switch.UpdateShortChanID": "moves a link whose short channel id was confirmed; it is in the live index",
			}
			idx := map[types.Object]bool{p.Field("htlcswitch", "Switch", "linkIndex"): true, p.Field("htlcswitch", "Switch", "pendingLinkIndex"): true}
			for _, fn := range p.Funcs(false, "htlcswitch") {
				if fn.Lit != nil || fn.Body == nil {
					continue
				}
				info := fn.Info()
				parents := c09f5Parents(fn.Body)
				ast.Inspect(fn.Body, func(n ast.Node) bool {
					ix, ok := n.(*ast.IndexExpr)
					if !ok {
						return true
					}
					sel, ok := ast.Unparen(ix.X).(*ast.SelectorExpr)
					if !ok {
						return true
					}
					s := info.Selections[sel]
					if s == nil || !idx[s.Obj()] {
						return true
					}
					if as, isAs := parents[ix].(*ast.AssignStmt); isAs {
						for _, l := range as.Lhs {
							if l == ast.Expr(ix) {
								return true // a store into the index
							}
						}
					}
					if why, ok := tabled[fn.ID]; ok {
						o.Site("%s reads %s (%s)", fn.ID, an.Text(ix), why)
						return true
					}
					o.FailAt(fn.ID+"#single-index-lookup", fn.Where(ix.Pos()), "%s looks a link up by %s: a link is in the live or in the pending index; use getLink, which consults both", fn.ID, an.Text(ix))
					return true
				})
			}
		})

	r.Obl("packet-amount-mirrors-the-outgoing-add", "MIRROR",
		"in the non-test code of htlcswitch every assignment to the Amount of an lnwire.UpdateAddHTLC is made on the add carried by a packet (the type-switch binding or type assertion of <pkt>.htlc) and stands in one statement list with an assignment of the same value to <pkt>.amount of the same packet, and every assignment to htlcPacket.amount has such a partner; every htlcPacket literal whose htlc is an *lnwire.UpdateAddHTLC sets amount to the Amount of that very add",
		"Switch.handlePacketAdd evaluates the forwarding policy (amount <= incoming, fee, min/max_htlc, bandwidth) on packet.amount while the outgoing link adds and sends packet.htlc's Amount: an interceptor-modified forward whose packet.amount kept the onion amount was policy-checked for 1000 msat and sent 2900 msat", 5,
		func(o *an.Obl) {
			addAmount := c09f5FieldAny(p, "lnwire", "UpdateAddHTLC", "Amount")
			pktAmount := p.Field("htlcswitch", "htlcPacket", "amount")
			pktHtlc := p.Field("htlcswitch", "htlcPacket", "htlc")
			type write struct {
				as   *ast.AssignStmt
				lhs  *ast.SelectorExpr
				rhs  string
				pkt  string // canonical form of the packet
				list ast.Node
			}
			for _, fn := range p.Funcs(false, "htlcswitch") {
				if fn.Lit != nil || fn.Body == nil {
					continue
				}
				info := fn.Info()
				parents := c09f5Parents(fn.Body)
				// the packet an add-typed local was taken from
				packetOf := func(e ast.Expr) string {
					id, ok := ast.Unparen(e).(*ast.Ident)
					if !ok {
						return ""
					}
					obj := info.Uses[id]
					var src ast.Expr
					ast.Inspect(fn.Body, func(n ast.Node) bool {
						if ts, ok := n.(*ast.TypeSwitchStmt); ok {
							for _, c := range ts.Body.List {
								if info.Implicits[c] == obj && obj != nil {
									if as, ok := ts.Assign.(*ast.AssignStmt); ok && len(as.Rhs) == 1 {
										if ta, ok := ast.Unparen(as.Rhs[0]).(*ast.TypeAssertExpr); ok {
											src = ta.X
										}
									}
								}
							}
						}
						return true
					})
					if src == nil {
						if d := fn.UniqueDef(id); d != nil {
							if ta, ok := ast.Unparen(d).(*ast.TypeAssertExpr); ok {
								src = ta.X
							}
						}
					}
					if src == nil {
						// `add, ok := pkt.htlc.(*lnwire.UpdateAddHTLC)`, the only value the local is given
						n := 0
						for _, w := range c15WritesOfLocal(fn, obj) {
							n++
							if as, ok := w.site.Node.(*ast.AssignStmt); ok && len(as.Lhs) == 2 && len(as.Rhs) == 1 && w.idx == 0 {
								if ta, ok := ast.Unparen(as.Rhs[0]).(*ast.TypeAssertExpr); ok {
									src = ta.X
								}
							}
						}
						if n != 1 {
							src = nil
						}
					}
					if src == nil {
						return ""
					}
					sel, ok := ast.Unparen(src).(*ast.SelectorExpr)
					if !ok {
						return ""
					}
					if s := info.Selections[sel]; s == nil || s.Obj() != types.Object(pktHtlc) {
						return ""
					}
					return c09f5CanonIn(fn, sel.X)
				}
				var adds, pkts []write
				ast.Inspect(fn.Body, func(n ast.Node) bool {
					as, ok := n.(*ast.AssignStmt)
					if !ok {
						return true
					}
					for i, l := range as.Lhs {
						sel, ok := ast.Unparen(l).(*ast.SelectorExpr)
						if !ok {
							continue
						}
						s := info.Selections[sel]
						if s == nil {
							continue
						}
						w := write{as: as, lhs: sel, list: parents[as]}
						if len(as.Lhs) == len(as.Rhs) && as.Tok == token.ASSIGN {
							w.rhs = c09f5CanonIn(fn, as.Rhs[i])
						}
						switch s.Obj() {
						case types.Object(addAmount):
							w.pkt = packetOf(sel.X)
							adds = append(adds, w)
						case types.Object(pktAmount):
							w.pkt = c09f5CanonIn(fn, sel.X)
							pkts = append(pkts, w)
						}
					}
					return true
				})
				partner := func(w write, others []write) bool {
					for _, x := range others {
						if x.list == w.list && x.pkt == w.pkt && x.rhs == w.rhs && w.rhs != "" {
							return true
						}
					}
					return false
				}
				for _, w := range adds {
					o.Site("%s: `%s` on the add of packet %s", fn.ID, an.Text(w.as), w.pkt)
					switch {
					case w.pkt == "":
						o.FailAt(fn.ID+"#add-amount-written-off-packet", fn.Where(w.as.Pos()), "%s changes the amount of an outgoing add by `%s`, and the add cannot be traced to the htlc of a packet: the amount the switch checks the policy on cannot be kept equal", fn.ID, an.Text(w.as))
					case !partner(w, pkts):
						o.FailAt(fn.ID+"#packet-amount-not-updated", fn.Where(w.as.Pos()), "%s changes the amount that is sent (`%s`) without assigning the same value to %s.amount next to it: the switch evaluates the forwarding policy on the stale packet amount", fn.ID, an.Text(w.as), w.pkt)
					}
				}
				for _, w := range pkts {
					o.Site("%s: `%s`", fn.ID, an.Text(w.as))
					if !partner(w, adds) {
						o.FailAt(fn.ID+"#add-amount-not-updated", fn.Where(w.as.Pos()), "%s changes the amount the policy is checked on (`%s`) without assigning the same value to the Amount of the packet's add next to it", fn.ID, an.Text(w.as))
					}
				}
			}
			// literals
			for _, cl := range p.CompositeLitsOf(p.LookupType("htlcswitch", "htlcPacket")) {
				if cl.Fn == nil {
					continue
				}
				lit := cl.Node.(*ast.CompositeLit)
				keys := c15LitKeys(lit)
				if keys == nil || keys["htlc"] == nil {
					continue
				}
				info := cl.Fn.Info()
				if t := info.TypeOf(keys["htlc"]); t == nil || an.TypeID(t) != "lnwire.UpdateAddHTLC" {
					continue
				}
				if _, isPtr := info.TypeOf(keys["htlc"]).(*types.Pointer); !isPtr {
					continue
				}
				o.Site("add packet literal at %s: amount %s, htlc %s", cl.Where, an.Text(keys["amount"]), an.Text(keys["htlc"]))
				ok := false
				if sel, isSel := ast.Unparen(keys["amount"]).(*ast.SelectorExpr); isSel && keys["amount"] != nil {
					if s := info.Selections[sel]; s != nil && s.Obj() == types.Object(addAmount) {
						hid, _ := ast.Unparen(keys["htlc"]).(*ast.Ident)
						bid, _ := ast.Unparen(sel.X).(*ast.Ident)
						ok = hid != nil && bid != nil && info.Uses[hid] != nil && info.Uses[hid] == info.Uses[bid]
					}
				}
				if !ok {
					o.FailAt(cl.Fn.ID+"#literal-amount-is-not-the-add-amount", cl.Where, "the packet built here carries the add %s but sets amount to %s: the policy would be checked on another amount than the one sent", an.Text(keys["htlc"]), an.Text(keys["amount"]))
				}
			}
		})
}

// c09f5CanonIn renders e in the innermost function (literal) of root that
// contains it, so that parameters of literals print as $lit.p<i>.
func c09f5CanonIn(root *an.Func, e ast.Expr) string {
	best := root
	for _, lf := range root.Lits {
		if lf.Lit.Pos() <= e.Pos() && e.End() <= lf.Lit.End() {
			if best == root || lf.Lit.End()-lf.Lit.Pos() < best.Lit.End()-best.Lit.Pos() {
				best = lf
			}
		}
	}
	return best.Canon(e)
}

// c09f5FieldAny is Prog.Field for a type of a package that is only imported.
func c09f5FieldAny(p *an.Prog, short, typ, field string) *types.Var {
	n := p.LookupTypeAny(short, typ)
	if st, ok := n.Underlying().(*types.Struct); ok {
		for i := 0; i < st.NumFields(); i++ {
			if st.Field(i).Name() == field {
				return st.Field(i)
			}
		}
	}
	panic(an.AnchorError{Msg: "field " + short + "." + typ + "." + field})
}
