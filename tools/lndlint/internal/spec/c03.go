package spec

import (
	"fmt"
	"go/ast"
	"sort"
	"strings"

	"lndlint/internal/an"
)

func init() {
	register(&Spec{
		ID:          "C03",
		Loads:       []LoadSpec{{Patterns: []string{"./lnwallet", "./chanstate", "./lnwire", "./channeldb", "./htlcswitch"}}},
		Explanation: "Extracts the two decision tables of ProcessChanSyncMsg over every order region of the compared heights (TABLE) and compares them with the BOLT-2 retransmission rules; checks that a data-loss verdict needs the recovery options and a verified commit secret, that the retransmitted revocation is for height tail-1 and built by the one revocation generator, that the commitment is retransmitted from the durable commit diff (all log updates, then the signature, re-signed for taproot), that the relative order of revocation and commitment follows the stored LastWasRevoke flag, and that the sender's channel_reestablish fields are the ones the receiver compares.",
		NotDecided: []string{
			"that retransmitted signatures verify on the peer", "repeated disconnects during resynchronisation",
			"that every irrevocably committed HTLC is present or resolved exactly once afterwards",
			"uint64 wrap-around neighbourhoods of the height arithmetic",
		},
		Assumptions: commonAssumptions,
		Engines:     "TABLE (decision-table extraction over order regions), GUARD, PATH, MIRROR",
		TagMatrix:   [][]string{{"integration"}},
		Run:         runC03,
	})
}

// labelSites collects the outcome sites of ProcessChanSyncMsg: returns of
// sentinel errors (numbered in source order) and the two retransmission
// calls.
func chanSyncLabels(f *an.Func) map[string]an.Site {
	out := map[string]an.Site{}
	count := map[string]int{}
	rets := f.Returns()
	sort.Slice(rets, func(i, j int) bool {
		return rets[i].Node != nil && rets[j].Node != nil && rets[i].Node.Pos() < rets[j].Node.Pos()
	})
	for _, r := range rets {
		rs, ok := r.Node.(*ast.ReturnStmt)
		if !ok || len(rs.Results) != 4 {
			continue
		}
		c := f.Canon(rs.Results[3])
		name := ""
		switch {
		case strings.HasSuffix(c, "ErrCannotSyncCommitChains"):
			name = "CannotSync"
		case strings.Contains(c, "ErrCommitSyncLocalDataLoss"):
			name = "LocalDataLoss"
		case strings.HasSuffix(c, "ErrCommitSyncRemoteDataLoss"):
			name = "RemoteDataLoss"
		case strings.HasSuffix(c, "ErrInvalidLastCommitSecret"):
			name = "InvalidSecret"
		case strings.HasSuffix(c, "ErrInvalidLocalUnrevokedCommitPoint"):
			name = "InvalidCommitPoint"
		default:
			continue
		}
		count[name]++
		out[fmt.Sprintf("%s#%d", name, count[name])] = r
	}
	for _, s := range f.Calls(an.CalleeIs(lw+"LightningChannel.generateRevocation"), false) {
		out["retransmit-revocation"] = s
	}
	for _, s := range f.Calls(an.CalleeIs("chanstate.OpenChannel.RemoteCommitChainTip"), false) {
		out["retransmit-commitment"] = s
	}
	return out
}

// c03SyncRegion: the conditions under which the two switches of
// ProcessChanSyncMsg let the function go on to its final check.
func c03SyncRegion(L, T, P string) []string {
	q := regexpQuote
	return []string{
		`^!\(\$p1\.RemoteCommitTailHeight > ` + q(L) + `\)$`,
		`^!\$recv\.channelState\.HasChanStatus\(channeldb\.ChanStatusRestored\)$`,
		`^!\(\(\$p1\.RemoteCommitTailHeight \+ 1\) < ` + q(L) + `\)$`,
		`^!\(\$p1\.NextLocalCommitHeight > \(` + q(P) + ` \+ 1\)\)$`,
		`^!\(\$p1\.NextLocalCommitHeight <= ` + q(T) + `\)$`,
	}
}

func runC03(r *an.Run) {
	p := r.Prog
	const (
		R   = "$p1.RemoteCommitTailHeight"
		N   = "$p1.NextLocalCommitHeight"
		L   = "$recv.commitChains.Local.tail().height"
		T   = "$recv.commitChains.Remote.tail().height"
		P   = "$recv.commitChains.Remote.tip().height"
		rst = "$recv.channelState.HasChanStatus(channeldb.ChanStatusRestored)"
		rec = "($p1.LocalUnrevokedCommitPoint != nil)"
	)
	reached := func(f *an.Func, labels map[string]an.Site, env an.IntEnv, only []string) []string {
		reach := f.ReachUnder(env.Decide())
		var got []string
		for _, name := range only {
			if s, ok := labels[name]; ok && reach[s.V] {
				got = append(got, name)
			}
		}
		sort.Strings(got)
		return got
	}

	r.Obl("local-chain-table", "TABLE",
		"first switch of ProcessChanSyncMsg over R = msg.RemoteCommitTailHeight vs L = local tail height (all order regions R-L in {-3..+2}), isRestored, hasRecoveryOptions: R>L or restored -> ErrCannotSyncCommitChains without recovery options, ErrCommitSyncLocalDataLoss with them; R<=L-2 -> ErrCommitSyncRemoteDataLoss; R=L-1 -> retransmit revoke_and_ack; R=L -> nothing; the default arm is unreachable; retransmitting means: the result of generateRevocation is appended to the one message list every success return hands out, on every continuing path; a failed generation ends the function; the list is only extended (revocation, re-signed commitment) or merged with the retransmitted commitment, never overwritten",
		"a shifted boundary either retransmits nothing when a revocation is owed, or declares data loss (force close) on an honest peer", 40,
		func(o *an.Obl) {
			f := p.Func(lw + "LightningChannel.ProcessChanSyncMsg")
			labels := chanSyncLabels(f)
			first := []string{"CannotSync#1", "LocalDataLoss#1", "RemoteDataLoss#1", "retransmit-revocation", "CannotSync#2"}
			for _, n := range first {
				if _, ok := labels[n]; !ok {
					o.FailAt(f.ID+"#label-"+n, f.Where(f.Body.Pos()), "outcome site %s not found in ProcessChanSyncMsg", n)
				}
			}
			// CannotSync#2 must be the default arm of the first switch: it
			// precedes the RemoteCommitChainTip call
			for _, Lv := range []int64{10, 1} {
				for d := int64(-3); d <= 2; d++ {
					if Lv+d < 0 {
						continue
					}
					for _, restored := range []bool{false, true} {
						for _, recov := range []bool{false, true} {
							env := an.IntEnv{Ints: map[string]int64{R: Lv + d, L: Lv}, Bools: map[string]bool{rst: restored, rec: recov}}
							got := reached(f, labels, env, first)
							var want []string
							switch {
							case d > 0 || restored:
								if recov {
									want = []string{"LocalDataLoss#1"}
								} else {
									want = []string{"CannotSync#1"}
								}
							case d <= -2:
								want = []string{"RemoteDataLoss#1"}
							case d == -1:
								want = []string{"retransmit-revocation"}
							}
							o.Site("L=%d R=L%+d restored=%v recovery=%v -> %v", Lv, d, restored, recov, got)
							if strings.Join(got, ",") != strings.Join(want, ",") {
								o.FailAt(f.ID+fmt.Sprintf("#local-table-d%+d-rst%v-rec%v", d, restored, recov), f.Where(f.Body.Pos()),
									"ProcessChanSyncMsg: with local tail L=%d, msg.RemoteCommitTailHeight=L%+d, restored=%v, recovery options=%v the reachable outcomes are %v, BOLT-2 expects %v", Lv, d, restored, recov, got, want)
							}
						}
					}
				}
			}
			// "retransmit" means the generated revocation ends up in the
			// returned messages and stays there
			c03MessageList(o, f)
		})

	r.Obl("remote-chain-table", "TABLE",
		"second switch over N = msg.NextLocalCommitHeight vs remote tail T and tip P in {T, T+1}: N>P+1 -> ErrCannotSyncCommitChains; N<=T -> ErrCommitSyncRemoteDataLoss; N=P+1 -> in sync; N=P=T+1 -> retransmit updates and commitment_signed from the stored diff; default unreachable",
		"a shifted boundary drops or duplicates the retransmitted commitment, or reports false data loss", 14,
		func(o *an.Obl) {
			f := p.Func(lw + "LightningChannel.ProcessChanSyncMsg")
			labels := chanSyncLabels(f)
			second := []string{"CannotSync#3", "RemoteDataLoss#2", "retransmit-commitment", "CannotSync#4"}
			for _, n := range second {
				if _, ok := labels[n]; !ok {
					o.FailAt(f.ID+"#label-"+n, f.Where(f.Body.Pos()), "outcome site %s not found in ProcessChanSyncMsg", n)
				}
			}
			const Tv = 10
			for _, tip := range []int64{Tv, Tv + 1} {
				for n := int64(Tv - 2); n <= Tv+4; n++ {
					env := an.IntEnv{Ints: map[string]int64{R: 5, L: 5, N: n, T: Tv, P: tip}, Bools: map[string]bool{rst: false, rec: false}}
					got := reached(f, labels, env, second)
					var want []string
					switch {
					case n > tip+1:
						want = []string{"CannotSync#3"}
					case n <= Tv:
						want = []string{"RemoteDataLoss#2"}
					case n == tip+1:
					case n == tip:
						want = []string{"retransmit-commitment"}
					}
					o.Site("T=%d P=%d N=%d -> %v", Tv, tip, n, got)
					if strings.Join(got, ",") != strings.Join(want, ",") {
						o.FailAt(f.ID+fmt.Sprintf("#remote-table-P=T%+d-N=T%+d", tip-Tv, n-Tv), f.Where(f.Body.Pos()),
							"ProcessChanSyncMsg: with remote tail T=%d, tip P=%d, msg.NextLocalCommitHeight=%d the reachable outcomes are %v, BOLT-2 expects %v", Tv, tip, n, got, want)
					}
				}
			}
		})

	r.Obl("unrevoked-commit-point-table", "TABLE",
		"final check of ProcessChanSyncMsg: the peer's LocalUnrevokedCommitPoint is compared with RemoteCurrentRevocation exactly when msg.NextLocalCommitHeight = remote tail + 1 and with RemoteNextRevocation exactly when it is remote tail + 2 (and with nothing otherwise); the comparison is skipped only for tweakless channels: the ErrInvalidLocalUnrevokedCommitPoint verdict is restricted by nothing but the recoverable height region, the presence of the peer's point, !tweakless, a selected stored point and the inequality",
		"comparing against the wrong stored point declares an honest peer's commit point invalid (ErrInvalidLocalUnrevokedCommitPoint -> force close) on legacy channels when the cut falls between their revocation being persisted and delivered", 6,
		func(o *an.Obl) {
			f := p.Func(lw + "LightningChannel.ProcessChanSyncMsg")
			var cur, next []an.Site
			for _, v := range f.Graph().V {
				as, ok := v.Node.(*ast.AssignStmt)
				if !ok || len(as.Rhs) != 1 {
					continue
				}
				switch c := f.Canon(as.Rhs[0]); {
				case strings.HasSuffix(c, "channelState.RemoteCurrentRevocation"):
					cur = append(cur, an.Site{Fn: f, V: v, Node: as})
				case strings.HasSuffix(c, "channelState.RemoteNextRevocation"):
					next = append(next, an.Site{Fn: f, V: v, Node: as})
				}
			}
			if len(cur) != 1 || len(next) != 1 {
				o.FailAt(f.ID+"#commit-point-sites", f.Where(f.Body.Pos()), "expected one selection of RemoteCurrentRevocation and one of RemoteNextRevocation, found %d/%d", len(cur), len(next))
				return
			}
			const Tv = 10
			for d := int64(0); d <= 3; d++ {
				n := int64(Tv) + d
				env := an.IntEnv{Ints: map[string]int64{R: 5, L: 5, N: n, T: Tv, P: n - 1}, Bools: map[string]bool{rst: false, rec: true}}
				// pass the secret check
				for _, v := range f.Graph().V {
					c := f.AtomCanon(v)
					if strings.Contains(c, "bytes.Equal(") && strings.Contains(c, "LastRemoteCommitSecret") {
						env.Bools[c] = true
					}
				}
				reach := f.ReachUnder(env.Decide())
				var got []string
				if reach[cur[0].V] {
					got = append(got, "RemoteCurrentRevocation")
				}
				if reach[next[0].V] {
					got = append(got, "RemoteNextRevocation")
				}
				want := ""
				switch d {
				case 1:
					want = "RemoteCurrentRevocation"
				case 2:
					want = "RemoteNextRevocation"
				}
				o.Site("N = T%+d -> compared with %v", d, got)
				if strings.Join(got, ",") != want {
					o.FailAt(f.ID+"#commit-point-N=T"+fmt.Sprintf("%+d", d), cur[0].Where(), "with msg.NextLocalCommitHeight = remote tail %+d the commit point is compared with %v, expected [%s]", d, got, want)
				}
			}
			// the error is raised only below !tweakless
			for name, s := range chanSyncLabels(f) {
				if strings.HasPrefix(name, "InvalidCommitPoint") {
					guarded(o, f, s, an.Truth(an.CallNamed("IsTweakless", nil), false, "!ChanType.IsTweakless()"))
					guarded(o, f, s, an.Truth(an.CallNamed("IsEqual", nil, an.FieldPath(an.Param(1), "LocalUnrevokedCommitPoint")), false, "!commitPoint.IsEqual(msg.LocalUnrevokedCommitPoint)"))
					// and below nothing else: the heights are in a recoverable
					// region, the peer sent the point, a stored point was selected
					c03OnlyGuards(o, f, s, append(c03SyncRegion(L, T, P),
						`^\(\$p1\.LocalUnrevokedCommitPoint != nil\)$`,
						`^!\$recv\.channelState\.ChanType\.IsTweakless\(\)$`,
						`^\(\$v:\*[A-Za-z0-9_./]*\.PublicKey != nil\)$`,
						`^!\$v:\*[A-Za-z0-9_./]*\.PublicKey\.IsEqual\(\$p1\.LocalUnrevokedCommitPoint\)$`,
					), "invalid-commit-point verdict")
				}
			}
		})

	r.Obl("data-loss-needs-verified-secret", "TABLE",
		"with recovery options present and a non-zero claimed height (probed at several heights including 1, restored or not), a wrong LastRemoteCommitSecret leads to ErrInvalidLastCommitSecret and never to a data-loss verdict; the verdict has no further condition; the secret compared is RevocationProducer.AtIndex(msg.RemoteCommitTailHeight-1)",
		"an unauthenticated height claim must not make the node declare local data loss and hand its funds to the peer's force close", 3,
		func(o *an.Obl) {
			f := p.Func(lw + "LightningChannel.ProcessChanSyncMsg")
			labels := chanSyncLabels(f)
			secretAtom := ""
			for _, v := range f.Graph().V {
				c := f.AtomCanon(v)
				if strings.Contains(c, "bytes.Equal(") && strings.Contains(c, "LastRemoteCommitSecret") {
					secretAtom = c
				}
			}
			if secretAtom == "" {
				o.FailAt(f.ID+"#secret-atom", f.Where(f.Body.Pos()), "the bytes.Equal comparison of LastRemoteCommitSecret is gone")
				return
			}
			o.Site("secret check atom: %s", secretAtom)
			if !strings.Contains(secretAtom, "RevocationProducer.AtIndex(("+R+" - 1))") {
				o.FailAt(f.ID+"#secret-index", f.Where(f.Body.Pos()), "the commit secret is compared against %s, expected our secret for height msg.RemoteCommitTailHeight-1", secretAtom)
			}
			// every non-zero claimed height (also the smallest one), restored
			// or not
			for _, hv := range [][2]int64{{12, 10}, {1, 0}, {3, 3}, {1, 1}} {
				for _, restored := range []bool{false, true} {
					env := an.IntEnv{Ints: map[string]int64{R: hv[0], L: hv[1]}, Bools: map[string]bool{rec: true, secretAtom: false, rst: restored}}
					got := reached(f, labels, env, []string{"LocalDataLoss#1", "InvalidSecret#1", "RemoteDataLoss#1", "RemoteDataLoss#2", "CannotSync#1"})
					o.Site("wrong secret, R=%d L=%d restored=%v, recovery options -> %v", hv[0], hv[1], restored, got)
					if strings.Join(got, ",") != "InvalidSecret#1" {
						o.FailAt(f.ID+fmt.Sprintf("#wrong-secret-R%d-L%d-rst%v", hv[0], hv[1], restored), f.Where(f.Body.Pos()), "with a wrong commit secret (claimed height %d, local tail %d, restored=%v) the reachable verdicts are %v, expected only ErrInvalidLastCommitSecret", hv[0], hv[1], restored, got)
					}
					if hv[0] <= hv[1] && !restored {
						continue
					}
					env.Bools[secretAtom] = true
					got = reached(f, labels, env, []string{"LocalDataLoss#1", "InvalidSecret#1"})
					o.Site("correct secret, R=%d L=%d restored=%v, recovery options -> %v", hv[0], hv[1], restored, got)
					if strings.Join(got, ",") != "LocalDataLoss#1" {
						o.FailAt(f.ID+fmt.Sprintf("#right-secret-R%d-L%d-rst%v", hv[0], hv[1], restored), f.Where(f.Body.Pos()), "with a correct commit secret, claimed height %d, local tail %d, restored=%v the reachable verdicts are %v, expected ErrCommitSyncLocalDataLoss", hv[0], hv[1], restored, got)
					}
				}
			}
			// the verdict is given under exactly: recovery options, non-zero
			// claimed height, our secret derived, secrets differ
			if s, ok := labels["InvalidSecret#1"]; ok {
				c03OnlyGuards(o, f, s, []string{
					`^\(\$p1\.LocalUnrevokedCommitPoint != nil\)$`,
					`^\(\$p1\.RemoteCommitTailHeight != 0\)$`,
					`^!\(\$recv\.channelState\.RevocationProducer\.AtIndex\(\(\$p1\.RemoteCommitTailHeight - 1\)\)#1 != nil\)$`,
					`^!bytes\.Equal\(`,
				}, "invalid-secret verdict")
			} else {
				o.FailAt(f.ID+"#label-InvalidSecret#1", f.Where(f.Body.Pos()), "the ErrInvalidLastCommitSecret return is gone")
			}
		})

	r.Obl("revocation-heights", "GUARD",
		"ProcessChanSyncMsg retransmits generateRevocation(localTailHeight-1), RevokeCurrentCommitment calls generateRevocation(currentHeight); generateRevocation derives the secret with AtIndex(height) and copies it into Revocation, derives the next point from AtIndex(height+2) and stores it in NextRevocationKey, on every success path of the message it returns; lnwire.RevokeAndAck values are built only there",
		"the revocation stream must follow the derivation chain without gaps or repeats (C06) and the retransmitted one must be the one the peer is missing", 6,
		func(o *an.Obl) {
			f := p.Func(lw + "LightningChannel.ProcessChanSyncMsg")
			for _, s := range f.Calls(an.CalleeIs(lw+"LightningChannel.generateRevocation"), false) {
				a := f.ArgCanon(s)
				o.Site("%s arg=%s", s.String(), a[0])
				if a[0] != "("+L+" - 1)" {
					o.FailAt(f.ID+"#retransmit-height", s.Where(), "the retransmitted revocation is for height %s, expected local tail height - 1", a[0])
				}
			}
			g := p.Func(lw + "LightningChannel.RevokeCurrentCommitment")
			for _, s := range g.Calls(an.CalleeIs(lw+"LightningChannel.generateRevocation"), false) {
				a := g.ArgCanon(s)
				o.Site("%s arg=%s", s.String(), a[0])
				if a[0] != "$recv.currentHeight" {
					o.FailAt(g.ID+"#revoke-height", s.Where(), "RevokeCurrentCommitment revokes height %s, expected currentHeight", a[0])
				}
				// and the height is advanced exactly once after it
				inc := g.Assigns(an.Field(lw+"LightningChannel", "currentHeight", nil), false)
				if len(inc) != 1 || !g.Before([]an.Site{s}, inc[0]) {
					o.FailAt(g.ID+"#currentHeight++", s.Where(), "currentHeight must be incremented exactly once, after the revocation was generated (found %d writes)", len(inc))
				}
			}
			h := p.Func(lw + "LightningChannel.generateRevocation")
			idx := h.Calls(an.CalleeNamed("AtIndex"), false)
			var forms []string
			for _, s := range idx {
				forms = append(forms, h.ArgCanon(s)[0])
				o.Site("%s arg=%s", s.String(), h.ArgCanon(s)[0])
			}
			if strings.Join(forms, " ") != "$p0 ($p0 + 2)" {
				o.FailAt(h.ID+"#AtIndex-forms", h.Where(h.Body.Pos()), "generateRevocation derives secrets at %v, expected [height, height+2]", forms)
			}
			c03RevocationDataflow(o, p)
			w := r.Wide()
			w.WhoMay(o, "lnwallet.LightningChannel.generateRevocation", w.RefsTo(w.Method("lnwallet", "LightningChannel", "generateRevocation"), true), map[string]string{
				lw + "LightningChannel.RevokeCurrentCommitment": "revocation after a durable new commitment (C02)",
				lw + "LightningChannel.ProcessChanSyncMsg":      "retransmission on reconnect",
			}, []string{lw + "LightningChannel.RevokeCurrentCommitment", lw + "LightningChannel.ProcessChanSyncMsg"})
			for _, ref := range w.CompositeLitsOf(w.LookupType("lnwire", "RevokeAndAck")) {
				id := "<package-level>"
				if ref.Fn != nil {
					id = ref.Fn.ID
				}
				o.Site("RevokeAndAck literal in %s", id)
				if id != lw+"LightningChannel.generateRevocation" && !strings.HasPrefix(id, "lnwire.") {
					o.FailAt("RevokeAndAck-literal<-"+id, ref.Where, "a revoke_and_ack message is constructed in %s, outside generateRevocation", id)
				}
			}
		})

	r.Obl("commitment-retransmitted-from-disk", "PATH",
		"in the owe-commitment arm the messages are built from channelState.RemoteCommitChainTip(): every LogUpdate.UpdateMsg of the diff (each iteration appends), then the stored CommitSig; taproot channels pass resignMusigCommit(the diff's CommitTx) first and store its result into that CommitSig; a failed read or re-sign ends the function; the order relative to the revocation follows channelState.LastWasRevoke (true: commitment first, false: revocation first)",
		"retransmitting anything but the durable diff, or in the wrong order relative to the revocation, makes the peer reject the signature", 5,
		func(o *an.Obl) {
			f := p.Func(lw + "LightningChannel.ProcessChanSyncMsg")
			tip := f.Calls(an.CalleeIs("chanstate.OpenChannel.RemoteCommitChainTip"), false)
			if !need(o, f, "RemoteCommitChainTip", tip, 1) {
				return
			}
			// the two order-deciding assignments
			// the variable returned as the message list
			var updObj interface{}
			for _, ret := range f.StrictSuccessReturns() {
				if rs, ok := ret.Node.(*ast.ReturnStmt); ok && len(rs.Results) == 4 {
					if id, ok := rs.Results[0].(*ast.Ident); ok {
						updObj = f.Info().Uses[id]
					}
				}
			}
			isUpd := func(e ast.Expr) bool {
				id, ok := ast.Unparen(e).(*ast.Ident)
				return ok && updObj != nil && f.Info().Uses[id] == updObj
			}
			var swapFirst, swapSecond []an.Site
			for _, v := range f.Graph().V {
				as, ok := v.Node.(*ast.AssignStmt)
				if !ok || len(as.Lhs) != 1 || len(as.Rhs) != 1 || !isUpd(as.Lhs[0]) {
					continue
				}
				call, ok := as.Rhs[0].(*ast.CallExpr)
				if !ok || an.CalleeID(f.Info(), call) != "builtin.append" || len(call.Args) != 2 || !call.Ellipsis.IsValid() {
					continue
				}
				s := an.Site{Fn: f, V: v, Node: as}
				switch {
				case isUpd(call.Args[0]):
					swapSecond = append(swapSecond, s) // revocation first
				case isUpd(call.Args[1]):
					swapFirst = append(swapFirst, s) // commitment first
				}
			}
			lastWas := an.FieldPath(nil, "LastWasRevoke")
			if len(swapFirst) != 1 || len(swapSecond) != 1 {
				o.FailAt(f.ID+"#order-assignments", f.Where(f.Body.Pos()), "expected one `append(commitUpdates, updates...)` and one `append(updates, commitUpdates...)`, found %d/%d", len(swapFirst), len(swapSecond))
			} else {
				guarded(o, f, swapFirst[0], an.Truth(lastWas, true, "LastWasRevoke"))
				guarded(o, f, swapSecond[0], an.Truth(lastWas, false, "!LastWasRevoke"))
				mustPass(o, f, "RemoteCommitChainTip", tip, an.OkErrNil, append(swapFirst, swapSecond...))
			}
			// commitUpdates is filled from the diff's log updates and then its CommitSig
			var cuName string
			if len(swapFirst) == 1 {
				if id, ok := swapFirst[0].Node.(*ast.AssignStmt).Rhs[0].(*ast.CallExpr).Args[0].(*ast.Ident); ok {
					cuName = id.Name
				}
			}
			cu := f.Assigns(an.LocalNamed(cuName), false)
			var forms []string
			for _, s := range cu {
				if as, ok := s.Node.(*ast.AssignStmt); ok {
					forms = append(forms, f.Canon(as.Rhs[0]))
					o.Site("commitUpdates <- %s", f.Canon(as.Rhs[0]))
				}
			}
			okForms := len(forms) == 2 && strings.Contains(forms[0], "LogUpdates).UpdateMsg") && strings.HasSuffix(forms[1], ".CommitSig)")
			if !okForms {
				o.FailAt(f.ID+"#commitUpdates-source", f.Where(f.Body.Pos()), "the retransmitted messages are built from %v, expected the stored diff's LogUpdates[i].UpdateMsg then its CommitSig", forms)
			}
			// taproot: resign before the CommitSig is appended
			resign := f.Calls(an.CalleeIs(lw+"LightningChannel.resignMusigCommit"), false)
			if need(o, f, "resignMusigCommit", resign, 1) && len(cu) == 2 {
				guarded(o, f, resign[0], an.Truth(an.CallNamed("IsTaproot", nil), true, "ChanType.IsTaproot()"))
				es, _ := f.UnionOk(resign, an.OkErrNil)
				for e := range f.EdgesOf(an.Truth(an.CallNamed("IsTaproot", nil), false, "")) {
					es[e] = true
				}
				// restrict to the IsTaproot test that guards the resign call:
				// the append of CommitSig must not be reachable on a taproot
				// channel without a successful resign
				if bad := f.MustPass([]an.Site{cu[1]}, es); len(bad) > 0 {
					o.FailAt(f.ID+"#resign-before-commitsig", cu[1].Where(), "a taproot channel can retransmit the stored CommitSig without re-signing with the fresh nonce: %s", bad[0])
				}
			}
			c03RetransmittedCommitment(o, f, tip, resign, cu)
		})

	r.Obl("reestablish-fields-agree", "MIRROR",
		"OpenChannel.ChanSyncMsg sets NextLocalCommitHeight = LocalCommitment.CommitHeight+1, RemoteCommitTailHeight = RemoteCommitment.CommitHeight, LastRemoteCommitSecret = RevocationStore.LookUp(that-1), LocalUnrevokedCommitPoint = ComputeCommitmentPoint(RevocationProducer.AtIndex(local height)); the literal's fields are these values (the looked-up secret is copied whenever the remote height is non-zero) and the literal is what is returned; the receiver compares exactly those fields",
		"the two ends of the reestablish handshake must talk about the same heights, or an honest peer is judged to have lost data", 5,
		func(o *an.Obl) {
			f := p.Func("chanstate.OpenChannel.ChanSyncMsg")
			var lit *ast.CompositeLit
			for _, ref := range p.CompositeLitsOf(p.LookupType("lnwire", "ChannelReestablish")) {
				if ref.Fn != nil && ref.Fn.ID == f.ID {
					lit = ref.Node.(*ast.CompositeLit)
				}
			}
			if lit == nil {
				o.FailAt(f.ID+"#literal", f.Where(f.Body.Pos()), "ChanSyncMsg no longer builds a ChannelReestablish literal")
				return
			}
			want := map[string]string{
				"RemoteCommitTailHeight":    `^\$recv\.RemoteCommitment\.CommitHeight$`,
				"LocalUnrevokedCommitPoint": `^input\.ComputeCommitmentPoint\(`,
			}
			got := map[string]string{}
			for _, el := range lit.Elts {
				if kv, ok := el.(*ast.KeyValueExpr); ok {
					got[kv.Key.(*ast.Ident).Name] = f.Canon(kv.Value)
				}
			}
			for k, re := range want {
				o.Site("ChannelReestablish.%s = %s", k, got[k])
				if !reMatch(re, got[k]) {
					o.FailAt(f.ID+"#field-"+k, f.Where(lit.Pos()), "ChannelReestablish.%s is set to %s, expected /%s/", k, got[k], re)
				}
			}
			// nextLocalCommitHeight has two definitions (the restored-channel
			// override); its primary one must be local height + 1
			found := false
			for _, s := range f.Assigns(an.LocalNamed("nextLocalCommitHeight"), false) {
				if as, ok := s.Node.(*ast.AssignStmt); ok {
					c := f.Canon(as.Rhs[0])
					o.Site("nextLocalCommitHeight <- %s", c)
					if c == "($recv.LocalCommitment.CommitHeight + 1)" {
						found = true
					} else if c != "0" {
						o.FailAt(f.ID+"#nextLocalCommitHeight", s.Where(), "unexpected definition of the advertised next height: %s", c)
					} else {
						guarded(o, f, s, an.Truth(an.CallNamed("hasChanStatus", nil, an.PkgVar("chanstate", "ChanStatusRestored")), true, "hasChanStatus(ChanStatusRestored)"))
					}
				}
			}
			if !found {
				o.FailAt(f.ID+"#nextLocalCommitHeight-missing", f.Where(f.Body.Pos()), "NextLocalCommitHeight is no longer LocalCommitment.CommitHeight+1")
			}
			look := f.Calls(an.CalleeNamed("LookUp"), false)
			for _, s := range look {
				a := f.ArgCanon(s)
				o.Site("%s arg=%s", s.String(), a[0])
				if a[0] != "($recv.RemoteCommitment.CommitHeight - 1)" {
					o.FailAt(f.ID+"#LookUp-index", s.Where(), "the advertised last commit secret is looked up at %s, expected remote height - 1", a[0])
				}
				guarded(o, f, s, an.Cmp(an.FieldPath(an.FieldPath(nil, "RemoteCommitment"), "CommitHeight"), an.NE, an.IntConst(0), "remote height != 0"))
			}
			if len(look) != 1 {
				o.FailAt(f.ID+"#LookUp-count", f.Where(f.Body.Pos()), "expected one RevocationStore.LookUp, found %d", len(look))
			}
			at := f.Calls(an.CalleeNamed("AtIndex"), false)
			if len(at) != 1 || f.ArgCanon(at[0])[0] != "$recv.LocalCommitment.CommitHeight" {
				o.FailAt(f.ID+"#AtIndex", f.Where(f.Body.Pos()), "the unrevoked commit point must come from RevocationProducer.AtIndex(local height)")
			}
			c03ReestablishSources(o, f, lit)
		})
	commitStoreTransactions(r)
	windowDiscipline(r)
	modifiedMarkerDiscipline(r)
	persistRestoreKindAgreement(r)

	linkResyncRoles(r)
}
