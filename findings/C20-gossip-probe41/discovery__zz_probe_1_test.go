package discovery

import (
	"sync/atomic"
	"testing"

	"github.com/btcsuite/btcd/btcec/v2"
	"github.com/btcsuite/btcd/chainhash/v2"
	"github.com/lightningnetwork/lnd/lntest/mock"
	"github.com/lightningnetwork/lnd/lnwire"
	"github.com/lightningnetwork/lnd/netann"
	tmock "github.com/stretchr/testify/mock"
	"github.com/stretchr/testify/require"
)

// TestProbeZombiePoisonedByForeignAnnouncement: an attacker who knows the short
// channel id of a real, unspent channel (anyone watching the chain does) sends
// a channel_announcement for that scid that is internally consistent (all four
// signatures verify under the keys IT states) but names its own keys. The
// funding output does not pay to those keys, so the announcement is rightly
// refused -- but the refusal also writes the scid into the zombie index with
// blank keys. From then on the REAL announcement for that scid (all four
// signatures valid, funding output matching and unspent) is silently ignored
// and the entry can't be resurrected by any channel_update.
func TestProbeZombiePoisonedByForeignAnnouncement(t *testing.T) {
	t.Parallel()
	ctx := t.Context()

	tCtx, err := createTestCtx(t, 0, false)
	require.NoError(t, err)

	const height = 0

	// The attacker's keys.
	atkNode1, _ := btcec.NewPrivateKey()
	atkNode2, _ := btcec.NewPrivateKey()
	atkBtc1, _ := btcec.NewPrivateKey()
	atkBtc2, _ := btcec.NewPrivateKey()

	// The chain holds the real funding output (pays bitcoinKeyPub1/2).
	info := makeFundingTxInBlock(t)
	tCtx.chain.On("GetBlockHash", int64(height)).
		Return(&chainhash.Hash{}, nil).Once()
	tCtx.chain.On("GetBlock", tmock.Anything).
		Return(info.fundingBlock, nil).Once()

	forged := &lnwire.ChannelAnnouncement1{
		ChainHash: *tCtx.gossiper.cfg.ChainParams.GenesisHash,
		ShortChannelID: lnwire.ShortChannelID{
			BlockHeight: height,
		},
		Features: testFeatures,
	}
	copy(forged.NodeID1[:], atkNode1.PubKey().SerializeCompressed())
	copy(forged.NodeID2[:], atkNode2.PubKey().SerializeCompressed())
	copy(forged.BitcoinKey1[:], atkBtc1.PubKey().SerializeCompressed())
	copy(forged.BitcoinKey2[:], atkBtc2.PubKey().SerializeCompressed())

	sign := func(k *btcec.PrivateKey) lnwire.Sig {
		s, err := netann.SignAnnouncement(
			&mock.SingleSigner{Privkey: k}, testKeyLoc, forged,
		)
		require.NoError(t, err)
		sig, err := lnwire.NewSigFromSignature(s)
		require.NoError(t, err)

		return sig
	}
	forged.NodeSig1 = sign(atkNode1)
	forged.NodeSig2 = sign(atkNode2)
	forged.BitcoinSig1 = sign(atkBtc1)
	forged.BitcoinSig2 = sign(atkBtc2)
	require.NoError(t, netann.ValidateChannelAnn(forged, nil))

	atkPeer := &mockPeer{atkNode1.PubKey(), nil, nil, atomic.Bool{}}
	err = mustProcess(t, tCtx.gossiper.ProcessRemoteAnnouncement(
		ctx, forged, atkPeer,
	))
	require.ErrorIs(t, err, ErrInvalidFundingOutput)

	// Now the real announcement arrives from an honest peer.
	realAnn, err := tCtx.createRemoteChannelAnnouncement(height)
	require.NoError(t, err)

	honest := &mockPeer{remoteKeyPriv1.PubKey(), nil, nil, atomic.Bool{}}
	err = mustProcess(t, tCtx.gossiper.ProcessRemoteAnnouncement(
		ctx, realAnn, honest,
	))
	require.NoError(t, err)

	info2, _, _, err := tCtx.router.GetChannelByID(realAnn.ShortChannelID)
	require.NoError(t, err, "the authentic channel is locked out of the "+
		"graph by the attacker's refused announcement")
	require.Equal(t, realAnn.NodeID1, [33]byte(info2.NodeKey1Bytes))
}
