package spec

import (
	"go/ast"
	"go/types"
	"sort"
	"strings"

	"lndlint/internal/an"
)

func init() {
	register(&Spec{
		ID:          "C20",
		Loads:       []LoadSpec{{Patterns: []string{"./discovery", "./netann", "./graph", "./graph/db", "./lnwire"}}},
		Explanation: "Decides that a remote channel announcement reaches the graph only after ValidateChannelAnn succeeded (unconditionally for remote messages) and, unless channel validation is assumed or the id is an alias, after the funding output was located, matched against the 2-of-2 of the announced bitcoin keys and found unspent, with capacity and outpoint taken from that lookup; that the version-1 validator verifies the four signatures, each against its own key, over the double hash of DataToSign, which covers every non-signature field; that a channel update is applied only after the staleness test, field validation and a signature check under the node key selected by the direction bit, and the store applies it only when strictly newer than the timestamp stored for that same direction; that a node announcement is stored only after signature validation, for a node known to the graph, when strictly newer; that messages are handed on for relay only on the accepting paths; that a zombie resurrected by an update passed the full update validation (fields and signature), and one revived by FilterKnownChanIDs joins the ids to query; that only a spent funding output (btcwallet.ErrOutputSpent) is reported as ErrChannelSpent and closes a channel id; that a version-1 announcement naming one node on both sides is refused; and that every call lifting a zombie index entry lies below a verified channel update for that channel (FilterKnownChanIDs, which lifts entries on the timestamps a peer claims, is reported); that a funding output which exists but pays to other keys (chanvalidate.ErrWrongPkScript) is rejected as ErrInvalidFundingOutput without marking the channel id a zombie; that the kv store uses an edge returned by delChannelEdgeUnsafe only when the delete found it; that handleAnnSig and processRejectedEdge store and relay an assembled channel proof only after an unconditional, successful ValidateChannelAnn of the announcement assembled from the stored channel and that proof; and that the max_htlc bounds of a channel update are compared in msat on both sides.",
		NotDecided: []string{
			"that every corruption is detected (cryptographic strength, parser totality: C10)", "gossip version 2 announcements beyond the dispatch to their validator", "the chain backend's answers (GetUtxo / block fetch)", "rate limiting, ban scores and the reject cache (they only drop more)",
		},
		Assumptions: commonAssumptions,
		Engines:     "PATH, GUARD, MIRROR, CODEC, ROLE, WHO",
		Run:         runC20,
	})
}

func runC20(r *an.Run) {
	p := r.Prog
	gs := "discovery.AuthenticatedGossiper."
	// the direction of an update: its channel flags masked with the direction bit
	dirTerm := canonTerm(`^\(.*ChannelFlags & lnwire\.ChanUpdateDirection\)$|^\(\$p\d & lnwire\.ChanUpdateDirection\)$`)

	r.Obl("signatures-over-the-signed-digest", "MIRROR",
		"validateChannelAnn1 returns nil only after four Verify calls succeeded, each on the double hash of a.DataToSign() with the pairing (BitcoinSig1, BitcoinKey1), (BitcoinSig2, BitcoinKey2), (NodeSig1, NodeID1), (NodeSig2, NodeID2); the channel update and node announcement validators verify their single signature over the double hash of DataToSign under the key they are given / the announced node id; ValidateChannelUpdateAnn and ValidateNodeAnn answer nil only after their field check and their signature check both succeeded, each applied to the validator's own, unmodified arguments; DataToSign of the three messages mentions every field of the message except the signatures",
		"a signature checked against the wrong key, or over a digest that omits a field, lets anyone forge or alter announcements", 20,
		func(o *an.Obl) {
			f := p.Func("netann.validateChannelAnn1")
			vs := f.Calls(an.CalleeNamed("Verify"), false)
			pairs := map[string]string{"BitcoinSig1": "BitcoinKey1", "BitcoinSig2": "BitcoinKey2", "NodeSig1": "NodeID1", "NodeSig2": "NodeID2"}
			seen := map[string]bool{}
			for _, s := range vs {
				c := s.Node.(*ast.CallExpr)
				recv := f.Canon(c.Fun.(*ast.SelectorExpr).X)
				a := f.ArgCanon(s)
				o.Site("Verify: sig=%s hash=%s key=%s", recv, a[0], a[1])
				if !strings.Contains(a[0], "DoubleHashB($p0.DataToSign()") {
					o.FailAt(f.ID+"#digest", s.Where(), "a signature is verified over %s, expected the double hash of a.DataToSign()", a[0])
				}
				matched := false
				for sig, key := range pairs {
					if strings.HasPrefix(recv, "$p0."+sig+".ToSignature()") {
						matched = true
						seen[sig] = true
						if !strings.Contains(a[1], "ParsePubKey($p0."+key+"[:])") {
							o.FailAt(f.ID+"#pairing-"+sig, s.Where(), "%s is verified under %s, expected %s", sig, a[1], key)
						}
					}
				}
				if !matched {
					o.FailAt(f.ID+"#unknown-sig", s.Where(), "cannot relate the verified signature %s to an announcement field", recv)
				}
			}
			for sig := range pairs {
				if !seen[sig] {
					o.FailAt(f.ID+"#unverified-"+sig, f.Where(f.Body.Pos()), "%s is never verified", sig)
				}
			}
			for _, s := range f.StrictSuccessReturns() {
				for _, v := range vs {
					mustPass(o, f, "Verify("+f.Canon(v.Node.(*ast.CallExpr).Fun.(*ast.SelectorExpr).X)+")", []an.Site{v}, an.OkBoolTrue, []an.Site{s})
				}
			}
			// single-signature validators
			for _, c := range []struct{ fn, key string }{
				{"netann.verifyChannelUpdate1Signature", "$p1"},
				{"netann.ValidateNodeAnnSignature", "ParsePubKey($p0.NodeID[:])"},
			} {
				g := p.Func(c.fn)
				gv := g.Calls(an.CalleeNamed("Verify"), false)
				if !needExactly(o, g, "Verify", gv, 1) {
					continue
				}
				a := g.ArgCanon(gv[0])
				recv := g.Canon(gv[0].Node.(*ast.CallExpr).Fun.(*ast.SelectorExpr).X)
				o.Site("%s: Verify sig=%s hash=%s key=%s", c.fn, recv, a[0], a[1])
				if !strings.Contains(a[0], "DoubleHashB($p0.DataToSign()") {
					o.FailAt(g.ID+"#digest", gv[0].Where(), "the signature is verified over %s", a[0])
				}
				if !strings.Contains(a[1], c.key) {
					o.FailAt(g.ID+"#key", gv[0].Where(), "the signature is verified under %s, expected %s", a[1], c.key)
				}
				if !strings.HasPrefix(recv, "$p0.Signature.ToSignature()") {
					o.FailAt(g.ID+"#sig", gv[0].Where(), "the verified signature is %s", recv)
				}
				mustPass(o, g, "Verify", gv, an.OkBoolTrue, g.StrictSuccessReturns())
			}
			// validators chain: fields then signature, each on the validator's own arguments
			c20ValidatorChain(o, p, "netann.ValidateChannelUpdateAnn", "netann.ValidateChannelUpdateFields", "netann.VerifyChannelUpdateSignature", []string{"$p1", "$p2"}, []string{"$p2", "$p0"})
			c20ValidatorChain(o, p, "netann.ValidateNodeAnn", "netann.ValidateNodeAnnFields", "netann.ValidateNodeAnnSignature", []string{"$p0"}, []string{"$p0"})
			vu := p.Func("netann.VerifyChannelUpdateSignature")
			for _, s := range vu.Calls(an.CalleeIs("netann.verifyChannelUpdate1Signature"), false) {
				if a := vu.ArgCanon(s); a[1] != "$p1" {
					o.FailAt(vu.ID+"#key", s.Where(), "the v1 update signature is checked under %s", a[1])
				}
			}
			// digest coverage
			for _, m := range []struct {
				typ  string
				sigs map[string]string
			}{
				{"ChannelAnnouncement1", map[string]string{"NodeSig1": "signature", "NodeSig2": "signature", "BitcoinSig1": "signature", "BitcoinSig2": "signature"}},
				{"ChannelUpdate1", map[string]string{"Signature": "signature", "InboundFee": "Encode packs it into ExtraOpaqueData, which DataToSign covers; signers pack it there before signing"}},
				{"NodeAnnouncement1", map[string]string{"Signature": "signature"}},
			} {
				p.CheckPair(o, an.CodecPair{Name: m.typ + " digest", TypePkg: "lnwire", TypeName: m.typ,
					Enc: []string{"lnwire." + m.typ + ".Encode"}, Dec: []string{"lnwire." + m.typ + ".DataToSign"},
					EncOnly: m.sigs, MentionsOnly: true})
			}
		})

	r.Obl("channel-announcement-admission", "PATH",
		"handleChanAnnouncement reaches Graph.AddEdge only if the message is local or netann.ValidateChannelAnn(ann) was executed and succeeded, and only if AssumeChannelValid or IsAlias(scid) or validateFundingTransaction succeeded; the edge added is the one built from the announced keys and ids, of which only Capacity, ChannelPoint and FundingScript are set afterwards and, when validated, from the capacity / outpoint / script that validation returned (bound once, in result order, and not overwritten by a later write); validateFundingTransaction succeeds only after the funding transaction was fetched, chanvalidate.Validate matched the script makeFundingScript built from the two announced bitcoin keys in order (2-of-2 hash or taproot), and GetUtxo found that output unspent, each of its locals being the single result of that step; ValidateChannelAnn returns, for a version-1 announcement, the verdict of an unconditional validateChannelAnn1; what is handed on for relay is nil, the announcement list (extended only by this announcement) after AddEdge succeeded, or what processRejectedEdge extracted when the graph ignored a known edge",
		"an announcement that skips either check puts a channel nobody proved to exist (or to be theirs) into the graph pathfinding trusts", 12,
		func(o *an.Obl) {
			f := p.Func(gs + "handleChanAnnouncement")
			add := f.Calls(an.CalleeNamed("AddEdge"), false)
			val := f.Calls(an.CalleeIs("netann.ValidateChannelAnn"), false)
			fund := f.Calls(an.CalleeIs(gs+"validateFundingTransaction"), false)
			if !needExactly(o, f, "Graph.AddEdge", add, 1) {
				return
			}
			remote := an.FieldPath(an.Param(1), "isRemote")
			mustPassUnless(o, f, "ValidateChannelAnn", val, an.OkErrNil, add, an.Truth(remote, false, "!nMsg.isRemote"))
			if len(val) == 1 {
				if a := f.ArgCanon(val[0]); a[0] != "$p2" {
					o.FailAt(f.ID+"#validated-msg", val[0].Where(), "ValidateChannelAnn is given %s", a[0])
				}
			}
			mustPassUnless(o, f, "validateFundingTransaction", fund, an.OkErrNil, add,
				an.Truth(an.FieldPath(an.FieldPath(an.Recv(), "cfg"), "AssumeChannelValid"), true, "d.cfg.AssumeChannelValid"),
				an.Truth(an.CallNamed("IsAlias", nil), true, "d.cfg.IsAlias(scid)"))
			if len(fund) == 1 {
				if a := f.ArgCanon(fund[0]); a[1] != "$p2" {
					o.FailAt(f.ID+"#funding-msg", fund[0].Where(), "validateFundingTransaction is given %s", a[1])
				}
			}
			// the edge
			if a := f.ArgCanon(add[0]); !strings.HasPrefix(a[1], "graph/db/models.NewV1Channel(") {
				o.FailAt(f.ID+"#edge", add[0].Where(), "the edge added is %s", a[1])
			}
			ne := f.Calls(an.CalleeNamed("NewV1Channel"), false)
			if needExactly(o, f, "NewV1Channel", ne, 1) {
				a := f.ArgCanon(ne[0])
				o.Site("NewV1Channel(%s, %s, %s, %s, …)", a[0], a[1], a[2], a[3])
				if a[0] != "$p2.ShortChannelID.ToUint64()" || a[2] != "$p2.NodeID1" || a[3] != "$p2.NodeID2" {
					o.FailAt(f.ID+"#edge-ids", ne[0].Where(), "the edge is built from (%s, %s, %s)", a[0], a[2], a[3])
				}
				for k, v := range map[string]string{"BitcoinKey1Bytes": "ann.BitcoinKey1", "BitcoinKey2Bytes": "ann.BitcoinKey2"} {
					if got := kvText(ne[0].Node, k); got != v {
						o.FailAt(f.ID+"#edge-"+k, ne[0].Where(), "the edge's %s is %s", k, got)
					}
				}
			}
			// the locals the rules below are written in: the announcement and
			// its id, the edge built from it, and what funding validation returned
			notReassigned(o, f, "nMsg", "ann")
			c20SingleDef(o, f, "scid", "$p2.ShortChannelID")
			var edgeObj types.Object
			if len(ne) == 1 {
				edgeObj = c20ResultOf(o, f, "edge", ne[0], 0)
				if c19VarObj(f, callArg(add[0], 1)) != edgeObj {
					o.FailAt(f.ID+"#edge-added", add[0].Where(), "AddEdge is given %s, expected the edge built from the announcement", an.Text(callArg(add[0], 1)))
				}
			}
			validated := map[string]types.Object{}
			if len(fund) == 1 {
				for i, n := range []string{"op", "capacity", "script"} {
					validated[n] = c20ResultOf(o, f, n, fund[0], i)
				}
			}
			fromValidation := func(fld string, rhs ast.Expr) bool {
				switch fld {
				case "Capacity":
					return validated["capacity"] != nil && c19VarObj(f, rhs) == validated["capacity"]
				case "ChannelPoint":
					return validated["op"] != nil && c19VarObj(f, rhs) == validated["op"]
				case "FundingScript":
					c, ok := ast.Unparen(rhs).(*ast.CallExpr)
					return ok && an.Text(c.Fun) == "fn.Some" && len(c.Args) == 1 && validated["script"] != nil && c19VarObj(f, c.Args[0]) == validated["script"]
				}
				return false
			}
			// after construction only these three fields are set, each from the
			// validation result or (before validation) from the local caller's
			// optional fields; keys, ids and proof stay as announced
			if edgeObj != nil {
				for fld, ws := range c20OnlyFieldWrites(o, f, edgeObj, "edge", "Capacity", "ChannelPoint", "FundingScript") {
					for _, w := range ws {
						as, ok := w.(*ast.AssignStmt)
						if !ok || len(as.Lhs) != 1 || len(as.Rhs) != 1 || as.Tok.String() != "=" {
							o.FailAt(f.ID+"#edge-"+fld, f.Where(w.Pos()), "edge.%s is changed by %s", fld, an.Text(w))
							continue
						}
						s := c19SiteFor(f, as)
						c := an.Text(as.Rhs[0])
						o.Site("edge.%s = %s", fld, c)
						switch {
						case fromValidation(fld, as.Rhs[0]):
							mustPass(o, f, "validateFundingTransaction", fund, an.OkErrNil, []an.Site{s})
						case fld == "Capacity" && c == "*nMsg.optionalMsgFields.capacity", fld == "ChannelPoint" && c == "cp":
						default:
							o.FailAt(f.ID+"#edge-"+fld, s.Where(), "edge.%s is set from %s", fld, c)
						}
					}
				}
			}
			// once the funding output was validated, the edge always carries what
			// validation returned: every path from the successful validation to
			// AddEdge passes the validated write, and no other write follows it
			if len(fund) == 1 && len(add) > 0 && edgeObj != nil {
				oke, _ := f.OkEdges(fund[0], an.OkErrNil)
				ws := c19FieldWrites(f, edgeObj)
				for _, fld := range []string{"Capacity", "ChannelPoint", "FundingScript"} {
					stop := map[*an.FlowVertex]bool{}
					var others []an.Site
					for _, w := range ws[fld] {
						s := c19SiteFor(f, w)
						if as, ok := w.(*ast.AssignStmt); ok && len(as.Rhs) == 1 && len(as.Lhs) == 1 && fromValidation(fld, as.Rhs[0]) {
							stop[s.V] = true
						} else {
							others = append(others, s)
						}
					}
					if len(stop) == 0 {
						o.FailAt(f.ID+"#validated-"+fld+"-unused", fund[0].Where(), "the %s returned by funding validation is not stored on the edge", fld)
						continue
					}
					for e := range oke {
						if f.Graph().Reach(e.To, nil, stop)[add[0].V] {
							o.FailAt(f.ID+"#validated-"+fld+"-skipped", add[0].Where(), "after a successful funding validation the edge can be added without the validated %s", fld)
						}
					}
					for v := range stop {
						after := f.Graph().Reach(v, nil, nil)
						for _, w := range others {
							if after[w.V] && w.V != v {
								o.FailAt(f.ID+"#validated-"+fld+"-overwritten", w.Where(), "%s replaces the validated %s before the edge is added", w.String(), fld)
							}
						}
					}
				}
			}
			// relay only after AddEdge succeeded; the one exception is an edge the
			// graph already knows (ErrIgnored), where what is handed on is what
			// processRejectedEdge extracted
			ignored := an.Truth(an.CallNamed("IsError", nil, nil, an.PkgVar("graph", "ErrIgnored")), true, "graph.IsError(err, graph.ErrIgnored)")
			relays := c20RelayReturns(o, f, "$p2", "anns")
			if len(relays) > 0 {
				mustPassUnless(o, f, "Graph.AddEdge", add, an.OkErrNil, relays, ignored)
			}
			for _, s := range relays {
				rs := s.Node.(*ast.ReturnStmt)
				viaIgnored, _ := f.Guarded(s, ignored)
				c := f.Canon(rs.Results[0])
				if viaIgnored != strings.HasPrefix(c, "$recv.processRejectedEdge($p0, $p2, ") {
					o.FailAt(f.ID+"#relay-result", s.Where(), "%s hands on %s (ignored edge: %v); expected the result of processRejectedEdge for an ignored edge and the announcement list otherwise", s.String(), c, viaIgnored)
				}
				stop := map[*an.FlowVertex]bool{add[0].V: true}
				if f.Graph().Reach(f.Graph().Entry, nil, stop)[s.V] {
					o.FailAt(f.ID+"#relay-without-add", s.Where(), "announcements are handed on for relay on a path that never calls AddEdge")
				}
			}
			// funding validation
			g := p.Func(gs + "validateFundingTransaction")
			succ := g.StrictSuccessReturns()
			for _, c := range []string{"FetchFundingTxWrapper", "makeFundingScript", "Validate", "GetUtxo"} {
				mustPass(o, g, c, g.Calls(an.CalleeNamed(c), false), an.OkErrNil, succ)
			}
			// each local the checks below name has the one definition that gives it its role
			notReassigned(o, g, "ann", "tapscriptRoot")
			c20SingleDef(o, g, "scid", "$p1.ShortChannelID")
			for _, row := range []struct{ name, callee string }{{"fundingTx", "FetchFundingTxWrapper"}, {"fundingPkScript", "makeFundingScript"}, {"fundingPoint", "Validate"}, {"chanUtxo", "GetUtxo"}} {
				if cs := g.Calls(an.CalleeNamed(row.callee), false); needExactly(o, g, row.callee, cs, 1) {
					c20ResultOf(o, g, row.name, cs[0], 0)
				}
			}
			// the script builder, which the rule above trusts with the two keys
			mk := p.Func("discovery.makeFundingScript")
			notReassigned(o, mk, "bitcoinKey1", "bitcoinKey2", "features", "tapscriptRoot")
			nScripts := 0
			for _, fn := range append([]*an.Func{mk}, mk.Lits...) {
				for _, s := range fn.Calls(an.CalleeNamed("GenMultiSigScript"), false) {
					nScripts++
					a := fn.ArgCanon(s)
					o.Site("makeFundingScript: GenMultiSigScript%v", a)
					if len(a) != 2 || a[0] != "$p0" || a[1] != "$p1" {
						o.FailAt(mk.ID+"#multisig-keys", s.Where(), "the 2-of-2 script is built from %v, expected the two announced bitcoin keys in order", a)
					}
				}
				for _, s := range fn.Calls(an.CalleeNamed("WitnessScriptHash"), false) {
					if a := fn.ArgCanon(s); len(a) != 1 || a[0] != "input.GenMultiSigScript($p0, $p1)" {
						o.FailAt(mk.ID+"#hashed-script", s.Where(), "the script hashed is %v, expected the 2-of-2 of the announced keys", a)
					}
				}
				for _, s := range fn.Calls(an.CalleeNamed("GenTaprootFundingScript"), false) {
					nScripts++
					a := fn.ArgCanon(s)
					o.Site("makeFundingScript: GenTaprootFundingScript%v", a[:2])
					if a[0] != "github.com/btcsuite/btcd/btcec/v2.ParsePubKey($p0)" || a[1] != "github.com/btcsuite/btcd/btcec/v2.ParsePubKey($p1)" {
						o.FailAt(mk.ID+"#taproot-keys", s.Where(), "the taproot funding script is built from (%s, %s), expected the two announced bitcoin keys in order", a[0], a[1])
					}
				}
				for _, s := range fn.Returns() {
					rs := s.Node.(*ast.ReturnStmt)
					if len(rs.Results) != 2 || !an.IsNilIdent(fn.Info(), rs.Results[1]) {
						continue
					}
					c := fn.Canon(rs.Results[0])
					if c != "input.WitnessScriptHash(input.GenMultiSigScript($p0, $p1))" && !strings.HasPrefix(c, "input.GenTaprootFundingScript(") {
						o.FailAt(mk.ID+"#result", s.Where(), "makeFundingScript returns %s, expected the hash of the 2-of-2 script or the taproot funding script", c)
					}
				}
			}
			if nScripts != 2 {
				o.FailAt(mk.ID+"#scripts", mk.Where(mk.Body.Pos()), "expected makeFundingScript to build one 2-of-2 and one taproot script, found %d", nScripts)
			}
			for _, s := range g.Calls(an.CalleeNamed("makeFundingScript"), false) {
				a := g.ArgCanon(s)
				o.Site("makeFundingScript%v", a[:2])
				if a[0] != "$p1.BitcoinKey1[:]" || a[1] != "$p1.BitcoinKey2[:]" {
					o.FailAt(g.ID+"#script-keys", s.Where(), "the funding script is built from (%s, %s)", a[0], a[1])
				}
			}
			for _, s := range g.Calls(an.CalleeNamed("Validate"), false) {
				if got := kvText(s.Node, "MultiSigPkScript"); got != "fundingPkScript" {
					o.FailAt(g.ID+"#validated-script", s.Where(), "chanvalidate is given script %s", got)
				}
				if got := kvText(s.Node, "FundingTx"); got != "fundingTx" {
					o.FailAt(g.ID+"#validated-tx", s.Where(), "chanvalidate is given tx %s", got)
				}
				if got := kvText(s.Node, "ID"); got != "scid" {
					o.FailAt(g.ID+"#validated-locator", s.Where(), "chanvalidate locates %s", got)
				}
			}
			for _, s := range g.Calls(an.CalleeNamed("GetUtxo"), false) {
				c := s.Node.(*ast.CallExpr)
				if an.Text(c.Args[0]) != "fundingPoint" || an.Text(c.Args[1]) != "fundingPkScript" {
					o.FailAt(g.ID+"#utxo-args", s.Where(), "GetUtxo is asked for (%s, %s)", an.Text(c.Args[0]), an.Text(c.Args[1]))
				}
			}
			for _, s := range succ {
				rs := s.Node.(*ast.ReturnStmt)
				if an.Text(rs.Results[0]) != "*fundingPoint" || an.Text(rs.Results[1]) != "btcutil.Amount(chanUtxo.Value)" || an.Text(rs.Results[2]) != "fundingPkScript" {
					o.FailAt(g.ID+"#results", s.Where(), "validateFundingTransaction returns (%s, %s, %s)", an.Text(rs.Results[0]), an.Text(rs.Results[1]), an.Text(rs.Results[2]))
				}
			}
			// dispatcher
			v := p.Func("netann.ValidateChannelAnn")
			if n := len(v.Calls(an.CalleeIs("netann.validateChannelAnn1"), false)); n != 1 {
				o.FailAt(v.ID+"#v1", v.Where(v.Body.Pos()), "ValidateChannelAnn dispatches to the v1 validator %d times", n)
			}
			for _, s := range v.Returns() {
				if an.IsNilIdent(v.Info(), s.Node.(*ast.ReturnStmt).Results[0]) {
					o.FailAt(v.ID+"#nil", s.Where(), "ValidateChannelAnn returns nil without validating")
				}
			}
			// every return for a version-1 announcement is the v1 validator's verdict
			isV1 := an.TypeCaseIs("lnwire.ChannelAnnouncement1", true, "a is a *ChannelAnnouncement1")
			v1 := v.Calls(an.CalleeIs("netann.validateChannelAnn1"), false)
			nV1 := 0
			for _, s := range v.Returns() {
				if ok, _ := v.Guarded(s, isV1); !ok {
					continue
				}
				nV1++
				if len(v1) == 1 && s.V != v1[0].V && an.IsNilIdent(v.Info(), s.Node.(*ast.ReturnStmt).Results[0]) {
					mustPass(o, v, "validateChannelAnn1", v1, an.OkErrNil, []an.Site{s})
				} else if len(v1) == 1 && s.V != v1[0].V {
					o.FailAt(v.ID+"#v1-verdict", s.Where(), "for a version-1 announcement ValidateChannelAnn returns %s, expected `return validateChannelAnn1(ann)` (an unconditional call whose result is returned)", an.Text(s.Node))
				}
			}
			if nV1 != 1 {
				o.FailAt(v.ID+"#v1-returns", v.Where(v.Body.Pos()), "expected one return in the version-1 case of ValidateChannelAnn, found %d", nV1)
			}
		})

	r.Obl("channel-update-admission", "GUARD",
		"handleChanUpdate reaches Graph.UpdateEdge only below !IsStaleEdgePolicy(graphScid, timestamp, flags) with timestamp = time.Unix(upd.Timestamp, 0) and a successful ValidateChannelUpdateAnn(pubKey, chanInfo.Capacity, upd), where chanInfo is the channel stored under graphScid and pubKey receives a value only in the two direction cases (chanInfo.NodeKey1() for direction 0, NodeKey2() for direction 1); the policy applied is the one parsed from upd, neither being modified on the way to UpdateEdge; the update is relayed (as the announcement list, extended only by this update) only after UpdateEdge succeeded; Builder.updateEdge writes the policy only for an existing channel and only when the timestamp stored for that same direction is before the new one; IsStaleEdgePolicy compares with the same direction's timestamp and answers not-stale otherwise only on a lookup error, for an unknown channel or when no direction case applies; both bind the results of HasV1ChannelEdge in (edge1, edge2, exists, isZombie) order; both stores report, cache and re-read the two directions' timestamps in (node1, node2) order, each taken from that direction's policy; every function of discovery and graph that writes a policy through UpdateEdge first passes ValidateChannelUpdateAnn against the stored channel's capacity; makeZombiePubkeys keeps node 1's key only in slot 1 and node 2's key only in slot 2, every call site hands it (NodeKey1Bytes, NodeKey2Bytes) and writes its results to the zombie index in that order, and processZombieUpdate marks the edge live only after netann.ValidateChannelUpdateAnn(pubKey, 0, msg) succeeded for the update it was handed, where pubKey receives a value only in the two direction cases (node 1's key iff the direction bit is 0); ValidateChannelUpdateAnn answers nil only after ValidateChannelUpdateFields(capacity, a) and VerifyChannelUpdateSignature(a, pubKey) both succeeded on its own, unmodified arguments",
		"an update accepted from the wrong side, or not strictly newer, lets a peer (or a replay) overwrite the channel's forwarding policy", 18,
		func(o *an.Obl) {
			f := p.Func(gs + "handleChanUpdate")
			upd := f.Calls(an.CalleeNamed("UpdateEdge"), false)
			val := f.Calls(an.CalleeIs("netann.ValidateChannelUpdateAnn"), false)
			if needExactly(o, f, "Graph.UpdateEdge", upd, 1) {
				mustPass(o, f, "ValidateChannelUpdateAnn", val, an.OkErrNil, upd)
				guarded(o, f, upd[0], an.Truth(an.CallNamed("IsStaleEdgePolicy", nil), false, "!IsStaleEdgePolicy(...)"))
				guarded(o, f, upd[0], an.Cmp(an.FieldPath(an.Param(2), "Timestamp"), an.NE, an.IntConst(0), "upd.Timestamp != 0"))
				mustPass(o, f, "Graph.GetChannelByID", f.Calls(an.CalleeNamed("GetChannelByID"), false), an.OkErrNil, upd)
				if a := f.ArgCanon(upd[0]); !strings.Contains(a[1], "ChanEdgePolicyFromWire(") {
					o.FailAt(f.ID+"#applied-policy", upd[0].Where(), "the policy applied is %s", a[1])
				}
				for _, s := range f.Calls(an.CalleeNamed("ChanEdgePolicyFromWire"), false) {
					if a := f.ArgCanon(s); a[1] != "$p2" {
						o.FailAt(f.ID+"#policy-source", s.Where(), "the policy is built from %s", a[1])
					}
				}
				if relays := c20RelayReturns(o, f, "$p2"); len(relays) > 0 {
					mustPass(o, f, "Graph.UpdateEdge", upd, an.OkErrNil, relays)
				}
				// the locals these rules name each have the one definition that gives them their role
				notReassigned(o, f, "nMsg", "upd")
				c20SingleDef(o, f, "timestamp", "time.Unix(int64($p2.Timestamp), 0)")
				c20SingleDef(o, f, "direction", "($p2.ChannelFlags & lnwire.ChanUpdateDirection)")
				if gc := f.Calls(an.CalleeNamed("GetChannelByID"), false); needExactly(o, f, "GetChannelByID", gc, 1) {
					c20ResultOf(o, f, "chanInfo", gc[0], 0)
					if a := f.ArgCanon(gc[0]); len(a) != 1 || an.Text(callArg(gc[0], 0)) != "graphScid" {
						o.FailAt(f.ID+"#channel-lookup", gc[0].Where(), "the channel is looked up by %v, expected the graph scid the staleness test used", a)
					}
				}
				// what is applied is the policy parsed from the message as it was
				// validated: neither the message nor the parsed policy is modified
				// on the way to UpdateEdge
				if pc := f.Calls(an.CalleeNamed("ChanEdgePolicyFromWire"), false); needExactly(o, f, "ChanEdgePolicyFromWire", pc, 1) {
					pol := c20ResultOf(o, f, "update", pc[0], 0)
					if c19VarObj(f, callArg(upd[0], 1)) != pol {
						o.FailAt(f.ID+"#applied-policy", upd[0].Where(), "the policy applied is %s, expected the policy parsed from the update", an.Text(callArg(upd[0], 1)))
					}
					var msgObj types.Object
					if ps := f.Params(false); len(ps) > 2 {
						msgObj = ps[2]
					}
					for _, obj := range []types.Object{pol, msgObj} {
						if obj == nil {
							continue
						}
						for fld, ws := range c19FieldWrites(f, obj) {
							for _, w := range ws {
								ws := c19SiteFor(f, w)
								if ws.V != nil && f.Graph().Reach(ws.V, nil, nil)[upd[0].V] {
									o.FailAt(f.ID+"#modified-before-apply-"+fld, f.Where(w.Pos()), "%s changes %s.%s between validation and UpdateEdge", an.Text(w), obj.Name(), fld)
								}
							}
						}
					}
				}
			}
			if len(val) == 1 {
				c := val[0].Node.(*ast.CallExpr)
				o.Site("ValidateChannelUpdateAnn(%s, %s, %s)", an.Text(c.Args[0]), an.Text(c.Args[1]), an.Text(c.Args[2]))
				if an.Text(c.Args[0]) != "pubKey" || an.Text(c.Args[1]) != "chanInfo.Capacity" || an.Text(c.Args[2]) != "upd" {
					o.FailAt(f.ID+"#validate-args", val[0].Where(), "ValidateChannelUpdateAnn(%s, %s, %s)", an.Text(c.Args[0]), an.Text(c.Args[1]), an.Text(c.Args[2]))
				}
			}
			for _, s := range f.Calls(an.CalleeNamed("IsStaleEdgePolicy"), false) {
				c := s.Node.(*ast.CallExpr)
				if an.Text(c.Args[0]) != "graphScid" || an.Text(c.Args[1]) != "timestamp" || an.Text(c.Args[2]) != "upd.ChannelFlags" {
					o.FailAt(f.ID+"#stale-args", s.Where(), "IsStaleEdgePolicy(%s, %s, %s)", an.Text(c.Args[0]), an.Text(c.Args[1]), an.Text(c.Args[2]))
				}
			}
			// every writer of a channel policy in discovery/graph validates the
			// whole update (fields and signature), not the signature alone
			nW := 0
			for _, fn := range p.Funcs(false, "discovery", "graph") {
				if fn.Lit != nil || fn.ID == "graph.Builder.UpdateEdge" {
					continue
				}
				ws := fn.Calls(func(id string, c *ast.CallExpr) bool {
					return strings.HasSuffix(id, ".UpdateEdge") && !strings.Contains(id, "graph/db")
				}, true)
				if len(ws) == 0 {
					continue
				}
				nW += len(ws)
				vs := fn.Calls(an.CalleeIs("netann.ValidateChannelUpdateAnn"), false)
				o.Site("%s writes a policy at %d sites, %d full validations", fn.ID, len(ws), len(vs))
				mustPass(o, fn, "ValidateChannelUpdateAnn", vs, an.OkErrNil, ws)
				for _, v := range vs {
					a := fn.ArgCanon(v)
					o.Site("%s ValidateChannelUpdateAnn(%s, %s, %s)", fn.ID, a[0], a[1], a[2])
					if !strings.HasSuffix(a[1], ".Capacity") {
						o.FailAt(fn.ID+"#validate-capacity", v.Where(), "the update is validated against capacity %s, expected the stored channel's Capacity", a[1])
					}
				}
			}
			if nW < 3 {
				o.FailAt("UpdateEdge#writers", "", "expected at least 3 policy writers (gossip, onion failure, own update), found %d", nW)
			}
			// zombie resurrection: the key kept for a direction is that
			// node's key, and the key checked is the one of the update's direction
			mz := p.Func("graph/db.makeZombiePubkeys")
			for _, s := range mz.Returns() {
				rs := s.Node.(*ast.ReturnStmt)
				a, b := mz.Canon(rs.Results[0]), mz.Canon(rs.Results[1])
				o.Site("makeZombiePubkeys returns (%s, %s)", a, b)
				if a != "$p0" && !strings.HasSuffix(a, "{}") {
					o.FailAt(mz.ID+"#slot-1", s.Where(), "slot 1 of the zombie index receives %s, expected node 1's key or a blank key", a)
				}
				if b != "$p1" && !strings.HasSuffix(b, "{}") {
					o.FailAt(mz.ID+"#slot-2", s.Where(), "slot 2 of the zombie index receives %s, expected node 2's key or a blank key", b)
				}
			}
			pz := p.Func(gs + "processZombieUpdate")
			notReassigned(o, pz, "chanInfo", "scid", "msg")
			zKey := c20KeyByDirection(o, pz, "chanInfo", func(node1 bool) an.Fact {
				return an.Truth(an.LocalNamed("isNode1"), node1, "")
			})
			c20SingleDef(o, pz, "isNode1", "(($p3.ChannelFlags & lnwire.ChanUpdateDirection) == 0)")
			ml := pz.Calls(an.CalleeNamed("MarkEdgeLive"), false)
			if needExactly(o, pz, "MarkEdgeLive", ml, 1) {
				// the whole update is validated (fields and signature, as for a
				// known channel), not the signature alone: the validator is the
				// one handleChanUpdate uses, and a direct signature check does
				// not stand in for it
				zv := pz.Calls(an.CalleeIs("netann.ValidateChannelUpdateAnn"), false)
				mustPass(o, pz, "ValidateChannelUpdateAnn", zv, an.OkErrNil, ml)
				// what is validated is the update itself, under the key selected
				// above; a zombie's capacity is unknown, so none is asserted
				for _, v := range zv {
					a := pz.ArgCanon(v)
					o.Site("processZombieUpdate: ValidateChannelUpdateAnn(%s, %s, %s)", an.Text(callArg(v, 0)), a[1], a[2])
					if a[2] != "$p3" || zKey == nil || c19VarObj(pz, callArg(v, 0)) != zKey {
						o.FailAt(pz.ID+"#verified-under", v.Where(), "the zombie update is validated as (%s, …, %s), expected the update under the key selected by its direction", an.Text(callArg(v, 0)), an.Text(callArg(v, 2)))
					}
					if a[1] != "0" {
						o.FailAt(pz.ID+"#validated-capacity", v.Where(), "the zombie update is validated against capacity %s; the zombie index keeps no capacity, expected 0 (no capacity bound)", a[1])
					}
				}
				c20ValidatorChain(o, p, "netann.ValidateChannelUpdateAnn", "netann.ValidateChannelUpdateFields", "netann.VerifyChannelUpdateSignature", []string{"$p1", "$p2"}, []string{"$p2", "$p0"})
				if a := pz.ArgCanon(ml[0]); len(a) != 2 || a[1] != "$p2" {
					o.FailAt(pz.ID+"#revived-channel", ml[0].Where(), "MarkEdgeLive%v: expected the channel the update was looked up under", a)
				}
			}
			// key by direction, in every function that selects a key by the direction bit
			for fn, ch := range map[string]string{gs + "handleChanUpdate": "chanInfo", "graph.Builder.ApplyChannelUpdate": "ch"} {
				g := p.Func(fn)
				key := c20KeyByDirection(o, g, ch, func(node1 bool) an.Fact {
					dir := int64(1)
					if node1 {
						dir = 0
					}
					return an.Cmp(dirTerm, an.EQ, an.IntConst(dir), "")
				})
				// the key selected is the key the update is validated under
				for _, v := range g.Calls(an.CalleeIs("netann.ValidateChannelUpdateAnn"), false) {
					if key == nil || c19VarObj(g, callArg(v, 0)) != key {
						o.FailAt(g.ID+"#validated-under", v.Where(), "the update is validated under %s, expected the key selected by its direction", an.Text(callArg(v, 0)))
					}
				}
				if gc := g.Calls(an.CalleeNamed("GetChannelByID"), false); fn != gs+"handleChanUpdate" && needExactly(o, g, "GetChannelByID", gc, 1) {
					c20ResultOf(o, g, ch, gc[0], 0)
					notReassigned(o, g, "msg")
				}
			}
			// builder: strictly newer, same direction
			b := p.Func("graph.Builder.updateEdge")
			wr := b.Calls(an.CalleeNamed("UpdateEdgePolicy"), false)
			has := b.Calls(an.CalleeNamed("HasV1ChannelEdge"), false)
			if needExactly(o, b, "UpdateEdgePolicy", wr, 1) && needExactly(o, b, "HasV1ChannelEdge", has, 1) {
				guarded(o, b, wr[0], an.Truth(an.LocalNamed("exists"), true, "exists"))
				for dir, ts := range map[int64]string{0: "edge1Timestamp", 1: "edge2Timestamp"} {
					// below case dir, the write needs edgeNTimestamp.Before(policy.LastUpdate)
					fact := an.AnyOf("other direction, or stored timestamp before the new one",
						an.Cmp(dirTerm, an.NE, an.IntConst(dir), ""),
						an.Cmp(dirTerm, an.EQ, an.IntConst(1-dir), ""),
						an.Truth(an.CallNamed("Before", an.LocalNamed(ts), an.FieldPath(an.Param(1), "LastUpdate")), true, ""))
					guarded(o, b, wr[0], fact)
				}
				// result order
				for i, name := range []string{"edge1Timestamp", "edge2Timestamp", "exists", "isZombie"} {
					c20ResultOf(o, b, name, has[0], i)
				}
				notReassigned(o, b, "policy")
			}
			st := p.Func("graph.Builder.IsStaleEdgePolicy")
			notReassigned(o, st, "chanID", "timestamp", "flags")
			if sh := st.Calls(an.CalleeNamed("HasV1ChannelEdge"), false); needExactly(o, st, "HasV1ChannelEdge", sh, 1) {
				for i, name := range []string{"edge1Timestamp", "edge2Timestamp", "exists", "isZombie"} {
					c20ResultOf(o, st, name, sh[0], i)
				}
				if a := st.ArgCanon(sh[0]); a[len(a)-1] != "$p0.ToUint64()" {
					o.FailAt(st.ID+"#channel", sh[0].Where(), "the stored timestamps are read for %s, expected the channel asked about", a[len(a)-1])
				}
			}
			// for a known, live channel the verdict is the direction's comparison:
			// "not stale" without it only on a lookup error, for an unknown
			// channel, or when no direction case applies
			for _, s := range st.Returns() {
				if an.Text(s.Node.(*ast.ReturnStmt).Results[0]) != "false" {
					continue
				}
				guarded(o, st, s, an.AnyOf("lookup failed, channel unknown, or neither direction",
					an.IsNil(an.LocalNamed("err"), false, ""),
					an.Truth(an.LocalNamed("exists"), false, ""),
					an.Cmp(dirTerm, an.NE, an.IntConst(1), "")))
			}
			nDir := 0
			defer func() {
				if nDir != 2 {
					o.FailAt(st.ID+"#direction-cases", st.Where(st.Body.Pos()), "IsStaleEdgePolicy decides %d direction cases on the direction bit of the flags, expected 2", nDir)
				}
			}()
			for _, s := range st.Returns() {
				c := an.Text(s.Node.(*ast.ReturnStmt).Results[0])
				for dir, ts := range map[int64]string{0: "edge1Timestamp", 1: "edge2Timestamp"} {
					if ok, _ := st.Guarded(s, an.Cmp(dirTerm, an.EQ, an.IntConst(dir), "")); ok {
						nDir++
						o.Site("IsStaleEdgePolicy direction %d -> %s", dir, c)
						if c != "!"+ts+".Before(timestamp)" {
							o.FailAt(st.ID+"#direction-timestamp", s.Where(), "direction %d is stale iff %s, expected !%s.Before(timestamp)", dir, c, ts)
						}
					}
				}
			}
			// stores: (node1, node2) order
			kv := p.Func("graph/db.KVStore.HasV1ChannelEdge")
			n := 0
			for _, lf := range kv.Lits {
				for _, res := range []struct{ name, src string }{{"upd1Time", "e1"}, {"upd2Time", "e2"}} {
					for _, s := range lf.Assigns(an.TextIs(res.name), false) {
						n++
						c := an.Text(s.Node.(*ast.AssignStmt).Rhs[0])
						o.Site("KVStore: %s = %s", res.name, c)
						if c != res.src+".LastUpdate" {
							o.FailAt(kv.ID+"#"+res.name, s.Where(), "%s is taken from %s, expected %s.LastUpdate", res.name, c, res.src)
						}
						guarded(o, lf, s, an.IsNil(an.LocalNamed(res.src), false, res.src+" != nil"))
					}
				}
				for _, s := range lf.Calls(an.CalleeNamed("fetchChanEdgePolicies"), false) {
					_ = s
				}
			}
			if n != 2 {
				o.FailAt(kv.ID+"#timestamps", kv.Where(kv.Body.Pos()), "expected the two direction timestamps to be read from the policies, found %d assignments", n)
			}
			for _, s := range kv.Returns() {
				rs := s.Node.(*ast.ReturnStmt)
				if len(rs.Results) == 5 && an.IsNilIdent(kv.Info(), rs.Results[4]) {
					if an.Text(rs.Results[0]) != "upd1Time" || an.Text(rs.Results[1]) != "upd2Time" {
						o.FailAt(kv.ID+"#result-order", s.Where(), "HasV1ChannelEdge returns (%s, %s)", an.Text(rs.Results[0]), an.Text(rs.Results[1]))
					}
				}
			}
			sq := p.Func("graph/db.SQLStore.HasV1ChannelEdge")
			m := 0
			for _, lf := range sq.Lits {
				for _, res := range []struct{ name, pol, node string }{{"node1LastUpdate", "policy1", "NodeID1"}, {"node2LastUpdate", "policy2", "NodeID2"}} {
					for _, s := range lf.Assigns(an.TextIs(res.name), false) {
						m++
						c := an.Text(s.Node.(*ast.AssignStmt).Rhs[0])
						o.Site("SQLStore: %s = %s", res.name, c)
						if !strings.Contains(c, res.pol+".LastUpdate") {
							o.FailAt(sq.ID+"#"+res.name, s.Where(), "%s is taken from %s", res.name, c)
						}
					}
					for _, s := range lf.Assigns(an.LocalNamed(res.pol), false) {
						if got := kvText(s.Node, "NodeID"); got != "channel."+res.node {
							o.FailAt(sq.ID+"#"+res.pol, s.Where(), "%s is fetched for %s", res.pol, got)
						}
					}
				}
			}
			if m != 2 {
				o.FailAt(sq.ID+"#timestamps", sq.Where(sq.Body.Pos()), "expected two direction timestamp reads in the SQL store, found %d", m)
			}
			// every way a direction's timestamp gets its value, cache hits
			// included; what is cached and what is returned keep the order
			c19DefinedAs(o, kv, "upd1Time", "zero", "= time.Unix(entry.upd1Time, 0)", "= e1.LastUpdate")
			c19DefinedAs(o, kv, "upd2Time", "zero", "= time.Unix(entry.upd2Time, 0)", "= e2.LastUpdate")
			c19DefinedAs(o, sq, "node1LastUpdate", "zero", "= time.Unix(entry.upd1Time, 0)", "= time.Unix(policy1.LastUpdate.Int64, 0)")
			c19DefinedAs(o, sq, "node2LastUpdate", "zero", "= time.Unix(entry.upd2Time, 0)", "= time.Unix(policy2.LastUpdate.Int64, 0)")
			for _, lf := range kv.Lits {
				if fc := lf.Calls(an.CalleeNamed("fetchChanEdgePolicies"), false); len(fc) == 1 && lf.Parent == kv {
					c20ResultOf(o, lf, "e1", fc[0], 0)
					c20ResultOf(o, lf, "e2", fc[0], 1)
				}
			}
			for _, cl := range p.CompositeLitsOf(p.LookupTypeAny("graph/db", "rejectCacheEntry")) {
				if cl.Fn == nil {
					continue
				}
				want := map[string][2]string{
					kv.ID:                            {"upd1Time.Unix()", "upd2Time.Unix()"},
					"graph/db.newRejectCacheEntryV1": {"upd1.Unix()", "upd2.Unix()"},
				}[cl.Fn.Root().ID]
				if want[0] == "" {
					continue
				}
				o.Site("%s caches (%s, %s)", cl.Fn.Root().ID, kvText(cl.Node, "upd1Time"), kvText(cl.Node, "upd2Time"))
				if kvText(cl.Node, "upd1Time") != want[0] || kvText(cl.Node, "upd2Time") != want[1] {
					o.FailAt(cl.Fn.Root().ID+"#cached-order", cl.Where, "%s caches the direction timestamps as (%s, %s), expected (%s, %s)", cl.Fn.Root().ID, kvText(cl.Node, "upd1Time"), kvText(cl.Node, "upd2Time"), want[0], want[1])
				}
			}
			if nc := p.Func("graph/db.newRejectCacheEntryV1"); nc != nil {
				notReassigned(o, nc, "upd1", "upd2")
			}
			nIns := 0
			for _, s := range sq.Calls(an.CalleeNamed("newRejectCacheEntryV1"), false) {
				nIns++
				c := s.Node.(*ast.CallExpr)
				if an.Text(c.Args[0]) != "node1LastUpdate" || an.Text(c.Args[1]) != "node2LastUpdate" {
					o.FailAt(sq.ID+"#cached-order", s.Where(), "the SQL store caches the direction timestamps as (%s, %s)", an.Text(c.Args[0]), an.Text(c.Args[1]))
				}
			}
			if nIns != 1 {
				o.FailAt(sq.ID+"#cache-insert", sq.Where(sq.Body.Pos()), "expected one reject-cache entry built in the SQL store's HasV1ChannelEdge, found %d", nIns)
			}
			for _, s := range sq.Returns() {
				rs := s.Node.(*ast.ReturnStmt)
				if len(rs.Results) == 5 && an.IsNilIdent(sq.Info(), rs.Results[4]) {
					o.Site("SQLStore returns (%s, %s)", an.Text(rs.Results[0]), an.Text(rs.Results[1]))
					if an.Text(rs.Results[0]) != "node1LastUpdate" || an.Text(rs.Results[1]) != "node2LastUpdate" {
						o.FailAt(sq.ID+"#result-order", s.Where(), "HasV1ChannelEdge returns (%s, %s)", an.Text(rs.Results[0]), an.Text(rs.Results[1]))
					}
				}
			}
			// zombie index: at every call site node 1's key goes into (and comes
			// out of) slot 1, node 2's key slot 2, and the slots reach the index
			// in that order
			nSites := 0
			for _, fn := range p.Funcs(false, "graph/db") {
				for _, s := range fn.Calls(an.CalleeIs("graph/db.makeZombiePubkeys"), false) {
					nSites++
					a := fn.ArgCanon(s)
					o.Site("%s: makeZombiePubkeys(%s, %s, …)", fn.ID, a[0], a[1])
					base := strings.TrimSuffix(a[0], ".NodeKey1Bytes")
					if base == a[0] || a[1] != base+".NodeKey2Bytes" {
						o.FailAt(fn.ID+"#zombie-key-args", s.Where(), "makeZombiePubkeys is given (%s, %s), expected the channel's NodeKey1Bytes and NodeKey2Bytes in that order", a[0], a[1])
					}
					var slots [2]types.Object
					ast.Inspect(fn.Body, func(n ast.Node) bool {
						if as, ok := n.(*ast.AssignStmt); ok && len(as.Rhs) == 1 && ast.Unparen(as.Rhs[0]) == s.Node && len(as.Lhs) == 2 {
							slots[0], slots[1] = c19VarObj(fn, as.Lhs[0]), c19VarObj(fn, as.Lhs[1])
						}
						return true
					})
					if slots[0] == nil || slots[1] == nil || slots[0] == slots[1] {
						o.FailAt(fn.ID+"#zombie-key-results", s.Where(), "the two keys returned by makeZombiePubkeys are not bound to two variables")
						continue
					}
					// the variables hold that slot's key on every other path, too
					for i, suffix := range []string{".NodeKey1Bytes", ".NodeKey2Bytes"} {
						_, defs := c19LocalDefs(fn, slots[i].Name())
						for _, d := range defs {
							if d.Obj != slots[i] || d.Tok == "zero" {
								continue
							}
							as, _ := d.Node.(*ast.AssignStmt)
							switch {
							case as != nil && len(as.Rhs) == 1 && ast.Unparen(as.Rhs[0]) == s.Node && i < len(as.Lhs) && c19VarObj(fn, as.Lhs[i]) == slots[i]:
							case d.Rhs != nil && fn.Canon(d.Rhs) == base+suffix:
							default:
								o.FailAt(fn.ID+"#zombie-key-slot", fn.Where(d.Node.Pos()), "%s gives zombie key slot %d the value %s", an.Text(d.Node), i+1, slots[i].Name())
							}
						}
					}
					// the sink
					nSink := 0
					for _, z := range fn.Calls(an.CalleeNamed("markEdgeZombie"), false) {
						nSink++
						c := z.Node.(*ast.CallExpr)
						if len(c.Args) != 4 || c19VarObj(fn, c.Args[2]) != slots[0] || c19VarObj(fn, c.Args[3]) != slots[1] {
							o.FailAt(fn.ID+"#zombie-index-order", z.Where(), "the zombie index entry is written as %s", an.Text(c))
						}
					}
					ast.Inspect(fn.Body, func(n ast.Node) bool {
						cl, ok := n.(*ast.CompositeLit)
						if !ok || !strings.HasSuffix(an.TypeID(fn.Info().TypeOf(cl)), "UpsertZombieChannelParams") {
							return true
						}
						nSink++
						k1, k2 := c20KvValue(cl, "NodeKey1"), c20KvValue(cl, "NodeKey2")
						s1, _ := k1.(*ast.SliceExpr)
						s2, _ := k2.(*ast.SliceExpr)
						if s1 == nil || s2 == nil || c19VarObj(fn, s1.X) != slots[0] || c19VarObj(fn, s2.X) != slots[1] {
							o.FailAt(fn.ID+"#zombie-index-order", fn.Where(cl.Pos()), "the zombie index entry is written with NodeKey1: %s, NodeKey2: %s", an.Text(k1), an.Text(k2))
						}
						return true
					})
					if nSink != 1 {
						o.FailAt(fn.ID+"#zombie-index-write", s.Where(), "expected one zombie index write fed by makeZombiePubkeys in %s, found %d", fn.ID, nSink)
					}
				}
			}
			if nSites < 2 {
				o.FailAt("graph/db.makeZombiePubkeys#call-sites", "", "expected the KV and the SQL store to call makeZombiePubkeys, found %d call sites", nSites)
			}
		})

	r.Obl("node-announcement-admission", "GUARD",
		"handleNodeAnnouncement calls addNode (with the announcement it was handed, unmodified) only below a non-zero timestamp and !IsStaleNode(nodeID, time.Unix(nodeAnn.Timestamp, 0)), and hands on for relay nil or the announcement list, which is extended only by this announcement, only after addNode succeeded and only if IsPublicNode(nodeAnn.NodeID) answered true; the gossiper's addNode stores the node only after netann.ValidateNodeAnn of that message succeeded; Builder.addNode stores the node it was handed, unmodified, only after assertNodeAnnFreshness succeeded, which requires the node to exist in the graph and its stored timestamp (HasV1Node results in order) to be before the new one; the exported Builder.AddNode succeeds only through addNode and nothing else in graph stores a node",
		"a node announcement accepted unsigned, for an unknown node or as a replay lets anyone rewrite a node's addresses and features", 8,
		func(o *an.Obl) {
			f := p.Func(gs + "handleNodeAnnouncement")
			an1 := f.Calls(an.CalleeIs(gs+"addNode"), false)
			if needExactly(o, f, "addNode", an1, 1) {
				guarded(o, f, an1[0], an.Truth(an.CallNamed("IsStaleNode", nil), false, "!IsStaleNode(...)"))
				guarded(o, f, an1[0], an.Cmp(an.FieldPath(an.Param(2), "Timestamp"), an.NE, an.IntConst(0), "nodeAnn.Timestamp != 0"))
				for _, s := range f.Calls(an.CalleeNamed("IsStaleNode"), false) {
					c := s.Node.(*ast.CallExpr)
					if an.Text(c.Args[1]) != "nodeAnn.NodeID" || an.Text(c.Args[2]) != "timestamp" {
						o.FailAt(f.ID+"#stale-args", s.Where(), "IsStaleNode(%s, %s)", an.Text(c.Args[1]), an.Text(c.Args[2]))
					}
				}
				for _, v := range f.Graph().V {
					as, ok := v.Node.(*ast.AssignStmt)
					if !ok || an.Text(as.Lhs[0]) != "announcements" || !isAppend(f, as.Rhs[0]) {
						continue
					}
					s := an.Site{Fn: f, V: v, Node: as}
					mustPass(o, f, "addNode", an1, an.OkErrNil, []an.Site{s})
					guarded(o, f, s, an.Truth(an.LocalNamed("isPublic"), true, "isPublic"))
				}
				// what is handed on is that list only (nil on every other exit)
				if relays := c20RelayReturns(o, f, "$p2"); len(relays) > 0 {
					mustPass(o, f, "addNode", an1, an.OkErrNil, relays)
				}
				// the announcement that is stored is the one that was tested, the
				// timestamp tested is the announced one, and "public" is the graph's answer
				notReassigned(o, f, "nMsg", "nodeAnn")
				if ps := f.Params(false); len(ps) > 2 {
					for fld, ws := range c19FieldWrites(f, ps[2]) {
						o.FailAt(f.ID+"#announcement-rewritten-"+fld, f.Where(ws[0].Pos()), "%s rewrites the announcement being processed", an.Text(ws[0]))
					}
				}
				if a := f.ArgCanon(an1[0]); len(a) < 2 || a[1] != "$p2" {
					o.FailAt(f.ID+"#added-node", an1[0].Where(), "addNode is given %v, expected the announcement being processed", a)
				}
				c20SingleDef(o, f, "timestamp", "time.Unix(int64($p2.Timestamp), 0)")
				if ip := f.Calls(an.CalleeNamed("IsPublicNode"), false); needExactly(o, f, "IsPublicNode", ip, 1) {
					c20ResultOf(o, f, "isPublic", ip[0], 0)
					if a := f.ArgCanon(ip[0]); a[0] != "$p2.NodeID" {
						o.FailAt(f.ID+"#public-node", ip[0].Where(), "IsPublicNode is asked about %s, expected the announcing node", a[0])
					}
				}
			}
			g := p.Func(gs + "addNode")
			ga := g.Calls(an.CalleeNamed("AddNode"), false)
			if needExactly(o, g, "Graph.AddNode", ga, 1) {
				mustPass(o, g, "netann.ValidateNodeAnn", g.Calls(an.CalleeIs("netann.ValidateNodeAnn"), false), an.OkErrNil, ga)
				if a := g.ArgCanon(ga[0]); !strings.Contains(a[1], "NodeFromWireAnnouncement($p1)") {
					o.FailAt(g.ID+"#stored-node", ga[0].Where(), "the node stored is %s", a[1])
				}
				notReassigned(o, g, "msg")
				for _, v := range g.Calls(an.CalleeIs("netann.ValidateNodeAnn"), false) {
					if a := g.ArgCanon(v); a[0] != "$p1" {
						o.FailAt(g.ID+"#validated-node", v.Where(), "ValidateNodeAnn is given %s, expected the announcement that is stored", a[0])
					}
				}
			}
			// who else calls Graph.AddNode in discovery
			var callers []string
			for _, h := range p.Funcs(false, "discovery") {
				for range h.Calls(an.CalleeNamed("AddNode"), true) {
					callers = append(callers, h.Root().ID)
				}
			}
			sort.Strings(callers)
			o.Site("AddNode callers in discovery: %v", callers)
			for _, c := range callers {
				if c != gs+"addNode" {
					o.FailAt(c+"#adds-node", "", "%s adds a node to the graph without the gossiper's validation", c)
				}
			}
			b := p.Func("graph.Builder.addNode")
			ba := b.Calls(an.CalleeNamed("AddNode"), false)
			if needExactly(o, b, "Graph.AddNode", ba, 1) {
				mustPass(o, b, "assertNodeAnnFreshness", b.Calls(an.CalleeIs("graph.Builder.assertNodeAnnFreshness"), false), an.OkErrNil, ba)
				for _, s := range b.Calls(an.CalleeIs("graph.Builder.assertNodeAnnFreshness"), false) {
					a := b.ArgCanon(s)
					o.Site("addNode freshness(%s, %s)", a[1], a[2])
					if a[1] != "$p1.PubKeyBytes" || a[2] != "$p1.LastUpdate" {
						o.FailAt(b.ID+"#freshness-args", s.Where(), "freshness is asserted for (%s, %s), expected the announced node's key and timestamp", a[1], a[2])
					}
				}
			}
			// the announced timestamp is the one compared: nothing rewrites the node on the way
			notReassigned(o, b, "node")
			if ps := b.Params(false); len(ps) > 1 {
				for fld, ws := range c19FieldWrites(b, ps[1]) {
					o.FailAt(b.ID+"#node-rewritten-"+fld, b.Where(ws[0].Pos()), "%s rewrites the announced node before it is stored", an.Text(ws[0]))
				}
			}
			for _, s := range ba {
				if a := b.ArgCanon(s); len(a) < 2 || a[1] != "$p1" {
					o.FailAt(b.ID+"#stored-node", s.Where(), "Graph.AddNode is given %v, expected the node whose freshness was asserted", a)
				}
			}
			// the exported entry point goes through addNode; nothing else in the
			// package writes a node
			ex := p.Func("graph.Builder.AddNode")
			via := ex.Calls(an.CalleeIs("graph.Builder.addNode"), false)
			if needExactly(o, ex, "addNode", via, 1) {
				if a := ex.ArgCanon(via[0]); len(a) < 2 || a[0] != "$p0" || a[1] != "$p1" {
					o.FailAt(ex.ID+"#forwarded-node", via[0].Where(), "Builder.AddNode forwards %v to addNode", a)
				}
				mustPass(o, ex, "addNode", via, an.OkErrNil, ex.StrictSuccessReturns())
			}
			var writers []string
			for _, h := range p.Funcs(false, "graph") {
				for _, s := range h.Calls(an.CalleeNamed("AddNode"), true) {
					if an.CalleeID(h.Info(), s.Node.(*ast.CallExpr)) == "graph.Builder.AddNode" {
						continue
					}
					writers = append(writers, h.Root().ID)
				}
			}
			sort.Strings(writers)
			o.Site("Graph.AddNode callers in graph: %v", writers)
			for _, c := range writers {
				if c != "graph.Builder.addNode" {
					o.FailAt(c+"#adds-node", "", "%s stores a node without the freshness assertion of Builder.addNode", c)
				}
			}
			fr := p.Func("graph.Builder.assertNodeAnnFreshness")
			notReassigned(o, fr, "node", "msgTimestamp")
			if hn := fr.Calls(an.CalleeNamed("HasV1Node"), false); needExactly(o, fr, "HasV1Node", hn, 1) {
				c20ResultOf(o, fr, "lastUpdate", hn[0], 0)
				c20ResultOf(o, fr, "exists", hn[0], 1)
				if a := fr.ArgCanon(hn[0]); a[len(a)-1] != "$p1" {
					o.FailAt(fr.ID+"#node", hn[0].Where(), "the stored timestamp is read for %s, expected the announcing node", a[len(a)-1])
				}
			}
			for _, s := range fr.StrictSuccessReturns() {
				guarded(o, fr, s, an.Truth(an.LocalNamed("exists"), true, "exists"))
				guarded(o, fr, s, an.Truth(an.CallNamed("Before", an.LocalNamed("lastUpdate"), an.Param(2)), true, "lastUpdate.Before(msgTimestamp)"))
				mustPass(o, fr, "HasV1Node", fr.Calls(an.CalleeNamed("HasV1Node"), false), an.OkErrNil, []an.Site{s})
			}
		})
}
