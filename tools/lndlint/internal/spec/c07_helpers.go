package spec

import (
	"go/ast"
	"go/types"
	"regexp"
	"sort"
	"strings"

	"lndlint/internal/an"
)

// c07CriticalSection: the body of FailCircuit / CloseCircuit between taking
// the lock and the insertion into `closed`.
//
//	circuit, ok := cm.<pending|opened>[<key parameter>]   -> must answer true
//	_, ok = cm.closed[K]                                    -> must answer false
//	cm.closed[K] = struct{}{}
//
// K is the key parameter (FailCircuit) or the Incoming key of the circuit the
// first lookup returned (CloseCircuit); the two `ok` tests see the unmodified
// lookup results; the lock is taken once and released by defer only, function
// literals included; nothing removes from `closed`.
func c07CriticalSection(o *an.Obl, f *an.Func, name string, ins an.Site) {
	info := f.Info()
	g := f.Graph()
	// lock taken once, released only by defer
	locks := f.Calls(an.CalleeNamed("Lock", "RLock"), true)
	if len(locks) != 1 {
		o.FailAt(f.ID+"#lock-count", f.Where(f.Body.Pos()), "%s takes the circuit map lock %d times, expected once: re-locking splits the critical section", name, len(locks))
	}
	for _, s := range f.Calls(an.CalleeNamed("Unlock", "RUnlock"), true) {
		inLit := false
		for _, lf := range f.Lits {
			if lf.Lit.Pos() <= s.Node.Pos() && s.Node.End() <= lf.Lit.End() {
				inLit = true
			}
		}
		o.Site("%s: unlock %s (vertex kind %s, in literal %v)", name, s.String(), s.V.Kind.String(), inLit)
		released := !inLit && c07IsDeferredCall(f, s.Node.(*ast.CallExpr)) || inLit && c07LitIsDeferred(f, s.Node)
		if !released {
			o.FailAt(f.ID+"#explicit-unlock", s.Where(), "the critical section is split by an explicit unlock: %s", s.String())
		}
	}
	// nothing but the insertion writes `closed`
	for _, fn := range append([]*an.Func{f}, f.Lits...) {
		for _, s := range fn.Calls(an.CalleeIs("builtin.delete"), false) {
			if a := fn.ArgCanon(s); strings.HasSuffix(a[0], ".closed") {
				o.FailAt(f.ID+"#closed-delete", s.Where(), "%s removes an entry from `closed` (%s): the mark that makes the second response lose is gone again", name, s.String())
			}
		}
		for _, s := range fn.Assigns(an.Field(hs+"circuitMap", "closed", nil), false) {
			o.FailAt(f.ID+"#closed-replaced", s.Where(), "%s replaces the `closed` set: %s", name, s.String())
		}
	}
	// the two lookups
	type lookup struct {
		site   an.Site
		m, key string
		first  types.Object // the value bound to result 0 (nil for `_`)
		ok     types.Object
		keyX   ast.Expr
	}
	objOf := func(e ast.Expr) types.Object {
		id, isId := ast.Unparen(e).(*ast.Ident)
		if !isId || id.Name == "_" {
			return nil
		}
		if d := info.Defs[id]; d != nil {
			return d
		}
		return info.Uses[id]
	}
	var lookups []lookup
	for _, v := range g.V {
		as, isAs := v.Node.(*ast.AssignStmt)
		if !isAs || len(as.Lhs) != 2 || len(as.Rhs) != 1 {
			continue
		}
		ix, isIx := ast.Unparen(as.Rhs[0]).(*ast.IndexExpr)
		if !isIx {
			continue
		}
		l := lookup{site: an.Site{Fn: f, V: v, Node: as}, m: f.Canon(ix.X), key: f.Canon(ix.Index), first: objOf(as.Lhs[0]), ok: objOf(as.Lhs[1]), keyX: ix.Index}
		o.Site("%s: lookup %s  (map %s, key %s)", name, an.Text(as), l.m, l.key)
		lookups = append(lookups, l)
	}
	sort.Slice(lookups, func(i, j int) bool { return lookups[i].site.Node.Pos() < lookups[j].site.Node.Pos() })
	if len(lookups) != 2 {
		o.FailAt(f.ID+"#lookups", f.Where(f.Body.Pos()), "expected the two map lookups (circuit found, already closing), found %d", len(lookups))
		return
	}
	find, closing := lookups[0], lookups[1]
	wantMap := map[string]string{"FailCircuit": "$recv.pending", "CloseCircuit": "$recv.opened"}[name]
	if find.m != wantMap || find.key != "$p0" {
		o.FailAt(f.ID+"#find-lookup", find.site.Where(), "%s looks its circuit up in %s[%s], expected %s[$p0] (its key parameter)", name, find.m, find.key, wantMap)
	}
	c04OperandsNotOverwritten(o, f, find.keyX, "circuit key")
	// the key of the closing test is the key of the insertion
	insIx, _ := ast.Unparen(ins.Node.(*ast.AssignStmt).Lhs[0]).(*ast.IndexExpr)
	if insIx == nil {
		o.FailAt(f.ID+"#insert-shape", ins.Where(), "unexpected form of the insertion: %s", ins.String())
		return
	}
	insKey := f.Canon(insIx.Index)
	if closing.m != "$recv.closed" || closing.key != insKey {
		o.FailAt(f.ID+"#closing-lookup-key", closing.site.Where(), "%s tests %s[%s] but then marks closed[%s]: the test and the set must use one key", name, closing.m, closing.key, insKey)
	}
	// ... and that key is the incoming key of this circuit
	keyOK := false
	switch name {
	case "FailCircuit":
		keyOK = insKey == "$p0"
	case "CloseCircuit":
		if sel, isSel := ast.Unparen(insIx.Index).(*ast.SelectorExpr); isSel && sel.Sel.Name == "Incoming" {
			keyOK = find.first != nil && objOf(sel.X) == find.first
		}
		if sel, isSel := ast.Unparen(closing.keyX).(*ast.SelectorExpr); !isSel || sel.Sel.Name != "Incoming" || find.first == nil || objOf(sel.X) != find.first {
			keyOK = false
		}
	}
	if !keyOK {
		o.FailAt(f.ID+"#closed-key", ins.Where(), "%s marks closed[%s]; expected the incoming key of the circuit it found (FailCircuit: its parameter, CloseCircuit: <found circuit>.Incoming)", name, an.Text(insIx.Index))
	}
	if find.first != nil {
		for _, st := range c04Overwrites(f, find.first) {
			o.FailAt(f.ID+"#circuit-overwritten", f.Where(st.Pos()), "%s overwrites the circuit it found: %s", name, an.Text(st))
		}
	}
	// the `ok` results are tested as the lookups returned them
	if find.ok == nil || closing.ok == nil {
		o.FailAt(f.ID+"#ok-unbound", f.Where(f.Body.Pos()), "a lookup result of %s is discarded", name)
		return
	}
	allowed := map[ast.Node]bool{find.site.Node: true, closing.site.Node: true}
	for _, obj := range []types.Object{find.ok, closing.ok} {
		for _, st := range c04Overwrites(f, obj) {
			if !allowed[st] {
				o.FailAt(f.ID+"#ok-overwritten", f.Where(st.Pos()), "%s changes a lookup result before testing it: %s", name, an.Text(st))
			}
		}
	}
	// conditions on those objects, in flow order
	var condV []*an.FlowVertex
	for _, v := range g.V {
		if v.Kind.String() != "cond" {
			continue
		}
		if id, isId := v.Node.(*ast.Ident); isId && (info.Uses[id] == find.ok || info.Uses[id] == closing.ok) {
			condV = append(condV, v)
		}
	}
	sort.Slice(condV, func(i, j int) bool { return condV[i].Node.Pos() < condV[j].Node.Pos() })
	if len(condV) != 2 {
		o.FailAt(f.ID+"#ok-tests", f.Where(f.Body.Pos()), "expected two tests of a lookup result, found %d", len(condV))
		return
	}
	// test 1 sees lookup 1 (and not lookup 2), test 2 sees lookup 2
	t1 := an.Site{Fn: f, V: condV[0], Node: condV[0].Node}
	t2 := an.Site{Fn: f, V: condV[1], Node: condV[1].Node}
	if !f.Before([]an.Site{find.site}, t1) || g.Reach(closing.site.V, nil, nil)[condV[0]] {
		o.FailAt(f.ID+"#found-test", t1.Where(), "the first test in %s does not test the result of the circuit lookup", name)
	}
	if !f.Before([]an.Site{closing.site}, t2) {
		o.FailAt(f.ID+"#closing-test", t2.Where(), "the second test in %s does not test the result of the `closed` lookup", name)
	}
	for i, need := range []struct {
		kind string
		what string
	}{{"true", "the circuit was found"}, {"false", "the circuit is not closing yet"}} {
		cut := an.FlowEdgeSet{}
		for _, e := range condV[i].Out {
			if (need.kind == "true") == (e.Kind == 1) { // flow.ETrue
				cut[e] = true
			}
		}
		o.Site("%s: lookup %d must answer %s for the insertion", name, i+1, need.kind)
		if g.Reach(g.Entry, cut, nil)[ins.V] {
			o.FailAt(f.ID+"#polarity-"+need.kind, f.Where(condV[i].Node.Pos()), "%s marks the circuit closing although not: %s", name, need.what)
		}
	}
	// the success return is the only one returning a non-nil circuit and is after the insertion
	for _, ret := range f.StrictSuccessReturns() {
		o.Site("%s returns %s", name, ret.String())
		if !f.Before([]an.Site{ins}, ret) {
			o.FailAt(f.ID+"#return-before-insert", ret.Where(), "a circuit is returned without having been marked closing")
		}
		if rs, isRet := ret.Node.(*ast.ReturnStmt); isRet && len(rs.Results) == 2 && (find.first == nil || objOf(rs.Results[0]) != find.first) {
			o.FailAt(f.ID+"#returned-circuit", ret.Where(), "%s returns %s, expected the circuit it found and marked", name, an.Text(rs.Results[0]))
		}
	}
	for _, ret := range f.Returns() {
		rs, isRet := ret.Node.(*ast.ReturnStmt)
		if !isRet || len(rs.Results) != 2 || an.IsNilIdent(info, rs.Results[0]) {
			continue
		}
		if !f.Before([]an.Site{ins}, ret) {
			o.FailAt(f.ID+"#circuit-without-mark", ret.Where(), "%s hands out a circuit on a path that did not mark it closing: %s", name, ret.String())
		}
	}
}

// c07IsDeferredCall: the call is the operand of a defer statement of f.
func c07IsDeferredCall(f *an.Func, c *ast.CallExpr) bool {
	found := false
	ast.Inspect(f.Body, func(n ast.Node) bool {
		if d, ok := n.(*ast.DeferStmt); ok && d.Call == c {
			found = true
		}
		return !found
	})
	return found
}

// c07LitIsDeferred: n lies inside a function literal that is itself the
// operand of a defer statement (`defer func() { ...; mtx.Unlock() }()`).
func c07LitIsDeferred(f *an.Func, n ast.Node) bool {
	found := false
	ast.Inspect(f.Body, func(x ast.Node) bool {
		d, ok := x.(*ast.DeferStmt)
		if !ok {
			return !found
		}
		if fl, isLit := ast.Unparen(d.Call.Fun).(*ast.FuncLit); isLit && fl.Pos() <= n.Pos() && n.End() <= fl.End() {
			// directly in that literal, and itself not conditional there: keep
			// it simple, accept only a top-level statement of the literal
			for _, st := range fl.Body.List {
				if es, isExpr := st.(*ast.ExprStmt); isExpr && es.X == n {
					found = true
				}
			}
		}
		return !found
	})
	return found
}

// c07CloseCircuitReturns: Switch.closeCircuit returns a non-nil circuit only
// as result 0 of the FailCircuit / CloseCircuit call it made, below that
// call's `err == nil`.
func c07CloseCircuitReturns(o *an.Obl, p *an.Prog) {
	cc := p.Func(hs + "Switch.closeCircuit")
	info := cc.Info()
	n := 0
	for _, ret := range cc.Returns() {
		rs, isRet := ret.Node.(*ast.ReturnStmt)
		if !isRet {
			continue
		}
		if len(rs.Results) != 2 {
			o.FailAt(cc.ID+"#return-shape", ret.Where(), "closeCircuit returns through %s; the circuit it hands out cannot be traced", ret.String())
			continue
		}
		if an.IsNilIdent(info, rs.Results[0]) {
			continue
		}
		n++
		o.Site("closeCircuit hands out %s", ret.String())
		id, isId := ast.Unparen(rs.Results[0]).(*ast.Ident)
		var call *ast.CallExpr
		idx := -1
		if isId {
			call, idx = cc.UniqueCallDef(id)
		}
		callee := ""
		if call != nil {
			callee = an.CalleeID(info, call)
		}
		if call == nil || idx != 0 || (callee != hs+"CircuitMap.FailCircuit" && callee != hs+"CircuitMap.CloseCircuit") {
			o.FailAt(cc.ID+"#circuit-source", ret.Where(), "closeCircuit hands out %s, which is not the circuit returned by FailCircuit / CloseCircuit", an.Text(rs.Results[0]))
			continue
		}
		this := func(_ *an.Func, e ast.Expr) bool { return e == ast.Expr(call) }
		guarded(o, cc, ret, an.IsNil(an.ResultOf(this, 1), true, "the closing call returned err == nil"))
		for _, st := range c04Overwrites(cc, info.Uses[id]) {
			if as, isAs := st.(*ast.AssignStmt); !isAs || len(as.Rhs) != 1 || ast.Unparen(as.Rhs[0]) != ast.Expr(call) {
				o.FailAt(cc.ID+"#circuit-overwritten", cc.Where(st.Pos()), "closeCircuit overwrites the circuit it closed: %s", an.Text(st))
			}
		}
	}
	if n != 2 {
		o.FailAt(cc.ID+"#circuit-returns", cc.Where(cc.Body.Pos()), "expected two returns that hand out a closed circuit (local failure, remote response), found %d", n)
	}
}

var (
	c07InRe  = regexp.MustCompile(`\.incoming\b|inkey`)
	c07OutRe = regexp.MustCompile(`\.outgoing\b|outkey`)
)

// c07ExplicitRole classifies a key expression by what it is made of (printed
// form and canonical form, which follows locals to their definition; case
// folded so that parameters named inKey / outKey count): the incoming side
// (.Incoming, InKey, inKey()) or the outgoing side (.Outgoing, OutKey,
// outKey()).
func c07ExplicitRole(fn *an.Func, key ast.Expr) (in, out bool) {
	s := strings.ToLower(an.Text(key) + " " + fn.Canon(key))
	return c07InRe.MatchString(s), c07OutRe.MatchString(s)
}

// c07KeyRoles is the key-role part of circuit-key-roles-and-full-trim.
func c07KeyRoles(o *an.Obl, p *an.Prog) {
	roleOf := map[string]string{"pending": "in", "closed": "in", "opened": "out"}
	n := 0
	// method name -> parameter index -> role -> where
	paramRole := map[string]map[int]map[string]string{}
	for _, f := range p.Funcs(false, "htlcswitch") {
		if f.Lit != nil {
			continue
		}
		// locals that become one of the maps (restoreMemState builds the maps
		// in locals and assigns them to the fields)
		alias := map[types.Object]string{}
		ast.Inspect(f.Body, func(nd ast.Node) bool {
			as, ok := nd.(*ast.AssignStmt)
			if !ok || len(as.Lhs) != len(as.Rhs) {
				return true
			}
			for i, l := range as.Lhs {
				sel, ok := ast.Unparen(l).(*ast.SelectorExpr)
				if !ok {
					continue
				}
				if _, isMap := roleOf[sel.Sel.Name]; !isMap || an.TypeID(f.Info().TypeOf(sel.X)) != hs+"circuitMap" {
					continue
				}
				if id, ok := ast.Unparen(as.Rhs[i]).(*ast.Ident); ok {
					if obj := f.Info().Uses[id]; obj != nil {
						alias[obj] = sel.Sel.Name
					}
				}
			}
			return true
		})
		used := map[string]map[string]string{} // key canon -> role -> where
		var visit func(fn *an.Func)
		visit = func(fn *an.Func) {
			ast.Inspect(fn.Body, func(nd ast.Node) bool {
				if fl, ok := nd.(*ast.FuncLit); ok {
					visit(fn.LitFunc(fl))
					return false
				}
				var m, key ast.Expr
				switch x := nd.(type) {
				case *ast.IndexExpr:
					m, key = x.X, x.Index
				case *ast.CallExpr:
					if id, ok := x.Fun.(*ast.Ident); ok && id.Name == "delete" && len(x.Args) == 2 {
						m, key = x.Args[0], x.Args[1]
					}
				}
				if m == nil {
					return true
				}
				mapName := ""
				switch mx := ast.Unparen(m).(type) {
				case *ast.SelectorExpr:
					if _, isMap := roleOf[mx.Sel.Name]; isMap && an.TypeID(fn.Info().TypeOf(mx.X)) == hs+"circuitMap" {
						mapName = mx.Sel.Name
					}
				case *ast.Ident:
					mapName = alias[fn.Info().Uses[mx]]
				}
				if mapName == "" {
					return true
				}
				role := roleOf[mapName]
				n++
				kc := fn.Canon(key)
				kt := an.Text(key)
				where := fn.Where(nd.Pos())
				o.Site("%s: %s[%s]", where, mapName, kt)
				if used[kc] == nil {
					used[kc] = map[string]string{}
				}
				used[kc][role] = where + " " + mapName
				explicitIn, explicitOut := c07ExplicitRole(fn, key)
				if (role == "out" && explicitIn && !explicitOut) || (role == "in" && explicitOut && !explicitIn) {
					o.FailAt(f.ID+"#key-role-"+mapName, where, "%s is indexed with %s, a key of the other side of the circuit", mapName, kt)
				}
				// a key parameter of a circuit map method takes the role of
				// the map it indexes
				if f.Decl != nil && f.Decl.Recv != nil && strings.HasPrefix(f.ID, hs+"circuitMap.") {
					if mm := regexp.MustCompile(`^(?:\$elem\()?\$p(\d+)\)?$`).FindStringSubmatch(kc); mm != nil {
						idx := 0
						for _, ch := range mm[1] {
							idx = idx*10 + int(ch-'0')
						}
						name := f.Obj.Name()
						if paramRole[name] == nil {
							paramRole[name] = map[int]map[string]string{}
						}
						if paramRole[name][idx] == nil {
							paramRole[name][idx] = map[string]string{}
						}
						paramRole[name][idx][role] = where + " " + mapName
					}
				}
				return true
			})
		}
		visit(f)
		for kc, roles := range used {
			if len(roles) == 2 {
				o.FailAt(f.ID+"#key-both-roles", roles["in"], "%s uses the same key (%s) for the incoming-keyed sets (%s) and for the outgoing-keyed map (%s)", f.ID, kc, roles["in"], roles["out"])
			}
		}
	}
	if n < 20 {
		o.FailAt("circuitMap#index-sites", "", "expected at least 20 keyed accesses to the circuit maps, found %d", n)
	}
	// callers hand each key parameter a key of the side it is used for
	nCalls := 0
	cmType := p.LookupType("htlcswitch", "circuitMap")
	for _, f := range p.Funcs(false, "htlcswitch") {
		for _, s := range f.AllCalls(false) {
			c := s.Node.(*ast.CallExpr)
			// a method call on the circuit map or on an interface it
			// implements (CircuitMap and the interfaces embedded in it)
			sel, isSel := ast.Unparen(c.Fun).(*ast.SelectorExpr)
			if !isSel || an.Callee(f.Info(), c) == nil {
				continue
			}
			name := sel.Sel.Name
			if paramRole[name] == nil {
				continue
			}
			rt := f.Info().TypeOf(sel.X)
			if rt == nil {
				continue
			}
			if an.TypeID(rt) != hs+"circuitMap" {
				it, isIface := rt.Underlying().(*types.Interface)
				if !isIface || !types.Implements(types.NewPointer(cmType), it) {
					continue
				}
			}
			for idx, roles := range paramRole[name] {
				for role, usedAt := range roles {
					for i := idx; i < len(c.Args); i++ {
						if i > idx && !c07Variadic(p, name) {
							break
						}
						nCalls++
						in, out := c07ExplicitRole(f, c.Args[i])
						o.Site("%s passes %s as the %s-side key of %s", f.ID, an.Text(c.Args[i]), role, name)
						if (role == "in" && out && !in) || (role == "out" && in && !out) {
							o.FailAt(f.Root().ID+"#key-argument-"+name, s.Where(), "%s passes %s to %s, which uses that parameter as a key of the %s side (%s)", f.Root().ID, an.Text(c.Args[i]), name, map[string]string{"in": "incoming", "out": "outgoing"}[role], usedAt)
						}
					}
				}
			}
		}
	}
	if nCalls < 6 {
		o.FailAt("circuitMap#key-arguments", "", "expected at least 6 key arguments passed to circuit map methods, found %d", nCalls)
	}
}

// c07Variadic reports whether the circuit map method takes a variadic last
// parameter.
func c07Variadic(p *an.Prog, method string) bool {
	f := p.FuncOpt(hs + "circuitMap." + method)
	if f == nil || f.Obj == nil {
		return false
	}
	sig, ok := f.Obj.Type().(*types.Signature)
	return ok && sig.Variadic()
}

// c07StartupTrim is the full-trim part: NewCircuitMap always trims, the trim
// ranges over exactly the channels FetchAllOpenChannels returned, and every
// iteration reaches TrimOpenCircuits unless the channel is pending or has no
// final short channel id yet.
func c07StartupTrim(o *an.Obl, p *an.Prog) {
	nf := p.Func(hs + "NewCircuitMap")
	mustPass(o, nf, "trimAllOpenCircuits", nf.Calls(an.CalleeIs(hs+"circuitMap.trimAllOpenCircuits"), false), an.OkErrNil, nf.StrictSuccessReturns())
	f := p.Func(hs + "circuitMap.trimAllOpenCircuits")
	const loopRe = `^\$recv\.cfg\.FetchAllOpenChannels\(\)$`
	loopVisitsAll(o, f, loopRe)
	elem := `\$elem\(\$recv\.cfg\.FetchAllOpenChannels\(\)\)`
	trims := f.Calls(an.CalleeIs(hs+"circuitMap.TrimOpenCircuits"), false)
	if needExactly(o, f, "TrimOpenCircuits", trims, 1) {
		skip := an.AnyOf("the channel is pending or has no final short channel id",
			an.Truth(canonTerm(`^`+elem+`\.IsPending$`), true, ""),
			an.Cmp(canonTerm(`^`+elem+`\.ShortChanID\(\)$`), an.EQ, an.PkgVar("htlcswitch/hop", "Source"), ""))
		everyIterationOr(o, f, loopRe, trims, skip, "TrimOpenCircuits")
		if a := f.ArgCanon(trims[0]); !reMatch(`^`+elem+`\.ShortChanID\(\)$`, a[0]) || !reMatch(`^`+elem+`\.NextLocalHtlcIndex\(\)$`, a[1]) {
			o.FailAt(f.ID+"#trim-arguments", trims[0].Where(), "the start-up trim calls TrimOpenCircuits(%s, %s), expected the short channel id and the next local HTLC index of the channel the loop is at", a[0], a[1])
		}
	}
}

// c07NextLocalHtlcIndex: the cut-off both trim callers use is an HTLC index:
// OpenChannel.NextLocalHtlcIndex returns the LocalHtlcIndex of the pending
// remote commitment when there is one and of the remote commitment otherwise
// (never a log index: settles, fails and fee updates advance the log index
// only, so the cut-off would lie above uncommitted keystones).
func c07NextLocalHtlcIndex(o *an.Obl, p *an.Prog) {
	f := p.Func("chanstate.OpenChannel.NextLocalHtlcIndex")
	const tip = "$recv.RemoteCommitChainTip()"
	var pending, fallback int
	for _, ret := range f.StrictSuccessReturns() {
		rs, ok := ret.Node.(*ast.ReturnStmt)
		if !ok || len(rs.Results) != 2 {
			o.FailAt(f.ID+"#return-shape", ret.Where(), "cannot trace the index returned by %s", ret.String())
			continue
		}
		c := f.Canon(rs.Results[0])
		o.Site("NextLocalHtlcIndex returns %s", c)
		switch c {
		case tip + ".Commitment.LocalHtlcIndex":
			pending++
			guarded(o, f, ret, an.IsNil(canonTerm(`^`+regexp.QuoteMeta(tip)+`$`), false, "a pending remote commitment exists"))
		case "$recv.RemoteCommitment.LocalHtlcIndex":
			fallback++
			guarded(o, f, ret, an.IsNil(canonTerm(`^`+regexp.QuoteMeta(tip)+`$`), true, "no pending remote commitment"))
		default:
			o.FailAt(f.ID+"#index-source", ret.Where(), "NextLocalHtlcIndex returns %s; the trim cut-off must be the LocalHtlcIndex of the pending remote commitment or, without one, of the remote commitment", c)
		}
		c04OperandsNotOverwritten(o, f, rs.Results[0], "next local htlc index")
	}
	if pending != 1 || fallback != 1 {
		o.FailAt(f.ID+"#index-branches", f.Where(f.Body.Pos()), "expected one return from the pending remote commitment and one fallback return, found %d and %d", pending, fallback)
	}
}
