package spec

import (
	"go/ast"
	"go/token"

	"lndlint/internal/an"
	"lndlint/internal/flow"
)

func init() {
	specExtras["C18"] = append(specExtras["C18"], c18StartAndDust)
}

// c18StartAndDust: the starting rate of a regrouped set is the highest rate
// any member was offered at, and a required output is dust-checked against its
// own script (round-3 seeds C18/e, C18/f).
func c18StartAndDust(r *an.Run) {
	p := r.Prog
	r.Obl("regrouped-set-starts-at-the-highest-offered-rate", "GUARD",
		"BudgetInputSet.StartingFeeRate keeps a running maximum over all inputs: the one comparison of the loop is `rate of this input > maximum so far`, the maximum is assigned that rate exactly on its true edge and nowhere else in the loop, and the option returned is set, on that edge only, to the maximum or that rate; sweep.isDustOutput compares the output's value with DustLimitForSize(len(<that output>.PkScript))",
		"inputs regrouped after failed sweeps carry the rate they were last offered at; starting the new set below the highest of them lowers the offered fee rate; the dust limit depends on the script type (P2WSH/P2TR 330 sat, P2WKH 294): a required second-level output between the two is created below its own limit", 4,
		func(o *an.Obl) {
			f := p.Func("sweep.BudgetInputSet.StartingFeeRate")
			var loop *ast.RangeStmt
			nLoops := 0
			ast.Inspect(f.Body, func(n ast.Node) bool {
				if rs, ok := n.(*ast.RangeStmt); ok {
					loop = rs
					nLoops++
				}
				return true
			})
			if nLoops != 1 || f.Canon(loop.X) != "$recv.inputs" {
				o.FailAt(f.ID+"#loop", f.Where(f.Body.Pos()), "expected one loop over the set's inputs in StartingFeeRate, found %d", nLoops)
				return
			}
			// the comparison
			var cmp *flow.Vertex
			nCmp := 0
			for _, v := range f.Graph().V {
				be, ok := v.Node.(*ast.BinaryExpr)
				if !ok || v.Kind != flow.KCond || be.Pos() < loop.Pos() || be.End() > loop.End() {
					continue
				}
				nCmp++
				cmp = v
			}
			if nCmp != 1 {
				o.FailAt(f.ID+"#comparisons", f.Where(loop.Pos()), "expected exactly one comparison in the loop of StartingFeeRate, found %d", nCmp)
				return
			}
			be := cmp.Node.(*ast.BinaryExpr)
			x, y := ast.Unparen(be.X), ast.Unparen(be.Y)
			if be.Op == token.LSS {
				x, y = y, x
			} else if be.Op != token.GTR {
				o.FailAt(f.ID+"#comparison-operator", f.Where(be.Pos()), "the loop compares with %s, expected a strict greater-than of this input's rate over the maximum so far", be.Op)
				return
			}
			maxID, ok := y.(*ast.Ident)
			rateCanon := f.Canon(x)
			o.Site("StartingFeeRate: %s > %s", rateCanon, an.Text(y))
			if !ok || !reMatch(`^\$elem\(\$recv\.inputs\)\.params\.StartingFeeRate\.UnwrapOr\(0\)$`, rateCanon) {
				o.FailAt(f.ID+"#comparison-operands", f.Where(be.Pos()), "the loop compares %s with %s, expected the input's starting rate (UnwrapOr(0)) against a local maximum", an.Text(x), an.Text(y))
				return
			}
			trueEdge := an.Fact{Desc: "rate > maximum so far", Hold: func(_ *an.Func, e *flow.Edge) bool {
				return e.From == cmp && e.Kind == flow.ETrue
			}}
			ws := f.Assigns(an.LocalNamed(maxID.Name), false)
			inLoop := 0
			for _, w := range ws {
				if w.Node.Pos() < loop.Pos() || w.Node.End() > loop.End() {
					continue
				}
				inLoop++
				as := w.Node.(*ast.AssignStmt)
				if c := f.Canon(as.Rhs[0]); as.Tok != token.ASSIGN || c != rateCanon {
					o.FailAt(f.ID+"#maximum-update", w.Where(), "the maximum is updated by %s, expected `= <the rate just compared>`", an.Text(as))
				}
				guarded(o, f, w, trueEdge)
			}
			if inLoop != 1 {
				o.FailAt(f.ID+"#maximum-updates", f.Where(loop.Pos()), "the running maximum %s is assigned %d times in the loop, expected once (on the true edge of the comparison)", maxID.Name, inLoop)
			}
			// the returned option
			for _, s := range f.Returns() {
				rs, isRet := s.Node.(*ast.ReturnStmt)
				if !isRet || len(rs.Results) != 1 {
					continue
				}
				id, isID := ast.Unparen(rs.Results[0]).(*ast.Ident)
				if !isID {
					o.FailAt(f.ID+"#result", s.Where(), "StartingFeeRate returns %s, expected the option filled by the loop", an.Text(rs.Results[0]))
					continue
				}
				nSome := 0
				for _, w := range f.Assigns(an.LocalNamed(id.Name), false) {
					as := w.Node.(*ast.AssignStmt)
					c := f.Canon(as.Rhs[0])
					if w.Node.Pos() < loop.Pos() {
						continue
					}
					nSome++
					call, isCall := as.Rhs[0].(*ast.CallExpr)
					if !isCall || len(call.Args) != 1 || !reMatch(`\.Some\(`, c) {
						o.FailAt(f.ID+"#result-update", w.Where(), "the result is set to %s in the loop, expected fn.Some(maximum)", an.Text(as.Rhs[0]))
						continue
					}
					if a := an.Text(call.Args[0]); a != maxID.Name && f.Canon(call.Args[0]) != rateCanon {
						o.FailAt(f.ID+"#result-value", w.Where(), "the result carries %s, expected the running maximum", a)
					}
					guarded(o, f, w, trueEdge)
				}
				if nSome != 1 {
					o.FailAt(f.ID+"#result-updates", f.Where(loop.Pos()), "the result option is set %d times in the loop, expected once", nSome)
				}
			}

			d := p.Func("sweep.isDustOutput")
			calls := d.Calls(an.CalleeIs("lnwallet.DustLimitForSize"), false)
			if needExactly(o, d, "DustLimitForSize", calls, 1) {
				if a := d.ArgCanon(calls[0]); a[0] != "len($p0.PkScript)" {
					o.FailAt(d.ID+"#dust-limit-of", calls[0].Where(), "the dust limit is taken for size %s, expected the length of the output's own script", a[0])
				}
				notReassigned(o, d, "output")
				for _, s := range d.Returns() {
					rs := s.Node.(*ast.ReturnStmt)
					if c := d.Canon(rs.Results[0]); !reMatch(`btcutil(/v2)?\.Amount\(\$p0\.Value\) < lnwallet\.DustLimitForSize\(len\(\$p0\.PkScript\)\)\)?$`, c) {
						o.FailAt(d.ID+"#dust-verdict", s.Where(), "isDustOutput returns %s, expected value < DustLimitForSize(len(script))", c)
					}
				}
			}
		})
}
