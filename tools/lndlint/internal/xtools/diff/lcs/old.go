// Copyright 2022 The Go Authors. All rights reserved.
// Use of this source code is governed by a BSD-style
// license that can be found in the LICENSE file.

package lcs

// TODO(adonovan): remove unclear references to "old" in this package.

import (
	"fmt"
)

// A Diff is a replacement of a portion of A by a portion of B.
type Diff struct {
	Start, End         int // offsets of portion to delete in A
	ReplStart, ReplEnd int // offset of replacement text in B
}

// DiffStrings returns the differences between two strings.
// It does not respect rune boundaries.
func DiffStrings(a, b string) []Diff { return diff(stringSeqs{a, b}) }

// DiffBytes returns the differences between two byte sequences.
// It does not respect rune boundaries.
func DiffBytes(a, b []byte) []Diff { return diff(bytesSeqs{a, b}) }

// DiffRunes returns the differences between two rune sequences.
func DiffRunes(a, b []rune) []Diff { return diff(runesSeqs{a, b}) }

func diff(seqs sequences) []Diff {
	// A limit on how deeply the LCS algorithm should search. The value is just a guess.
	const maxDiffs = 100
	diff, _ := compute(seqs, twosided, maxDiffs/2)
	return diff
}

// compute computes the list of differences between two sequences,
// along with the LCS. It is exercised directly by tests.
// The algorithm is one of {forward, backward, twosided}.
func compute(seqs sequences, algo func(*editGraph) lcs, limit int) ([]Diff, lcs) {
	if limit <= 0 {
		limit = 1 << 25 // effectively infinity
	}
	alen, blen := seqs.lengths()
	g := &editGraph{
		seqs:  seqs,
		vf:    newtriang(limit),
		vb:    newtriang(limit),
		limit: limit,
		ux:    alen,
		uy:    blen,
		delta: alen - blen,
	}
	lcs := algo(g)
	diffs := lcs.toDiffs(alen, blen)
	return diffs, lcs
}

// editGraph carries the information for computing the lcs of two sequences.
type editGraph struct {
	seqs   sequences
	vf, vb label // forward and backward labels

	limit int // maximal value of D
	// the bounding rectangle of the current edit graph
	lx, ly, ux, uy int
	delta          int // common subexpression: (ux-lx)-(uy-ly)
}

// toDiffs converts an LCS to a list of edits.
func (lcs lcs) toDiffs(alen, blen int) []Diff {
	var diffs []Diff
	var pa, pb int // offsets in a, b
	for _, l := range lcs {
		if pa < l.X || pb < l.Y {
			diffs = append(diffs, Diff{pa, l.X, pb, l.Y})
		}
		pa = l.X + l.Len
		pb = l.Y + l.Len
	}
	if pa < alen || pb < blen {
		diffs = append(diffs, Diff{pa, alen, pb, blen})
	}
	return diffs
}

// --- FORWARD ---

// fdone decides if the forward path has reached the upper right
// corner of the rectangle. If so, it also returns the computed lcs.
func (e *editGraph) fdone(D, k int) (bool, lcs) {
	// x, y, k are relative to the rectangle
	x := e.vf.get(D, k)
	y := x - k
	if x == e.ux && y == e.uy {
		return true, e.forwardlcs(D, k)
	}
	return false, nil
}

// run the forward algorithm, until success or up to the limit on D.
func forward(e *editGraph) lcs {
	e.setForward(0, 0, e.lx)
	if ok, ans := e.fdone(0, 0); ok {
		return ans
	}
	// from D to D+1
	for D := 0; D < e.limit; D++ {
		e.setForward(D+1, -(D + 1), e.getForward(D, -D))
		if ok, ans := e.fdone(D+1, -(D + 1)); ok {
			return ans
		}
		e.setForward(D+1, D+1, e.getForward(D, D)+1)
		if ok, ans := e.fdone(D+1, D+1); ok {
			return ans
		}
		for k := -D + 1; k <= D-1; k += 2 {
			// these are tricky and easy to get backwards
			lookv := e.lookForward(k, e.getForward(D, k-1)+1)
			lookh := e.lookForward(k, e.getForward(D, k+1))
			if lookv > lookh {
				e.setForward(D+1, k, lookv)
			} else {
				e.setForward(D+1, k, lookh)
			}
			if ok, ans := e.fdone(D+1, k); ok {
				return ans
			}
		}
	}
	// D is too large
	// find the D path with maximal x+y inside the rectangle and
	// use that to compute the found part of the lcs
	kmax := -e.limit - 1
	diagmax := -1
	for k := -e.limit; k <= e.limit; k += 2 {
		x := e.getForward(e.limit, k)
		y := x - k
		if x+y > diagmax && x <= e.ux && y <= e.uy {
			diagmax, kmax = x+y, k
		}
	}
	return e.forwardlcs(e.limit, kmax)
}

// recover the lcs by backtracking from the farthest point reached
func (e *editGraph) forwardlcs(D, k int) lcs {
	var ans lcs
	for x := e.getForward(D, k); x != 0 || x-k != 0; {
		if ok(D-1, k-1) && x-1 == e.getForward(D-1, k-1) {
			// if (x-1,y) is labelled D-1, x--,D--,k--,continue
			D, k, x = D-1, k-1, x-1
			continue
		} else if ok(D-1, k+1) && x == e.getForward(D-1, k+1) {
			// if (x,y-1) is labelled D-1, x, D--,k++, continue
			D, k = D-1, k+1
			continue
		}
		// if (x-1,y-1)--(x,y) is a diagonal, prepend,x--,y--, continue
		y := x - k
		ans = ans.prepend(x+e.lx-1, y+e.ly-1)
		x--
	}
	return ans
}

// start at (x,y), go up the diagonal as far as possible,
// and label the result with d
func (e *editGraph) lookForward(k, relx int) int {
	rely := relx - k
	x, y := relx+e.lx, rely+e.ly
	if x < e.ux && y < e.uy {
		x += e.seqs.commonPrefixLen(x, e.ux, y, e.uy)
	}
	return x
}

func (e *editGraph) setForward(d, k, relx int) {
	x := e.lookForward(k, relx)
	e.vf.set(d, k, x-e.lx)
}

func (e *editGraph) getForward(d, k int) int {
	x := e.vf.get(d, k)
	return x
}

// --- BACKWARD ---

// bdone decides if the backward path has reached the lower left corner
func (e *editGraph) bdone(D, k int) (bool, lcs) {
	// x, y, k are relative to the rectangle
	x := e.vb.get(D, k)
	y := x - (k + e.delta)
	if x == 0 && y == 0 {
		return true, e.backwardlcs(D, k)
	}
	return false, nil
}

// run the backward algorithm, until success or up to the limit on D.
// (used only by tests)
func backward(e *editGraph) lcs {
	e.setBackward(0, 0, e.ux)
	if ok, ans := e.bdone(0, 0); ok {
		return ans
	}
	// from D to D+1
	for D := 0; D < e.limit; D++ {
		e.setBackward(D+1, -(D + 1), e.getBackward(D, -D)-1)
		if ok, ans := e.bdone(D+1, -(D + 1)); ok {
			return ans
		}
		e.setBackward(D+1, D+1, e.getBackward(D, D))
		if ok, ans := e.bdone(D+1, D+1); ok {
			return ans
		}
		for k := -D + 1; k <= D-1; k += 2 {
			// these are tricky and easy to get wrong
			lookv := e.lookBackward(k, e.getBackward(D, k-1))
			lookh := e.lookBackward(k, e.getBackward(D, k+1)-1)
			if lookv < lookh {
				e.setBackward(D+1, k, lookv)
			} else {
				e.setBackward(D+1, k, lookh)
			}
			if ok, ans := e.bdone(D+1, k); ok {
				return ans
			}
		}
	}

	// D is too large
	// find the D path with minimal x+y inside the rectangle and
	// use that to compute the part of the lcs found
	kmax := -e.limit - 1
	diagmin := 1 << 25
	for k := -e.limit; k <= e.limit; k += 2 {
		x := e.getBackward(e.limit, k)
		y := x - (k + e.delta)
		if x+y < diagmin && x >= 0 && y >= 0 {
			diagmin, kmax = x+y, k
		}
	}
	if kmax < -e.limit {
		panic(fmt.Sprintf("no paths when limit=%d?", e.limit))
	}
	return e.backwardlcs(e.limit, kmax)
}

// recover the lcs by backtracking
func (e *editGraph) backwardlcs(D, k int) lcs {
	var ans lcs
	for x := e.getBackward(D, k); x != e.ux || x-(k+e.delta) != e.uy; {
		if ok(D-1, k-1) && x == e.getBackward(D-1, k-1) {
			// D--, k--, x unchanged
			D, k = D-1, k-1
			continue
		} else if ok(D-1, k+1) && x+1 == e.getBackward(D-1, k+1) {
			// D--, k++, x++
			D, k, x = D-1, k+1, x+1
			continue
		}
		y := x - (k + e.delta)
		ans = ans.append(x+e.lx, y+e.ly)
		x++
	}
	return ans
}

// start at (x,y), go down the diagonal as far as possible,
func (e *editGraph) lookBackward(k, relx int) int {
	rely := relx - (k + e.delta) // forward k = k + e.delta
	x, y := relx+e.lx, rely+e.ly
	if x > 0 && y > 0 {
		x -= e.seqs.commonSuffixLen(0, x, 0, y)
	}
	return x
}

// convert to rectangle, and label the result with d
func (e *editGraph) setBackward(d, k, relx int) {
	x := e.lookBackward(k, relx)
	e.vb.set(d, k, x-e.lx)
}

func (e *editGraph) getBackward(d, k int) int {
	x := e.vb.get(d, k)
	return x
}

// -- TWOSIDED ---

func twosided(e *editGraph) lcs {
	// The termination condition could be improved, as either the forward
	// or backward pass could succeed before Myers' Lemma applies.
	// Aside from questions of efficiency (is the extra testing cost-effective)
	// this is more likely to matter when e.limit is reached.
	e.setForward(0, 0, e.lx)
	e.setBackward(0, 0, e.ux)

	// from D to D+1
	for D := 0; D < e.limit; D++ {
		// just finished a backwards pass, so check
		if got, ok := e.twoDone(D, D); ok {
			return e.twolcs(D, D, got)
		}
		// do a forwards pass (D to D+1)
		e.setForward(D+1, -(D + 1), e.getForward(D, -D))
		e.setForward(D+1, D+1, e.getForward(D, D)+1)
		for k := -D + 1; k <= D-1; k += 2 {
			// these are tricky and easy to get backwards
			lookv := e.lookForward(k, e.getForward(D, k-1)+1)
			lookh := e.lookForward(k, e.getForward(D, k+1))
			if lookv > lookh {
				e.setForward(D+1, k, lookv)
			} else {
				e.setForward(D+1, k, lookh)
			}
		}
		// just did a forward pass, so check
		if got, ok := e.twoDone(D+1, D); ok {
			return e.twolcs(D+1, D, got)
		}
		// do a backward pass, D to D+1
		e.setBackward(D+1, -(D + 1), e.getBackward(D, -D)-1)
		e.setBackward(D+1, D+1, e.getBackward(D, D))
		for k := -D + 1; k <= D-1; k += 2 {
			// these are tricky and easy to get wrong
			lookv := e.lookBackward(k, e.getBackward(D, k-1))
			lookh := e.lookBackward(k, e.getBackward(D, k+1)-1)
			if lookv < lookh {
				e.setBackward(D+1, k, lookv)
			} else {
				e.setBackward(D+1, k, lookh)
			}
		}
	}

	// D too large. combine a forward and backward partial lcs
	// first, a forward one
	kmax := -e.limit - 1
	diagmax := -1
	for k := -e.limit; k <= e.limit; k += 2 {
		x := e.getForward(e.limit, k)
		y := x - k
		if x+y > diagmax && x <= e.ux && y <= e.uy {
			diagmax, kmax = x+y, k
		}
	}
	if kmax < -e.limit {
		panic(fmt.Sprintf("no forward paths when limit=%d?", e.limit))
	}
	lcs := e.forwardlcs(e.limit, kmax)
	// now a backward one
	// find the D path with minimal x+y inside the rectangle and
	// use that to compute the lcs
	diagmin := 1 << 25 // infinity
	for k := -e.limit; k <= e.limit; k += 2 {
		x := e.getBackward(e.limit, k)
		y := x - (k + e.delta)
		if x+y < diagmin && x >= 0 && y >= 0 {
			diagmin, kmax = x+y, k
		}
	}
	if kmax < -e.limit {
		panic(fmt.Sprintf("no backward paths when limit=%d?", e.limit))
	}
	lcs = append(lcs, e.backwardlcs(e.limit, kmax)...)
	// These may overlap (e.forwardlcs and e.backwardlcs return sorted lcs)
	ans := lcs.fix()
	return ans
}

// Does Myers' Lemma apply?
func (e *editGraph) twoDone(df, db int) (int, bool) {
	if (df+db+e.delta)%2 != 0 {
		return 0, false // diagonals cannot overlap
	}
	kmin := -db + e.delta
	if -df > kmin {
		kmin = -df
	}
	kmax := db + e.delta
	if df < kmax {
		kmax = df
	}
	for k := kmin; k <= kmax; k += 2 {
		x := e.vf.get(df, k)
		u := e.vb.get(db, k-e.delta)
		if u <= x {
			// is it worth looking at all the other k?
			for l := k; l <= kmax; l += 2 {
				x := e.vf.get(df, l)
				y := x - l
				u := e.vb.get(db, l-e.delta)
				v := u - l
				if x == u || u == 0 || v == 0 || y == e.uy || x == e.ux {
					return l, true
				}
			}
			return k, true
		}
	}
	return 0, false
}

func (e *editGraph) twolcs(df, db, kf int) lcs {
	// db==df || db+1==df
	x := e.vf.get(df, kf)
	y := x - kf
	kb := kf - e.delta
	u := e.vb.get(db, kb)
	v := u - kf

	// Myers proved there is a df-path from (0,0) to (u,v)
	// and a db-path from (x,y) to (N,M).
	// In the first case the overall path is the forward path
	// to (u,v) followed by the backward path to (N,M).
	// In the second case the path is the backward path to (x,y)
	// followed by the forward path to (x,y) from (0,0).

	// Look for some special cases to avoid computing either of these paths.
	if x == u {
		// "babaab" "cccaba"
		// already patched together
		lcs := e.forwardlcs(df, kf)
		lcs = append(lcs, e.backwardlcs(db, kb)...)
		return lcs.sort()
	}

	// is (u-1,v) or (u,v-1) labelled df-1?
	// if so, that forward df-1-path plus a horizontal or vertical edge
	// is the df-path to (u,v), then plus the db-path to (N,M)
	if u > 0 && ok(df-1, u-1-v) && e.vf.get(df-1, u-1-v) == u-1 {
		//  "aabbab" "cbcabc"
		lcs := e.forwardlcs(df-1, u-1-v)
		lcs = append(lcs, e.backwardlcs(db, kb)...)
		return lcs.sort()
	}
	if v > 0 && ok(df-1, (u-(v-1))) && e.vf.get(df-1, u-(v-1)) == u {
		//  "abaabb" "bcacab"
		lcs := e.forwardlcs(df-1, u-(v-1))
		lcs = append(lcs, e.backwardlcs(db, kb)...)
		return lcs.sort()
	}

	// The path can't possibly contribute to the lcs because it
	// is all horizontal or vertical edges
	if u == 0 || v == 0 || x == e.ux || y == e.uy {
		// "abaabb" "abaaaa"
		if u == 0 || v == 0 {
			return e.backwardlcs(db, kb)
		}
		return e.forwardlcs(df, kf)
	}

	// is (x+1,y) or (x,y+1) labelled db-1?
	if x+1 <= e.ux && ok(db-1, x+1-y-e.delta) && e.vb.get(db-1, x+1-y-e.delta) == x+1 {
		// "bababb" "baaabb"
		lcs := e.backwardlcs(db-1, kb+1)
		lcs = append(lcs, e.forwardlcs(df, kf)...)
		return lcs.sort()
	}
	if y+1 <= e.uy && ok(db-1, x-(y+1)-e.delta) && e.vb.get(db-1, x-(y+1)-e.delta) == x {
		// "abbbaa" "cabacc"
		lcs := e.backwardlcs(db-1, kb-1)
		lcs = append(lcs, e.forwardlcs(df, kf)...)
		return lcs.sort()
	}

	// need to compute another path
	// "aabbaa" "aacaba"
	lcs := e.backwardlcs(db, kb)
	oldx, oldy := e.ux, e.uy
	e.ux = u
	e.uy = v
	lcs = append(lcs, forward(e)...)
	e.ux, e.uy = oldx, oldy
	return lcs.sort()
}
