package lnwallet

// PROBE (unmodified tree): a peer may ask for to_self_delay = 0 (lnd only
// checks an upper bound on the CSV delay the peer imposes on us:
// lnwallet/reservation.go VerifyConstraints / funding manager). For *final*
// taproot channels the delay leaves are
//
//	to_local:      <delay_key> OP_CHECKSIGVERIFY <csv> OP_CHECKSEQUENCEVERIFY
//	second level:  <delay_key> OP_CHECKSIGVERIFY <csv> OP_CHECKSEQUENCEVERIFY
//
// i.e. the value left on the stack at the end IS <csv>. With csv == 0 the
// script ends with a false stack and the output cannot be spent through the
// delay path at all (the key path is the NUMS key resp. the revocation key).
// The staging scripts (`OP_CHECKSIG <csv> OP_CSV OP_DROP`) and the segwit v0
// scripts are fine with csv == 0.
//
// Place in lnwallet/ and run:
//   go test -count=1 -run TestProbeFinalTaprootCsvZero -v ./lnwallet/

import (
	"testing"

	"github.com/btcsuite/btcd/btcutil/v2"
	"github.com/btcsuite/btcd/txscript/v2"
	"github.com/btcsuite/btcd/wire/v2"
	"github.com/lightningnetwork/lnd/channeldb"
	"github.com/lightningnetwork/lnd/input"
	"github.com/lightningnetwork/lnd/lnwire"
	"github.com/stretchr/testify/require"
)

func TestProbeFinalTaprootCsvZero(t *testing.T) {
	for _, tc := range []struct {
		name     string
		chanType channeldb.ChannelType
		csv      uint16
	}{
		{
			name: "staging csv=0",
			chanType: channeldb.SingleFunderTweaklessBit |
				channeldb.AnchorOutputsBit |
				channeldb.SimpleTaprootFeatureBit,
			csv: 0,
		},
		{
			name: "final csv=1",
			chanType: channeldb.SingleFunderTweaklessBit |
				channeldb.AnchorOutputsBit |
				channeldb.SimpleTaprootFeatureBit |
				channeldb.TaprootFinalBit,
			csv: 1,
		},
		{
			name: "final csv=0",
			chanType: channeldb.SingleFunderTweaklessBit |
				channeldb.AnchorOutputsBit |
				channeldb.SimpleTaprootFeatureBit |
				channeldb.TaprootFinalBit,
			csv: 0,
		},
	} {
		t.Run(tc.name, func(t *testing.T) {
			// The negotiation step every peer-chosen
			// to_self_delay passes through (funding manager:
			// handleFundingOpen / handleFundingAccept ->
			// ChannelReservation.CommitConstraints). Whatever it
			// accepts must lead to spendable delayed outputs.
			const capacity = btcutil.Amount(10_000_000)
			res := &ChannelReservation{
				partialState: &channeldb.OpenChannel{
					ChanType: tc.chanType,
					Capacity: capacity,
				},
				ourContribution: &ChannelContribution{
					ChannelConfig: &channeldb.ChannelConfig{},
				},
			}
			dust := DustLimitForSize(input.UnknownWitnessSize)
			err := res.CommitConstraints(
				&channeldb.ChannelStateBounds{
					ChanReserve:      capacity / 100,
					MaxPendingAmount: lnwire.MaxMilliSatoshi,
					MinHTLC:          1,
					MaxAcceptedHtlcs: 483,
				},
				&channeldb.CommitmentParams{
					DustLimit: dust,
					CsvDelay:  tc.csv,
				}, 2016, false,
			)
			if err != nil {
				// Only the unspendable combination may be
				// refused.
				t.Logf("CommitConstraints refuses: %v", err)
				require.True(
					t, tc.csv == 0 &&
						tc.chanType.IsTaprootFinal(),
				)

				return
			}

			probeCsv(t, tc.chanType, tc.csv)
		})
	}
}

func probeCsv(t *testing.T, chanType channeldb.ChannelType, csv uint16) {
	aliceChannel, bobChannel, err := CreateTestChannels(t, chanType)
	require.NoError(t, err)

	// Bob asked Alice for this to_self_delay.
	aliceChannel.channelState.LocalChanCfg.CsvDelay = csv
	bobChannel.channelState.RemoteChanCfg.CsvDelay = csv

	htlcAmount := lnwire.NewMSatFromSatoshis(20000)
	htlcAlice, _ := createHTLC(0, htlcAmount)
	addAndReceiveHTLC(t, aliceChannel, bobChannel, htlcAlice, nil)
	require.NoError(t, ForceStateTransition(aliceChannel, bobChannel))
	require.NoError(t, ForceStateTransition(bobChannel, aliceChannel))

	summary, err := aliceChannel.ForceClose()
	require.NoError(t, err)
	res := summary.ContractResolutions.UnwrapOrFail(t)
	require.NotNil(t, res.CommitResolution)

	verifySpend := func(name string, tx *wire.MsgTx, prevOut *wire.TxOut) {
		t.Helper()

		fetcher := txscript.NewCannedPrevOutputFetcher(
			prevOut.PkScript, prevOut.Value,
		)
		hashCache := txscript.NewTxSigHashes(tx, fetcher)
		vm, err := txscript.NewEngine(
			prevOut.PkScript, tx, 0, txscript.StandardVerifyFlags,
			nil, hashCache, prevOut.Value, fetcher,
		)
		require.NoError(t, err, name)
		require.NoError(t, vm.Execute(), "%v: spend is invalid", name)
	}

	// to_local.
	cr := res.CommitResolution
	realOut := summary.CloseTx.TxOut[cr.SelfOutPoint.Index]
	sweepTx := wire.NewMsgTx(2)
	sweepTx.AddTxIn(&wire.TxIn{
		PreviousOutPoint: cr.SelfOutPoint,
		Sequence: input.LockTimeToSequence(
			false, cr.MaturityDelay,
		),
	})
	sweepTx.AddTxOut(&wire.TxOut{
		PkScript: realOut.PkScript, Value: realOut.Value - 1000,
	})
	signDesc := cr.SelfOutputSignDesc
	signDesc.InputIndex = 0
	signDesc.PrevOutputFetcher = txscript.NewCannedPrevOutputFetcher(
		realOut.PkScript, realOut.Value,
	)
	signDesc.SigHashes = txscript.NewTxSigHashes(
		sweepTx, signDesc.PrevOutputFetcher,
	)
	sweepTx.TxIn[0].Witness, err = input.TaprootCommitSpendSuccess(
		aliceChannel.Signer, &signDesc, sweepTx, nil,
	)
	require.NoError(t, err)
	t.Logf("to_local delay leaf: %x", signDesc.WitnessScript)
	verifySpend("to_local sweep", sweepTx, realOut)

	// Second level output of the offered HTLC.
	require.Len(t, res.HtlcResolutions.OutgoingHTLCs, 1)
	out := res.HtlcResolutions.OutgoingHTLCs[0]
	slOut := out.SignedTimeoutTx.TxOut[0]
	sweepTx = wire.NewMsgTx(2)
	sweepTx.AddTxIn(&wire.TxIn{
		PreviousOutPoint: out.ClaimOutpoint,
		Sequence:         input.LockTimeToSequence(false, out.CsvDelay),
	})
	sweepTx.AddTxOut(&wire.TxOut{
		PkScript: slOut.PkScript, Value: slOut.Value - 1000,
	})
	slDesc := out.SweepSignDesc
	slDesc.InputIndex = 0
	sweepTx.TxIn[0].Witness, err = input.TaprootHtlcSpendSuccess(
		aliceChannel.Signer, &slDesc, sweepTx, nil, nil,
	)
	require.NoError(t, err)
	verifySpend("second level sweep", sweepTx, slOut)
}
