package lnwallet

import (
	"bytes"
	"crypto/sha256"
	"testing"

	"github.com/lightningnetwork/lnd/channeldb"
	"github.com/lightningnetwork/lnd/graph/db/models"
	"github.com/lightningnetwork/lnd/lnwire"
	"github.com/lightningnetwork/lnd/tlv"
	"github.com/stretchr/testify/require"
)

// TestProbeNoOpAddOpenCircuitKeyInCommitDiff probes the UNMODIFIED tree: the
// commit diff persisted by SignNextCommitment must name the circuit opened by
// every add it commits, because ProcessChanSyncMsg hands exactly this list
// back to the link when the commitment has to be retransmitted. createCommitDiff
// collects OpenCircuitKey only for EntryType == Add, so a NoOpAdd (tapscript
// root channel + noop record) loses its key.
func TestProbeNoOpAddOpenCircuitKeyInCommitDiff(t *testing.T) {
	t.Parallel()

	for _, noop := range []bool{false, true} {
		chanType := channeldb.SimpleTaprootFeatureBit |
			channeldb.AnchorOutputsBit |
			channeldb.ZeroHtlcTxFeeBit |
			channeldb.SingleFunderTweaklessBit |
			channeldb.TapscriptRootBit

		aliceChannel, bobChannel, err := CreateTestChannels(t, chanType)
		require.NoError(t, err)

		noopRecord := tlv.NewPrimitiveRecord[NoOpHtlcTLVType, bool](
			true,
		)
		records, err := tlv.RecordsToMap(
			[]tlv.Record{noopRecord.Record()},
		)
		require.NoError(t, err)
		if !noop {
			records = nil
		}

		var onion [lnwire.OnionPacketSize]byte
		copy(onion[:], bytes.Repeat([]byte{5}, lnwire.OnionPacketSize))
		rHash := sha256.Sum256(bytes.Repeat([]byte{0xaa}, 32))
		htlc := &lnwire.UpdateAddHTLC{
			PaymentHash:   rHash,
			Amount:        lnwire.NewMSatFromSatoshis(20000),
			Expiry:        10,
			OnionBlob:     onion,
			CustomRecords: records,
		}

		openKey := &models.CircuitKey{
			ChanID: lnwire.NewShortChanIDFromInt(42),
			HtlcID: 7,
		}
		_, err = aliceChannel.AddHTLC(htlc, openKey)
		require.NoError(t, err)
		_, err = bobChannel.ReceiveHTLC(htlc)
		require.NoError(t, err)

		_, err = aliceChannel.SignNextCommitment(ctxb)
		require.NoError(t, err)

		diff, err := aliceChannel.channelState.RemoteCommitChainTip()
		require.NoError(t, err)
		require.Len(t, diff.LogUpdates, 1)

		t.Logf("noop=%v: opened circuit keys in commit diff: %v", noop,
			diff.OpenedCircuitKeys)
		require.Equal(
			t, []models.CircuitKey{*openKey},
			diff.OpenedCircuitKeys, "noop=%v", noop,
		)
	}
}
