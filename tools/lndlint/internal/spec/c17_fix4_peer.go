package spec

import (
	"go/ast"
	"go/token"
	"go/types"
	"strings"

	"lndlint/internal/an"
)

// c17f4PeerBalances: the balances the peer package hands to the RBF close
// state machine are the balances the close transaction pays out (repair
// 89eaaa8).
func c17f4PeerBalances(r *an.Run) {
	p := r.Prog
	r.Obl("rbf-state-machine-judges-the-balances-the-close-pays-out", "ROLE",
		"peer.coopCloseBalances(chanType, isInitiator, snapshot) starts from the snapshot's local and remote balance and adds, to the local one exactly when isInitiator and to the remote one exactly when not, one credit (converted to millisatoshi): the snapshot's commit fee plus, exactly for anchor channels, the very anchor amount lnwallet.CoopCloseBalance credits; nothing else writes the credit or the balances and the credited balances are what it returns; every chancloser.ShutdownBalances value with contents is built there (no other literal with fields, no field assignment elsewhere in package peer), and every call of it passes ChanType(), IsInitiator() and StateSnapshot() of one and the same channel; the ChannelFlushed event of package peer and chanObserver.FinalBalances carry the result of such a call",
		"the state machine decides who can pay the closing fee and which output is dust on these balances, the wallet builds and verifies the transaction on the credited ones: with raw commitment balances an opener that pays the fee out of the refunded commit fee is refused (ErrRemoteCannotPay) or never offers, although both wallets would sign", 12,
		func(o *an.Obl) {
			if !p.HasPkg("peer") {
				o.FailAt("peer#not-loaded", "", "package peer is not loaded: the rule cannot see who builds the balances of the close state machine")
				return
			}
			f := p.FuncOpt("peer.coopCloseBalances")
			if f == nil {
				o.FailAt("peer.coopCloseBalances#missing", "", "peer.coopCloseBalances is gone: the balances handed to the RBF close state machine must be computed by one function that credits the opener like lnwallet.CoopCloseBalance")
				return
			}
			ps := f.Params(false)
			if len(ps) != 3 || ps[0] == nil || ps[1] == nil || ps[2] == nil {
				o.FailAt(f.ID+"#params", f.Where(f.Body.Pos()), "coopCloseBalances has %d parameters, the rule knows (chanType, isInitiator, snapshot)", len(ps))
				return
			}
			notReassigned(o, f, ps[0].Name(), ps[1].Name(), ps[2].Name())
			const isInit, anchors = "$p1", "$p0.HasAnchors()"

			// the anchor credit of the wallet
			anchor := ""
			cb := p.Func(lw + "CoopCloseBalance")
			for _, v := range cb.Graph().V {
				as, ok := v.Node.(*ast.AssignStmt)
				if !ok || as.Tok != token.ADD_ASSIGN || len(as.Rhs) != 1 {
					continue
				}
				s := an.Site{Fn: cb, V: v, Node: as}
				if ok, _ := cb.Guarded(s, an.Truth(an.CallNamed("HasAnchors", an.Param(0)), true, "")); ok {
					anchor = cb.Canon(as.Rhs[0])
				}
			}
			if anchor == "" {
				o.FailAt(cb.ID+"#anchor-credit", cb.Where(cb.Body.Pos()), "cannot find the anchor credit of CoopCloseBalance")
				return
			}

			// the returned variable
			var balObj types.Object
			for _, s := range f.Returns() {
				rs, _ := s.Node.(*ast.ReturnStmt)
				var id *ast.Ident
				if rs != nil && len(rs.Results) == 1 {
					id, _ = ast.Unparen(rs.Results[0]).(*ast.Ident)
				}
				if id == nil || (balObj != nil && c17ObjOfIdent(f, id) != balObj) {
					o.FailAt(f.ID+"#result", s.Where(), "coopCloseBalances returns %s, expected the one variable that holds the credited balances", s.String())
					return
				}
				balObj = c17ObjOfIdent(f, id)
			}
			if _, isVar := balObj.(*types.Var); !isVar {
				o.FailAt(f.ID+"#result", f.Where(f.Body.Pos()), "cannot identify the balances coopCloseBalances returns")
				return
			}
			// its definition
			nDef := 0
			for _, w := range c17WritesOf(f, balObj) {
				cl, _ := ast.Unparen(w.Rhs).(*ast.CompositeLit)
				if w.Rhs == nil || cl == nil || !w.Whole || w.Tuple || (w.Tok != token.DEFINE && w.Tok != token.VAR) {
					o.FailAt(f.ID+"#balances-write", f.Where(w.Node.Pos()), "the balances are written by %s; tabled are their definition from the snapshot and the opener's credit", an.Text(w.Node))
					continue
				}
				nDef++
				for key, want := range map[string]string{"LocalBalance": "$p2.LocalBalance", "RemoteBalance": "$p2.RemoteBalance"} {
					got := c17f4KV(cl, key)
					o.Site("coopCloseBalances starts from %s: %s", key, f.Canon(got))
					if got == nil || f.Canon(got) != want {
						o.FailAt(f.ID+"#start-"+key, f.Where(cl.Pos()), "the %s starts from %s, expected the snapshot's %s", key, an.Text(got), key)
					}
				}
				if len(cl.Elts) != 2 {
					o.FailAt(f.ID+"#start-shape", f.Where(cl.Pos()), "the balances literal has %d elements, the rule knows LocalBalance and RemoteBalance", len(cl.Elts))
				}
			}
			if nDef != 1 {
				o.FailAt(f.ID+"#start", f.Where(f.Body.Pos()), "expected one definition of the returned balances from the snapshot, found %d", nDef)
			}
			// the credits
			var creditObj types.Object
			var creditSites []an.Site
			count := map[string]int{}
			for _, w := range c17f4FieldWritesOf(f, balObj) {
				s := w.Site
				if s.V == nil {
					o.FailAt(f.ID+"#credit-in-literal", f.Where(s.Node.Pos()), "the balances are written inside a function literal: %s", an.Text(s.Node))
					continue
				}
				want := map[string][]string{"LocalBalance": {isInit}, "RemoteBalance": {"!" + isInit}}[w.Field]
				if want == nil || w.Tok != token.ADD_ASSIGN || w.Rhs == nil {
					o.FailAt(f.ID+"#balances-write", s.Where(), "the balances are written by %s; tabled are `LocalBalance += credit` and `RemoteBalance += credit`", an.Text(s.Node))
					continue
				}
				count[w.Field]++
				creditSites = append(creditSites, s)
				gs := c17f4CanonGuards(f, s)
				o.Site("coopCloseBalances: %s under %v", an.Text(s.Node), gs)
				if !c17f4SameSet(gs, want) {
					o.FailAt(f.ID+"#credit-side-"+w.Field, s.Where(), "the opener's credit goes to %s under %v, expected exactly %v (CoopCloseBalance credits ours iff we are the initiator)", w.Field, gs, want)
				}
				call, _ := ast.Unparen(w.Rhs).(*ast.CallExpr)
				var arg *ast.Ident
				if call != nil && an.CalleeID(f.Info(), call) == "lnwire.NewMSatFromSatoshis" && len(call.Args) == 1 {
					arg, _ = ast.Unparen(call.Args[0]).(*ast.Ident)
				}
				if arg == nil || (creditObj != nil && c17ObjOfIdent(f, arg) != creditObj) {
					o.FailAt(f.ID+"#credit-amount-"+w.Field, s.Where(), "%s is credited %s, expected the one local that holds commit fee + anchors, converted by lnwire.NewMSatFromSatoshis", w.Field, an.Text(w.Rhs))
					continue
				}
				creditObj = c17ObjOfIdent(f, arg)
			}
			if count["LocalBalance"] != 1 || count["RemoteBalance"] != 1 {
				o.FailAt(f.ID+"#credits", f.Where(f.Body.Pos()), "expected one credit of the local and one of the remote balance, found %d and %d", count["LocalBalance"], count["RemoteBalance"])
			}
			if _, isVar := creditObj.(*types.Var); !isVar || creditObj == balObj {
				o.FailAt(f.ID+"#credit", f.Where(f.Body.Pos()), "cannot identify the amount credited to the opener")
				return
			}
			nStart, nAnchor := 0, 0
			for _, w := range c17WritesOf(f, creditObj) {
				s, inGraph := c17SiteOfNode(f, w.Node)
				if !inGraph || !w.Whole || w.Tuple || w.Rhs == nil {
					o.FailAt(f.ID+"#credit-write", f.Where(w.Node.Pos()), "unexpected write of the opener's credit: %s", an.Text(w.Node))
					continue
				}
				for _, cs := range creditSites {
					if c17StrictlyAfter(f.Graph(), cs.V)[s.V] {
						o.FailAt(f.ID+"#credit-changed-after-use", s.Where(), "the opener's credit is still changed (%s) after it was added to a balance", s.String())
					}
				}
				gs := c17f4CanonGuards(f, s)
				rc := f.Canon(w.Rhs)
				o.Site("coopCloseBalances: %s (rhs %s) under %v", an.Text(w.Node), rc, gs)
				switch {
				case (w.Tok == token.DEFINE || w.Tok == token.VAR) && rc == "$p2.CommitFee":
					nStart++
					if len(gs) != 0 {
						o.FailAt(f.ID+"#credit-start-guard", s.Where(), "the opener's credit starts from the commit fee only under %v", gs)
					}
				case w.Tok == token.ADD_ASSIGN && rc == anchor:
					nAnchor++
					if !c17f4SameSet(gs, []string{anchors}) {
						o.FailAt(f.ID+"#anchor-credit-guard", s.Where(), "the anchors are credited under %v, expected exactly [%s]", gs, anchors)
					}
				default:
					o.FailAt(f.ID+"#credit-write", s.Where(), "the opener's credit is written by %s; lnwallet.CoopCloseBalance credits `commit fee` and, for anchor channels, `+= %s`", an.Text(w.Node), anchor)
				}
			}
			if nStart != 1 || nAnchor != 1 {
				o.FailAt(f.ID+"#credit-steps", f.Where(f.Body.Pos()), "the opener's credit has %d definitions from the commit fee and %d anchor increases, expected one each (as in lnwallet.CoopCloseBalance)", nStart, nAnchor)
			}

			// who builds ShutdownBalances
			sb := p.LookupType("lnwallet/chancloser", "ShutdownBalances")
			for _, cl := range p.CompositeLitsOf(sb) {
				lit := cl.Node.(*ast.CompositeLit)
				id := "<package-level>"
				if cl.Fn != nil {
					id = cl.Fn.ID
				}
				o.Site("ShutdownBalances literal with %d elements in %s at %s", len(lit.Elts), id, cl.Where)
				if len(lit.Elts) > 0 && id != f.ID {
					o.FailAt("ShutdownBalances<-"+id, cl.Where, "%s builds close balances itself (%s); only peer.coopCloseBalances, which credits the opener like the wallet, may", id, an.Text(lit))
				}
			}
			st, _ := sb.Underlying().(*types.Struct)
			for i := 0; st != nil && i < st.NumFields(); i++ {
				for _, ref := range p.RefsTo(st.Field(i), false) {
					if ref.Fn == nil || !strings.HasPrefix(ref.Fn.ID, "peer.") || ref.Fn.ID == f.ID {
						continue
					}
					id, _ := ref.Node.(*ast.Ident)
					ast.Inspect(ref.Fn.Body, func(n ast.Node) bool {
						var lhs []ast.Expr
						switch x := n.(type) {
						case *ast.AssignStmt:
							lhs = x.Lhs
						case *ast.IncDecStmt:
							lhs = []ast.Expr{x.X}
						}
						for _, l := range lhs {
							if sel, ok := ast.Unparen(l).(*ast.SelectorExpr); ok && sel.Sel == id {
								o.FailAt("ShutdownBalances."+st.Field(i).Name()+"<-"+ref.Fn.ID, ref.Where, "%s writes the %s of close balances itself (%s)", ref.Fn.ID, st.Field(i).Name(), an.Text(n))
							}
						}
						return true
					})
				}
			}

			// the calls
			isCall := func(fn *an.Func, e ast.Expr) (*ast.CallExpr, bool) {
				c, ok := ast.Unparen(e).(*ast.CallExpr)
				if ok && an.CalleeID(fn.Info(), c) == f.ID {
					return c, true
				}
				if id, isID := ast.Unparen(e).(*ast.Ident); isID {
					if d := fn.UniqueDef(id); d != nil {
						if c, ok := ast.Unparen(d).(*ast.CallExpr); ok && an.CalleeID(fn.Info(), c) == f.ID {
							return c, true
						}
					}
				}
				return nil, false
			}
			nCalls := 0
			for _, fn := range p.Funcs(false, "peer") {
				for _, s := range fn.Calls(an.CalleeIs(f.ID), false) {
					nCalls++
					c := s.Node.(*ast.CallExpr)
					var recvs []string
					okShape := len(c.Args) == 3
					for i, m := range []string{"ChanType", "IsInitiator", "StateSnapshot"} {
						if !okShape {
							break
						}
						ac, isC := ast.Unparen(c.Args[i]).(*ast.CallExpr)
						var sel *ast.SelectorExpr
						if isC && len(ac.Args) == 0 {
							sel, _ = ast.Unparen(ac.Fun).(*ast.SelectorExpr)
						}
						if sel == nil || sel.Sel.Name != m {
							okShape = false
							break
						}
						recvs = append(recvs, fn.Canon(sel.X)+"|"+an.Text(sel.X))
					}
					o.Site("%s", s.String())
					if !okShape || recvs[0] != recvs[1] || recvs[1] != recvs[2] {
						o.FailAt(fn.ID+"#balances-of-one-channel", s.Where(), "%s does not pass ChanType(), IsInitiator() and StateSnapshot() of one and the same channel", s.String())
					}
				}
			}
			if nCalls < 2 {
				o.FailAt(f.ID+"#callers", "", "expected the flushed-channel event and FinalBalances to call coopCloseBalances, found %d calls", nCalls)
			}
			// the flushed event of package peer
			nEv := 0
			for _, cl := range p.CompositeLitsOf(p.LookupType("lnwallet/chancloser", "ChannelFlushed")) {
				if cl.Fn == nil || !strings.HasPrefix(cl.Fn.ID, "peer.") {
					continue
				}
				nEv++
				v := c17f4KV(cl.Node.(*ast.CompositeLit), "ShutdownBalances")
				o.Site("%s sends ChannelFlushed{ShutdownBalances: %s}", cl.Fn.ID, an.Text(v))
				if _, ok := isCall(cl.Fn, v); v == nil || !ok {
					o.FailAt(cl.Fn.ID+"#flushed-balances", cl.Where, "the ChannelFlushed event carries %s, expected the result of coopCloseBalances", an.Text(v))
				}
			}
			if nEv == 0 {
				o.FailAt("peer#flushed-event", "", "found no ChannelFlushed event built in package peer")
			}
			// FinalBalances
			fb := p.Func("peer.chanObserver.FinalBalances")
			nSome := 0
			for _, s := range fb.Returns() {
				rs, _ := s.Node.(*ast.ReturnStmt)
				if rs == nil || len(rs.Results) != 1 {
					o.FailAt(fb.ID+"#exit-shape", s.Where(), "cannot read the result returned at %s", s.String())
					continue
				}
				c, _ := ast.Unparen(rs.Results[0]).(*ast.CallExpr)
				name := ""
				if c != nil {
					name = an.CalleeID(fb.Info(), c)
				}
				switch {
				case strings.HasSuffix(name, ".None") && len(c.Args) == 0:
				case strings.HasSuffix(name, ".Some") && len(c.Args) == 1:
					nSome++
					o.Site("FinalBalances returns %s", an.Text(rs.Results[0]))
					if _, ok := isCall(fb, c.Args[0]); !ok {
						o.FailAt(fb.ID+"#final-balances", s.Where(), "FinalBalances hands out %s, expected the result of coopCloseBalances", an.Text(c.Args[0]))
					}
				default:
					o.FailAt(fb.ID+"#final-balances", s.Where(), "FinalBalances returns %s, expected fn.None or fn.Some(coopCloseBalances(..))", an.Text(rs.Results[0]))
				}
			}
			if nSome == 0 {
				o.FailAt(fb.ID+"#final-balances", fb.Where(fb.Body.Pos()), "FinalBalances never hands out balances")
			}
		})
}
