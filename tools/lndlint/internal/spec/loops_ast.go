package spec

import (
	"go/ast"
	"go/token"

	"lndlint/internal/an"
)

// earlyExits lists the statements inside body through which the loop owning
// body can be left before its iteration space is exhausted: an unlabelled
// `break` that binds to this loop, a labelled `break`/`goto`/`continue` to a
// label outside the body, and every `return` that is not a failure return.
func earlyExits(f *an.Func, loop ast.Stmt, body *ast.BlockStmt) []ast.Stmt {
	var out []ast.Stmt
	g := f.Graph()
	// labels declared inside the body: jumps to them stay inside
	inner := map[string]bool{}
	ast.Inspect(body, func(n ast.Node) bool {
		if ls, ok := n.(*ast.LabeledStmt); ok {
			inner[ls.Label.Name] = true
		}
		return true
	})
	var walk func(n ast.Node, breakable int)
	walk = func(n ast.Node, breakable int) {
		if n == nil {
			return
		}
		switch x := n.(type) {
		case *ast.FuncLit:
			return
		case *ast.BranchStmt:
			switch x.Tok {
			case token.BREAK:
				if x.Label == nil && breakable == 0 {
					out = append(out, x)
				}
				if x.Label != nil && !inner[x.Label.Name] {
					out = append(out, x)
				}
			case token.GOTO:
				if x.Label != nil && !inner[x.Label.Name] {
					out = append(out, x)
				}
			case token.CONTINUE:
				if x.Label != nil && !inner[x.Label.Name] {
					// continue of an outer loop leaves this one
					if ls, ok := loopLabel(f, loop); !ok || ls != x.Label.Name {
						out = append(out, x)
					}
				}
			}
			return
		case *ast.ReturnStmt:
			v := g.VertexOf(x)
			if v == nil {
				v = g.Containing(x, false)
			}
			s := an.Site{Fn: f, V: v, Node: x}
			if v == nil || f.ClassifyReturn(s) != an.RetFailure {
				out = append(out, x)
			}
			return
		case *ast.ForStmt:
			walk(x.Init, breakable)
			walk(x.Post, breakable)
			walk(x.Body, breakable+1)
			return
		case *ast.RangeStmt:
			walk(x.Body, breakable+1)
			return
		case *ast.SwitchStmt:
			walk(x.Init, breakable)
			walk(x.Body, breakable+1)
			return
		case *ast.TypeSwitchStmt:
			walk(x.Init, breakable)
			walk(x.Body, breakable+1)
			return
		case *ast.SelectStmt:
			walk(x.Body, breakable+1)
			return
		}
		// generic descent over child statements
		ast.Inspect(n, func(m ast.Node) bool {
			if m == n {
				return true
			}
			switch m.(type) {
			case ast.Stmt:
				walk(m, breakable)
				return false
			case *ast.FuncLit:
				return false
			}
			return true
		})
	}
	walk(body, 0)
	return out
}

// loopLabel returns the label attached to loop, if any.
func loopLabel(f *an.Func, loop ast.Stmt) (string, bool) {
	name, ok := "", false
	ast.Inspect(f.Body, func(n ast.Node) bool {
		if ls, isL := n.(*ast.LabeledStmt); isL && ls.Stmt == loop {
			name, ok = ls.Label.Name, true
		}
		return !ok
	})
	return name, ok
}

// loopDesc is the canonical description of a loop's iteration space.
func loopDesc(f *an.Func, loop ast.Stmt) string {
	switch x := loop.(type) {
	case *ast.RangeStmt:
		return f.Canon(x.X)
	case *ast.ForStmt:
		d := "for "
		if x.Init != nil {
			d += an.Text(x.Init)
		}
		d += "; "
		if x.Cond != nil {
			d += an.Text(x.Cond)
		}
		d += "; "
		if x.Post != nil {
			d += an.Text(x.Post)
		}
		return d
	}
	return ""
}
