package an

import (
	"go/ast"
	"go/token"
	"go/types"
	"strings"

	"lndlint/internal/flow"
)

// SizeSite is a place where a run-time quantity decides how much memory is
// allocated, copied or sliced.
type SizeSite struct {
	Fn    *Func
	V     *flow.Vertex
	Node  ast.Node
	Kind  string // make | slice | copyn | limit
	Size  ast.Expr
	Class string // const | narrow | len | guarded | param | unknown
	Why   string
	Bound string // for slice sites on arrays: the array length
}

// SizeSites lists the size-deciding sites of f.
func (f *Func) SizeSites() []SizeSite {
	var out []SizeSite
	info := f.Info()
	g := f.Graph()
	for _, v := range g.V {
		v.Inspect(false, func(n ast.Node) bool {
			switch x := n.(type) {
			case *ast.CallExpr:
				id := CalleeID(info, x)
				switch {
				case id == "builtin.make" && len(x.Args) >= 2:
					sz := x.Args[len(x.Args)-1]
					out = append(out, f.classifySize(v, x, "make", sz))
					if len(x.Args) == 3 {
						out = append(out, f.classifySize(v, x, "make", x.Args[1]))
					}
				case id == "io.CopyN" && len(x.Args) == 3:
					out = append(out, f.classifySize(v, x, "copyn", x.Args[2]))
				case id == "io.LimitReader" && len(x.Args) == 2:
					out = append(out, f.classifySize(v, x, "limit", x.Args[1]))
				}
			case *ast.SliceExpr:
				t := info.TypeOf(x.X)
				if pt, ok := t.Underlying().(*types.Pointer); ok {
					t = pt.Elem()
				}
				at, ok := t.Underlying().(*types.Array)
				if !ok {
					return true
				}
				for _, b := range []ast.Expr{x.Low, x.High} {
					if b == nil {
						continue
					}
					if tv, ok := info.Types[b]; ok && tv.Value != nil {
						continue
					}
					s := f.classifySize(v, x, "slice", b)
					s.Bound = itoa64(at.Len())
					out = append(out, s)
				}
			}
			return true
		})
	}
	return out
}

func itoa64(i int64) string {
	if i == 0 {
		return "0"
	}
	neg := i < 0
	if neg {
		i = -i
	}
	var b []byte
	for i > 0 {
		b = append([]byte{byte('0' + i%10)}, b...)
		i /= 10
	}
	if neg {
		b = append([]byte{'-'}, b...)
	}
	return string(b)
}

func narrowType(t types.Type) bool {
	b, ok := t.Underlying().(*types.Basic)
	if !ok {
		return false
	}
	switch b.Kind() {
	case types.Uint8, types.Uint16, types.Int8, types.Int16, types.Bool:
		return true
	}
	return false
}

// originNarrow reports whether every leaf of e is a constant, a len(), or a
// value of an 8/16-bit type (through conversions and arithmetic), following
// unique definitions of locals.
func (f *Func) originClass(e ast.Expr, depth int) (string, string) {
	info := f.Info()
	e = ast.Unparen(e)
	if tv, ok := info.Types[e]; ok && tv.Value != nil {
		return "const", tv.Value.ExactString()
	}
	if t := info.TypeOf(e); t != nil && narrowType(t) {
		return "narrow", types.TypeString(t, nil)
	}
	switch x := e.(type) {
	case *ast.CallExpr:
		if tv, ok := info.Types[x.Fun]; ok && tv.IsType() && len(x.Args) == 1 {
			return f.originClass(x.Args[0], depth)
		}
		switch CalleeID(info, x) {
		case "builtin.len", "builtin.cap":
			return "len", Text(x)
		case "builtin.min":
			// min(a, b): bounded if either is
			best, why := "unknown", ""
			for _, a := range x.Args {
				c, w := f.originClass(a, depth)
				if c != "unknown" && c != "param" {
					return c, "min(...," + w + ")"
				}
				best, why = c, w
			}
			return best, why
		}
		if sel, ok := x.Fun.(*ast.SelectorExpr); ok && sel.Sel.Name == "Len" {
			return "len", Text(x)
		}
	case *ast.BinaryExpr:
		switch x.Op {
		case token.ADD, token.SUB, token.MUL, token.QUO, token.REM, token.SHL, token.SHR, token.AND:
			c1, w1 := f.originClass(x.X, depth)
			c2, w2 := f.originClass(x.Y, depth)
			if x.Op == token.REM || x.Op == token.AND {
				if c2 == "const" {
					return "narrow", "reduced by constant " + w2
				}
			}
			if x.Op == token.QUO && c2 == "const" {
				return c1, w1 + " / " + w2
			}
			rank := map[string]int{"const": 0, "narrow": 1, "len": 2, "guarded": 3, "param": 4, "unknown": 5}
			if rank[c1] >= rank[c2] {
				return c1, w1
			}
			return c2, w2
		}
	case *ast.Ident:
		o := info.Uses[x]
		if v, ok := o.(*types.Var); ok {
			for fn := f; fn != nil; fn = fn.Parent {
				for _, p := range fn.Params(true) {
					if p == v {
						return "param", x.Name
					}
				}
			}
			if depth < 4 {
				if d := f.UniqueDef(x); d != nil {
					return f.originClass(d, depth+1)
				}
				// several plain definitions (e.g. a clamp): the worst of them
				if di := f.defs()[o]; di != nil && !di.dirty && len(di.calls) == 0 && len(di.exprs) > 1 {
					rank := map[string]int{"const": 0, "narrow": 1, "len": 2, "guarded": 3, "param": 4, "unknown": 5}
					worst, why := "const", ""
					for _, d := range di.exprs {
						c, w := f.originClass(d, depth+1)
						if rank[c] >= rank[worst] {
							worst, why = c, w
						}
					}
					return worst, why
				}
			}
		}
	case *ast.SelectorExpr:
		// field of narrow type handled above
	}
	return "unknown", Text(e)
}

func (f *Func) classifySize(v *flow.Vertex, node ast.Node, kind string, sz ast.Expr) SizeSite {
	s := SizeSite{Fn: f, V: v, Node: node, Kind: kind, Size: sz}
	s.Class, s.Why = f.originClass(sz, 0)
	if s.Class == "unknown" || s.Class == "param" {
		// dominated by an upper-bound comparison against a constant or a len?
		var ids []string
		ast.Inspect(sz, func(n ast.Node) bool {
			if id, ok := n.(*ast.Ident); ok {
				ids = append(ids, id.Name)
			}
			return true
		})
		for _, gd := range f.GuardsAt(Site{Fn: f, V: v, Node: node}) {
			for _, id := range ids {
				if strings.Contains(gd, id+" >") || strings.Contains(gd, id+" <") || strings.Contains(gd, "> "+id) || strings.Contains(gd, "< "+id) {
					s.Class, s.Why = "guarded", gd
				}
			}
		}
	}
	return s
}

// UpperBoundConst returns the smallest constant C such that every path to
// site s establishes idx <= C (through a dominating comparison of idx with a
// constant), if any.
func (f *Func) UpperBoundConst(s Site, idx ast.Expr) (int64, bool) {
	g := f.Graph()
	want := f.Canon(idx)
	best, found := int64(0), false
	for _, v := range g.V {
		if v.Kind != flow.KCond {
			continue
		}
		be, ok := ast.Unparen(v.Node.(ast.Expr)).(*ast.BinaryExpr)
		if !ok {
			continue
		}
		rel, ok := relOf(be.Op)
		if !ok {
			continue
		}
		var cst ast.Expr
		switch {
		case f.Canon(be.X) == want:
			cst = be.Y
		case f.Canon(be.Y) == want:
			cst = be.X
			rel = rel.swap()
		default:
			continue
		}
		tv, ok := f.Info().Types[cst]
		if !ok || tv.Value == nil {
			continue
		}
		c := constantInt(tv)
		if c == nil {
			continue
		}
		for _, e := range v.Out {
			if e.Kind != flow.ETrue && e.Kind != flow.EFalse {
				continue
			}
			r := rel
			if e.Kind == flow.EFalse {
				r = r.neg()
			}
			// r is the relation idx R c known on this edge
			var ub int64
			switch r {
			case LT:
				ub = *c - 1
			case LE, EQ:
				ub = *c
			default:
				continue
			}
			if g.Reach(g.Entry, flow.EdgeSet{e: true}, nil)[s.V] {
				continue // the edge does not dominate the site
			}
			if !found || ub < best {
				best, found = ub, true
			}
		}
	}
	return best, found
}

// NarrowMax returns the largest value an expression of 8/16-bit origin can
// take (through conversions and unique definitions), or 0 if unknown.
func (f *Func) NarrowMax(e ast.Expr, depth int) int64 {
	info := f.Info()
	e = ast.Unparen(e)
	if t := info.TypeOf(e); t != nil {
		if b, ok := t.Underlying().(*types.Basic); ok {
			switch b.Kind() {
			case types.Uint8:
				return 255
			case types.Int8:
				return 127
			case types.Uint16:
				return 65535
			case types.Int16:
				return 32767
			}
		}
	}
	switch x := e.(type) {
	case *ast.CallExpr:
		if tv, ok := info.Types[x.Fun]; ok && tv.IsType() && len(x.Args) == 1 {
			return f.NarrowMax(x.Args[0], depth)
		}
	case *ast.Ident:
		if depth < 4 {
			if d := f.UniqueDef(x); d != nil {
				return f.NarrowMax(d, depth+1)
			}
		}
	}
	return 0
}

// MakeElemSize returns the in-memory size of one element allocated by a
// make([]T, n) / make(map...) call, or 0.
func (f *Func) MakeElemSize(call *ast.CallExpr) int64 {
	t := f.Info().TypeOf(call)
	if t == nil {
		return 0
	}
	switch u := t.Underlying().(type) {
	case *types.Slice:
		return f.Pkg.TypesSizes.Sizeof(u.Elem())
	case *types.Map:
		return f.Pkg.TypesSizes.Sizeof(u.Key()) + f.Pkg.TypesSizes.Sizeof(u.Elem())
	}
	return 0
}

// ClampBound recognises the clamp idiom
//
//	if v > C { v = C }      (C a constant expression or a constant-valued local)
//
// on the variable e refers to, where the if statement precedes site s and v
// is not assigned afterwards; it returns the value of C.
func (f *Func) ClampBound(s Site, e ast.Expr) (int64, bool) {
	id, ok := Strip(f.Info(), e).(*ast.Ident)
	if !ok {
		return 0, false
	}
	info := f.Info()
	obj := info.Uses[id]
	var best int64
	found := false
	constOf := func(x ast.Expr) (int64, bool) {
		x = ast.Unparen(x)
		if tv, ok := info.Types[x]; ok && tv.Value != nil {
			if c := constantInt(tv); c != nil {
				return *c, true
			}
		}
		if xi, ok := x.(*ast.Ident); ok {
			if d := f.UniqueDef(xi); d != nil {
				if tv, ok := info.Types[d]; ok && tv.Value != nil {
					if c := constantInt(tv); c != nil {
						return *c, true
					}
				}
			}
		}
		return 0, false
	}
	ast.Inspect(f.Body, func(n ast.Node) bool {
		ifs, ok := n.(*ast.IfStmt)
		if !ok || ifs.Else != nil || len(ifs.Body.List) != 1 || ifs.End() > s.Node.Pos() {
			return true
		}
		be, ok := ast.Unparen(ifs.Cond).(*ast.BinaryExpr)
		if !ok || (be.Op != token.GTR && be.Op != token.GEQ) {
			return true
		}
		l, ok := ast.Unparen(be.X).(*ast.Ident)
		if !ok || info.Uses[l] != obj {
			return true
		}
		as, ok := ifs.Body.List[0].(*ast.AssignStmt)
		if !ok || len(as.Lhs) != 1 || len(as.Rhs) != 1 || as.Tok != token.ASSIGN {
			return true
		}
		al, ok := as.Lhs[0].(*ast.Ident)
		if !ok || info.Uses[al] != obj {
			return true
		}
		c1, ok1 := constOf(be.Y)
		c2, ok2 := constOf(as.Rhs[0])
		if !ok1 || !ok2 || c2 > c1 {
			return true
		}
		// no assignment to v between the clamp and the site
		later := false
		ast.Inspect(f.Body, func(m ast.Node) bool {
			if a2, ok := m.(*ast.AssignStmt); ok && a2.Pos() > ifs.End() && a2.End() <= s.Node.Pos() {
				for _, lh := range a2.Lhs {
					if li, ok := lh.(*ast.Ident); ok && info.Uses[li] == obj {
						later = true
					}
				}
			}
			return true
		})
		if later {
			return true
		}
		if !found || c1 < best {
			best, found = c1, true
		}
		return true
	})
	return best, found
}
