package shachain

// Probe A2 (property C06). Run:
//   go test -count=1 -run TestProbeA2LastIndex -v ./shachain/
//
// Suspicion: maxHeight = 48 (element.go) and RevocationStore.buckets is
// [maxHeight]element (store.go), i.e. 48 buckets instead of the 49 of BOLT-3.
// The 2^48-th secret (shachain index 0, 48 trailing zeros, the root of the
// chain) passes the derivation loop of AddNextEntry and then indexes
// buckets[48].
//
// Observed on the unmodified tree:
//   PANIC at last index: runtime error: index out of range [48] with length 48
//
// With the repair (buckets [maxHeight+1]element) the last secret is stored,
// every earlier secret is still reproduced, a secret that is not the root is
// refused at that position, and the 49-bucket store survives Encode/decode.

import (
	"bytes"
	"testing"

	"github.com/btcsuite/btcd/chainhash/v2"
)

// almostFullStore builds the store as it looks after 2^48-1 genuine secrets of
// the chain with the given root: bucket i holds the element with index 2^i,
// the next index to fill is 0.
func almostFullStore(t *testing.T, root *element) *RevocationStore {
	s := NewRevocationStore()
	for i := uint8(0); i < maxHeight; i++ {
		e, err := root.derive(index(1) << i)
		if err != nil {
			t.Fatal(err)
		}
		s.buckets[i] = *e
	}
	s.lenBuckets = maxHeight
	s.index = 0

	return s
}

func TestProbeA2LastIndex(t *testing.T) {
	defer func() {
		if r := recover(); r != nil {
			t.Fatalf("PANIC at last index: %v", r)
		}
	}()

	root := &element{index: rootIndex, hash: chainhash.Hash{1}}

	// A secret which is not the root of the chain is refused.
	s := almostFullStore(t, root)
	bad := root.hash
	bad[7] ^= 1
	if err := s.AddNextEntry(&bad); err == nil {
		t.Fatalf("corrupted last secret accepted")
	}

	// The last secret of the chain is the root itself.
	s = almostFullStore(t, root)
	if err := s.AddNextEntry(&root.hash); err != nil {
		t.Fatalf("genuine last secret refused: %v", err)
	}

	check := func(s *RevocationStore) {
		// The k-th secret has the index startIndex-k.
		ks := []uint64{
			0, 1, 2, 12345, 1 << 20, 1<<47 - 1, 1 << 47,
			1<<48 - 2, 1<<48 - 1,
		}
		for _, k := range ks {
			want, err := root.derive(newIndex(k))
			if err != nil {
				t.Fatal(err)
			}
			got, err := s.LookUp(k)
			if err != nil {
				t.Fatalf("LookUp(%d): %v", k, err)
			}
			if *got != want.hash {
				t.Fatalf("LookUp(%d) returns a wrong secret", k)
			}
		}
	}
	check(s)

	var b bytes.Buffer
	if err := s.Encode(&b); err != nil {
		t.Fatal(err)
	}
	if want := 1 + 49*(8+32) + 8; b.Len() != want {
		t.Fatalf("encoded length %d, want %d", b.Len(), want)
	}
	s2, err := NewRevocationStoreFromBytes(&b)
	if err != nil {
		t.Fatalf("decode of the full store: %v", err)
	}
	check(s2)
}
