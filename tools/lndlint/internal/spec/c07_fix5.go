package spec

import (
	"go/ast"
	"go/token"
	"go/types"
	"regexp"
	"strings"

	"lndlint/internal/an"
	"lndlint/internal/flow"
)

func init() {
	specExtras["C07"] = append(specExtras["C07"], c07f5Rules)
}

// c07f5Lookup is a comma-ok map lookup `val, ok := M[K]` (or `=`) of a
// function.
type c07f5Lookup struct {
	site     an.Site
	stmt     *ast.AssignStmt
	mapX     ast.Expr
	mapCanon string
	keyCanon string
	val, ok  types.Object
}

func c07f5ObjOf(info *types.Info, e ast.Expr) types.Object {
	id, isID := ast.Unparen(e).(*ast.Ident)
	if !isID || id.Name == "_" {
		return nil
	}
	if d := info.Defs[id]; d != nil {
		return d
	}
	return info.Uses[id]
}

// c07f5Lookups lists the comma-ok map lookups of f's own flow graph.
func c07f5Lookups(f *an.Func) []c07f5Lookup {
	info := f.Info()
	var out []c07f5Lookup
	for _, v := range f.Graph().V {
		as, isAs := v.Node.(*ast.AssignStmt)
		if !isAs || len(as.Lhs) != 2 || len(as.Rhs) != 1 {
			continue
		}
		ix, isIx := ast.Unparen(as.Rhs[0]).(*ast.IndexExpr)
		if !isIx {
			continue
		}
		if t := info.TypeOf(ix.X); t == nil {
			continue
		} else if _, isMap := t.Underlying().(*types.Map); !isMap {
			continue
		}
		out = append(out, c07f5Lookup{
			site: an.Site{Fn: f, V: v, Node: as}, stmt: as, mapX: ix.X,
			mapCanon: f.Canon(ix.X), keyCanon: f.Canon(ix.Index),
			val: c07f5ObjOf(info, as.Lhs[0]), ok: c07f5ObjOf(info, as.Lhs[1]),
		})
	}
	return out
}

// c07f5ObjTerm matches an identifier that refers to obj.
func c07f5ObjTerm(obj types.Object) an.Term {
	return func(f *an.Func, e ast.Expr) bool {
		id, ok := e.(*ast.Ident)
		return ok && obj != nil && (f.Info().Uses[id] == obj || f.Info().Defs[id] == obj)
	}
}

// c07f5LookupAnswer is the fact "the lookup answered want": the condition
// tests the very `ok` the lookup bound, and nothing else writes that variable.
func c07f5LookupAnswer(f *an.Func, lk c07f5Lookup, want bool, desc string) an.Fact {
	clean := lk.ok != nil
	if clean {
		for _, st := range c04Overwrites(f, lk.ok) {
			if st != ast.Node(lk.stmt) {
				clean = false
			}
		}
	}
	return an.Fact{Desc: desc, Hold: func(fn *an.Func, e *flow.Edge) bool {
		if !clean || e.From.Kind != flow.KCond || (e.Kind != flow.ETrue && e.Kind != flow.EFalse) || (e.Kind == flow.ETrue) != want {
			return false
		}
		id, isID := ast.Unparen(e.From.Node.(ast.Expr)).(*ast.Ident)
		return isID && fn.Info().Uses[id] == lk.ok
	}}
}

// c07f5Open is what the rules about circuitMap.OpenCircuits need to know of
// its checking loop.
type c07f5Open struct {
	f       *an.Func
	loop    *ast.RangeStmt
	body    *flow.Vertex
	admit   an.Site // the append that admits a keystone's circuit to the batch
	lookups []c07f5Lookup
}

const (
	c07f5OutKey = `$elem($p0).OutKey`
	c07f5InKey  = `$elem($p0).InKey`
)

// c07f5OpenShape finds the checking loop of OpenCircuits (the range over its
// variadic parameter in the function's own flow graph) and the one append in
// it.
func c07f5OpenShape(o *an.Obl, g *an.Func) *c07f5Open {
	sh := &c07f5Open{f: g, lookups: c07f5Lookups(g)}
	for _, v := range g.Graph().V {
		rs, isR := v.Node.(*ast.RangeStmt)
		if !isR || v.Kind != flow.KRange || g.Canon(rs.X) != "$p0" {
			continue
		}
		if sh.loop != nil {
			o.FailAt(g.ID+"#check-loops", g.Where(rs.Pos()), "OpenCircuits walks its keystones in more than one loop before the write")
			return nil
		}
		sh.loop = rs
		for _, e := range v.Out {
			if e.Kind == flow.ERangeIn {
				sh.body = e.To
			}
		}
	}
	if sh.loop == nil || sh.body == nil {
		o.FailAt(g.ID+"#check-loop", g.Where(g.Body.Pos()), "cannot find the loop in which OpenCircuits checks its keystones")
		return nil
	}
	var admits []an.Site
	for _, v := range g.Graph().V {
		as, isAs := v.Node.(*ast.AssignStmt)
		if !isAs || len(as.Lhs) != 1 || len(as.Rhs) != 1 || !isAppend(g, as.Rhs[0]) {
			continue
		}
		if as.Pos() < sh.loop.Body.Pos() || as.End() > sh.loop.Body.End() {
			continue
		}
		admits = append(admits, an.Site{Fn: g, V: v, Node: as})
	}
	if !needExactly(o, g, "append of a checked circuit to the batch", admits, 1) {
		return nil
	}
	sh.admit = admits[0]
	return sh
}

func (sh *c07f5Open) lookup(mapRe, keyCanon string) *c07f5Lookup {
	re := regexp.MustCompile(mapRe)
	for i := range sh.lookups {
		lk := &sh.lookups[i]
		if lk.stmt.Pos() < sh.loop.Body.Pos() || lk.stmt.End() > sh.loop.Body.End() {
			continue
		}
		if re.MatchString(lk.mapCanon) && lk.keyCanon == keyCanon {
			return lk
		}
	}
	return nil
}

// c07f5OpenedKeyFree is the duplicate check memory-follows-disk has always
// demanded, in the form that survives the repair d742950: a keystone's
// circuit is admitted to the batch only where the lookup of the keystone's
// outgoing key in `opened` answered "not there".
func c07f5OpenedKeyFree(o *an.Obl, g *an.Func) {
	sh := c07f5OpenShape(o, g)
	if sh == nil {
		return
	}
	lk := sh.lookup(`^\$recv\.opened$`, c07f5OutKey)
	if lk == nil {
		o.FailAt(g.ID+"#dup-check", g.Where(sh.loop.Pos()), "OpenCircuits does not look the keystone's outgoing key up in `opened` before admitting it to the batch")
		return
	}
	guarded(o, g, sh.admit, c07f5LookupAnswer(g, *lk, false, "no circuit is open under the keystone's outgoing key (opened[ks.OutKey] absent)"))
}

// c07f5BatchSet: the batch-local set (a map made before the loop) in which
// OpenCircuits remembers the keys of one side it has admitted so far.
func (sh *c07f5Open) batchSet(o *an.Obl, side, keyCanon string) {
	g := sh.f
	info := g.Info()
	var lk *c07f5Lookup
	for i := range sh.lookups {
		c := &sh.lookups[i]
		if c.keyCanon != keyCanon || c.stmt.Pos() < sh.loop.Body.Pos() || c.stmt.End() > sh.loop.Body.End() {
			continue
		}
		id, isID := ast.Unparen(c.mapX).(*ast.Ident)
		if !isID {
			continue
		}
		def := g.UniqueDef(id)
		call, isCall := def.(*ast.CallExpr)
		if def == nil || !isCall || an.CalleeID(info, call) != "builtin.make" || def.Pos() > sh.loop.Pos() {
			continue
		}
		lk = c
	}
	if lk == nil {
		o.FailAt(g.ID+"#batch-"+side+"-keys", g.Where(sh.loop.Pos()), "OpenCircuits does not test the %s key of a keystone against the %s keys admitted earlier in the same batch (no lookup of %s in a set made before the loop): `opened` and the circuits are only updated after the batch is written, so one batch can bind a key twice", side, side, keyCanon)
		return
	}
	setObj := c07f5ObjOf(info, lk.mapX)
	guarded(o, g, sh.admit, c07f5LookupAnswer(g, *lk, false, "the "+side+" key was not admitted earlier in this batch"))
	// the set is filled, with that key, on the way to the admission
	var ins []an.Site
	for _, s := range g.Assigns(an.Index(c07f5ObjTerm(setObj), an.Any()), false) {
		as := s.Node.(*ast.AssignStmt)
		ix := ast.Unparen(as.Lhs[0]).(*ast.IndexExpr)
		if as.Pos() < sh.loop.Body.Pos() || as.End() > sh.loop.Body.End() {
			continue
		}
		if k := g.Canon(ix.Index); k != keyCanon {
			o.FailAt(g.ID+"#batch-"+side+"-keys-filled-with", s.Where(), "the set of %s keys of this batch is filled with %s, expected the key it is tested with (%s)", side, k, keyCanon)
			continue
		}
		ins = append(ins, s)
	}
	mustDoUnlessFrom(o, g, sh.body, "recording the "+side+" key in the batch set", ins, []an.Site{sh.admit})
	// ... and never emptied
	for _, s := range g.Calls(an.CalleeIs("builtin.delete", "builtin.clear"), true) {
		if a := s.Node.(*ast.CallExpr).Args; len(a) > 0 && c07f5ObjTerm(setObj)(s.Fn, ast.Unparen(a[0])) {
			o.FailAt(g.ID+"#batch-"+side+"-keys-emptied", s.Where(), "the set of %s keys of this batch is emptied: %s", side, s.String())
		}
	}
}

// c07f5HashIndexOrder: the hash index is keyed by the circuit's outgoing key
// (c.OutKey() reads c.Outgoing): an entry is removed before Outgoing is
// written and added after it.
func c07f5HashIndexOrder(o *an.Obl, p *an.Prog) int {
	n := 0
	for _, f := range p.Funcs(false, "htlcswitch") {
		if f.Lit != nil || !strings.HasPrefix(f.ID, hs+"circuitMap.") {
			continue
		}
		for _, kind := range []string{"removeCircuitFromHashIndex", "addCircuitToHashIndex"} {
			for _, c := range f.Calls(an.CalleeIs(hs+"circuitMap."+kind), false) {
				arg := callArg(c, 0)
				argObj := c07f5ObjOf(f.Info(), arg)
				if argObj == nil {
					continue
				}
				// writes of <that circuit>.Outgoing (also through the pointer)
				var writes []an.Site
				for _, w := range f.Assigns(func(fn *an.Func, e ast.Expr) bool {
					sel, ok := e.(*ast.SelectorExpr)
					return ok && sel.Sel.Name == "Outgoing" && c07f5ObjOf(fn.Info(), sel.X) == argObj
				}, false) {
					writes = append(writes, w)
				}
				if len(writes) == 0 {
					continue
				}
				n++
				from := f.Graph().Entry
				if rs := c07f5EnclosingRange(f, c.Node); rs != nil {
					for _, v := range f.Graph().V {
						if v.Node == ast.Node(rs) && v.Kind == flow.KRange {
							for _, e := range v.Out {
								if e.Kind == flow.ERangeIn {
									from = e.To
								}
							}
						}
					}
				}
				if kind == "removeCircuitFromHashIndex" {
					mustDoUnlessFrom(o, f, from, "removing the circuit from the hash index", []an.Site{c}, writes)
				} else {
					for _, w := range writes {
						mustDoUnlessFrom(o, f, from, "setting the circuit's outgoing key ("+an.Text(w.Node)+")", []an.Site{w}, []an.Site{c})
					}
				}
			}
		}
	}
	return n
}

func c07f5EnclosingRange(f *an.Func, n ast.Node) *ast.RangeStmt {
	var best *ast.RangeStmt
	ast.Inspect(f.Body, func(x ast.Node) bool {
		if rs, ok := x.(*ast.RangeStmt); ok && rs.Body.Pos() <= n.Pos() && n.End() <= rs.Body.End() {
			best = rs
		}
		return true
	})
	return best
}

func c07f5Rules(r *an.Run) {
	p := r.Prog

	r.Obl("open-circuits-batch-binds-fresh-keys", "GUARD",
		"circuitMap.OpenCircuits checks all keystones in one loop over its parameter, in its own flow graph and before the keystone write; the loop is left only when exhausted or by a failing return and every iteration ends in the one append that admits the keystone's circuit to the batch; that append takes the circuit found in `pending` under the keystone's incoming key (lookup answered true) and is reached only where (1) the keystone's outgoing key was looked up in a set made before the loop and not found, (2) its incoming key likewise, each set being filled with the tested key on every path from the start of the iteration to the append and never emptied, and (3) the circuit found has no keystone or its outgoing key equals the keystone's (that the outgoing key is free in `opened` is demanded by memory-follows-disk)",
		"`opened` and circuit.Outgoing are updated only after the batch is written: without the batch sets one call binds an outgoing key to two incoming HTLCs (the response is relayed to the wrong one) or an incoming HTLC to two outgoing keys; a circuit that already has another keystone would leave that keystone orphaned in memory and on disk, and after a restart the circuit comes back under a key whose HTLC was never its own", 10,
		func(o *an.Obl) {
			g := p.Func(hs + "circuitMap.OpenCircuits")
			sh := c07f5OpenShape(o, g)
			if sh == nil {
				return
			}
			notReassigned(o, g, g.Params(false)[0].Name())
			loopVisitsAll(o, g, `^\$p0$`)
			everyIteration(o, g, `^\$p0$`, []an.Site{sh.admit}, "the admission of the keystone's circuit")
			// the write comes after the loop
			upd := g.Calls(kvUpdate, false)
			if needExactly(o, g, "keystone write", upd, 1) {
				if upd[0].Node.Pos() < sh.loop.End() {
					o.FailAt(g.ID+"#write-inside-check-loop", upd[0].Where(), "the keystone write happens before all keystones were checked")
				}
			}
			// the circuit admitted is the one pending under the incoming key
			pl := sh.lookup(`^\$recv\.pending$`, c07f5InKey)
			if pl == nil || pl.val == nil {
				o.FailAt(g.ID+"#pending-lookup", g.Where(sh.loop.Pos()), "OpenCircuits does not look the circuit up in `pending` under the keystone's incoming key")
				return
			}
			guarded(o, g, sh.admit, c07f5LookupAnswer(g, *pl, true, "a circuit is pending under the keystone's incoming key"))
			call := sh.admit.Node.(*ast.AssignStmt).Rhs[0].(*ast.CallExpr)
			if len(call.Args) != 2 || c07f5ObjOf(g.Info(), call.Args[1]) != pl.val {
				o.FailAt(g.ID+"#admits-other-circuit", sh.admit.Where(), "the batch is extended by %s, expected the circuit found under the keystone's incoming key", an.Text(call))
			}
			for _, st := range c04Overwrites(g, pl.val) {
				if st != ast.Node(pl.stmt) {
					o.FailAt(g.ID+"#circuit-overwritten", g.Where(st.Pos()), "OpenCircuits overwrites the circuit it found: %s", an.Text(st))
				}
			}
			sh.batchSet(o, "outgoing", c07f5OutKey)
			sh.batchSet(o, "incoming", c07f5InKey)
			// (3) no other keystone on the circuit
			circ := c07f5ObjTerm(pl.val)
			hasKs := an.CallNamed("HasKeystone", circ)
			sameOut := an.Cmp(an.CallNamed("OutKey", circ), an.EQ, canonTerm(`^`+regexpQuote(c07f5OutKey)+`$`), "")
			other := func(fn *an.Func, e ast.Expr) bool {
				be, ok := e.(*ast.BinaryExpr)
				if !ok || be.Op != token.LAND {
					return false
				}
				ne := func(x ast.Expr) bool {
					c, ok := ast.Unparen(x).(*ast.BinaryExpr)
					if !ok || c.Op != token.NEQ {
						return false
					}
					return an.Match(fn, an.CallNamed("OutKey", circ), c.X) && fn.Canon(c.Y) == c07f5OutKey ||
						an.Match(fn, an.CallNamed("OutKey", circ), c.Y) && fn.Canon(c.X) == c07f5OutKey
				}
				return an.Match(fn, hasKs, be.X) && ne(be.Y) || an.Match(fn, hasKs, be.Y) && ne(be.X)
			}
			guarded(o, g, sh.admit, an.AnyOf("the circuit has no keystone, or its outgoing key is the keystone's",
				an.Truth(hasKs, false, ""), sameOut, an.Truth(other, false, "")))
		})

	r.Obl("trim-covers-every-keystone-of-the-channel", "GUARD",
		"circuitMap.TrimOpenCircuits removes keystones from `opened` only inside a range over `opened` itself, with the key of that range; an iteration skips the removal only where that key's ChanID differs from the channel parameter or its HtlcID is below the start parameter, and the loop is never left early; the removed keys are collected (one append per removal) for the write; in every circuitMap function that calls removeCircuitFromHashIndex(c) and writes c.Outgoing the call comes first within the iteration, and where it calls addCircuitToHashIndex(c) the write of c.Outgoing comes first (the index is keyed by c.OutKey())",
		"keystones of HTLCs that never reached a commitment must all be rolled back: a scan that counts up from the start index stops at the first gap (a circuit purged because its incoming channel closed), keystones above it survive, their re-forwards are dropped instead of failed back and the next HTLC numbered there hits ErrDuplicateKeystone; a hash index entry looked up after the outgoing key was cleared is never removed and LookupByPaymentHash keeps returning the trimmed circuit", 8,
		func(o *an.Obl) {
			f := p.Func(hs + "circuitMap.TrimOpenCircuits")
			var dels []an.Site
			for _, s := range f.Calls(an.CalleeIs("builtin.delete"), false) {
				if a := f.ArgCanon(s); a[0] == "$recv.opened" {
					dels = append(dels, s)
				}
			}
			if !needExactly(o, f, "delete from opened", dels, 1) {
				return
			}
			const key = `$key($recv.opened)`
			if a := f.ArgCanon(dels[0]); a[1] != key {
				o.FailAt(f.ID+"#trims-computed-key", dels[0].Where(), "TrimOpenCircuits removes opened[%s]; expected the key of a range over `opened` (%s): a key computed by counting misses the keystones behind a gap", a[1], key)
				return
			}
			if hdr := enclosingLoopHeader(f, dels[0].Node); hdr != "$recv.opened" {
				o.FailAt(f.ID+"#trim-loop", dels[0].Where(), "the removal sits in a loop over %q, expected a range over `opened`", hdr)
				return
			}
			notReassigned(o, f, f.Params(false)[0].Name(), f.Params(false)[1].Name())
			loopVisitsAll(o, f, `^\$recv\.opened$`)
			kre := regexpQuote(key)
			skip := an.AnyOf("the keystone belongs to another channel or lies below the start index",
				an.Cmp(canonTerm(`^`+kre+`\.ChanID$`), an.NE, an.Param(0), ""),
				an.CmpX(canonTerm(`^`+kre+`\.HtlcID$`), an.LT, an.Param(1), ""))
			everyIterationOr(o, f, `^\$recv\.opened$`, dels, skip, "the removal of the keystone")
			guarded(o, f, dels[0], an.Cmp(canonTerm(`^`+kre+`\.ChanID$`), an.EQ, an.Param(0), "the keystone's channel is the one being trimmed"))
			guarded(o, f, dels[0], an.CmpX(canonTerm(`^`+kre+`\.HtlcID$`), an.GE, an.Param(1), "the keystone's HTLC id is at or above the start index"))
			// each removal is recorded for the write
			var rec []an.Site
			for _, v := range f.Graph().V {
				as, isAs := v.Node.(*ast.AssignStmt)
				if isAs && len(as.Rhs) == 1 && isAppend(f, as.Rhs[0]) {
					if c := as.Rhs[0].(*ast.CallExpr); len(c.Args) == 2 && f.Canon(c.Args[1]) == key {
						rec = append(rec, an.Site{Fn: f, V: v, Node: as})
					}
				}
			}
			if needExactly(o, f, "append of the removed key to the list that is written", rec, 1) {
				everyIterationOr(o, f, `^\$recv\.opened$`, rec, skip, "recording the removed key")
			}
			if n := c07f5HashIndexOrder(o, p); n < 2 {
				o.FailAt(hs+"circuitMap#hash-index-order-sites", "", "expected at least two functions that update the hash index next to a write of the circuit's outgoing key (TrimOpenCircuits, OpenCircuits), found %d", n)
			}
		})

	r.Obl("nil-admitting-packet-circuit-is-never-dereferenced-unguarded", "GUARD",
		"in htlcswitch, a function that compares the circuit of a packet parameter ($pN.circuit, also through a uniquely defined local) with nil admits a packet without circuit: every selection through that pointer in the function (field or method) is dominated by `!= nil`",
		"teardownCircuit runs for responses whose circuit could not be looked up; its error path logged pkt.circuit.PaymentHash and panicked exactly when the circuit map refused the deletion, taking the switch down in the middle of a batch of responses", 2,
		func(o *an.Obl) {
			nFn := 0
			for _, f := range p.Funcs(false, "htlcswitch") {
				if f.Lit != nil {
					continue
				}
				tested := map[string]bool{}
				for _, v := range f.Graph().V {
					if v.Kind != flow.KCond {
						continue
					}
					be, ok := ast.Unparen(v.Node.(ast.Expr)).(*ast.BinaryExpr)
					if !ok || (be.Op != token.EQL && be.Op != token.NEQ) {
						continue
					}
					for _, pair := range [][2]ast.Expr{{be.X, be.Y}, {be.Y, be.X}} {
						if an.IsNilIdent(f.Info(), pair[1]) {
							if c := f.Canon(pair[0]); reMatch(`^\$p\d+\.circuit$`, c) {
								if !tested[c] {
									o.Site("%s tests %s for nil at %s", f.ID, c, f.Where(v.Pos()))
								}
								tested[c] = true
							}
						}
					}
				}
				if len(tested) == 0 {
					continue
				}
				nFn++
				for _, v := range f.Graph().V {
					v.Inspect(false, func(n ast.Node) bool {
						sel, ok := n.(*ast.SelectorExpr)
						if !ok {
							return true
						}
						c := f.Canon(sel.X)
						if !tested[c] {
							return true
						}
						if _, isPtr := f.Info().TypeOf(sel.X).Underlying().(*types.Pointer); !isPtr {
							return true
						}
						s := an.Site{Fn: f, V: v, Node: sel}
						guarded(o, f, s, an.IsNil(canonTerm(`^`+regexpQuote(c)+`$`), false, an.Text(sel.X)+" != nil"))
						return true
					})
				}
			}
			if nFn < 1 {
				o.FailAt(hs+"Switch.teardownCircuit#nil-test", "", "no function of htlcswitch tests a packet's circuit for nil any more (teardownCircuit did)")
			}
		})

	r.Obl("startup-trim-covers-channels-waiting-to-close", "ROLE",
		"htlcswitch.New builds exactly one CircuitMapConfig and gives it, as the channel fetcher trimAllOpenCircuits ranges over (FetchAllOpenChannels), the FetchAllChannels function of the switch configuration it was handed; no non-test code of htlcswitch reads Config.FetchAllOpenChannels (the switch's own start-up scan, reforwardResponses, uses FetchAllChannels as well); where the whole module is loaded, every htlcswitch.Config literal sets FetchAllChannels to a method named FetchAllChannels",
		"a channel whose close was broadcast never gets a link that would trim its own keystones, and an HTLC that was never signed is unknown to the contract court: unless the start-up trim covers waiting-close channels the keystone stays, the incoming re-forward is dropped, and the incoming HTLC is neither failed back nor settled until the channel is fully closed and the node restarted once more", 2,
		func(o *an.Obl) {
			nf := p.Func(hs + "New")
			T := p.LookupType("htlcswitch", "CircuitMapConfig")
			n := 0
			for _, cl := range p.CompositeLitsOf(T) {
				if cl.Fn == nil || cl.Fn.Root().ID != nf.ID {
					continue
				}
				n++
				got := "<absent>"
				for _, el := range cl.Node.(*ast.CompositeLit).Elts {
					if kv, ok := el.(*ast.KeyValueExpr); ok && an.Text(kv.Key) == "FetchAllOpenChannels" {
						got = cl.Fn.Canon(kv.Value)
					}
				}
				o.Site("%s: CircuitMapConfig.FetchAllOpenChannels = %s", cl.Where, got)
				if got != "$p0.FetchAllChannels" {
					o.FailAt(nf.ID+"#trim-fetcher", cl.Where, "the circuit map's start-up trim is given %s as its channel list, expected the switch configuration's FetchAllChannels (open and waiting-close channels)", got)
				}
			}
			if n != 1 {
				o.FailAt(nf.ID+"#circuit-map-config", nf.Where(nf.Body.Pos()), "expected one CircuitMapConfig literal in htlcswitch.New, found %d", n)
			}
			notReassigned(o, nf, nf.Params(false)[0].Name())
			if fld := p.Field("htlcswitch", "Config", "FetchAllOpenChannels"); fld != nil {
				for _, ref := range p.RefsTo(fld, false) {
					if ref.Fn == nil || an.IsTestish(ref.Fn.Filename()) {
						continue
					}
					if _, isKV := c07f5KeyOfLiteral(ref.Fn, ref.Node); isKV {
						continue // a literal that sets the field
					}
					o.FailAt(ref.Fn.Root().ID+"#open-channels-only", ref.Where, "%s uses the switch's FetchAllOpenChannels: a start-up scan over the channels in the default state misses the channels waiting to close", ref.Fn.Root().ID)
				}
			}
			// the wiring (whole-module runs only)
			w := r.Wide()
			if CT := w.LookupType("htlcswitch", "Config"); CT != nil {
				for _, cl := range w.CompositeLitsOf(CT) {
					if cl.Fn == nil || an.IsTestish(cl.Fn.Filename()) {
						continue
					}
					for _, el := range cl.Node.(*ast.CompositeLit).Elts {
						kv, ok := el.(*ast.KeyValueExpr)
						if !ok || an.Text(kv.Key) != "FetchAllChannels" {
							continue
						}
						o.Site("%s: htlcswitch.Config.FetchAllChannels = %s", cl.Where, an.Text(kv.Value))
						sel, isSel := ast.Unparen(kv.Value).(*ast.SelectorExpr)
						if !isSel || sel.Sel.Name != "FetchAllChannels" {
							o.FailAt(cl.Fn.Root().ID+"#switch-config-fetcher", cl.Where, "htlcswitch.Config.FetchAllChannels is set to %s, expected a FetchAllChannels method (all channels, not only the open ones)", an.Text(kv.Value))
						}
					}
				}
			}
		})

	r.Obl("parked-packets-are-handed-over-once", "PATH",
		"every mailOrchestrator method that hands packets parked in unclaimedPackets[K] to a mailbox (AddPacket of an element of that entry) deletes the entry unclaimedPackets[K], with the same key, before it delivers",
		"responses replayed at start-up are parked until the incoming link registers; the mailbox de-duplicates only while a packet is un-acked: an entry that is not removed is delivered again at every later registration of the link, after the first copy was committed and acked, and does not pass closeCircuit again: a second settle-or-fail reaches the incoming channel", 2,
		func(o *an.Obl) {
			n := 0
			for _, f := range p.Funcs(false, "htlcswitch") {
				if f.Lit != nil || !strings.HasPrefix(f.ID, hs+"mailOrchestrator.") {
					continue
				}
				for _, s := range f.Calls(an.CalleeNamed("AddPacket"), true) {
					m := regexp.MustCompile(`^\$elem\(\$recv\.unclaimedPackets\[(.+)\]\)$`).FindStringSubmatch(s.Fn.Canon(callArg(s, 0)))
					if m == nil {
						continue
					}
					n++
					o.Site("%s delivers the packets parked under %s: %s", f.ID, m[1], s.String())
					var dels []an.Site
					for _, d := range f.Calls(an.CalleeIs("builtin.delete"), false) {
						if a := f.ArgCanon(d); a[0] == "$recv.unclaimedPackets" && a[1] == m[1] {
							dels = append(dels, d)
						}
					}
					if s.Fn != f {
						o.FailAt(f.ID+"#delivery-in-closure", s.Where(), "the parked packets are delivered inside a function literal; the order with the removal of the entry cannot be decided")
						continue
					}
					before(o, f, "delete(unclaimedPackets, "+m[1]+")", dels, "delivery of the parked packets", []an.Site{s})
				}
			}
			if n < 1 {
				o.FailAt(hs+"mailOrchestrator#parked-delivery", "", "no delivery of parked packets found in mailOrchestrator (BindLiveShortChanID did)")
			}
		})
}

// c07f5KeyOfLiteral reports whether the identifier node is the key of a
// key-value element of a composite literal in fn.
func c07f5KeyOfLiteral(fn *an.Func, node ast.Node) (*ast.KeyValueExpr, bool) {
	var out *ast.KeyValueExpr
	ast.Inspect(fn.Root().Body, func(n ast.Node) bool {
		if kv, ok := n.(*ast.KeyValueExpr); ok && ast.Node(kv.Key) == node {
			out = kv
		}
		return out == nil
	})
	return out, out != nil
}
