package spec

import (
	"go/ast"
	"go/types"
	"sort"
	"strings"

	"lndlint/internal/an"
	"lndlint/internal/flow"
)

// c19LocalDef is one place where a named local of a function receives a value:
// an assignment (=, :=, op=), an inc/dec statement, a `var` specification
// (with or without value) or a range clause.
type c19LocalDef struct {
	Tok  string   // "=", ":=", "+=", ..., "++", "--", "var" (ValueSpec with a value), "zero" (ValueSpec without), "range"
	Rhs  ast.Expr // the value expression; nil for ++/--, zero, range and tuple assignments from one call
	Node ast.Node // the statement / specification
	Fn   *an.Func // the innermost function (literal) holding Node
	Obj  types.Object
}

// form renders a definition as "<tok> <rhs text>" ("var" prints as "=").
func (d c19LocalDef) form() string {
	tok := d.Tok
	if tok == "var" || tok == ":=" {
		tok = "="
	}
	if d.Rhs == nil {
		return tok
	}
	return tok + " " + an.Text(d.Rhs)
}

// site returns the flow vertex evaluating the definition.
func (d c19LocalDef) site() an.Site { return c19SiteFor(d.Fn, d.Node) }

// siteFor returns the site of the innermost vertex of fn that contains n.
func c19SiteFor(fn *an.Func, n ast.Node) an.Site {
	var best *flow.Vertex
	for _, v := range fn.Graph().V {
		if v.Node == nil || v.Node.Pos() > n.Pos() || v.Node.End() < n.End() {
			continue
		}
		if best == nil || (v.Node.End()-v.Node.Pos()) < (best.Node.End()-best.Node.Pos()) {
			best = v
		}
	}
	return an.Site{Fn: fn, V: best, Node: n}
}

// innermost returns the function literal of root (or root itself) whose body
// holds n.
func c19Innermost(root *an.Func, n ast.Node) *an.Func {
	best := root
	for _, lf := range root.Lits {
		if lf.Body.Pos() <= n.Pos() && n.End() <= lf.Body.End() {
			if best == root || (lf.Body.End()-lf.Body.Pos()) < (best.Body.End()-best.Body.Pos()) {
				best = lf
			}
		}
	}
	return best
}

// localDefs lists every definition of the locals called name inside the body
// of fn (nested literals included), together with the distinct variables of
// that name it saw: more than one variable means the name is shadowed and a
// rule that reads the name sees only one of them.
func c19LocalDefs(fn *an.Func, name string) (objs []types.Object, defs []c19LocalDef) {
	return c19DefsIn(fn, fn.Body, func(id *ast.Ident, _ types.Object) bool { return id.Name == name })
}

// c19DefsIn is c19LocalDefs for the variables selected by match, looking at
// the statements below body only.
func c19DefsIn(fn *an.Func, body ast.Node, match func(*ast.Ident, types.Object) bool) (objs []types.Object, defs []c19LocalDef) {
	info := fn.Info()
	seen := map[types.Object]bool{}
	varOf := func(e ast.Expr) types.Object {
		id, ok := ast.Unparen(e).(*ast.Ident)
		if !ok {
			return nil
		}
		if o := info.Defs[id]; o != nil {
			if !match(id, o) {
				return nil
			}
		} else if !match(id, info.Uses[id]) {
			return nil
		}
		o := info.Defs[id]
		if o == nil {
			o = info.Uses[id]
		}
		v, ok := o.(*types.Var)
		if !ok || v.IsField() {
			return nil
		}
		return o
	}
	root := fn.Root()
	add := func(o types.Object, tok string, rhs ast.Expr, n ast.Node) {
		defs = append(defs, c19LocalDef{Tok: tok, Rhs: rhs, Node: n, Fn: c19Innermost(root, n), Obj: o})
	}
	ast.Inspect(body, func(n ast.Node) bool {
		switch x := n.(type) {
		case *ast.Ident:
			if o := varOf(x); o != nil && !seen[o] {
				seen[o] = true
				objs = append(objs, o)
			}
		case *ast.AssignStmt:
			for i, l := range x.Lhs {
				if o := varOf(l); o != nil {
					var rhs ast.Expr
					if len(x.Lhs) == len(x.Rhs) {
						rhs = x.Rhs[i]
					}
					add(o, x.Tok.String(), rhs, x)
				}
			}
		case *ast.IncDecStmt:
			if o := varOf(x.X); o != nil {
				add(o, x.Tok.String(), nil, x)
			}
		case *ast.ValueSpec:
			for i, nm := range x.Names {
				if o := varOf(nm); o != nil {
					switch {
					case len(x.Values) == len(x.Names):
						add(o, "var", x.Values[i], x)
					case len(x.Values) == 0:
						add(o, "zero", nil, x)
					default:
						add(o, "var", nil, x)
					}
				}
			}
		case *ast.RangeStmt:
			for _, e := range []ast.Expr{x.Key, x.Value} {
				if e == nil {
					continue
				}
				if o := varOf(e); o != nil {
					add(o, "range", nil, x)
				}
			}
		}
		return true
	})
	sort.SliceStable(defs, func(i, j int) bool { return defs[i].Node.Pos() < defs[j].Node.Pos() })
	return objs, defs
}

// definedAs: the local called name of fn is one variable (not shadowed) and
// receives values only in the listed forms ("<tok> <rhs text>", `:=` and
// `var x = v` print as "= v"; a declaration without value is ignored unless
// "zero" is listed). Every form of the table must occur. It returns the
// definitions per form for further guard checks.
func c19DefinedAs(o *an.Obl, fn *an.Func, name string, forms ...string) map[string][]c19LocalDef {
	objs, defs := c19LocalDefs(fn, name)
	out := map[string][]c19LocalDef{}
	if len(objs) == 0 {
		o.FailAt(fn.ID+"#no-"+name, fn.Where(fn.Body.Pos()), "cannot find the local %s in %s", name, fn.ID)
		return out
	}
	if len(objs) > 1 {
		o.FailAt(fn.ID+"#shadowed-"+name, fn.Where(objs[1].Pos()), "%s declares %d variables called %s: the one computed is not the one used", fn.ID, len(objs), name)
	}
	want := map[string]bool{}
	for _, f := range forms {
		want[f] = true
	}
	for _, d := range defs {
		fm := d.form()
		if d.Tok == "zero" && !want["zero"] {
			continue
		}
		o.Site("%s: %s %s", fn.ID, name, fm)
		if !want[fm] {
			o.FailAt(fn.ID+"#"+name, fn.Where(d.Node.Pos()), "%s %s is not one of the expected forms %v", name, fm, forms)
			continue
		}
		out[fm] = append(out[fm], d)
	}
	for _, f := range forms {
		if len(out[f]) == 0 && f != "zero" {
			o.FailAt(fn.ID+"#no-"+name+"-form", fn.Where(fn.Body.Pos()), "%s never receives the value `%s` in %s", name, strings.TrimPrefix(f, "= "), fn.ID)
		}
	}
	return out
}

// fieldWrites returns the assignments of fn (nested literals included) whose
// left side selects a field of the variable obj (`x.F = v`, `x.F += v`,
// `x.F++`), keyed by the field name.
func c19FieldWrites(fn *an.Func, obj types.Object) map[string][]ast.Node {
	info := fn.Info()
	out := map[string][]ast.Node{}
	base := func(e ast.Expr) (string, bool) {
		sel, ok := ast.Unparen(e).(*ast.SelectorExpr)
		if !ok {
			return "", false
		}
		x := ast.Unparen(sel.X)
		if st, ok := x.(*ast.StarExpr); ok {
			x = ast.Unparen(st.X)
		}
		id, ok := x.(*ast.Ident)
		if !ok || info.Uses[id] != obj {
			return "", false
		}
		return sel.Sel.Name, true
	}
	ast.Inspect(fn.Body, func(n ast.Node) bool {
		switch x := n.(type) {
		case *ast.AssignStmt:
			for _, l := range x.Lhs {
				if f, ok := base(l); ok {
					out[f] = append(out[f], x)
				}
			}
		case *ast.IncDecStmt:
			if f, ok := base(x.X); ok {
				out[f] = append(out[f], x)
			}
		}
		return true
	})
	return out
}

// objOf returns the variable an identifier expression refers to.
func c19VarObj(fn *an.Func, e ast.Expr) types.Object {
	id, ok := ast.Unparen(e).(*ast.Ident)
	if !ok {
		return nil
	}
	if o := fn.Info().Uses[id]; o != nil {
		return o
	}
	return fn.Info().Defs[id]
}

// litOf returns the composite literal a variable is uniquely defined by
// (`x := T{...}` / `x := &T{...}`), or nil.
func c19LitOf(fn *an.Func, e ast.Expr) *ast.CompositeLit {
	id, ok := ast.Unparen(e).(*ast.Ident)
	if !ok {
		return nil
	}
	d := fn.UniqueDef(id)
	if d == nil {
		return nil
	}
	return c19AsLit(d)
}

// asLit returns the composite literal of `T{...}` / `&T{...}`, or nil.
func c19AsLit(e ast.Expr) *ast.CompositeLit {
	if e == nil {
		return nil
	}
	e = ast.Unparen(e)
	if u, ok := e.(*ast.UnaryExpr); ok {
		e = ast.Unparen(u.X)
	}
	cl, _ := e.(*ast.CompositeLit)
	return cl
}
