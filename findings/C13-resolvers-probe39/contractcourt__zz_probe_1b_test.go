package contractcourt

import (
	"sync/atomic"
	"testing"

	"github.com/btcsuite/btcd/txscript/v2"
	"github.com/btcsuite/btcd/wire/v2"
	"github.com/lightningnetwork/lnd/chainntnfs"
	"github.com/lightningnetwork/lnd/channeldb"
	"github.com/lightningnetwork/lnd/fn/v2"
	"github.com/lightningnetwork/lnd/input"
	"github.com/lightningnetwork/lnd/lntest/mock"
	"github.com/lightningnetwork/lnd/lnwallet"
	"github.com/stretchr/testify/require"
)

// TestProbeTimeoutResolverNoReIncubate restores a legacy (pre-anchor, local
// commitment) timeout resolver that has already checkpointed the confirmation
// of its timeout tx (outputIncubating) and runs it to completion, as every
// restart does. The nursery has persisted the output long ago and may have
// moved it on or swept it; the resolver must not hand it over again.
func TestProbeTimeoutResolverNoReIncubate(t *testing.T) {
	defer timeout()()

	commitOutpoint := wire.OutPoint{Index: 2}
	htlcOutpoint := wire.OutPoint{Index: 3}

	sweepTx := &wire.MsgTx{
		TxIn:  []*wire.TxIn{{}},
		TxOut: []*wire.TxOut{{}},
	}
	sweepHash := sweepTx.TxHash()

	timeoutTx := &wire.MsgTx{
		TxIn: []*wire.TxIn{{PreviousOutPoint: commitOutpoint}},
		TxOut: []*wire.TxOut{{
			Value:    111,
			PkScript: []byte{0xaa, 0xaa},
		}},
	}
	witness, err := input.SenderHtlcSpendTimeout(
		&mock.DummySignature{}, txscript.SigHashAll,
		&mock.DummySigner{}, &testSignDesc, timeoutTx,
	)
	require.NoError(t, err)
	timeoutTx.TxIn[0].Witness = witness
	timeoutTxid := timeoutTx.TxHash()

	var incubations int32

	ctx := newHtlcResolverTestContext(t,
		func(htlc channeldb.HTLC, cfg ResolverConfig) ContractResolver {
			cfg.IncubateOutputs = func(wire.OutPoint,
				fn.Option[lnwallet.OutgoingHtlcResolution],
				fn.Option[lnwallet.IncomingHtlcResolution],
				uint32, fn.Option[int32],
				...IncubateOption) error {

				atomic.AddInt32(&incubations, 1)

				return nil
			}

			r := &htlcTimeoutResolver{
				contractResolverKit: *newContractResolverKit(cfg),
				htlc:                htlc,
				htlcResolution: lnwallet.OutgoingHtlcResolution{
					ClaimOutpoint:   htlcOutpoint,
					SignedTimeoutTx: timeoutTx,
					SweepSignDesc:   testSignDesc,
				},
				// Stage one has been checkpointed before the
				// restart.
				outputIncubating: true,
			}
			r.initLogger("htlcTimeoutResolver")

			return r
		},
	)
	ctx.checkpoint = func(ContractResolver,
		...*channeldb.ResolverReport) error {

		return nil
	}

	ctx.resolve()

	// The timeout tx is confirmed, and so is the sweep of its output.
	ctx.notifier.SpendChan <- &chainntnfs.SpendDetail{
		SpendingTx:    timeoutTx,
		SpentOutPoint: &commitOutpoint,
		SpenderTxHash: &timeoutTxid,
	}
	ctx.notifier.SpendChan <- &chainntnfs.SpendDetail{
		SpendingTx:    sweepTx,
		SpentOutPoint: &htlcOutpoint,
		SpenderTxHash: &sweepHash,
	}

	ctx.waitForResult()
	require.True(t, ctx.resolver.IsResolved())

	require.Zero(t, atomic.LoadInt32(&incubations), "output handed to "+
		"the nursery again although stage one was checkpointed")
}
