package spec

import (
	"go/ast"
	"go/token"
	"go/types"
	"sort"
	"strings"

	"lndlint/internal/an"
	"lndlint/internal/flow"
)

// c17RbfOptList is what c17RbfOptionList learned about one option slice variable.
type c17RbfOptList struct {
	obj         types.Object
	explicit    []*ast.CallExpr // option constructor calls placed in the list
	explicitAt  []an.Site       // for each of them, the statement that places it
	builders    []an.Site       // the statements that place them
	conditional []an.Site       // the builders that place options of a conditional kind on some paths only
	writes      []an.Site       // every write of the list (builders and musig appends)
	musig       []string        // the sources of the appended musig options
}

// placedBy returns the constructor calls the builder b places.
func (l *c17RbfOptList) placedBy(b an.Site) []*ast.CallExpr {
	var out []*ast.CallExpr
	for i, c := range l.explicit {
		if l.explicitAt[i].Node == b.Node {
			out = append(out, c)
		}
	}
	return out
}

// isConditional reports whether b is one of the conditional builders.
func (l *c17RbfOptList) isConditional(b an.Site) bool {
	for _, c := range l.conditional {
		if c.Node == b.Node {
			return true
		}
	}
	return false
}

// canonOpts renders the explicit options, sorted.
func (l *c17RbfOptList) canonOpts(f *an.Func) []string {
	var out []string
	for _, c := range l.explicit {
		out = append(out, f.Canon(c))
	}
	sort.Strings(out)
	return out
}

// c17RbfOptionList analyses the close-option slice `id` of f.  The list may only
// be
//
//	declared                         var opts []ChanCloseOpt
//	built from constructor calls     opts := []ChanCloseOpt{lnwallet.WithX(..), ..} / opts = append(opts, lnwallet.WithX(..), ..)
//	extended by musig options        opts = append(opts, m...)   with m result #k of one of musigSources
//
// and be handed to the consumer calls.  Any other write (element assignment,
// re-slicing, append of something that is not a constructor call, append of
// a spread list of unknown origin, address-of, alias) and any other use is
// reported: the comparison of the two halves reads the constructor calls and
// would not see it.
//
// Every builder must lie on every path to every consumer, except a builder
// that places nothing but options of the kinds in condKinds (constructor
// names without package): such a builder is recorded in l.conditional and the
// caller decides its condition; it must still precede every consumer it can
// reach (nothing is written once a consumer has run).
func c17RbfOptionList(o *an.Obl, f *an.Func, id *ast.Ident, consumers []an.Site, musigSources map[string]int, condKinds map[string]bool) *c17RbfOptList {
	info := f.Info()
	l := &c17RbfOptList{obj: c17ObjOfIdent(f, id)}
	if _, ok := l.obj.(*types.Var); !ok {
		o.FailAt(f.ID+"#option-list", f.Where(id.Pos()), "the option list %s is not a variable", id.Name)
		return l
	}
	allowed := map[*ast.Ident]bool{}
	isList := func(e ast.Expr) bool {
		x, ok := ast.Unparen(e).(*ast.Ident)
		return ok && c17ObjOfIdent(f, x) == l.obj
	}
	allow := func(e ast.Expr) {
		if x, ok := ast.Unparen(e).(*ast.Ident); ok {
			allowed[x] = true
		}
	}
	isCtor := func(e ast.Expr) (*ast.CallExpr, bool) {
		c, ok := ast.Unparen(e).(*ast.CallExpr)
		if !ok {
			return nil, false
		}
		return c, strings.HasPrefix(an.CalleeID(info, c), lw+"With")
	}
	bad := func(w c17VarWrite, why string) {
		o.FailAt(f.ID+"#option-list-write", f.Where(w.Node.Pos()), "%s: the option list %s is written by %s (%s); the two halves of the flow are compared by the constructor calls placed in the list", f.ID, id.Name, an.Text(w.Node), why)
	}
	for _, w := range c17WritesOf(f, l.obj) {
		s, inGraph := c17SiteOfNode(f, w.Node)
		if !inGraph {
			bad(w, "inside a function literal")
			continue
		}
		if w.Tok == token.VAR && w.Rhs == nil && !w.Tuple {
			continue // var opts []T
		}
		if !w.Whole || w.Tuple || w.Rhs == nil || (w.Tok != token.ASSIGN && w.Tok != token.DEFINE && w.Tok != token.VAR) {
			bad(w, "not a plain assignment of the whole list")
			continue
		}
		l.writes = append(l.writes, s)
		allow(w.Lhs)
		var elems []ast.Expr
		switch x := ast.Unparen(w.Rhs).(type) {
		case *ast.CompositeLit:
			elems = x.Elts
		case *ast.CallExpr:
			if an.CalleeID(info, x) != "builtin.append" || len(x.Args) < 1 || !isList(x.Args[0]) {
				bad(w, "not an append to the list itself")
				continue
			}
			allow(x.Args[0])
			if x.Ellipsis.IsValid() {
				src, ok := ast.Unparen(x.Args[len(x.Args)-1]).(*ast.Ident)
				var call *ast.CallExpr
				idx := -1
				if ok && len(x.Args) == 2 {
					call, idx = f.UniqueCallDef(src)
				}
				name := ""
				if call != nil {
					name = an.CalleeID(info, call)
					name = name[strings.LastIndex(name, ".")+1:]
				}
				if want, known := musigSources[name]; call == nil || !known || want != idx {
					bad(w, "a spread list that is not the musig options returned by "+strings.Join(c17KeysOfInt(musigSources), " / "))
					continue
				}
				l.musig = append(l.musig, name)
				continue
			}
			elems = x.Args[1:]
		default:
			bad(w, "neither a literal list of constructor calls nor an append")
			continue
		}
		ok := true
		for _, e := range elems {
			c, isC := isCtor(e)
			if !isC {
				bad(w, "the element "+an.Text(e)+" is not a call of a lnwallet.With… option constructor")
				ok = false
				continue
			}
			l.explicit = append(l.explicit, c)
			l.explicitAt = append(l.explicitAt, s)
		}
		if ok {
			l.builders = append(l.builders, s)
		}
	}
	// uses: only the consumers' argument
	for _, c := range consumers {
		for _, a := range c.Node.(*ast.CallExpr).Args {
			if isList(a) {
				allow(a)
			}
		}
	}
	for _, u := range c17UsesOf(f, l.obj) {
		if !allowed[u] {
			o.FailAt(f.ID+"#option-list-use", f.Where(u.Pos()), "%s: the option list %s is used outside its construction and the signing / completing calls; it can be changed or aliased there", f.ID, id.Name)
		}
	}
	// flow: the constructor calls are placed on every path to a consumer,
	// and nothing is written once a consumer has run
	g := f.Graph()
	for _, b := range l.builders {
		onEveryPath := true
		for _, c := range consumers {
			if !f.Before([]an.Site{b}, c) {
				onEveryPath = false
			}
		}
		onlyCondKinds := len(l.placedBy(b)) > 0
		for _, c := range l.placedBy(b) {
			if !condKinds[strings.TrimPrefix(an.CalleeID(info, c), lw)] {
				onlyCondKinds = false
			}
		}
		if !onEveryPath && onlyCondKinds {
			l.conditional = append(l.conditional, b)
		}
	}
	for _, c := range consumers {
		for _, b := range l.builders {
			if l.isConditional(b) {
				o.Site("%s is placed on some paths to %s only (its condition is checked separately)", b.String(), c.String())
				continue
			}
			o.Site("%s precedes %s", b.String(), c.String())
			if !f.Before([]an.Site{b}, c) {
				o.FailAt(f.ID+"#option-list-conditional", b.Where(), "%s can be reached without the options placed at %s", c.String(), b.String())
			}
		}
		if name := an.CalleeID(info, c.Node.(*ast.CallExpr)); strings.HasSuffix(name, "prepareClosingSignatures") {
			continue // hands the musig options back, which are appended afterwards
		}
		after := c17StrictlyAfter(g, c.V)
		for _, w := range l.writes {
			if after[w.V] {
				o.FailAt(f.ID+"#option-list-written-after-use", w.Where(), "the option list %s is written at %s after %s used it", id.Name, w.String(), c.String())
			}
		}
	}
	// one option of each kind
	seen := map[string]bool{}
	for _, c := range l.explicit {
		k := an.CalleeID(info, c)
		if seen[k] {
			o.FailAt(f.ID+"#duplicate-option", f.Where(c.Pos()), "%s: the option %s is placed more than once in %s (the later one wins)", f.ID, k, id.Name)
		}
		seen[k] = true
	}
	return l
}

func c17KeysOfInt(m map[string]int) []string {
	var out []string
	for k := range m {
		out = append(out, k)
	}
	sort.Strings(out)
	return out
}

// spreadOrLastIdent returns the identifier handed as the option list of a
// call: its final argument (spread or not).
func c17LastArgIdent(s an.Site) *ast.Ident {
	c := s.Node.(*ast.CallExpr)
	if len(c.Args) == 0 {
		return nil
	}
	id, _ := ast.Unparen(c.Args[len(c.Args)-1]).(*ast.Ident)
	return id
}

// c17RbfOptionKinds checks that the explicit options of l are exactly the
// tabled kinds, each with the tabled argument (a nil term: the constructor
// takes no argument).
func c17RbfOptionKinds(o *an.Obl, f *an.Func, l *c17RbfOptList, where string, want map[string]an.Term, desc map[string]string) {
	got := map[string]bool{}
	for _, c := range l.explicit {
		k := strings.TrimPrefix(an.CalleeID(f.Info(), c), lw)
		t, ok := want[k]
		if !ok {
			o.FailAt(f.ID+"#option:"+k, f.Where(c.Pos()), "%s: the option %s is not one the rule knows for this flow", f.ID, f.Canon(c))
			continue
		}
		got[k] = true
		if t == nil {
			if len(c.Args) != 0 {
				o.FailAt(f.ID+"#option:"+desc[k], f.Where(c.Pos()), "%s: the option %s takes arguments the rule does not know", f.ID, f.Canon(c))
			}
			continue
		}
		if len(c.Args) != 1 || !t(f, ast.Unparen(c.Args[0])) {
			o.FailAt(f.ID+"#option:"+desc[k], f.Where(c.Pos()), "%s: the option %s does not carry %s", f.ID, f.Canon(c), desc[k])
		}
	}
	for k := range want {
		if !got[k] {
			o.FailAt(f.ID+"#option:"+desc[k], where, "%s: the options %v lack %s", f.ID, l.canonOpts(f), desc[k])
		}
	}
}

// c17RbfCloseOptions: in the RBF cooperative close flow the closer signs its
// proposal in one state (LocalCloseStart) and completes it in another
// (LocalOfferSent); the closee signs and completes in one state
// (RemoteCloseStart).  Both halves of a flow must build the transaction with
// the same options, and the fee payer is the closer in both flows.
func c17RbfCloseOptions(r *an.Run) {
	p := r.Prog
	cc := "lnwallet/chancloser."
	r.Obl("rbf-proposal-and-completion-same-options", "MIRROR",
		"the non-musig close options (sequence, lock time, fee payer, script dust limits) handed to CreateCloseProposal in LocalCloseStart equal those handed to CompleteCooperativeClose in LocalOfferSent, name the local party as payer, select the dust limits of the delivery scripts (the basis the labels of closing_complete and closing_sig are decided on) and carry as lock time the very term LocalCloseStart announces in closing_complete.LockTime, which is a field of the environment both states receive and neither writes; RemoteCloseStart hands one option list, naming the remote party as payer, the lock time of the peer's message and the script dust limits, to both createLocalCloseeSignature (whose CreateCloseProposal receives exactly that list) and CompleteCooperativeClose; the scripts and the fee of the two halves agree as well; each option list is built only from option constructor calls (one per kind, on every path to its use) plus the musig options returned by ProposalClosingOpts / prepareClosingSignatures (nil or those of CombineClosingOpts), is used for nothing else, and is not written once it was handed to the signing or the completing call; the one option placed on some paths only is the closee's omission of the closer's output: it is placed by one append under exactly one condition beyond those of the list, a local defined once as `!(no-closee-output result of extractSigAndNonceFromClosingComplete) && parseSigFields(..).CloserAndClosee.IsNone()`, both taken from the message the fee is read from; that test lies on every path to the signing and the completing call and, when it holds, the option is placed before either",
		"completing with another payer, sequence, lock time or set of outputs than was signed (or than the peer was told) rebuilds a different transaction: the peer's signature does not verify, or the fee is charged to the wrong party", 6,
		func(o *an.Obl) {
			start := p.Func(cc + "LocalCloseStart.ProcessEvent")
			sent := p.Func(cc + "LocalOfferSent.ProcessEvent")
			rem := p.Func(cc + "RemoteCloseStart.ProcessEvent")
			helper := p.Func(cc + "createLocalCloseeSignature")
			prep := p.Func(cc + "prepareClosingSignatures")

			proposalOpts := map[string]int{"ProposalClosingOpts": 0}
			seqTerm := func(f *an.Func, e ast.Expr) bool {
				// mempool.MaxRBFSequence (btcd)
				sel, ok := e.(*ast.SelectorExpr)
				if !ok {
					return false
				}
				obj := f.Info().Uses[sel.Sel]
				return obj != nil && obj.Pkg() != nil && obj.Name() == "MaxRBFSequence" && obj.Parent() == obj.Pkg().Scope() &&
					strings.HasSuffix(obj.Pkg().Path(), "/mempool")
			}
			payerIs := func(party string) an.Term { return an.PkgVar("lntypes", party) }

			prop := start.Calls(an.CalleeNamed("CreateCloseProposal"), false)
			comp := sent.Calls(an.CalleeNamed("CompleteCooperativeClose"), false)
			pcs := sent.Calls(an.CalleeIs(cc+"prepareClosingSignatures"), false)
			if needExactly(o, start, "CreateCloseProposal", prop, 1) && needExactly(o, sent, "CompleteCooperativeClose", comp, 1) {
				pid, cid := c17LastArgIdent(prop[0]), c17LastArgIdent(comp[0])
				if pid == nil || cid == nil || !prop[0].Node.(*ast.CallExpr).Ellipsis.IsValid() || !comp[0].Node.(*ast.CallExpr).Ellipsis.IsValid() {
					o.FailAt(sent.ID+"#option-lists", comp[0].Where(), "the closer's proposal / completion do not take their options from a list variable")
					return
				}
				la := c17RbfOptionList(o, start, pid, prop, proposalOpts, nil)
				lb := c17RbfOptionList(o, sent, cid, append(append([]an.Site{}, pcs...), comp...), map[string]int{"prepareClosingSignatures": 2}, nil)
				a, b := la.canonOpts(start), lb.canonOpts(sent)
				o.Site("closer proposal options %v", a)
				o.Site("closer completion options %v", b)
				if strings.Join(a, ";") != strings.Join(b, ";") || len(a) == 0 {
					o.FailAt(sent.ID+"#options-differ", comp[0].Where(), "the closer signs its proposal with %v but completes it with %v", a, b)
				}
				// the lock time: the term announced in closing_complete, which
				// must denote the same value in both states (a field of the
				// environment both ProcessEvent methods receive, written by
				// neither)
				announced := c17RbfAnnouncedLockTime(o, start, sent)
				closerLock := func(f *an.Func, e ast.Expr) bool {
					return announced != "" && f.Canon(e) == announced
				}
				want := map[string]an.Term{"WithCustomSequence": seqTerm, "WithCustomPayer": payerIs("Local"), "WithCustomLockTime": closerLock, "WithScriptDustLimits": nil}
				desc := map[string]string{"WithCustomSequence": "the RBF sequence", "WithCustomPayer": "the local party as fee payer", "WithCustomLockTime": "the lock time announced in closing_complete", "WithScriptDustLimits": "the script dust limits (the basis of the output labels of closing_complete)"}
				c17RbfOptionKinds(o, start, la, prop[0].Where(), want, desc)
				c17RbfOptionKinds(o, sent, lb, comp[0].Where(), want, desc)
				if announced != "" {
					c17NoFieldWrites(o, start, announced)
					c17NoFieldWrites(o, sent, announced)
				}
				// scripts and fee of the two halves: local script, remote script, the offered fee
				pa, ca := start.ArgCanon(prop[0]), sent.ArgCanon(comp[0])
				o.Site("closer proposal (fee=%s, local=%s, remote=%s)", pa[0], pa[1], pa[2])
				o.Site("closer completion (local=%s, remote=%s, fee=%s)", ca[2], ca[3], ca[4])
				if pa[1] != "$recv.LocalDeliveryScript" || pa[2] != "$recv.RemoteDeliveryScript" {
					o.FailAt(start.ID+"#scripts", prop[0].Where(), "the proposal is built for scripts (%s, %s)", pa[1], pa[2])
				}
				if ca[2] != "$recv.LocalDeliveryScript" || ca[3] != "$recv.RemoteDeliveryScript" || ca[4] != "$recv.ProposedFee" {
					o.FailAt(sent.ID+"#scripts-fee", comp[0].Where(), "the completion is built for (%s, %s) at fee %s, expected the state's scripts and ProposedFee", ca[2], ca[3], ca[4])
				}
				// the variables the proposal is signed for keep their value
				// (the next state records them by name)
				var names []string
				for _, e := range prop[0].Node.(*ast.CallExpr).Args[:3] {
					if id, ok := ast.Unparen(e).(*ast.Ident); ok {
						names = append(names, id.Name)
					}
				}
				notReassigned(o, start, names...)
				c17NoFieldWrites(o, start, pa[1], pa[2])
				c17NoFieldWrites(o, sent, ca[2], ca[3], ca[4])
			}
			// the musig options handed back by prepareClosingSignatures are
			// nil or those of CombineClosingOpts
			for _, s := range prep.Returns() {
				rs, _ := s.Node.(*ast.ReturnStmt)
				if rs == nil || len(rs.Results) != 4 {
					o.FailAt(prep.ID+"#exit-shape", s.Where(), "cannot read the options returned at %s", s.String())
					continue
				}
				e := ast.Unparen(rs.Results[2])
				o.Site("prepareClosingSignatures returns options %s", an.Text(e))
				if an.IsNilIdent(prep.Info(), e) {
					continue
				}
				id, _ := e.(*ast.Ident)
				var call *ast.CallExpr
				idx := -1
				if id != nil {
					call, idx = prep.UniqueCallDef(id)
				}
				if call == nil || idx != 2 || !strings.HasSuffix(an.CalleeID(prep.Info(), call), ".CombineClosingOpts") {
					o.FailAt(prep.ID+"#returned-options", s.Where(), "prepareClosingSignatures hands back the options %s, expected nil or the musig options of CombineClosingOpts: they are appended to the completion's list unseen", an.Text(e))
				}
			}
			// the fee recorded in LocalOfferSent is the fee that was signed
			for _, cl := range p.CompositeLitsOf(p.LookupType("lnwallet/chancloser", "LocalOfferSent")) {
				if cl.Fn == nil || cl.Fn.Root().ID != start.ID {
					continue
				}
				got := kvText(cl.Node, "ProposedFee")
				o.Site("LocalOfferSent.ProposedFee = %s", got)
				if len(prop) == 1 && got != an.Text(prop[0].Node.(*ast.CallExpr).Args[0]) {
					o.FailAt(start.ID+"#recorded-fee", cl.Where, "the next state records fee %s but %s was signed", got, an.Text(prop[0].Node.(*ast.CallExpr).Args[0]))
				}
			}

			hs := rem.Calls(an.CalleeIs(cc+"createLocalCloseeSignature"), false)
			rc := rem.Calls(an.CalleeNamed("CompleteCooperativeClose"), false)
			hp := helper.Calls(an.CalleeNamed("CreateCloseProposal"), false)
			if needExactly(o, rem, "createLocalCloseeSignature", hs, 1) && needExactly(o, rem, "CompleteCooperativeClose", rc, 1) && needExactly(o, helper, "CreateCloseProposal", hp, 1) {
				v1, v2 := c17LastArgIdent(hs[0]), c17LastArgIdent(rc[0])
				if v1 == nil || v2 == nil || c17ObjOfIdent(rem, v1) != c17ObjOfIdent(rem, v2) || !rc[0].Node.(*ast.CallExpr).Ellipsis.IsValid() {
					o.FailAt(rem.ID+"#option-lists", rc[0].Where(), "the closee signs with option list %s but completes with %s", an.Text(hs[0].Node.(*ast.CallExpr).Args[len(hs[0].Node.(*ast.CallExpr).Args)-1]), an.Text(rc[0].Node.(*ast.CallExpr).Args[len(rc[0].Node.(*ast.CallExpr).Args)-1]))
					return
				}
				closeeHalves := append(append([]an.Site{}, hs...), rc...)
				lr := c17RbfOptionList(o, rem, v2, closeeHalves, proposalOpts, map[string]bool{"WithOmittedRemoteCloseOutput": true})
				opts := lr.canonOpts(rem)
				o.Site("closee options %v (signature list %s, completion list %s)", opts, v1.Name, v2.Name)
				// the lock time and the fee are read from the same message
				feeArg := ast.Unparen(hs[0].Node.(*ast.CallExpr).Args[1])
				lockTerm := func(f *an.Func, e ast.Expr) bool {
					// <msg>.SigMsg.LockTime next to the fee <msg>.SigMsg.FeeSatoshis
					sel, ok := e.(*ast.SelectorExpr)
					fsel, fok := feeArg.(*ast.SelectorExpr)
					if !ok || !fok || sel.Sel.Name != "LockTime" || fsel.Sel.Name != "FeeSatoshis" {
						return false
					}
					a, aok := ast.Unparen(sel.X).(*ast.SelectorExpr)
					b, bok := ast.Unparen(fsel.X).(*ast.SelectorExpr)
					if !aok || !bok || a.Sel.Name != "SigMsg" || b.Sel.Name != "SigMsg" {
						return false
					}
					ai, aok := ast.Unparen(a.X).(*ast.Ident)
					bi, bok := ast.Unparen(b.X).(*ast.Ident)
					return aok && bok && c17ObjOfIdent(f, ai) != nil && c17ObjOfIdent(f, ai) == c17ObjOfIdent(f, bi) &&
						an.TypeID(f.Info().TypeOf(ai)) == cc+"OfferReceivedEvent"
				}
				c17RbfOptionKinds(o, rem, lr, rc[0].Where(),
					map[string]an.Term{"WithCustomSequence": seqTerm, "WithCustomPayer": payerIs("Remote"), "WithCustomLockTime": lockTerm, "WithOmittedRemoteCloseOutput": nil, "WithScriptDustLimits": nil},
					map[string]string{"WithCustomSequence": "the RBF sequence", "WithCustomPayer": "the remote party as fee payer", "WithCustomLockTime": "the lock time of the peer's message", "WithOmittedRemoteCloseOutput": "the omission of the closer's output (placed when the peer signed closee_output_only)", "WithScriptDustLimits": "the script dust limits (the basis the closer labelled its signature on)"})
				c17RbfCloseeOmission(o, rem, lr, closeeHalves, feeArg)
				// the helper forwards exactly its parameters
				a := helper.ArgCanon(hp[0])
				o.Site("createLocalCloseeSignature -> CreateCloseProposal(%s)", strings.Join(a, ", "))
				hid := c17LastArgIdent(hp[0])
				hps := helper.Params(false)
				if a[0] != "$p1" || a[1] != "$p2" || a[2] != "$p3" || hid == nil || len(hps) != 5 || c17ObjOfIdent(helper, hid) != types.Object(hps[4]) || !hp[0].Node.(*ast.CallExpr).Ellipsis.IsValid() {
					o.FailAt(helper.ID+"#forward", hp[0].Where(), "the helper calls CreateCloseProposal(%s)", strings.Join(a, ", "))
				} else {
					lh := c17RbfOptionList(o, helper, hid, hp, nil, nil)
					if len(lh.writes) > 0 {
						o.FailAt(helper.ID+"#forward-changed", lh.writes[0].Where(), "the helper changes the option list it was given before signing: %s", lh.writes[0].String())
					}
					notReassigned(o, helper, c17ParamNames(helper, 1, 2, 3, 4)...)
				}
				// same fee and scripts on both halves
				sa, ca := rem.ArgCanon(hs[0]), rem.ArgCanon(rc[0])
				if sa[1] != ca[4] || sa[2] != ca[2] || sa[3] != ca[3] {
					o.FailAt(rem.ID+"#halves", rc[0].Where(), "the closee signs (fee=%s, %s, %s) but completes (fee=%s, %s, %s)", sa[1], sa[2], sa[3], ca[4], ca[2], ca[3])
				}
				if strings.Contains(sa[1]+sa[2]+sa[3], "$v:") && an.Text(hs[0].Node.(*ast.CallExpr).Args[1]) != an.Text(rc[0].Node.(*ast.CallExpr).Args[4]) {
					o.FailAt(rem.ID+"#halves", rc[0].Where(), "the closee signs for fee %s but completes for %s", an.Text(hs[0].Node.(*ast.CallExpr).Args[1]), an.Text(rc[0].Node.(*ast.CallExpr).Args[4]))
				}
				c17NoFieldWrites(o, rem, sa[1], sa[2], sa[3])
			}
		})
}

// c17NoFieldWrites: f does not assign to the places (given in canonical form)
// that both halves of a flow read their fee and scripts from.
func c17NoFieldWrites(o *an.Obl, f *an.Func, canons ...string) {
	want := map[string]bool{}
	for _, c := range canons {
		want[c] = true
	}
	ast.Inspect(f.Body, func(n ast.Node) bool {
		var lhs []ast.Expr
		switch x := n.(type) {
		case *ast.AssignStmt:
			if x.Tok == token.DEFINE {
				return true
			}
			lhs = x.Lhs
		case *ast.IncDecStmt:
			lhs = []ast.Expr{x.X}
		}
		for _, l := range lhs {
			if _, isSel := ast.Unparen(l).(*ast.SelectorExpr); !isSel {
				continue
			}
			if c := f.Canon(l); want[c] {
				o.FailAt(f.ID+"#half-input-written", f.Where(n.Pos()), "%s overwrites %s, which the signing and the completing half read", f.ID, c)
			}
		}
		return true
	})
}

// c17RbfAnnouncedLockTime returns the canonical form of the lock time the
// closer announces: the LockTime field of the one lnwire.ClosingComplete
// literal LocalCloseStart builds.  The term must be a field path of the
// environment parameter, which LocalOfferSent receives with the same type at
// the same position, so that the same canonical form in the completing state
// denotes the same value.  "" (and a report) when this cannot be established.
func c17RbfAnnouncedLockTime(o *an.Obl, start, sent *an.Func) string {
	var lits []*ast.CompositeLit
	ast.Inspect(start.Body, func(n ast.Node) bool {
		if cl, ok := n.(*ast.CompositeLit); ok && an.TypeID(start.Info().TypeOf(cl)) == "lnwire.ClosingComplete" {
			lits = append(lits, cl)
		}
		return true
	})
	if len(lits) != 1 {
		o.FailAt(start.ID+"#closing-complete-literal", start.Where(start.Body.Pos()), "expected exactly one closing_complete message built by %s, found %d", start.ID, len(lits))
		return ""
	}
	var val ast.Expr
	for _, el := range lits[0].Elts {
		if kv, ok := el.(*ast.KeyValueExpr); ok && an.Text(kv.Key) == "LockTime" {
			val = kv.Value
		}
	}
	if val == nil {
		o.FailAt(start.ID+"#announced-lock-time", start.Where(lits[0].Pos()), "the closing_complete message announces no lock time (the closee builds with the announced one)")
		return ""
	}
	if _, inGraph := c17SiteOfNode(start, lits[0]); !inGraph {
		o.FailAt(start.ID+"#announced-lock-time", start.Where(lits[0].Pos()), "the closing_complete message is built inside a function literal")
		return ""
	}
	canon := start.Canon(val)
	o.Site("closing_complete announces lock time %s", canon)
	// rooted at the environment parameter
	root := ast.Unparen(val)
	depth := 0
	for {
		sel, ok := root.(*ast.SelectorExpr)
		if !ok {
			break
		}
		if s := start.Info().Selections[sel]; s == nil || s.Kind() != types.FieldVal {
			depth = -1
			break
		}
		root = ast.Unparen(sel.X)
		depth++
	}
	id, _ := root.(*ast.Ident)
	ps, qs := start.Params(false), sent.Params(false)
	idx := -1
	for i, pv := range ps {
		if pv != nil && id != nil && c17ObjOfIdent(start, id) == types.Object(pv) {
			idx = i
		}
	}
	if depth < 1 || idx < 0 || idx >= len(qs) || qs[idx] == nil || !types.Identical(ps[idx].Type(), qs[idx].Type()) || an.TypeID(ps[idx].Type()) != "lnwallet/chancloser.Environment" {
		o.FailAt(start.ID+"#announced-lock-time-origin", start.Where(val.Pos()), "the announced lock time %s is not a field of the environment both closer states receive: the completing state cannot name the same value", an.Text(val))
		return ""
	}
	return canon
}

// c17ExtraGuards returns the condition edges every path to b takes that a
// path to base need not take.
func c17ExtraGuards(f *an.Func, b, base an.Site) []*flow.Edge {
	g := f.Graph()
	var out []*flow.Edge
	for _, v := range g.V {
		if v.Kind != flow.KCond && v.Kind != flow.KCase && v.Kind != flow.KTypeCase {
			continue
		}
		for _, e := range v.Out {
			if e.Kind != flow.ETrue && e.Kind != flow.EFalse {
				continue
			}
			reach := g.Reach(g.Entry, flow.EdgeSet{e: true}, nil)
			if !reach[b.V] && reach[base.V] {
				out = append(out, e)
			}
		}
	}
	return out
}

// c17RbfCloseeOmission: the closee leaves the closer's output out of the
// transaction exactly when the signature it selected is the peer's
// closee_output_only one.  The option is placed by one builder, under one
// condition beyond those of the list itself; that condition is a local
// defined once as `!<no closee output> && <the both-outputs signature is
// absent>`, both read from the message whose fee and lock time the
// transaction is built for; the test lies on every path to the signing and
// the completing call and, when it holds, the option is placed before either.
func c17RbfCloseeOmission(o *an.Obl, f *an.Func, l *c17RbfOptList, halves []an.Site, feeArg ast.Expr) {
	const kind = "WithOmittedRemoteCloseOutput"
	var at []an.Site
	for i, c := range l.explicit {
		if strings.TrimPrefix(an.CalleeID(f.Info(), c), lw) == kind {
			at = append(at, l.explicitAt[i])
		}
	}
	if len(at) != 1 {
		return // absence and duplicates are reported by the kind table / the duplicate check
	}
	b := at[0]
	if !l.isConditional(b) {
		o.FailAt(f.ID+"#omission-unconditional", b.Where(), "%s leaves the closer's output out on every path (%s): the peer signed that version only when it sent closee_output_only without closer_and_closee_outputs", f.ID, b.String())
		return
	}
	var base *an.Site
	for i := range l.builders {
		if !l.isConditional(l.builders[i]) {
			base = &l.builders[i]
			break
		}
	}
	if base == nil {
		o.FailAt(f.ID+"#omission-condition", b.Where(), "%s has no unconditional option list to compare the condition of %s with", f.ID, b.String())
		return
	}
	extra := c17ExtraGuards(f, b, *base)
	var condID *ast.Ident
	if len(extra) == 1 && extra[0].From.Kind == flow.KCond && extra[0].Kind == flow.ETrue {
		if e, ok := extra[0].From.Node.(ast.Expr); ok {
			condID, _ = ast.Unparen(e).(*ast.Ident)
		}
	}
	if condID == nil {
		var txt []string
		for _, e := range extra {
			t := an.Text(e.From.Node)
			if e.Kind == flow.EFalse {
				t = "!(" + t + ")"
			}
			txt = append(txt, t)
		}
		o.FailAt(f.ID+"#omission-condition", b.Where(), "the omission of the closer's output is placed under %v, expected exactly one condition: the local that says the peer signed closee_output_only", txt)
		return
	}
	o.Site("the closer's output is omitted iff %s = %s", condID.Name, f.Canon(condID))
	c17RbfNoCloserDerivation(o, f, condID, feeArg)
	cond := an.Site{Fn: f, V: extra[0].From, Node: extra[0].From.Node}
	for _, h := range halves {
		if !f.Before([]an.Site{cond}, h) {
			o.FailAt(f.ID+"#omission-not-decided-before-"+constructOf(f, h), h.Where(), "%s can be reached without the test of %s: that half builds the transaction without the decision", h.String(), condID.Name)
		}
	}
	mustDoUnlessFrom(o, f, extra[0].To, "placing the omission option", []an.Site{b}, halves)
}

// c17RbfNoCloserDerivation: id is defined once as the conjunction of
// `!<result #2 of extractSigAndNonceFromClosingComplete(msg.SigMsg, ..)>` and
// `parseSigFields(msg.SigMsg).CloserAndClosee.IsNone()` for the message msg
// the fee is read from.
func c17RbfNoCloserDerivation(o *an.Obl, f *an.Func, id *ast.Ident, feeArg ast.Expr) {
	cc := "lnwallet/chancloser."
	fail := func(why string) {
		o.FailAt(f.ID+"#omission-condition-derivation", f.Where(id.Pos()), "%s: the condition %s of the omitted closer output is not `the closee keeps its output && the peer's message lacks the both-outputs signature` derived from the received message: %s", f.ID, id.Name, why)
	}
	d := f.UniqueDef(id)
	if d == nil {
		fail("it has no single definition")
		return
	}
	be, ok := ast.Unparen(d).(*ast.BinaryExpr)
	if !ok || be.Op != token.LAND {
		fail("its definition " + an.Text(d) + " is not a conjunction of the two facts")
		return
	}
	// the message: <msg>.SigMsg with msg the variable the fee is read from
	var msgObj types.Object
	if fsel, ok := ast.Unparen(feeArg).(*ast.SelectorExpr); ok {
		if m, ok := ast.Unparen(fsel.X).(*ast.SelectorExpr); ok && m.Sel.Name == "SigMsg" {
			if mi, ok := ast.Unparen(m.X).(*ast.Ident); ok {
				msgObj = c17ObjOfIdent(f, mi)
			}
		}
	}
	isMsg := func(e ast.Expr) bool {
		m, ok := ast.Unparen(e).(*ast.SelectorExpr)
		if !ok || m.Sel.Name != "SigMsg" || msgObj == nil {
			return false
		}
		mi, ok := ast.Unparen(m.X).(*ast.Ident)
		return ok && c17ObjOfIdent(f, mi) == msgObj
	}
	keeps, lacksBoth := false, false
	for _, c := range []ast.Expr{ast.Unparen(be.X), ast.Unparen(be.Y)} {
		switch x := c.(type) {
		case *ast.UnaryExpr:
			nc, isID := ast.Unparen(x.X).(*ast.Ident)
			if x.Op != token.NOT || !isID {
				continue
			}
			call, idx := f.UniqueCallDef(nc)
			if call == nil || idx != 2 || an.CalleeID(f.Info(), call) != cc+"extractSigAndNonceFromClosingComplete" || len(call.Args) < 1 || !isMsg(call.Args[0]) {
				fail(an.Text(x) + " does not negate the no-closee-output result (#2) of extractSigAndNonceFromClosingComplete(<the message>.SigMsg, ..)")
				return
			}
			keeps = true
		case *ast.CallExpr:
			sel, isSel := ast.Unparen(x.Fun).(*ast.SelectorExpr)
			if !isSel || sel.Sel.Name != "IsNone" || len(x.Args) != 0 {
				continue
			}
			field, isField := ast.Unparen(sel.X).(*ast.SelectorExpr)
			if !isField || field.Sel.Name != "CloserAndClosee" {
				fail(an.Text(x) + " does not test the both-outputs signature field (CloserAndClosee)")
				return
			}
			pc, isCall := ast.Unparen(field.X).(*ast.CallExpr)
			if !isCall || an.CalleeID(f.Info(), pc) != cc+"parseSigFields" || len(pc.Args) != 1 || !isMsg(pc.Args[0]) {
				fail(an.Text(x) + " does not read the signature fields of the received message (parseSigFields(<the message>.SigMsg))")
				return
			}
			lacksBoth = true
		}
	}
	if !keeps || !lacksBoth {
		fail("its definition is " + an.Text(d))
	}
}
