// Copyright 2022 The Go Authors. All rights reserved.
// Use of this source code is governed by a BSD-style
// license that can be found in the LICENSE file.

package lcs

import (
	"fmt"
)

// For each D, vec[D] has length D+1,
// and the label for (D, k) is stored in vec[D][(D+k)/2].
type label struct {
	vec [][]int
}

// Temporary checking DO NOT COMMIT true TO PRODUCTION CODE
const debug = false

// debugging. check that the (d,k) pair is valid
// (that is, -d<=k<=d and d+k even)
func checkDK(D, k int) {
	if k >= -D && k <= D && (D+k)%2 == 0 {
		return
	}
	panic(fmt.Sprintf("out of range, d=%d,k=%d", D, k))
}

func (t *label) set(D, k, x int) {
	if debug {
		checkDK(D, k)
	}
	for len(t.vec) <= D {
		t.vec = append(t.vec, nil)
	}
	if t.vec[D] == nil {
		t.vec[D] = make([]int, D+1)
	}
	t.vec[D][(D+k)/2] = x // known that D+k is even
}

func (t *label) get(d, k int) int {
	if debug {
		checkDK(d, k)
	}
	return int(t.vec[d][(d+k)/2])
}

func newtriang(limit int) label {
	if limit < 100 {
		// Preallocate if limit is not large.
		return label{vec: make([][]int, limit)}
	}
	return label{}
}
