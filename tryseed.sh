#!/bin/bash
# usage: tryseed.sh <patch.diff> <Cxx>...   applies a seeded change to /repo, runs the checks, reverts.
patch="$1"; shift
cd /repo || exit 2
if [ -n "$(git status --porcelain)" ]; then echo "/repo not clean"; exit 2; fi
git apply "$patch" || { echo "patch does not apply"; exit 2; }
for id in "$@"; do (cd /verif && . ./env.sh && ${LL:-./bin/lndlint} check -verif ${LLVERIF:-/verif} "$id" 2>&1 | grep -E "^(OK|FAIL|VIOLATION|KNOWN)" | cut -c1-400); done
git checkout -- . && git status --porcelain | head -3
