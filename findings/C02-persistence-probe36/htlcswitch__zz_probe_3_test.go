package htlcswitch

import (
	"context"
	"runtime"
	"testing"
	"time"

	"github.com/btcsuite/btcd/btcutil/v2"
	"github.com/lightningnetwork/lnd/lntypes"
	"github.com/lightningnetwork/lnd/lnwallet"
	"github.com/lightningnetwork/lnd/lnwire"
	"github.com/stretchr/testify/require"
)

// TestProbeOwedSigAfterCrashBetweenRevokeAndSign probes the UNMODIFIED tree.
//
//	A               B
//	<----add-----
//	<----sig-----
//	-----rev---->        (delivered)
//	 A crashes before she signs for B's add
//	 both reload, channel_reestablish in both directions
//
// After the reestablish nobody owes a retransmission (heights agree), but Alice
// still owes Bob a brand new commitment_signed covering his add: it is on her
// commitment and not on his. The probe checks whether Alice's link sends that
// signature on its own after the resync.
func TestProbeOwedSigAfterCrashBetweenRevokeAndSign(t *testing.T) {
	t.Parallel()

	const chanAmt = btcutil.SatoshiPerBitcoin * 5
	const chanReserve = btcutil.SatoshiPerBitcoin * 1
	harness, err := newSingleLinkTestHarness(t, chanAmt, chanReserve)
	require.NoError(t, err)

	require.NoError(t, harness.start())
	defer harness.aliceLink.Stop()

	alice := newPersistentLinkHarness(
		t, harness.aliceSwitch, harness.aliceLink,
		harness.aliceBatchTicker, harness.aliceRestore,
	)

	//nolint:forcetypeassert
	coreLink := harness.aliceLink.(*channelLink)
	aliceChannel := coreLink.channel
	bobChannel := harness.bobChannel

	bobHtlc := generateHtlc(t, coreLink, 0)

	// Drive Alice's state machine by hand up to the crash point: she has
	// received add+sig, has revoked (persisted, and delivered to Bob), but
	// never got to sign.
	_, err = bobChannel.AddHTLC(bobHtlc, nil)
	require.NoError(t, err)
	_, err = aliceChannel.ReceiveHTLC(bobHtlc)
	require.NoError(t, err)

	bobCommit, err := bobChannel.SignNextCommitment(context.Background())
	require.NoError(t, err)
	require.NoError(
		t, aliceChannel.ReceiveNewCommitment(bobCommit.CommitSigs),
	)
	aliceRev, _, _, err := aliceChannel.RevokeCurrentCommitment()
	require.NoError(t, err)
	_, _, err = bobChannel.ReceiveRevocation(aliceRev)
	require.NoError(t, err)

	require.True(t, aliceChannel.OweCommitment())

	// Crash + restart of Alice with state sync, reload of Bob.
	alice.restart(false, true)

	bobSigner := bobChannel.Signer
	bobPool := lnwallet.NewSigPool(runtime.NumCPU(), bobSigner)
	bobChannel, err = lnwallet.NewLightningChannel(
		bobSigner, bobChannel.State(), bobPool,
		lnwallet.WithLeafStore(&lnwallet.MockAuxLeafStore{}),
		lnwallet.WithAuxSigner(lnwallet.NewDefaultAuxSignerMock(t)),
	)
	require.NoError(t, err)
	require.NoError(t, bobPool.Start())

	// --reestablish->
	var msg lnwire.Message
	select {
	case msg = <-alice.msgs:
	case <-time.After(15 * time.Second):
		t.Fatalf("did not receive message")
	}
	aliceReest, ok := msg.(*lnwire.ChannelReestablish)
	require.True(t, ok)

	// Bob has nothing to retransmit.
	bobMsgs, _, _, err := bobChannel.ProcessChanSyncMsg(
		context.Background(), aliceReest,
	)
	require.NoError(t, err)
	require.Empty(t, bobMsgs)

	// <-reestablish--
	bobReest, err := bobChannel.State().ChanSyncMsg()
	require.NoError(t, err)
	alice.link.HandleChannelUpdate(bobReest)

	// Alice still owes the signature after reload.
	//nolint:forcetypeassert
	newCore := alice.link.(*channelLink)
	require.Eventually(t, func() bool {
		return newCore.channel.OweCommitment()
	}, 5*time.Second, 50*time.Millisecond)
	t.Logf("after resync: OweCommitment=%v NumPendingUpdates(Local,"+
		"Remote)=%d NumPendingUpdates(Remote,Remote)=%d",
		newCore.channel.OweCommitment(),
		newCore.channel.NumPendingUpdates(lntypes.Local, lntypes.Remote),
		newCore.channel.NumPendingUpdates(
			lntypes.Remote, lntypes.Remote,
		))

	// Does she send it on her own?
	select {
	case msg = <-alice.msgs:
		sig, ok := msg.(*lnwire.CommitSig)
		require.True(t, ok, "expected commit sig, got %T", msg)
		require.Len(t, sig.HtlcSigs, 1)
		t.Logf("alice sent the owed commit sig after resync")

	case <-time.After(10 * time.Second):
		t.Fatalf("alice owes bob a commitment covering his locked-in " +
			"add, but sends nothing after the re-establishment; " +
			"the htlc stays on her commitment only until some " +
			"unrelated event makes her sign")
	}
}
