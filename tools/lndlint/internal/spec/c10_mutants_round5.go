package spec

// Witnesses for the rules of c10_round5.go (seeded changes of round 5).
func init() {
	const elide = "elided-default-records-agree-with-the-decoder"
	registry["C10"].Mutants = append(registry["C10"].Mutants, []Mutant{
		{Name: "seed5-C10-j", File: "lnwire/channel_update_2.go",
			Old:    "\tif c.FeeProportionalMillionths.Val != defaultFeeProportionalMillionths {",
			New:    "\tif c.FeeProportionalMillionths.Val != defaultFeeBaseMsat {",
			Expect: elide},
		// the same slip on the reader side
		{Name: "seed5-C10-j-decoder-restores-the-neighbouring-default", File: "lnwire/channel_update_2.go",
			Old:    "\t\tc.FeeBaseMsat.Val = defaultFeeBaseMsat\n",
			New:    "\t\tc.FeeBaseMsat.Val = defaultFeeProportionalMillionths\n",
			Expect: elide},
		// the default is applied on the absence of another field's record
		{Name: "seed5-C10-j-default-keyed-on-the-neighbouring-record", File: "lnwire/channel_update_2.go",
			Old:    "\tif _, ok := typeMap[c.HTLCMinimumMsat.TlvType()]; !ok {",
			New:    "\tif _, ok := typeMap[c.CLTVExpiryDelta.TlvType()]; !ok {",
			Expect: elide},
	}...)
}
