package spec

import (
	"go/ast"
	"go/token"
	"go/types"

	"lndlint/internal/an"
)

// c18LeftoverIsChangeOrFee is the body of C18/leftover-is-change-or-fee.
func c18LeftoverIsChangeOrFee(o *an.Obl, p *an.Prog) {
	f := p.Func(sw + "prepareSweepTx")
	// (0 inputs, 1 changePkScript, 2 feeRate, 3 currentHeight, 4 auxSweeper);
	// inputs is legitimately replaced by the estimator's ordering
	notReassigned(o, f, c17ParamNames(f, 1, 2, 3)...)

	// the transaction's lock time: an input's required lock time is
	// adopted only when it is reached and equals the one adopted so far.
	// The values tested are the loop element's own (lt, ok).
	const ltCanon = "$elem($p0).RequiredLockTime()"
	ltTerm := canonTerm(`^` + regexpQuote(ltCanon) + `$`)
	okTerm := canonTerm(`^` + regexpQuote(ltCanon+"#1") + `$`)
	locktime := c17LocalObj(f, "locktime")
	nLT := 0
	for _, w := range c17WritesOf(f, locktime) {
		s, inGraph := c17SiteOfNode(f, w.Node)
		if w.Rhs != nil && (w.Tok == token.DEFINE || w.Tok == token.VAR) && f.Canon(w.Rhs) == "int32(-1)" {
			continue // the "none adopted" marker
		}
		if !inGraph || !w.Whole || w.Tuple || w.Rhs == nil || w.Tok != token.ASSIGN {
			o.FailAt(f.ID+"#locktime-write", f.Where(w.Node.Pos()), "the lock time is changed by %s", an.Text(w.Node))
			continue
		}
		nLT++
		c := f.Canon(w.Rhs)
		o.Site("locktime = %s", c)
		if c != "int32("+ltCanon+")" {
			o.FailAt(f.ID+"#locktime-value", s.Where(), "the lock time adopted is %s, expected the required lock time of the input of this iteration", c)
		}
		guarded(o, f, s, an.Truth(okTerm, true, "the input requires a lock time"))
		guarded(o, f, s, an.CmpX(ltTerm, an.LE, canonTerm(`^\$p3$`), "lt <= uint32(currentHeight)"))
		guarded(o, f, s, an.AnyOf("no lock time adopted yet, or the same one",
			an.CmpX(c17ObjTerm(locktime), an.EQ, canonTerm(`^-1$`), ""),
			an.CmpX(c17ObjTerm(locktime), an.EQ, ltTerm, "")))
	}
	if locktime == nil || nLT != 1 {
		o.FailAt(f.ID+"#locktime-sites", f.Where(f.Body.Pos()), "expected one place that adopts an input's lock time, found %d", nLT)
	}

	// changeAmt = totalInput - requiredOutput - txFee
	ca := f.Assigns(an.LocalNamed("changeAmt"), true)
	if !needExactly(o, f, "changeAmt", ca, 1) {
		return
	}
	cas, _ := ca[0].Node.(*ast.AssignStmt)
	var totalInput, requiredOutput, txFee, changeAmtObj types.Object
	if cas != nil && len(cas.Lhs) == 1 && len(cas.Rhs) == 1 && cas.Tok == token.DEFINE {
		changeAmtObj = c17ObjOfIdent(f, c17BaseIdent(cas.Lhs[0]))
		if outer, ok := ast.Unparen(cas.Rhs[0]).(*ast.BinaryExpr); ok && outer.Op == token.SUB {
			if inner, ok := ast.Unparen(outer.X).(*ast.BinaryExpr); ok && inner.Op == token.SUB {
				a, _ := ast.Unparen(inner.X).(*ast.Ident)
				b, _ := ast.Unparen(inner.Y).(*ast.Ident)
				c, _ := ast.Unparen(outer.Y).(*ast.Ident)
				totalInput, requiredOutput, txFee = c17ObjOfIdent(f, a), c17ObjOfIdent(f, b), c17ObjOfIdent(f, c)
			}
		}
	}
	if totalInput == nil || requiredOutput == nil || txFee == nil || changeAmtObj == nil ||
		totalInput.Name() != "totalInput" || requiredOutput.Name() != "requiredOutput" || txFee.Name() != "txFee" {
		o.FailAt(f.ID+"#change-amount", ca[0].Where(), "changeAmt is computed by %s, expected totalInput - requiredOutput - txFee", ca[0].String())
		return
	}
	o.Site("changeAmt = %s", an.Text(cas.Rhs[0]))
	covered := an.CmpX(an.Bin(token.ADD, c17ObjTerm(requiredOutput), c17ObjTerm(txFee)), an.LE, c17ObjTerm(totalInput), "requiredOutput + txFee <= totalInput")
	guarded(o, f, ca[0], covered)
	c17HoldsSinceLastWrite(o, f, ca[0], covered, totalInput, requiredOutput, txFee)

	// totalInput: every input of the loop adds its value, nothing else does
	var sums []an.Site
	for _, w := range c17WritesOf(f, totalInput) {
		if w.Tok == token.VAR && w.Rhs == nil {
			continue
		}
		s, inGraph := c17SiteOfNode(f, w.Node)
		if !inGraph || !w.Whole || w.Tuple || w.Rhs == nil || w.Tok != token.ADD_ASSIGN || f.Canon(an.Strip(f.Info(), w.Rhs)) != "$elem($p0).SignDesc().Output.Value" {
			o.FailAt(f.ID+"#total-input-write", f.Where(w.Node.Pos()), "the total input amount is changed by %s, expected only `+= value of the input of this iteration` (canonical: %s)", an.Text(w.Node), f.Canon(w.Rhs))
			continue
		}
		sums = append(sums, s)
	}
	if needExactly(o, f, "totalInput += input value", sums, 1) {
		// an iteration may only end early by failing
		everyIteration(o, f, `^\$p0$`, sums, "adding the input's value to the total")
	}

	floor := an.LocalNamed("changeFloor")
	amt := c17ObjTerm(changeAmtObj)
	for _, w := range c17WritesOf(f, changeAmtObj) {
		if w.Node != ast.Node(cas) {
			o.FailAt(f.ID+"#change-amount-write", f.Where(w.Node.Pos()), "changeAmt is changed by %s", an.Text(w.Node))
		}
	}
	changeOuts := c17LocalObj(f, "changeOuts")
	var toFee, toChange []an.Site
	for _, w := range c17WritesOf(f, txFee) {
		s, inGraph := c17SiteOfNode(f, w.Node)
		switch {
		case w.Tok == token.DEFINE && !w.Tuple:
			// txFee := estimator.fee()
		case inGraph && w.Tok == token.ADD_ASSIGN && w.Whole && !w.Tuple && w.Rhs != nil:
			if !amt(f, ast.Unparen(w.Rhs)) {
				o.FailAt(f.ID+"#fee-add", s.Where(), "the fee is increased by %s", an.Text(w.Rhs))
			}
			toFee = append(toFee, s)
			guarded(o, f, s, an.CmpX(amt, an.LT, floor, "changeAmt < changeFloor"))
		default:
			o.FailAt(f.ID+"#fee-write", f.Where(w.Node.Pos()), "unexpected fee update %s", an.Text(w.Node))
		}
	}
	for _, v := range f.Graph().V {
		as, ok := v.Node.(*ast.AssignStmt)
		if !ok || len(as.Lhs) != 1 || len(as.Rhs) != 1 {
			continue
		}
		s := an.Site{Fn: f, V: v, Node: as}
		if c17ObjOfIdent(f, c17BaseIdent(as.Lhs[0])) == changeOuts && changeOuts != nil && isAppend(f, as.Rhs[0]) && kvText(as.Rhs[0], "IsExtra") == "false" {
			toChange = append(toChange, s)
			guarded(o, f, s, an.CmpX(amt, an.GE, floor, "changeAmt >= changeFloor"))
			if kvText(as.Rhs[0], "Value") != "int64("+changeAmtObj.Name()+")" {
				o.FailAt(f.ID+"#change-value", s.Where(), "the change output carries %s, expected changeAmt", kvText(as.Rhs[0], "Value"))
			}
		}
	}
	needExactly(o, f, "txFee += changeAmt", toFee, 1)
	needExactly(o, f, "change output", toChange, 1)
	stop := map[*an.FlowVertex]bool{}
	for _, s := range append(append([]an.Site{}, toFee...), toChange...) {
		stop[s.V] = true
	}
	succ := f.SuccessReturns()
	reach := f.Graph().Reach(ca[0].V, nil, stop)
	for _, s := range succ {
		rs, _ := s.Node.(*ast.ReturnStmt)
		if rs == nil || len(rs.Results) != 4 {
			o.FailAt(f.ID+"#exit-shape", s.Where(), "cannot read the results returned at %s", s.String())
			continue
		}
		o.Site("success exit %s", s.String())
		if reach[s.V] {
			o.FailAt(f.ID+"#leftover-lost", s.Where(), "prepareSweepTx can succeed with the leftover amount neither in a change output nor in the reported fee")
		}
		if !f.Before(ca, s) {
			o.FailAt(f.ID+"#leftover-skipped", s.Where(), "prepareSweepTx can succeed without computing the leftover amount")
		}
		if !c17ObjTerm(txFee)(f, ast.Unparen(rs.Results[0])) {
			o.FailAt(f.ID+"#reported-fee", s.Where(), "the reported fee is %s", an.Text(rs.Results[0]))
		}
	}
	if len(succ) == 0 {
		o.FailAt(f.ID+"#no-success-exit", f.Where(f.Body.Pos()), "prepareSweepTx has no exit that can report success")
	}

	// the change outputs that were collected are the ones handed out:
	// result 1 is the option that is set to Some(changeOuts) whenever the
	// list is not empty
	if changeOuts != nil && len(succ) > 0 {
		var opt types.Object
		for _, s := range succ {
			rs, _ := s.Node.(*ast.ReturnStmt)
			if rs == nil || len(rs.Results) != 4 {
				continue
			}
			id, _ := ast.Unparen(rs.Results[1]).(*ast.Ident)
			v, _ := c17ObjOfIdent(f, id).(*types.Var)
			if v == nil || (opt != nil && opt != types.Object(v)) {
				o.FailAt(f.ID+"#returned-change", s.Where(), "the change outputs returned are %s, expected the option filled from the collected outputs", an.Text(rs.Results[1]))
				continue
			}
			opt = v
		}
		if opt != nil {
			var some []an.Site
			for _, w := range c17WritesOf(f, opt) {
				if w.Tok == token.VAR && w.Rhs == nil {
					continue
				}
				s, inGraph := c17SiteOfNode(f, w.Node)
				c := ""
				if w.Rhs != nil {
					c = f.Canon(w.Rhs)
				}
				call, _ := ast.Unparen(w.Rhs).(*ast.CallExpr)
				if !inGraph || !w.Whole || w.Tuple || w.Tok != token.ASSIGN || call == nil || len(call.Args) != 1 ||
					!reMatch(`^fn(/v\d+)?\.Some$`, an.CalleeID(f.Info(), call)) || !c17ObjTerm(changeOuts)(f, ast.Unparen(call.Args[0])) {
					o.FailAt(f.ID+"#returned-change-write", f.Where(w.Node.Pos()), "the returned change option is written by %s, expected only fn.Some(the collected change outputs) (canonical: %s)", an.Text(w.Node), c)
					continue
				}
				o.Site("%s", s.String())
				some = append(some, s)
			}
			if need(o, f, "changeOutsOpt = fn.Some(changeOuts)", some, 1) {
				for _, c := range toChange {
					mustDoUnlessFrom(o, f, c.V, "handing out the collected change outputs", some, succ,
						an.CmpX(an.Len(c17ObjTerm(changeOuts)), an.LE, an.IntConst(0), "len(changeOuts) <= 0"))
				}
			}
		}
	}

	for _, s := range f.Assigns(floor, false) {
		as, _ := s.Node.(*ast.AssignStmt)
		if as == nil || len(as.Rhs) != 1 {
			o.FailAt(f.ID+"#dust-floor", s.Where(), "the dust floor is changed by %s", s.String())
			continue
		}
		c := f.Canon(as.Rhs[0])
		o.Site("changeFloor = %s", c)
		if c != lw+"DustLimitForSize(len($p1.DeliveryAddress))" || as.Tok != token.DEFINE {
			o.FailAt(f.ID+"#dust-floor", s.Where(), "the dust floor is %s", c)
		}
	}
}
