package spec

import (
	"fmt"
	"go/ast"
	"os"
	"sort"

	"lndlint/internal/an"
)

// loopTable lists, per property, the functions whose range loops apply a
// per-element step of that property to a whole collection (every HTLC of a
// view, every resolver of a channel, every request at a height, ...).  The
// shared obligation below requires each of those loops to be left only when
// the range is exhausted or by a failure return: a `break`, a `return nil`
// or a `continue` turned `break` silently leaves the remaining elements
// without the step.  Search and validation loops that are meant to stop at
// the first hit are tabled with their reason.
var loopTable = map[string][]string{
	"C01": {"lnwallet.LightningChannel.evaluateHTLCView", "lnwallet.LightningChannel.computeView", "lnwallet.LightningChannel.fetchHTLCView", "lnwallet.LightningChannel.fetchCommitmentView", "lnwallet.LightningChannel.validateCommitmentSanity", "lnwallet.CommitmentBuilder.createUnsignedCommitmentTx", "lnwallet.compactLogs", "lnwallet.commitment.toDiskCommit", "lnwallet.commitment.populateHtlcIndexes", "lnwallet.LightningChannel.ReceiveRevocation"},
	"C02": {"lnwallet.LightningChannel.restorePendingRemoteUpdates", "lnwallet.LightningChannel.restorePeerLocalUpdates", "lnwallet.LightningChannel.restorePendingLocalUpdates", "lnwallet.LightningChannel.restoreStateLogs", "lnwallet.LightningChannel.unsignedLocalUpdates", "lnwallet.LightningChannel.getUnsignedAckedUpdates", "lnwallet.LightningChannel.createCommitDiff", "channeldb.ChannelStateDB.UpdateChannelCommitment", "channeldb.ChannelStateDB.AdvanceCommitChainTail"},
	"C03": {"lnwallet.LightningChannel.ProcessChanSyncMsg"},
	"C04": {"lnwallet.NewBreachRetribution", "lnwallet.createBreachRetribution", "lnwallet.createBreachRetributionLegacy", "contractcourt.newRetributionInfo", "contractcourt.BreachArbitrator.createJusticeTx", "contractcourt.BreachArbitrator.createSweepTx", "contractcourt.BreachArbitrator.exactRetribution", "contractcourt.BreachArbitrator.sweepSpendableOutputsTxn"},
	"C05": {"lnwallet.genRemoteHtlcSigJobs", "lnwallet.genHtlcSigValidationJobs", "lnwallet.extractHtlcResolutions", "lnwallet.NewLocalForceCloseSummary", "lnwallet.NewUnilateralCloseSummary", "lnwallet.LightningChannel.SignNextCommitment", "lnwallet.LightningChannel.ReceiveNewCommitment"},
	"C07": {"htlcswitch.circuitMap.restoreMemState", "htlcswitch.circuitMap.CommitCircuits", "htlcswitch.circuitMap.OpenCircuits", "htlcswitch.circuitMap.DeleteCircuits", "htlcswitch.Switch.reforwardResolutions", "htlcswitch.Switch.reforwardSettleFails"},
	"C08": {"htlcswitch.channelLink.processRemoteSettleFails", "htlcswitch.channelLink.processRemoteAdds", "htlcswitch.channelLink.resolveFwdPkgs"},
	"C12": {"contractcourt.ChannelArbitrator.checkCommitChainActions", "contractcourt.ChannelArbitrator.checkRemoteDanglingActions", "contractcourt.ChannelArbitrator.checkRemoteDiffActions"},
	"C13": {"contractcourt.ChannelArbitrator.relaunchResolvers", "contractcourt.ChannelArbitrator.prepContractResolutions", "contractcourt.ChannelArbitrator.resolveContracts", "contractcourt.ChannelArbitrator.stateStep", "contractcourt.ChannelArbitrator.abandonForwards", "contractcourt.ChannelArbitrator.failIncomingDust"},
	"C14": {"chainntnfs.TxNotifier.ConnectTip", "chainntnfs.TxNotifier.DisconnectTip", "chainntnfs.TxNotifier.NotifyHeight", "chainntnfs.TxNotifier.UpdateConfDetails", "chainntnfs.TxNotifier.updateSpendDetails", "chainntnfs.TxNotifier.handleConfDetailsAtTip", "chainntnfs.TxNotifier.handleSpendDetailsAtTip", "chainntnfs.TxNotifier.updateHints", "chainntnfs.TxNotifier.unconfirmedRequests", "chainntnfs.TxNotifier.unspentRequests", "chainntnfs.TxNotifier.filterTx", "chainntnfs.TxNotifier.RegisterConf"},
	"C15": {"invoices.addHTLCs", "invoices.cancelHTLCs", "invoices.settleHodlInvoice", "invoices.cancelInvoice", "invoices.updateMpp", "invoices.updateLegacy", "invoices.reconstructAMPPreimages", "invoices.InvoiceRegistry.SettleHodlInvoice"},
	"C16": {"payments/db.decidePaymentStatus", "payments/db.MPPayment.SentAmt", "payments/db.MPPayment.InFlightHTLCs", "payments/db.verifyAttempt", "payments/db.computePaymentStatusFromResolutions"},
	"C17": {"lnwallet.CreateCooperativeCloseTx"},
	"C18": {"sweep.TxPublisher.createSweepTx", "sweep.prepareSweepTx"},
	"C19": {"routing.newRoute", "routing.edgeUnifier.getEdgeLocal", "routing.edgeUnifier.getEdgeNetwork", "routing.nodeEdgeUnifier.addGraphPolicies"},
	"C20": {"netann.ValidateNodeAnnFields"},
}

// loopExemption: a loop of fn whose description matches Loop may be left by
// an exit statement whose text matches Exit (and only by that), for the stated
// reason: searches and validations that are meant to stop at the first hit.
type loopExemption struct {
	Fn, Loop, Exit, Why string
}

var loopExempt = []loopExemption{
	{"htlcswitch.channelLink.processRemoteAdds", `^\$v:\[\]\*lnwire\.UpdateAddHTLC$`, `^return$`, "the bare returns follow l.failf: the link is being torn down (the function has no error result)"},
	{"invoices.updateMpp", `^\$p1\.HTLCSet\(\$p0\.setID\(\), invoices\.HtlcStateAccepted\)$`, `ResultHtlcSetTotalMismatch`, "validation of the accepted set: a mismatching member refuses the new HTLC with a failure resolution"},
	{"invoices.updateLegacy", `^\$p1\.HTLCSet\(nil, invoices\.HtlcStateAccepted\)$`, `ResultMppInProgress`, "an accepted MPP member refuses the legacy HTLC with a failure resolution"},
	{"invoices.reconstructAMPPreimages", `ReconstructChildren\(.*\)\[1:\]$`, `ResultAmpReconstruction`, "a child whose hash does not match refuses the HTLC with a failure resolution"},
	{"sweep.TxPublisher.createSweepTx", `^\$lit\.p0$`, `^return fn\.Some\(sweepOut\)$`, "search for the change output inside fn.MapOption"},
	{"lnwallet.NewLocalForceCloseSummary", `TxOut$`, `^break$`, "search for our to_local output on the commitment"},
	{"lnwallet.NewUnilateralCloseSummary", `TxOut$`, `^break$`, "search for our to_remote output on the commitment"},
}

// slicedOperandOK: range loops of tabled functions that legitimately run over
// a part of a slice (fn -> regexp of the operand).
var slicedOperandOK = map[string]string{
	"invoices.reconstructAMPPreimages": `ReconstructChildren\(.*\)\[1:\]$`,
}

func loopCoverage(r *an.Run, id string) {
	fns := loopTable[id]
	if len(fns) == 0 {
		return
	}
	p := r.Prog
	r.Obl("per-element-loops-visit-every-element", "PATH",
		"in the tabled functions that apply this property's per-element step to a collection, every loop with an iteration space (range loops, three-clause and list-iterator for loops, also inside their closures) is left only when that space is exhausted or by a failure return: no break, goto, labelled continue of an outer loop or successful return inside the body; a range loop runs over the whole operand, not a slice of it; no tabled function has fewer loops than were confirmed by reading; loops that are searches or validations are tabled with the one exit they may take and the reason",
		"the property quantifies over every HTLC / update / request / resolver; a loop that stops at the first skipped element, runs over a part of the collection or is replaced by its first element leaves the rest without the step while every sampled test with one element still passes", len(fns),
		func(o *an.Obl) {
			sort.Strings(fns)
			for _, fn := range fns {
				f := p.FuncOpt(fn)
				if f == nil {
					o.FailAt(fn+"#missing", "", "tabled function %s not found: the anchor moved", fn)
					continue
				}
				n := 0
				for _, lf := range append([]*an.Func{f}, f.Lits...) {
					n += checkLoops(o, fn, lf)
				}
				o.Site("%s: %d loops checked", fn, n)
				if os.Getenv("LNDLINT_LOOPCOUNTS") != "" {
					fmt.Printf("LOOPCOUNT %s %d\n", fn, n)
				}
				if want, ok := loopCounts[fn]; !ok {
					o.FailAt(fn+"#no-loop-count", "", "no confirmed loop count for %s (regenerate loop_counts.go)", fn)
				} else if n < want {
					o.FailAt(fn+"#fewer-loops", f.Where(f.Body.Pos()), "%s has %d loops, %d were confirmed by reading: a per-element loop was replaced", fn, n, want)
				}
			}
		})
}

// checkLoops examines the loops written directly in lf (closures are separate
// functions) and returns how many it saw.
func checkLoops(o *an.Obl, root string, lf *an.Func) int {
	n := 0
	var visit func(node ast.Node)
	visit = func(node ast.Node) {
		ast.Inspect(node, func(m ast.Node) bool {
			if m == nil {
				return false
			}
			if fl, ok := m.(*ast.FuncLit); ok && (lf.Lit == nil || fl != lf.Lit) {
				return false
			}
			var body *ast.BlockStmt
			var loop ast.Stmt
			switch x := m.(type) {
			case *ast.RangeStmt:
				body, loop = x.Body, x
				if _, sliced := ast.Unparen(x.X).(*ast.SliceExpr); sliced {
					c := lf.Canon(x.X)
					if re, ok := slicedOperandOK[root]; !ok || !reMatch(re, c) {
						o.FailAt(root+"#partial-range:"+c, lf.Where(x.Pos()), "the loop ranges over %s, a part of the collection", c)
					}
				}
			case *ast.ForStmt:
				if x.Cond == nil {
					return true // event loops have no iteration space
				}
				body, loop = x.Body, x
			default:
				return true
			}
			n++
			desc := loopDesc(lf, loop)
			for _, ex := range earlyExits(lf, loop, body) {
				txt := an.Text(ex)
				if b, ok := ex.(*ast.BranchStmt); ok {
					txt = b.Tok.String()
					if b.Label != nil {
						txt += " " + b.Label.Name
					}
				}
				allowed := false
				for _, e := range loopExempt {
					if e.Fn == root && reMatch(e.Loop, desc) && reMatch(e.Exit, txt) {
						o.Site("%s: loop over %s may be left by %q (%s)", root, desc, txt, e.Why)
						allowed = true
					}
				}
				if !allowed {
					o.FailAt(root+"#loop-left-early:"+desc, lf.Where(ex.Pos()), "the loop over %s can be left by %q before every element was processed", desc, txt)
				}
			}
			return true
		})
	}
	visit(lf.Body)
	return n
}
