package spec

import (
	"go/ast"
	"strings"

	"lndlint/internal/an"
)

func init() {
	specExtras["C19"] = append(specExtras["C19"], c19FirstHopAmount)
}

// c19FirstHopAmount: the amount the first-hop link is asked about (round-3 seed
// C19/f).
func c19FirstHopAmount(r *an.Run) {
	p := r.Prog
	r.Obl("first-hop-link-is-asked-about-the-real-amount", "GUARD",
		"bandwidthManager.getBandwidth overrides the amount handed to MayAddOutgoingHtlc only for channels the traffic shaper handles: a bandwidthResult that sets htlcAmount is built only below auxBandwidth.IsHandled, and the amount asked about is result.htlcAmount.UnwrapOr(<the amount parameter>)",
		"for a regular channel the link must be asked whether it can add an HTLC of the amount being routed; asking about 0 accepts a first hop whose remaining in-flight allowance does not cover the payment", 2,
		func(o *an.Obl) {
			f := p.Func("routing.bandwidthManager.getBandwidth")
			n := 0
			for _, fn := range append([]*an.Func{f}, f.Lits...) {
				for _, v := range fn.Graph().V {
					if v.Node == nil {
						continue
					}
					ast.Inspect(v.Node, func(x ast.Node) bool {
						if _, isLit := x.(*ast.FuncLit); isLit {
							return false
						}
						cl, ok := x.(*ast.CompositeLit)
						if !ok || !strings.HasSuffix(an.TypeID(fn.Info().TypeOf(cl)), "bandwidthResult") {
							return true
						}
						for _, el := range cl.Elts {
							kv, isKV := el.(*ast.KeyValueExpr)
							if isKV && an.Text(kv.Key) == "htlcAmount" {
								n++
								guarded(o, fn, an.Site{Fn: fn, V: v, Node: cl}, an.Truth(an.FieldPath(an.LocalNamed("auxBandwidth"), "IsHandled"), true, "auxBandwidth.IsHandled"))
							}
						}
						return true
					})
					// later writes of the field
					if as, ok := v.Node.(*ast.AssignStmt); ok {
						for _, l := range as.Lhs {
							if sel, isSel := l.(*ast.SelectorExpr); isSel && sel.Sel.Name == "htlcAmount" {
								n++
								guarded(o, fn, an.Site{Fn: fn, V: v, Node: as}, an.Truth(an.FieldPath(an.LocalNamed("auxBandwidth"), "IsHandled"), true, "auxBandwidth.IsHandled"))
							}
						}
					}
				}
			}
			if n < 1 {
				o.FailAt(f.ID+"#override-sites", f.Where(f.Body.Pos()), "no bandwidthResult sets htlcAmount any more: re-anchor the rule")
			}
			calls := f.Calls(an.CalleeNamed("MayAddOutgoingHtlc"), false)
			if needExactly(o, f, "MayAddOutgoingHtlc", calls, 1) {
				if a := f.ArgCanon(calls[0]); !reMatch(`\.htlcAmount\.UnwrapOr\(\$p1\)$`, a[0]) {
					o.FailAt(f.ID+"#amount-asked", calls[0].Where(), "the link is asked about %s, expected the shaper's override or else the amount parameter", a[0])
				}
				notReassigned(o, f, "amount")
			}
		})
}
