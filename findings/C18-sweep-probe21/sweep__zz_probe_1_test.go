package sweep

import (
	"github.com/lightningnetwork/lnd/fn/v2"
	"github.com/lightningnetwork/lnd/lnwallet/chainfee"
	"github.com/stretchr/testify/require"
	"testing"
)

// Probe 1: a caller-supplied starting fee rate is never floored at the relay
// fee. `lncli wallet bumpfee --sat_per_vbyte 1` gives 250 sat/kw
// (walletkit_server.go validateBumpFeeRequest), FeeEstimateInfo.Estimate would
// lift 250 to 253 but the starting-fee-rate path bypasses it.
func TestProbeCallerStartingFeeRateBelowRelayFloor(t *testing.T) {
	t.Parallel()

	estimator := &chainfee.MockEstimator{}
	estimator.On("RelayFeePerKW").Return(chainfee.FeePerKwFloor).Maybe()

	start := chainfee.SatPerVByte(1).FeePerKWeight()
	f, err := NewLinearFeeFunction(
		chainfee.SatPerKWeight(10_000), 10, estimator, fn.Some(start),
	)
	require.NoError(t, err)
	require.GreaterOrEqual(t, f.FeeRate(), chainfee.FeePerKwFloor,
		"fee function starts below the relay floor")
}
