package graphdb

import (
	"bytes"
	"testing"
	"time"

	"github.com/lightningnetwork/lnd/lnwire"
	"github.com/stretchr/testify/require"
)

// TestProbeMakeZombiePubkeys checks the documented contract of
// makeZombiePubkeys directly: the return values are one of (pubkey1, pubkey2),
// (pubkey1, blank) or (blank, pubkey2).
func TestProbeMakeZombiePubkeys(t *testing.T) {
	t.Parallel()

	var (
		blank [33]byte
		node1 = [33]byte{0x02, 0x11}
		node2 = [33]byte{0x03, 0x22}
		older = time.Unix(1_000, 0)
		newer = time.Unix(2_000, 0)
	)

	// Neither policy known: either side may resurrect.
	k1, k2 := makeZombiePubkeys(node1, node2, nil, nil)
	require.Equal(t, node1, k1)
	require.Equal(t, node2, k2)

	// Edge 1 is the older side: only node 1 may resurrect.
	k1, k2 = makeZombiePubkeys(node1, node2, &older, &newer)
	require.Equal(t, node1, k1)
	require.Equal(t, blank, k2)

	// Edge 1 missing: only node 1 may resurrect.
	k1, k2 = makeZombiePubkeys(node1, node2, nil, &newer)
	require.Equal(t, node1, k1)
	require.Equal(t, blank, k2)

	// Edge 2 is the older side: only node 2 may resurrect.
	k1, k2 = makeZombiePubkeys(node1, node2, &newer, &older)
	require.Equal(t, blank, k1, "slot 1 must be blank")
	require.Equal(t, node2, k2, "slot 2 must hold node 2's key")

	// Edge 2 missing: only node 2 may resurrect.
	k1, k2 = makeZombiePubkeys(node1, node2, &newer, nil)
	require.Equal(t, blank, k1, "slot 1 must be blank")
	require.Equal(t, node2, k2, "slot 2 must hold node 2's key")
}

// TestProbeStrictZombiePruningStoresLaggingNodeKey drives the real store
// through the same call the graph builder's pruneZombieChans makes with strict
// zombie pruning enabled (DeleteChannelEdges(strict=true, markZombie=true)) and
// then reads the zombie index back through the public API.
func TestProbeStrictZombiePruningStoresLaggingNodeKey(t *testing.T) {
	t.Parallel()

	const v = lnwire.GossipVersion1

	var blank [33]byte

	now := time.Now()
	fresh := now.Add(-time.Hour).Unix()
	stale := now.Add(-15 * 24 * time.Hour).Unix()

	tests := []struct {
		name string

		// Update times of the two policies; 0 means "no policy".
		edge1Time, edge2Time int64

		// Which node is the lagging one that must be able to resurrect.
		expectNode1Slot, expectNode2Slot bool
	}{
		{
			name:            "edge2 older than edge1",
			edge1Time:       fresh,
			edge2Time:       stale,
			expectNode2Slot: true,
		},
		{
			name:            "edge2 missing",
			edge1Time:       fresh,
			expectNode2Slot: true,
		},
		{
			name:            "edge1 older than edge2 (control)",
			edge1Time:       stale,
			edge2Time:       fresh,
			expectNode1Slot: true,
		},
		{
			name:            "edge1 missing (control)",
			edge2Time:       fresh,
			expectNode1Slot: true,
		},
	}

	for _, test := range tests {
		t.Run(test.name, func(t *testing.T) {
			t.Parallel()
			ctx := t.Context()

			graph := MakeTestGraph(t)
			vGraph := NewVersionedGraph(graph, v)

			node1 := createTestVertex(t, v)
			node2 := createTestVertex(t, v)
			if bytes.Compare(
				node2.PubKeyBytes[:], node1.PubKeyBytes[:],
			) < 0 {

				node1, node2 = node2, node1
			}
			require.NotEqual(t, node1.PubKeyBytes, node2.PubKeyBytes)

			edge, _, _ := createChannelEdge(node1, node2, v)
			require.Equal(t, node1.PubKeyBytes, [33]byte(
				edge.NodeKey1Bytes,
			))
			require.Equal(t, node2.PubKeyBytes, [33]byte(
				edge.NodeKey2Bytes,
			))
			require.NoError(t, graph.AddChannelEdge(ctx, edge))

			if test.edge1Time != 0 {
				p1 := newEdgePolicy(
					v, edge.ChannelID, test.edge1Time, true,
				)
				p1.ToNode = node2.PubKeyBytes
				p1.SigBytes = testSig.Serialize()
				require.NoError(
					t, graph.UpdateEdgePolicy(ctx, p1),
				)
			}
			if test.edge2Time != 0 {
				p2 := newEdgePolicy(
					v, edge.ChannelID, test.edge2Time,
					false,
				)
				p2.ToNode = node1.PubKeyBytes
				p2.SigBytes = testSig.Serialize()
				require.NoError(
					t, graph.UpdateEdgePolicy(ctx, p2),
				)
			}

			// This is the call pruneZombieChans makes when
			// StrictZombiePruning is set.
			err := graph.DeleteChannelEdges(
				ctx, v, true, true, edge.ChannelID,
			)
			require.NoError(t, err)

			isZombie, key1, key2, err := vGraph.IsZombieEdge(
				ctx, edge.ChannelID,
			)
			require.NoError(t, err)
			require.True(t, isZombie)

			// The zombie lookup that the gossiper uses must report
			// the same keys.
			info, _, _, err := graph.FetchChannelEdgesByID(
				ctx, edge.ChannelID,
			)
			require.ErrorIs(t, err, ErrZombieEdge)
			require.Equal(t, key1, [33]byte(info.NodeKey1Bytes))
			require.Equal(t, key2, [33]byte(info.NodeKey2Bytes))

			wantKey1, wantKey2 := blank, blank
			if test.expectNode1Slot {
				wantKey1 = node1.PubKeyBytes
			}
			if test.expectNode2Slot {
				wantKey2 = node2.PubKeyBytes
			}

			require.Equalf(t, wantKey1, key1,
				"zombie index slot 1: want %x got %x "+
					"(node1=%x node2=%x)", wantKey1, key1,
				node1.PubKeyBytes, node2.PubKeyBytes)
			require.Equalf(t, wantKey2, key2,
				"zombie index slot 2: want %x got %x "+
					"(node1=%x node2=%x)", wantKey2, key2,
				node1.PubKeyBytes, node2.PubKeyBytes)
		})
	}
}
