package spec

import (
	"go/ast"
	"go/types"
	"strings"

	"lndlint/internal/an"
	"lndlint/internal/flow"
)

func init() {
	register(&Spec{
		ID:          "C06",
		Loads:       []LoadSpec{{Patterns: []string{"./contractcourt", "./shachain", "./lnwallet", "./lnwire", "./chanstate", "./channeldb"}}},
		Explanation: "Decides that the revocation store is bounded by type (a fixed array of 48 buckets plus one index), that a secret is stored and the index advanced only after it reproduced every lower bucket, that no index arithmetic in the shachain package is narrowed below 64 bits, that the store and producer codecs agree, that revoke_and_ack messages are built only by the one generator whose two callers are the persist-then-release revocation and the reconnect retransmission with the documented heights, that the release is dominated by the durable commitment write, and that the status-update writers rewrite the channel only from a copy read in the same transaction (so a stale handle cannot roll durable state back behind released secrets); that the revocation state of a live channel is changed only under the channel mutex a refresh takes, store insertion, rotation and durable advance in one critical section; that the revoked commitment has left the local chain before the tail is persisted; and that the chain watcher refreshes its snapshot's store from disk before a breach lookup.",
		NotDecided: []string{
			"exact derivation for all 2^48 indexes (bit arithmetic and hashing)", "that a corrupted secret is always rejected (hash pre-image resistance)",
			"crash points between durable writes (C02 covers the ordering clauses)",
		},
		Assumptions: commonAssumptions,
		Engines:     "type query, GUARD, BOUND (no narrowing conversions), CODEC, WHO, PATH, ROLE",
		TagMatrix:   [][]string{{"integration"}, {"GOARCH=386"}},
		Run:         runC06,
	})
}

func runC06(r *an.Run) {
	p := r.Prog

	r.Obl("store-bounded-by-type", "BOUND",
		"RevocationStore holds hashes only in a fixed-size array of at most 49 elements; element carries one hash; no slice or map of hashes exists in the store",
		"the property bounds storage at 49 values; a slice-backed store could grow with the number of secrets", 2,
		func(o *an.Obl) {
			t := p.LookupType("shachain", "RevocationStore")
			st := t.Underlying().(*types.Struct)
			for i := 0; i < st.NumFields(); i++ {
				fld := st.Field(i)
				o.Site("RevocationStore.%s %s", fld.Name(), types.TypeString(fld.Type(), nil))
				switch ft := fld.Type().Underlying().(type) {
				case *types.Array:
					if ft.Len() > 49 {
						o.FailAt("RevocationStore."+fld.Name()+"#len", "", "bucket array has %d elements, more than 49", ft.Len())
					}
				case *types.Slice, *types.Map, *types.Chan, *types.Pointer:
					o.FailAt("RevocationStore."+fld.Name()+"#unbounded", "", "field %s has unbounded type %s", fld.Name(), fld.Type())
				}
			}
		})

	r.Obl("secret-stored-only-if-consistent", "GUARD",
		"AddNextEntry writes the bucket and decrements the index only after the loop over all lower buckets ended, and the loop continues only when the new element derives to a value equal to the stored bucket (derive ok and isEqual true); the element under test is {index: store.index, hash: *hash}, its bucket is countTrailingZeros of that index, derive is called once on the new element for the index of bucket i, isEqual once on the derived element against bucket i, the loop variable is advanced by the loop header only, and the new element itself is what is written to its bucket",
		"a secret inconsistent with earlier ones must be rejected, otherwise later lookups return wrong secrets", 4,
		func(o *an.Obl) {
			f := p.Func("shachain.RevocationStore.AddNextEntry")
			writes := f.Assigns(func(fn *an.Func, e ast.Expr) bool {
				ix, ok := e.(*ast.IndexExpr)
				return ok && an.Field("shachain.RevocationStore", "buckets", nil)(fn, an.Strip(fn.Info(), ix.X))
			}, false)
			dec := f.Assigns(an.Field("shachain.RevocationStore", "index", nil), false)
			if !need(o, f, "bucket write", writes, 1) || !need(o, f, "index decrement", dec, 1) {
				return
			}
			bucket := an.CallTo("shachain.countTrailingZeros", nil)
			loopDone := an.CmpX(an.LocalNamed("i"), an.GE, bucket, "i >= bucket (loop over lower buckets finished)")
			guardedAll(o, f, append(writes, dec...), loopDone)
			// the loop starts at bucket 0 and compares bucket i itself
			ast.Inspect(f.Body, func(n ast.Node) bool {
				fs, ok := n.(*ast.ForStmt)
				if !ok {
					return true
				}
				if init := an.Text(fs.Init); init != "i := uint8(0)" {
					o.FailAt(f.ID+"#loop-start", f.Where(fs.Pos()), "the consistency loop starts with %s, expected bucket 0", init)
				}
				if post := an.Text(fs.Post); post != "i++" {
					o.FailAt(f.ID+"#loop-step", f.Where(fs.Pos()), "the consistency loop advances by %s", post)
				}
				return true
			})
			for _, s := range f.Calls(an.CalleeIs("shachain.element.derive"), false) {
				if a := f.ArgCanon(s); !reMatch(`^\$recv\.buckets\[\$v:uint8\]\.index$`, a[0]) {
					o.FailAt(f.ID+"#derive-target", s.Where(), "the new element is derived to %s, expected the index of bucket i", a[0])
				}
			}
			for _, s := range f.Calls(an.CalleeIs("shachain.element.isEqual"), false) {
				if a := f.ArgCanon(s); !reMatch(`^&\$recv\.buckets\[\$v:uint8\]$`, a[0]) {
					o.FailAt(f.ID+"#compare-target", s.Where(), "the derived element is compared with %s, expected bucket i", a[0])
				}
			}
			// the loop increment is reached only through derive ok and isEqual true
			for _, v := range f.Graph().V {
				if st, ok := v.Node.(*ast.IncDecStmt); ok && st.Tok.String() == "++" {
					s := an.Site{Fn: f, V: v, Node: st}
					mustPass(o, f, "element.derive", f.Calls(an.CalleeIs("shachain.element.derive"), false), an.OkErrNil, []an.Site{s})
					guarded(o, f, s, an.Truth(an.CallTo("shachain.element.isEqual", nil), true, "derived.isEqual(stored bucket)"))
				}
			}
			for _, s := range dec {
				if st, ok := s.Node.(*ast.IncDecStmt); !ok || st.Tok.String() != "--" {
					o.FailAt(f.ID+"#index-step", s.Where(), "the store index must move by exactly one per accepted secret: %s", an.Text(s.Node))
				}
			}
			c06ConsistencyOperands(o, f, writes)
		})

	r.Obl("no-narrowing-of-index-arithmetic", "BOUND",
		"in package shachain every conversion of an index / uint64 valued expression is to a 64-bit type, except the extraction of a single bit (`... & 1`) and the bit-position byte; comparisons of prefixes are made on full-width values",
		"indexes span 2^48; a comparison or derivation on a truncated value treats indexes that differ only in high bits as ancestors and returns wrong secrets once more than 2^32 states exist", 6,
		func(o *an.Obl) {
			for _, f := range p.Funcs(false, "shachain") {
				info := f.Info()
				ast.Inspect(f.Body, func(n ast.Node) bool {
					c, ok := n.(*ast.CallExpr)
					if !ok || len(c.Args) != 1 {
						return true
					}
					tv, ok := info.Types[c.Fun]
					if !ok || !tv.IsType() {
						return true
					}
					to, ok1 := tv.Type.Underlying().(*types.Basic)
					from, ok2 := info.TypeOf(c.Args[0]).Underlying().(*types.Basic)
					if !ok1 || !ok2 || to.Info()&types.IsInteger == 0 || from.Info()&types.IsInteger == 0 {
						return true
					}
					if f.Pkg.TypesSizes.Sizeof(from) < 8 {
						return true
					}
					o.Site("%s: %s", f.ID, an.Text(c))
					if f.Pkg.TypesSizes.Sizeof(to) >= 8 {
						return true
					}
					// single-bit extraction
					if be, ok := ast.Unparen(c.Args[0]).(*ast.BinaryExpr); ok && be.Op.String() == "&" && an.IntConst(1)(f, ast.Unparen(be.Y)) {
						return true
					}
					if tvv, ok := info.Types[c.Args[0]]; ok && tvv.Value != nil {
						return true // constant
					}
					o.FailAt(f.ID+"#narrowing", f.Where(c.Pos()), "%s narrows a 64-bit index expression to %s: %s", f.ID, to.Name(), an.Text(c))
					return true
				})
			}
		})

	r.Obl("store-and-producer-codec", "CODEC",
		"RevocationStore.Encode and NewRevocationStoreFromBytes move the same sequence (bucket count, per bucket index and hash, next index) with the same element types; the producer's Encode and NewRevocationProducerFromBytes both carry exactly the root hash",
		"the store is rewritten on every revocation; an asymmetric codec loses the ability to derive old secrets after the first restart", 3,
		func(o *an.Obl) {
			enc, dec := p.Func("shachain.RevocationStore.Encode"), p.Func("shachain.NewRevocationStoreFromBytes")
			te, _ := enc.Trace(p.LookupType("shachain", "RevocationStore"), an.CodecOpts{})
			td, _ := dec.Trace(p.LookupType("shachain", "RevocationStore"), an.CodecOpts{})
			render := func(ev []an.Event) []string {
				var out []string
				for _, e := range ev {
					if strings.HasSuffix(e.Type, "bigEndian") {
						continue
					}
					out = append(out, e.Type)
				}
				return out
			}
			a, b := render(te), render(td)
			o.Site("Encode writes %v", a)
			o.Site("FromBytes reads %v", b)
			if len(a) < 4 || strings.Join(a, " ") != strings.Join(b, " ") {
				// the hash is written as a []byte slice of the array and
				// read with io.ReadFull into a slice of the array
				o.FailAt("RevocationStore#codec", dec.Where(dec.Body.Pos()), "store codec traces differ:\n  enc %v\n  dec %v", a, b)
			}
			pe, pd := p.Func("shachain.RevocationProducer.Encode"), p.Func("shachain.NewRevocationProducerFromBytes")
			if !strings.Contains(an.Text(pe.Body.List[0]), "root.hash") {
				o.FailAt("RevocationProducer#encode", pe.Where(pe.Body.Pos()), "the producer no longer encodes its root hash")
			}
			n := 0
			for _, ref := range p.CompositeLitsOf(p.LookupType("shachain", "element")) {
				if ref.Fn != nil && ref.Fn.ID == pd.ID {
					n++
					o.Site("producer restored as %s", pd.Canon(ref.Node.(*ast.CompositeLit)))
					if !strings.Contains(pd.Canon(ref.Node.(*ast.CompositeLit)), "index: shachain.rootIndex") {
						o.FailAt("RevocationProducer#root-index", ref.Where, "a restored producer must start at the root index")
					}
				}
			}
			if n != 1 {
				o.FailAt("RevocationProducer#decode", pd.Where(pd.Body.Pos()), "cannot find the restored root element")
			}
		})

	r.Obl("release-only-after-durable-commitment", "PATH",
		"revoke_and_ack is built only in generateRevocation (callers: RevokeCurrentCommitment with currentHeight as it is before the height is advanced, ProcessChanSyncMsg with local tail - 1); generateRevocation copies into the message's Revocation field exactly once, the secret of the height it was asked for, and sets NextRevocationKey once, from the secret at that height + 2; RevokeCurrentCommitment returns the message only after channelState.UpdateCommitment succeeded; the retransmission path only re-sends a height below the durable local tail",
		"a secret handed out before the newer peer-signed commitment is durable lets a crash revert to a state whose secret is already public", 6,
		func(o *an.Obl) {
			f := p.Func(lw + "LightningChannel.RevokeCurrentCommitment")
			mustPass(o, f, "UpdateCommitment", f.Calls(an.CalleeIs("chanstate.OpenChannel.UpdateCommitment"), false), an.OkErrNil, f.SuccessReturns())
			w := r.Wide()
			w.WhoMay(o, "lnwallet.LightningChannel.generateRevocation", w.RefsTo(w.Method("lnwallet", "LightningChannel", "generateRevocation"), true), map[string]string{
				lw + "LightningChannel.RevokeCurrentCommitment": "persist-then-release",
				lw + "LightningChannel.ProcessChanSyncMsg":      "retransmission of an already released secret",
			}, nil)
			for _, ref := range w.CompositeLitsOf(w.LookupType("lnwire", "RevokeAndAck")) {
				id := "<package-level>"
				if ref.Fn != nil {
					id = ref.Fn.ID
				}
				o.Site("RevokeAndAck literal in %s", id)
				if id != lw+"LightningChannel.generateRevocation" && !strings.HasPrefix(id, "lnwire.") {
					o.FailAt("RevokeAndAck-literal<-"+id, ref.Where, "a revoke_and_ack message is constructed in %s", id)
				}
			}
			// every caller of generateRevocation and the height it releases
			callers := map[string]string{
				lw + "LightningChannel.RevokeCurrentCommitment": "$recv.currentHeight",
				lw + "LightningChannel.ProcessChanSyncMsg":      "($recv.commitChains.Local.tail().height - 1)",
			}
			for _, fn := range p.Funcs(false, "lnwallet") {
				for _, s := range fn.Calls(an.CalleeIs(lw+"LightningChannel.generateRevocation"), true) {
					a := fn.ArgCanon(s)
					o.Site("%s releases height %s", fn.Root().ID, a[0])
					want, ok := callers[fn.Root().ID]
					if !ok {
						o.FailAt(fn.Root().ID+"#releases-secret", s.Where(), "%s releases a revocation secret; only RevokeCurrentCommitment and the reconnect path may", fn.Root().ID)
					} else if a[0] != want {
						o.FailAt(fn.Root().ID+"#released-height", s.Where(), "%s releases the secret of height %s, expected %s", fn.Root().ID, a[0], want)
					}
					// `$recv.currentHeight` names the field: it is the height
					// to revoke only as long as it was not advanced yet
					for _, w := range c04FieldWritesBefore(fn, lw+"LightningChannel", "currentHeight", s) {
						o.FailAt(fn.Root().ID+"#height-written-before-release", w.Where(), "%s changes currentHeight (%s) before it asks for the revocation of %s", fn.Root().ID, an.Text(w.Node), a[0])
					}
					c04OperandsNotOverwritten(o, fn, s.Node.(*ast.CallExpr).Args[0], "released height")
				}
			}
			c06RevocationMessage(o, p, "release")
			// every reference to the generator is one of those direct calls: a
			// method value (`gen := lc.generateRevocation; gen(h)`) would release
			// a height none of the argument rules above sees
			nRefs, nCalls := map[string]int{}, map[string]int{}
			for _, ref := range p.RefsTo(p.Method("lnwallet", "LightningChannel", "generateRevocation"), false) {
				if ref.Fn != nil {
					nRefs[ref.Fn.ID]++
				}
			}
			for _, fn := range p.Funcs(false, "lnwallet") {
				if fn.Lit == nil {
					nCalls[fn.ID] = len(fn.Calls(an.CalleeIs(lw+"LightningChannel.generateRevocation"), true))
				}
			}
			for id, k := range nRefs {
				if k != nCalls[id] {
					o.FailAt(id+"#generator-as-value", "", "%s refers to generateRevocation %d times but calls it directly %d times: the generator is taken as a function value", id, k, nCalls[id])
				}
			}
			g := p.Func(lw + "LightningChannel.ProcessChanSyncMsg")
			for _, s := range g.Calls(an.CalleeIs(lw+"LightningChannel.generateRevocation"), false) {
				a := g.ArgCanon(s)
				o.Site("retransmission height %s", a[0])
				if a[0] != "($recv.commitChains.Local.tail().height - 1)" {
					o.FailAt(g.ID+"#retransmit-height", s.Where(), "reconnect releases the secret of height %s, expected local tail - 1 (already revoked durably)", a[0])
				}
			}
		})

	statusWriters(r)
	revocationAcceptance(r)

	r.Obl("own-chain-indexes", "ROLE",
		"every call of the local revocation producer's AtIndex outside tests is one of the tabled sites and asks for the index its role requires: 0 when the channel is created; 1 for the second commitment point of channel_ready; the current height for the unrevoked commitment (restore, anchor resolutions, channel_reestablish); current height + 1 for the next revocation key and the commitment being received; the revoked height (for the released secret) and then that height + 2 (for the next revocation key) in generateRevocation, each height parameter as it was passed in; the peer's reported tail - 1 when proving data loss; the force-closed / broadcast state number for the close summaries; the nonce target height for musig2",
		"a point or secret taken at another index repeats or skips an element of the derivation chain the peer holds us to", 15,
		func(o *an.Obl) {
			want := map[string][]string{
				"chanstate.NewMusigVerificationNonce":                {"$p1"},
				"chanstate.OpenChannel.ChanSyncMsg":                  {"$recv.LocalCommitment.CommitHeight"},
				"chanstate.OpenChannel.SecondCommitmentPoint":        {"1"},
				"contractcourt.chainWatcher.handleUnknownLocalState": {"$p1"},
				lw + "LightningChannel.NewAnchorResolutions":         {"$recv.currentHeight"},
				lw + "LightningChannel.NextRevocationKey":            {"($recv.currentHeight + 1)"},
				lw + "LightningChannel.ProcessChanSyncMsg":           {"($p1.RemoteCommitTailHeight - 1)"},
				lw + "LightningChannel.ReceiveNewCommitment":         {"($recv.currentHeight + 1)"},
				lw + "LightningChannel.generateRevocation":           {"$p0", "($p0 + 2)"},
				lw + "LightningChannel.restoreCommitState":           {"$recv.currentHeight"},
				lw + "LightningWallet.initOurContribution":           {"0", "0"},
				lw + "NewLocalForceCloseSummary":                     {"$p4"},
				lw + "WithLocalCounterNonce":                         {"$p0"},
			}
			got := map[string][]string{}
			for _, f := range p.Funcs(false) {
				if an.Short(f.Pkg.PkgPath) == "shachain" {
					continue // the producer's own implementation
				}
				// through the interface or through the concrete producer
				for _, s := range f.Calls(an.CalleeIs("shachain.Producer.AtIndex", "shachain.RevocationProducer.AtIndex"), false) {
					a := f.ArgCanon(s)
					o.Site("%s index=%s", s.String(), a[0])
					got[f.Root().ID] = append(got[f.Root().ID], a[0])
					// `$pN` names the parameter, not its value on entry
					c04OperandsNotOverwritten(o, f, s.Node.(*ast.CallExpr).Args[0], "revocation chain index")
				}
			}
			for fn, idx := range got {
				w, ok := want[fn]
				if !ok {
					o.FailAt(fn+"#untabled-AtIndex", "", "%s derives an element of our revocation chain at %v; the site is not in the table", fn, idx)
					continue
				}
				// in source order: the first request of generateRevocation is
				// the secret it releases, the second the next point it announces
				g := append([]string{}, idx...)
				ww := append([]string{}, w...)
				if strings.Join(g, " | ") != strings.Join(ww, " | ") {
					o.FailAt(fn+"#AtIndex", "", "%s asks the revocation producer for index %v, its role requires %v", fn, g, ww)
				}
			}
			for fn := range want {
				if _, ok := got[fn]; !ok {
					o.FailAt(fn+"#AtIndex-missing", "", "%s no longer derives from the revocation producer", fn)
				}
			}
			c06RevocationMessage(o, p, "roles")
		})
}

func statusWriters(r *an.Run) {
	p := r.Prog
	r.Obl("status-writers-use-disk-copy", "ROLE",
		"every putOpenChannel call outside the initial full sync and the closed-channel archive passes the channel value returned by fetchOpenChannel in the same transaction, never the caller's in-memory handle",
		"putOpenChannel rewrites both commitments and the revocation state; writing a stale in-memory handle rolls the durable commitment back behind secrets that were already released", 7,
		func(o *an.Obl) {
			n := 0
			for _, f := range p.Funcs(false, "channeldb") {
				for _, s := range f.Calls(an.CalleeIs("channeldb.putOpenChannel"), false) {
					root := f.Root().ID
					a := f.ArgCanon(s)
					o.Site("%s passes %s", s.String(), a[1])
					if root == "channeldb.fullSyncOpenChannel" || root == "channeldb.archiveClosedChannel" {
						continue
					}
					n++
					if !strings.HasPrefix(a[1], "channeldb.fetchOpenChannel(") {
						o.FailAt(root+"#putOpenChannel-source", s.Where(), "%s rewrites the whole channel from %s; it must write the copy it read with fetchOpenChannel in the same transaction", root, a[1])
					}
				}
			}
			if n < 6 {
				o.FailAt("putOpenChannel#sites", "", "expected at least 6 status writers, found %d", n)
			}
			_ = flow.KCond
		})

}
