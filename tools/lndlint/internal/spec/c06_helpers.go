package spec

import (
	"go/ast"
	"go/types"
	"strings"

	"lndlint/internal/an"
)

// c06ConsistencyOperands completes secret-stored-only-if-consistent: the guard
// and path rules of that obligation say WHEN derive / isEqual / the bucket
// write happen; this says ON WHAT.  The element under test is the new one
// ({index: store.index, hash: *hash}); its bucket is countTrailingZeros of that
// very index; derive is called (once) on the new element, isEqual (once) on
// the element derive returned; both address bucket i, where i is the variable
// of the loop header and nothing but the header advances it; the value written
// to the bucket is the new element.
func c06ConsistencyOperands(o *an.Obl, f *an.Func, bucketWrites []an.Site) {
	info := f.Info()
	const newEl = `&shachain.element{index: $recv.index, hash: *$p0}`
	canonIs := func(e ast.Expr, want string) bool { return f.Canon(e) == want }
	recvOf := func(s an.Site) ast.Expr {
		if sel, ok := ast.Unparen(s.Node.(*ast.CallExpr).Fun).(*ast.SelectorExpr); ok {
			return sel.X
		}
		return nil
	}
	// the loop variable
	var loop *ast.ForStmt
	nLoops := 0
	ast.Inspect(f.Body, func(n ast.Node) bool {
		if fs, ok := n.(*ast.ForStmt); ok {
			nLoops++
			loop = fs
		}
		return true
	})
	if nLoops != 1 {
		o.FailAt(f.ID+"#loops", f.Where(f.Body.Pos()), "expected the one consistency loop in AddNextEntry, found %d for-loops", nLoops)
		return
	}
	var loopVar types.Object
	if as, ok := loop.Init.(*ast.AssignStmt); ok && len(as.Lhs) == 1 {
		if id, ok := as.Lhs[0].(*ast.Ident); ok {
			loopVar = info.Defs[id]
		}
	}
	if loopVar == nil {
		o.FailAt(f.ID+"#loop-variable", f.Where(loop.Pos()), "cannot find the variable of the consistency loop")
		return
	}
	for _, st := range c04Overwrites(f, loopVar) {
		if st != ast.Node(loop.Post) {
			o.FailAt(f.ID+"#loop-variable-written", f.Where(st.Pos()), "the loop body changes the bucket counter (%s): lower buckets are skipped", an.Text(st))
		}
	}
	o.Site("%s: the bucket counter is advanced by the loop header only", f.ID)
	// indexes bucket i: every index expression into store.buckets inside e
	// uses the loop variable
	bucketI := func(e ast.Expr) bool {
		ok, n := true, 0
		ast.Inspect(e, func(x ast.Node) bool {
			ix, isIx := x.(*ast.IndexExpr)
			if !isIx || !an.Field("shachain.RevocationStore", "buckets", nil)(f, an.Strip(info, ix.X)) {
				return true
			}
			n++
			id, isId := ast.Unparen(ix.Index).(*ast.Ident)
			if !isId || info.Uses[id] != loopVar {
				ok = false
			}
			return true
		})
		return ok && n == 1
	}
	// the bucket number
	ctz := f.Calls(an.CalleeIs("shachain.countTrailingZeros"), false)
	if needExactly(o, f, "countTrailingZeros", ctz, 1) {
		if a := f.ArgCanon(ctz[0]); a[0] != newEl+".index" {
			o.FailAt(f.ID+"#bucket-of", ctz[0].Where(), "the bucket is computed from %s, expected the index of the new element (%s.index)", a[0], newEl)
		}
	}
	bucketCanon := ""
	if len(ctz) == 1 {
		bucketCanon = f.Canon(ctz[0].Node.(*ast.CallExpr))
	}
	// derive
	der := f.Calls(an.CalleeIs("shachain.element.derive"), false)
	if needExactly(o, f, "element.derive", der, 1) {
		if r := recvOf(der[0]); r == nil || !canonIs(r, newEl) {
			o.FailAt(f.ID+"#derive-receiver", der[0].Where(), "derive is called on %s, expected the new element %s", f.Canon(r), newEl)
		}
		if arg := der[0].Node.(*ast.CallExpr).Args[0]; !bucketI(arg) {
			o.FailAt(f.ID+"#derive-bucket", der[0].Where(), "derive targets %s, expected the index of the bucket the loop is at", an.Text(arg))
		}
		resultUsed(o, f, der[0], 0, "derived element")
	}
	// isEqual
	eq := f.Calls(an.CalleeIs("shachain.element.isEqual"), false)
	if needExactly(o, f, "element.isEqual", eq, 1) && len(der) == 1 {
		want := f.Canon(der[0].Node.(*ast.CallExpr))
		if r := recvOf(eq[0]); r == nil || !canonIs(r, want) {
			o.FailAt(f.ID+"#compare-receiver", eq[0].Where(), "isEqual is called on %s, expected the element derived from the new one (%s)", f.Canon(r), want)
		}
		if arg := eq[0].Node.(*ast.CallExpr).Args[0]; !bucketI(arg) {
			o.FailAt(f.ID+"#compare-bucket", eq[0].Where(), "the derived element is compared with %s, expected the bucket the loop is at", an.Text(arg))
		}
	}
	// the write
	for _, w := range bucketWrites {
		as, ok := w.Node.(*ast.AssignStmt)
		if !ok || len(as.Lhs) != 1 || len(as.Rhs) != 1 || as.Tok.String() != "=" {
			o.FailAt(f.ID+"#bucket-write-shape", w.Where(), "unexpected form of the bucket write: %s", an.Text(w.Node))
			continue
		}
		ix, _ := ast.Unparen(as.Lhs[0]).(*ast.IndexExpr)
		o.Site("%s: bucket write %s", f.ID, an.Text(as))
		if ix == nil || bucketCanon == "" || f.Canon(ix.Index) != bucketCanon {
			o.FailAt(f.ID+"#bucket-write-slot", w.Where(), "the accepted element is written to %s, expected the bucket of its own index", an.Text(as.Lhs[0]))
		}
		if c := f.Canon(as.Rhs[0]); c != "*"+newEl {
			o.FailAt(f.ID+"#bucket-write-value", w.Where(), "the bucket receives %s, expected the new element", c)
		}
	}
	if len(bucketWrites) != 1 {
		o.FailAt(f.ID+"#bucket-writes", f.Where(f.Body.Pos()), "expected exactly one bucket write in AddNextEntry, found %d", len(bucketWrites))
	}
}

// c06RevocationMessage: generateRevocation(height) puts the secret of `height`
// into the message's Revocation field (one copy, nothing else writes the field)
// and the commitment point of the secret at `height + 2` into
// NextRevocationKey (one assignment).  which distinguishes the reports of the
// two obligations that rely on the pairing.
func c06RevocationMessage(o *an.Obl, p *an.Prog, which string) {
	g := p.Func(lw + "LightningChannel.generateRevocation")
	key := func(s string) string { return g.ID + "#" + which + "-" + s }
	const producer = "$recv.channelState.RevocationProducer.AtIndex("
	// the secret
	var copies []an.Site
	for _, fn := range append([]*an.Func{g}, g.Lits...) {
		for _, s := range fn.Calls(an.CalleeIs("builtin.copy"), false) {
			if a := fn.ArgCanon(s); strings.HasSuffix(a[0], ".Revocation[:]") {
				copies = append(copies, s)
			}
		}
	}
	direct := g.Assigns(an.Field("lnwire.RevokeAndAck", "Revocation", nil), true)
	o.Site("%s: %d copies into Revocation, %d direct writes", g.ID, len(copies), len(direct))
	if len(copies) != 1 || len(direct) != 0 {
		o.FailAt(key("revocation-writes"), g.Where(g.Body.Pos()), "the Revocation field of the message must be written exactly once (one copy), found %d copies and %d assignments", len(copies), len(direct))
	}
	for _, s := range copies {
		a := s.Fn.ArgCanon(s)
		o.Site("Revocation <- %s", a[1])
		if a[1] != producer+"$p0)[:]" {
			o.FailAt(key("revocation-source"), s.Where(), "the released secret is %s, expected the producer's element at the height generateRevocation was asked for (%s$p0)[:])", a[1], producer)
		}
		c04OperandsNotOverwritten(o, s.Fn, s.Node.(*ast.CallExpr).Args[1], "released secret")
	}
	// the next point
	next := g.Assigns(an.Field("lnwire.RevokeAndAck", "NextRevocationKey", nil), true)
	if len(next) != 1 {
		o.FailAt(key("next-key-writes"), g.Where(g.Body.Pos()), "NextRevocationKey must be assigned exactly once, found %d assignments", len(next))
	}
	for _, s := range next {
		as, ok := s.Node.(*ast.AssignStmt)
		if !ok || len(as.Rhs) != 1 {
			o.FailAt(key("next-key-shape"), s.Where(), "unexpected form: %s", an.Text(s.Node))
			continue
		}
		c := g.Canon(as.Rhs[0])
		o.Site("NextRevocationKey <- %s", c)
		if c != "input.ComputeCommitmentPoint("+producer+"($p0 + 2))[:])" {
			o.FailAt(key("next-key-source"), s.Where(), "the announced next revocation key is %s, expected the commitment point of the producer's element at height + 2", c)
		}
		c04OperandsNotOverwritten(o, g, as.Rhs[0], "next revocation key")
	}
}
