package contractcourt

import (
	"testing"
	"time"

	"github.com/btcsuite/btcd/chainhash/v2"
	"github.com/lightningnetwork/lnd/chainntnfs"
	"github.com/lightningnetwork/lnd/channeldb"
	"github.com/lightningnetwork/lnd/fn/v2"
	"github.com/lightningnetwork/lnd/lnwallet"
	"github.com/stretchr/testify/require"
)

// PROBE 5 (judge only, NOT repaired, fails with and without the repairs): a
// state-loss close. chainWatcher.handleUnknownRemoteState labels the stale
// CommitSet as ConfCommitKey=RemoteHtlcSet and dispatches the close with an
// empty commitment, so there are no HTLC resolutions. Every offered HTLC of
// the stale set that has an output there gets a watch/timeout action,
// prepContractResolutions finds no resolution for it and skips it with
// `continue`: no resolver and no fail-back.
func TestProbe5StateLossCloseLeavesOfferedHtlcWithoutDisposition(t *testing.T) {
	t.Parallel()

	ctx, arbLog := probeArb(t)
	chanArb := ctx.chanArb
	probeStart(t, ctx)

	htlc := channeldb.HTLC{
		Incoming:      false,
		Amt:           10_000_000,
		HtlcIndex:     1,
		RefundTimeout: 100,
		OutputIndex:   1,
	}
	for _, key := range []HtlcSetKey{LocalHtlcSet, RemoteHtlcSet} {
		chanArb.notifyContractUpdate(&ContractUpdate{
			HtlcKey: key,
			Htlcs:   []channeldb.HTLC{htlc},
		})
	}

	commitHash := chainhash.Hash{7}
	//nolint:ll
	chanArb.cfg.ChainEvents.RemoteUnilateralClosure <- &RemoteUnilateralCloseInfo{
		UnilateralCloseSummary: &lnwallet.UnilateralCloseSummary{
			SpendDetail: &chainntnfs.SpendDetail{
				SpenderTxHash:  &commitHash,
				SpendingHeight: 46,
			},
			HtlcResolutions: &lnwallet.HtlcResolutions{},
		},
		CommitSet: CommitSet{
			ConfCommitKey: fn.Some(RemoteHtlcSet),
			HtlcSets: map[HtlcSetKey][]channeldb.HTLC{
				LocalHtlcSet:  {htlc},
				RemoteHtlcSet: {htlc},
			},
		},
	}
	ctx.AssertStateTransitions(
		StateContractClosed, StateWaitingFullResolution,
		StateFullyResolved,
	)

	failBacks := 0
	select {
	case msgs := <-ctx.resolutions:
		for _, m := range msgs {
			if m.HtlcIndex == htlc.HtlcIndex && m.Failure != nil {
				failBacks++
			}
		}
	case <-time.After(100 * time.Millisecond):
	}

	arbLog.Lock()
	resolvers := 0
	for r := range arbLog.resolvers {
		if _, ok := r.(htlcContractResolver); ok {
			resolvers++
		}
	}
	arbLog.Unlock()

	t.Logf("offered htlc of the stale set: resolvers=%d fail-backs=%d; "+
		"channel marked fully resolved", resolvers, failBacks)
	require.Equal(t, 1, resolvers+failBacks, "offered HTLC got neither "+
		"a resolver nor an upstream fail-back")
}
