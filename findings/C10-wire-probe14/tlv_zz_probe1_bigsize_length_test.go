package tlv_test

// Probe for suspicion 1 (property C10): a BigSize record has to take up exactly
// the length the record declares. On the unmodified tree tlv.DBigSize ignores
// the record length: all three cases below are accepted.
//
// Run: cd tlv && go test -count=1 -run TestProbe1 .

import (
	"bytes"
	"testing"

	"github.com/lightningnetwork/lnd/tlv"
)

func TestProbe1BigSizeRecordIgnoresLength(t *testing.T) {
	decode := func(raw []byte) (uint64, tlv.TypeMap, error) {
		var v uint64
		s := tlv.MustNewStream(tlv.MakeBigSizeRecord(2, &v))
		m, err := s.DecodeWithParsedTypesP2P(bytes.NewReader(raw))

		return v, m, err
	}

	// Record 2 claims 3 bytes, its BigSize value uses 1; the remaining
	// "05 00" is then parsed as a *record* (type 5, length 0).
	v, m, err := decode([]byte{0x02, 0x03, 0x01, 0x05, 0x00})
	if err == nil {
		t.Errorf("length 3 / value of 1 byte accepted: v=%d, types=%v",
			v, m)
	}

	// Record 2 claims 0 bytes; the decoder steals the next byte (0x07,
	// which by itself would be a truncated record and an error).
	v, m, err = decode([]byte{0x02, 0x00, 0x07})
	if err == nil {
		t.Errorf("length 0 accepted: v=%d, types=%v", v, m)
	}

	// A well-formed record still decodes, for each of the four sizes.
	for _, want := range []uint64{0, 0xfc, 0xfd, 0x10000, 1 << 32} {
		var in = want
		enc := tlv.MustNewStream(tlv.MakeBigSizeRecord(2, &in))
		var b bytes.Buffer
		if err := enc.Encode(&b); err != nil {
			t.Fatal(err)
		}
		v, _, err = decode(b.Bytes())
		if err != nil || v != want {
			t.Errorf("canonical record %x: v=%d err=%v", b.Bytes(),
				v, err)
		}
	}

	// uint32 flavour silently truncates a 2^32+5 value.
	var v32 uint32
	s := tlv.MustNewStream(tlv.MakeBigSizeRecord(2, &v32))
	err = s.DecodeP2P(bytes.NewReader([]byte{
		0x02, 0x09, 0xff, 0, 0, 0, 1, 0, 0, 0, 5,
	}))
	if err == nil {
		t.Errorf("uint32 BigSize record accepted 2^32+5 as %d", v32)
	}
}
