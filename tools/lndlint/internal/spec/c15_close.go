package spec

import (
	"go/ast"
	"go/token"
	"go/types"
	"regexp"
	"strings"

	"lndlint/internal/an"
	"lndlint/internal/flow"
)

// Helpers added while closing the reported gaps of C15 / C16.  They are
// structural: locals are identified by their types.Object, values by their
// canonical form, orderings by reachability in the flow graph.

// c15ObjsNamed returns the parameters and local variables called name that are
// declared in f (its parameter list, its body and its nested literals).  A
// name can stand for several objects (`err`, a local redeclared in another
// scope); rules that pin a local apply to each of them.
func c15ObjsNamed(f *an.Func, name string) []types.Object {
	info := f.Info()
	seen := map[types.Object]bool{}
	var out []types.Object
	walk := func(n ast.Node) {
		if n == nil {
			return
		}
		ast.Inspect(n, func(x ast.Node) bool {
			id, ok := x.(*ast.Ident)
			if !ok || id.Name != name {
				return true
			}
			if v, ok := info.Defs[id].(*types.Var); ok && !v.IsField() && !seen[v] {
				seen[v] = true
				out = append(out, v)
			}
			return true
		})
	}
	if f.Type != nil {
		walk(f.Type)
	}
	walk(f.Body)
	return out
}

func c15IdentIs(info *types.Info, e ast.Expr, obj types.Object) bool {
	id, ok := ast.Unparen(e).(*ast.Ident)
	if !ok {
		return false
	}
	return info.Uses[id] == obj || info.Defs[id] == obj
}

// c15LocalWrite is one statement that gives a local a value.
type c15LocalWrite struct {
	site an.Site
	tok  token.Token // ASSIGN, DEFINE, op-assign, INC/DEC, VAR (declaration), RANGE, AND (address taken)
	rhs  ast.Expr    // the assigned expression (nil for inc/dec, range, address-of, value-less declaration)
	idx  int         // result index when rhs is a multi-value call, else -1
	def  bool        // the statement declares the variable (a new life of the local begins: loop bodies)
}

// c15WritesOfLocal lists every construct of f (nested literals included: a write
// inside a closure is attributed to the vertex that creates the closure) that
// writes obj: assignments of every form, inc/dec, declarations, range
// variables and address-taking.
func c15WritesOfLocal(f *an.Func, obj types.Object) []c15LocalWrite {
	info := f.Info()
	var out []c15LocalWrite
	for _, v := range f.Graph().V {
		if v.Kind == flow.KRange {
			rs := v.Node.(*ast.RangeStmt)
			for _, kv := range []ast.Expr{rs.Key, rs.Value} {
				if kv != nil && c15IdentIs(info, kv, obj) {
					out = append(out, c15LocalWrite{site: an.Site{Fn: f, V: v, Node: rs}, tok: token.RANGE, idx: -1})
				}
			}
		}
		v.Inspect(true, func(n ast.Node) bool {
			switch x := n.(type) {
			case *ast.AssignStmt:
				for i, l := range x.Lhs {
					if !c15IdentIs(info, l, obj) {
						continue
					}
					w := c15LocalWrite{site: an.Site{Fn: f, V: v, Node: x}, tok: x.Tok, idx: -1}
					if id, ok := ast.Unparen(l).(*ast.Ident); ok && info.Defs[id] == obj {
						w.def = true
					}
					switch {
					case len(x.Lhs) == len(x.Rhs):
						w.rhs = x.Rhs[i]
					case len(x.Rhs) == 1:
						w.rhs, w.idx = x.Rhs[0], i
					}
					out = append(out, w)
				}
			case *ast.IncDecStmt:
				if c15IdentIs(info, x.X, obj) {
					out = append(out, c15LocalWrite{site: an.Site{Fn: f, V: v, Node: x}, tok: x.Tok, idx: -1})
				}
			case *ast.DeclStmt:
				gd, ok := x.Decl.(*ast.GenDecl)
				if !ok {
					return true
				}
				for _, sp := range gd.Specs {
					vs, ok := sp.(*ast.ValueSpec)
					if !ok {
						continue
					}
					for i, nm := range vs.Names {
						if info.Defs[nm] != obj {
							continue
						}
						w := c15LocalWrite{site: an.Site{Fn: f, V: v, Node: x}, tok: token.VAR, idx: -1, def: true}
						switch {
						case len(vs.Values) == len(vs.Names):
							w.rhs = vs.Values[i]
						case len(vs.Values) == 1:
							w.rhs, w.idx = vs.Values[0], i
						}
						out = append(out, w)
					}
				}
			case *ast.UnaryExpr:
				if x.Op == token.AND && c15IdentIs(info, x.X, obj) {
					out = append(out, c15LocalWrite{site: an.Site{Fn: f, V: v, Node: x}, tok: token.AND, idx: -1})
				}
			}
			return true
		})
	}
	return out
}

// c15ReadersOfLocal lists the vertices that mention obj without writing it.
func c15ReadersOfLocal(f *an.Func, obj types.Object, writers map[*flow.Vertex]bool) []*flow.Vertex {
	info := f.Info()
	var out []*flow.Vertex
	for _, v := range f.Graph().V {
		if writers[v] {
			continue
		}
		uses := false
		v.Inspect(true, func(n ast.Node) bool {
			if id, ok := n.(*ast.Ident); ok && info.Uses[id] == obj {
				uses = true
			}
			return !uses
		})
		if uses {
			out = append(out, v)
		}
	}
	return out
}

// c15StableOnceRead: once a named local of f has been read (tested by a
// condition, copied into a derived flag, stored in a descriptor, passed to a
// call) it is never written again.  Every rule that identifies "the value that
// was checked" by the local's definition relies on this: `if bad(x) {fail};
// x = other; use(x)` keeps all guards and definitions in place and uses a
// value that was never checked.
func c15StableOnceRead(o *an.Obl, f *an.Func, names ...string) {
	g := f.Graph()
	for _, name := range names {
		objs := c15ObjsNamed(f, name)
		if len(objs) == 0 {
			o.FailAt(f.ID+"#no-local-"+name, f.Where(f.Body.Pos()), "%s has no local named %s; the rules of this obligation identify a checked value by it", f.ID, name)
			continue
		}
		for _, obj := range objs {
			ws := c15WritesOfLocal(f, obj)
			wv := map[*flow.Vertex]bool{}
			// the declaration of the local starts a new life of it (the next
			// iteration of a loop body): what was read before is another value
			decl := map[*flow.Vertex]bool{}
			for _, w := range ws {
				wv[w.site.V] = true
				if w.def {
					decl[w.site.V] = true
				}
			}
			for _, r := range c15ReadersOfLocal(f, obj, wv) {
				after := map[*flow.Vertex]bool{}
				for _, e := range r.Out {
					after[e.To] = true
					if decl[e.To] {
						continue
					}
					for v := range g.Reach(e.To, nil, decl) {
						after[v] = true
					}
				}
				for _, w := range ws {
					if after[w.site.V] && !w.def {
						o.FailAt(f.ID+"#written-after-read-"+name, w.site.Where(), "%s is written by %s after it was read at %s: what is used later is not the value that was checked", name, an.Text(w.site.Node), f.Where(r.Pos()))
					}
				}
			}
		}
		o.Site("%s: %s is not written again once it was read", f.ID, name)
	}
}

// c15PinnedWrites: every write of the named local of f assigns a value whose
// canonical form matches one of the allowed patterns; "" in allowed admits a
// declaration without value.  It returns the writes for further checks.
func c15PinnedWrites(o *an.Obl, f *an.Func, name string, allowed ...string) []c15LocalWrite {
	var all []c15LocalWrite
	objs := c15ObjsNamed(f, name)
	if len(objs) == 0 {
		o.FailAt(f.ID+"#no-local-"+name, f.Where(f.Body.Pos()), "%s has no local named %s", f.ID, name)
		return nil
	}
	for _, obj := range objs {
		for _, w := range c15WritesOfLocal(f, obj) {
			all = append(all, w)
			c := ""
			if w.rhs != nil {
				c = f.Canon(w.rhs)
				if w.idx > 0 {
					c += "#" + itoa(w.idx)
				}
			}
			form := w.tok.String() + " " + c
			if w.rhs == nil && w.tok == token.VAR {
				form = ""
			}
			o.Site("%s: %s <- %q", f.ID, name, form)
			ok := false
			for _, re := range allowed {
				if (re == "" && form == "") || (re != "" && form != "" && reMatch(re, form)) {
					ok = true
				}
			}
			if !ok {
				o.FailAt(f.ID+"#write-of-"+name, w.site.Where(), "%s is given a value by `%s` (%s); the allowed definitions are %q", name, an.Text(w.site.Node), form, allowed)
			}
		}
	}
	return all
}

// c15RangeHeads returns the range-loop heads of f whose operand canon matches re.
func c15RangeHeads(f *an.Func, re string) []*flow.Vertex {
	r := regexp.MustCompile(re)
	var out []*flow.Vertex
	for _, v := range f.Graph().V {
		if rs, ok := v.Node.(*ast.RangeStmt); ok && v.Kind == flow.KRange && r.MatchString(f.Canon(rs.X)) {
			out = append(out, v)
		}
	}
	return out
}

// c15LoopLeftOnlyBy: the range loop at head is left only when its operand is
// exhausted or through a return statement accepted by okExit (nil: no return
// at all): no break, no goto, no other return.  The per-element decisions of a
// loop (every HTLC of the set declares the same total, every child hash
// matches) hold for the whole set only if no element is skipped.
func c15LoopLeftOnlyBy(o *an.Obl, f *an.Func, head *flow.Vertex, what string, okExit func(rs *ast.ReturnStmt) bool) {
	g := f.Graph()
	rs := head.Node.(*ast.RangeStmt)
	var body, done *flow.Vertex
	for _, e := range head.Out {
		switch e.Kind {
		case flow.ERangeIn:
			body = e.To
		case flow.ERangeDone:
			done = e.To
		}
	}
	o.Site("%s: the loop over %s at %s (%s) visits every element", f.ID, f.Canon(rs.X), f.Where(rs.Pos()), what)
	if body == nil || done == nil {
		return
	}
	stop := map[*flow.Vertex]bool{head: true}
	in := g.Reach(body, nil, stop)
	post := g.Reach(done, nil, stop)
	for v := range in {
		if v == head || v == g.Exit || v == g.PanicExit {
			continue
		}
		if post[v] && !(rs.Pos() <= v.Pos() && v.Pos() < rs.End()) {
			continue // code after the loop, reached through an exit reported below
		}
		if ret, isRet := v.Node.(*ast.ReturnStmt); isRet && v.Kind == flow.KReturn {
			if okExit == nil || !okExit(ret) {
				o.FailAt(f.ID+"#loop-left-by-return-"+what, f.Where(ret.Pos()), "the loop over %s (%s) is left by `%s` before every element was examined", f.Canon(rs.X), what, an.Text(ret))
			}
			continue
		}
		for _, e := range v.Out {
			to := e.To
			if to == head || to == g.PanicExit || to == g.Exit {
				continue
			}
			inside := rs.Pos() <= to.Pos() && to.Pos() < rs.End()
			if to.Pos() == token.NoPos {
				inside = in[to] && !post[to]
			}
			if !inside {
				where, txt := f.Where(rs.Pos()), "a jump"
				if v.Node != nil {
					where, txt = f.Where(v.Node.Pos()), an.Text(v.Node)
				}
				o.FailAt(f.ID+"#loop-left-early-"+what, where, "the loop over %s (%s) can be left at `%s` before every element was examined (break / goto)", f.Canon(rs.X), what, txt)
			}
		}
	}
}

// c15FactStops: once an edge establishing fact is taken, none of the forbidden
// sites can be reached any more.  This is the rejecting side of a check whose
// accepting side is not a dominator (a per-element test in a loop over a set
// that may be empty): `if bad { log }` keeps the test and goes on.
func c15FactStops(o *an.Obl, f *an.Func, fact an.Fact, forbidden []an.Site, what string) {
	es := f.EdgesOf(fact)
	if len(es) == 0 {
		o.FailAt(f.ID+"#no-test-"+what, f.Where(f.Body.Pos()), "no test establishing [%s] found in %s", fact.Desc, f.ID)
		return
	}
	g := f.Graph()
	for e := range es {
		reach := g.Reach(e.To, nil, nil)
		o.Site("%s: after [%s] at %s no %s", f.ID, fact.Desc, f.Where(e.From.Pos()), what)
		for _, s := range forbidden {
			if reach[s.V] {
				o.FailAt(constructOf(f, s)+"<-after-"+fact.Desc, s.Where(), "%s is still reachable after [%s] was found at %s: the rejection does not stop the update", s.String(), fact.Desc, f.Where(e.From.Pos()))
			}
		}
	}
}

// c15NotMutatedInPlace: the named array / slice locals of f are only read: no
// element assignment, no `copy` into them, no address taken, and they are
// handed to no call other than the pure ones listed in pure (callee IDs).  A
// rule that identifies a byte string by its definition (`payAddr :=
// ctx.mpp.PaymentAddr()`) relies on it.
func c15NotMutatedInPlace(o *an.Obl, f *an.Func, pure []string, names ...string) {
	info := f.Info()
	isPure := map[string]bool{"builtin.len": true}
	for _, p := range pure {
		isPure[p] = true
	}
	for _, name := range names {
		for _, obj := range c15ObjsNamed(f, name) {
			rooted := func(e ast.Expr) bool {
				for {
					switch x := ast.Unparen(e).(type) {
					case *ast.SliceExpr:
						e = x.X
						continue
					case *ast.IndexExpr:
						e = x.X
						continue
					case *ast.StarExpr:
						e = x.X
						continue
					case *ast.Ident:
						return info.Uses[x] == obj
					}
					return false
				}
			}
			ast.Inspect(f.Body, func(n ast.Node) bool {
				switch x := n.(type) {
				case *ast.AssignStmt:
					for _, l := range x.Lhs {
						if _, plain := ast.Unparen(l).(*ast.Ident); !plain && rooted(l) {
							o.FailAt(f.ID+"#mutated-"+name, f.Where(x.Pos()), "%s is modified in place by `%s`; the rule identifies it by its definition", name, an.Text(x))
						}
					}
				case *ast.UnaryExpr:
					if x.Op == token.AND && rooted(x.X) {
						o.FailAt(f.ID+"#address-of-"+name, f.Where(x.Pos()), "the address of %s is taken (%s)", name, an.Text(x))
					}
				case *ast.CallExpr:
					id := an.CalleeID(info, x)
					if tv, ok := info.Types[x.Fun]; ok && tv.IsType() {
						return true // conversion
					}
					for i, a := range x.Args {
						if !rooted(a) {
							continue
						}
						if t := info.TypeOf(a); t != nil {
							if _, isSlice := t.Underlying().(*types.Slice); !isSlice {
								if _, isPtr := t.Underlying().(*types.Pointer); !isPtr {
									continue // passed by value
								}
							}
						}
						if isPure[id] {
							continue
						}
						o.FailAt(f.ID+"#handed-out-"+name, f.Where(x.Pos()), "%s is handed to %s (argument %d of `%s`), which can overwrite it", name, id, i, an.Text(x))
					}
				}
				return true
			})
		}
		o.Site("%s: %s is not modified in place", f.ID, name)
	}
}

// c15NoAddressOfField: no function of pkgs takes the address of the field
// owner.field (a write through such a pointer is invisible to the who-may-write
// rules, which look at assignments to the field).
func c15NoAddressOfField(o *an.Obl, p *an.Prog, pkgs []string, owner, field string) {
	t := an.Field(owner, field, nil)
	for _, f := range p.Funcs(false, pkgs...) {
		if f.Lit != nil {
			continue // literals are walked with their root
		}
		ast.Inspect(f.Body, func(n ast.Node) bool {
			u, ok := n.(*ast.UnaryExpr)
			if ok && u.Op == token.AND && t(f, ast.Unparen(u.X)) {
				o.FailAt(f.ID+"#address-of-"+field, f.Where(u.Pos()), "%s takes the address of %s.%s (%s): writes through the pointer bypass the applier", f.ID, owner, field, an.Text(u))
			}
			return true
		})
	}
	o.Site("no address of %s.%s is taken in %v", owner, field, pkgs)
}

// c15MemoryMirrors: the in-memory write `x.F = v` that follows an accepted
// updater call stores exactly the value handed to the updater (plain `=`, the
// same canonical form as the call's argument argIdx).
func c15MemoryMirrors(o *an.Obl, f *an.Func, w an.Site, call an.Site, argIdx int, what string) {
	as, ok := w.Node.(*ast.AssignStmt)
	if !ok || len(as.Lhs) != 1 || len(as.Rhs) != 1 {
		o.FailAt(constructOf(f, w)+"#mirror-shape-"+what, w.Where(), "%s is written by `%s`, expected a plain assignment of the value handed to the updater", what, an.Text(w.Node))
		return
	}
	arg := callArg(call, argIdx)
	if arg == nil {
		o.FailAt(constructOf(f, w)+"#mirror-arg-"+what, call.Where(), "%s has no argument %d", call.String(), argIdx)
		return
	}
	got, want := f.Canon(as.Rhs[0]), f.Canon(arg)
	o.Site("%s: memory %s %s %s mirrors %s", f.ID, an.Text(as.Lhs[0]), as.Tok, got, call.String())
	if as.Tok != token.ASSIGN || got != want {
		o.FailAt(constructOf(f, w)+"#mirror-"+what, w.Where(), "%s: memory is updated by `%s` (%s %s) but the updater was given %s: memory and store disagree", what, an.Text(as), as.Tok, got, want)
	}
}

// c15LocalTerm matches an identifier that refers to obj.
func c15LocalTerm(obj types.Object) an.Term {
	return func(f *an.Func, e ast.Expr) bool {
		id, ok := e.(*ast.Ident)
		return ok && obj != nil && f.Info().Uses[id] == obj
	}
}

// c15LhsObj returns the object bound to position idx of the assignment that has
// the call at site s as its only right-hand side (nil: blank, not an
// identifier, or no such assignment).
func c15LhsObj(f *an.Func, s an.Site, idx int) types.Object {
	info := f.Info()
	var obj types.Object
	ast.Inspect(f.Body, func(n ast.Node) bool {
		as, ok := n.(*ast.AssignStmt)
		if !ok || len(as.Rhs) != 1 || ast.Unparen(as.Rhs[0]) != s.Node || idx >= len(as.Lhs) {
			return true
		}
		if id, ok := as.Lhs[idx].(*ast.Ident); ok && id.Name != "_" {
			obj = info.Defs[id]
			if obj == nil {
				obj = info.Uses[id]
			}
		}
		return true
	})
	return obj
}

// c15LitKeys returns key -> value of a keyed composite literal (nil when an
// element is not keyed).
func c15LitKeys(cl *ast.CompositeLit) map[string]ast.Expr {
	out := map[string]ast.Expr{}
	for _, el := range cl.Elts {
		kv, ok := el.(*ast.KeyValueExpr)
		if !ok {
			return nil
		}
		out[an.Text(kv.Key)] = kv.Value
	}
	return out
}

func c15HasCallTo(info *types.Info, e ast.Expr, id string) bool {
	found := false
	ast.Inspect(e, func(n ast.Node) bool {
		if c, ok := n.(*ast.CallExpr); ok && an.CalleeID(info, c) == id {
			found = true
		}
		return !found
	})
	return found
}

// c15LocalsIn returns the names of the local variables (parameters excluded)
// mentioned in e.
func c15LocalsIn(f *an.Func, e ast.Expr) []string {
	info := f.Info()
	params := map[types.Object]bool{}
	for fn := f; fn != nil; fn = fn.Parent {
		for _, p := range fn.Params(true) {
			params[p] = true
		}
	}
	seen := map[string]bool{}
	var out []string
	ast.Inspect(e, func(n ast.Node) bool {
		id, ok := n.(*ast.Ident)
		if !ok {
			return true
		}
		v, ok := info.Uses[id].(*types.Var)
		if !ok || v.IsField() || params[v] || (v.Pkg() != nil && v.Parent() == v.Pkg().Scope()) || seen[id.Name] {
			return true
		}
		seen[id.Name] = true
		out = append(out, id.Name)
		return true
	})
	return out
}

var _ = strings.Contains
