package htlcswitch

import (
	"context"
	"testing"

	"github.com/btcsuite/btcd/btcutil/v2"
	"github.com/lightningnetwork/lnd/channeldb"
	"github.com/lightningnetwork/lnd/kvdb"
	"github.com/lightningnetwork/lnd/lnwire"
	"github.com/stretchr/testify/require"
)

// TestProbe1AddsLessFwdPkgCompletesAfterCrash simulates a crash between
// ReceiveRevocation (which persists the forwarding package) and the
// SetFwdFilter call made by processRemoteAdds: the package is on disk, has no
// Adds, and no FwdFilter. After the restart (resolveFwdPkgs) the package must
// be marked processed so that it can be garbage collected.
func TestProbe1AddsLessFwdPkgCompletesAfterCrash(t *testing.T) {
	t.Parallel()

	const chanAmt = btcutil.SatoshiPerBitcoin * 5
	const chanReserve = btcutil.SatoshiPerBitcoin * 1
	harness, err := newSingleLinkTestHarness(t, chanAmt, chanReserve)
	require.NoError(t, err)

	//nolint:forcetypeassert
	coreLink := harness.aliceLink.(*channelLink)
	t.Cleanup(func() { coreLink.cg.Quit() })

	state := coreLink.channel.State()
	db := testChannelStateDB(t, coreLink.channel).GetParentDB()
	packager := channeldb.NewChannelPackager(state.ShortChanID())

	// Package 1: entirely empty (e.g. a fee update only state transition).
	// Package 2: no Adds, one Fail, which the incoming link acks later.
	fail := channeldb.LogUpdate{
		LogIndex: 0,
		UpdateMsg: &lnwire.UpdateFailHTLC{
			ChanID: coreLink.ChanID(),
			ID:     0,
			Reason: lnwire.OpaqueReason{1, 2, 3},
		},
	}
	pkg1 := channeldb.NewFwdPkg(state.ShortChanID(), 1, nil, nil)
	pkg2 := channeldb.NewFwdPkg(
		state.ShortChanID(), 2, nil, []channeldb.LogUpdate{fail},
	)
	err = kvdb.Update(db, func(tx kvdb.RwTx) error {
		if err := packager.AddFwdPkg(tx, pkg1); err != nil {
			return err
		}

		return packager.AddFwdPkg(tx, pkg2)
	}, func() {})
	require.NoError(t, err)

	// The fail of package 2 was delivered and acked by the incoming link
	// before the restart.
	err = coreLink.channel.AckSettleFails(pkg2.DestRef(0))
	require.NoError(t, err)

	pkgs, err := coreLink.channel.LoadFwdPkgs()
	require.NoError(t, err)
	require.Len(t, pkgs, 2)
	for _, p := range pkgs {
		require.Equal(t, channeldb.FwdStateLockedIn, p.State)
	}

	// First restart: the packages must be marked as processed. With no
	// Adds and all settle/fails acked they are completed.
	require.NoError(t, coreLink.resolveFwdPkgs(context.Background()))

	pkgs, err = coreLink.channel.LoadFwdPkgs()
	require.NoError(t, err)
	for _, p := range pkgs {
		require.Equalf(t, channeldb.FwdStateCompleted, p.State,
			"adds-less fwd pkg at height %d still %v after "+
				"restart", p.Height, p.State)
	}

	// The garbage collector (or the next restart) removes them.
	require.NoError(t, coreLink.loadAndRemove())

	pkgs, err = coreLink.channel.LoadFwdPkgs()
	require.NoError(t, err)
	require.Empty(t, pkgs, "adds-less fwd pkgs are never removed")
}
