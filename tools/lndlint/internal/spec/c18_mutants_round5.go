package spec

// Witness for the round-5 seed C18-i.
func init() {
	registry["C18"].Mutants = append(registry["C18"].Mutants, []Mutant{
		{Name: "seed5-C18-i", File: "sweep/fee_bumper.go",
			Old:    "\ttxFee := estimator.fee()\n",
			New:    "\ttxFee := estimator.feeWithParent()\n",
			Expect: "fee-of-a-published-sweep-is-the-offered-rate-times-its-own-weight"},
	}...)
}
