package spec

// Witnesses restoring the shape the repairs 9bf2239, 31624a4, a213add,
// 4c380f2 removed.
func init() {
	registry["C10"].Mutants = append(registry["C10"].Mutants, []Mutant{
		{Name: "fixrev-bigsize-record-decoder-ignores-length", File: "tlv/record.go",
			Old:    "\tcase *uint64:\n\t\tsizeFunc = SizeBigSize(val)\n\t\tencoder = EBigSize\n\t\tdecoder = dBigSizeRecord",
			New:    "\tcase *uint64:\n\t\tsizeFunc = SizeBigSize(val)\n\t\tencoder = EBigSize\n\t\tdecoder = DBigSize",
			Expect: "variable-size-values-fill-their-record"},
		{Name: "fixrev-msat-record-length-ignored", File: "lnwire/msat.go",
			Old:    "\t\tif size := tlv.VarIntSize(bigSize); size != l {",
			New:    "\t\tif size := tlv.VarIntSize(bigSize); size > l {",
			Expect: "variable-size-values-fill-their-record"},
		{Name: "fixrev-bigsize-truncated-into-uint32", File: "tlv/primitive.go",
			Old:    "\t\tif uint64(uint32(v)) != v {\n\t\t\treturn NewTypeForDecodingErr(val, \"BigSize\", l, 5)\n\t\t}\n",
			New:    "",
			Expect: "variable-size-values-fill-their-record"},
		{Name: "fixrev-unknown-record-buffer-sized-by-length", File: "tlv/stream.go",
			Old:    "\t\t\t\tb = bytes.NewBuffer(make([]byte, 0, bufCap))",
			New:    "\t\t\t\tb = bytes.NewBuffer(make([]byte, 0, length))",
			Expect: "variable-size-values-fill-their-record"},
		{Name: "fixrev-var-bytes-allocates-what-the-length-claims", File: "tlv/primitive.go",
			Old:    "\t\tif l > MaxRecordSize {\n\t\t\treturn dLargeVarBytes(r, b, l)\n\t\t}\n",
			New:    "",
			Expect: "variable-size-values-fill-their-record"},
		{Name: "fixrev-scid-read-in-three-pieces", File: "lnwire/lnwire.go",
			Old:    "\t\tvar scid [8]byte\n\t\tif _, err = io.ReadFull(r, scid[:]); err != nil {\n\t\t\treturn err\n\t\t}\n",
			New:    "\t\tvar scid [8]byte\n\t\tif _, err = io.ReadFull(r, scid[:3]); err != nil {\n\t\t\treturn err\n\t\t}\n\t\tif _, err = io.ReadFull(r, scid[3:]); err != nil {\n\t\t\treturn err\n\t\t}\n",
			Expect: "variable-size-values-fill-their-record"},
		{Name: "fixrev-feature-position-wraps", File: "lnwire/features.go",
			Old:    "\t\t\tif i > math.MaxUint16 {",
			New:    "\t\t\tif i > math.MaxUint16 && width == 0 {",
			Expect: "variable-size-values-fill-their-record"},
	}...)
}
