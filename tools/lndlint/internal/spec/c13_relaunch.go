package spec

import (
	"go/ast"
	"go/types"
	"sort"
	"strings"

	"golang.org/x/tools/go/packages"

	"lndlint/internal/an"
)

// relaunchCompleteness: two start-up steps restore in-memory state that the
// persisted resolver / nursery records do not carry.
func relaunchCompleteness(r *an.Run) {
	p := r.Prog
	cc := "contractcourt."
	r.Obl("restart-restores-unpersisted-resolver-state", "REG",
		"maybeAugmentTaprootResolvers has a case for every resolver type (implementation of ContractResolver in contractcourt) that owns an htlcResolution or commitResolution field, and each case copies from the resolutions list of the matching direction (OutgoingHTLCs for the timeout/outgoing-contest resolvers, IncomingHTLCs for the success/incoming-contest resolvers) the entry whose ClaimOutpoint equals the resolver's; UtxoNursery.Start stores the chain's best height before it reloads and re-registers the stored outputs",
		"the encoded form of a resolver omits the taproot control blocks and tweaks, and the nursery's late-registration guard compares with the in-memory best height: a resolver type the relaunch switch forgets cannot sign its sweep after a restart, and a nursery that starts at height 0 files an already matured output in the past", 6,
		func(o *an.Obl) {
			f := p.Func(cc + "maybeAugmentTaprootResolvers")
			// resolver types that own a resolution
			iface := p.LookupType("contractcourt", "ContractResolver")
			var owners []string
			dir := map[string]string{}
			for _, pkg := range []*packages.Package{p.Pkg("contractcourt")} {
				sc := pkg.Types.Scope()
				for _, name := range sc.Names() {
					tn, ok := sc.Lookup(name).(*types.TypeName)
					if !ok {
						continue
					}
					st, ok := tn.Type().Underlying().(*types.Struct)
					if !ok || !types.Implements(types.NewPointer(tn.Type()), iface.Underlying().(*types.Interface)) {
						continue
					}
					for i := 0; i < st.NumFields(); i++ {
						fld := st.Field(i)
						switch fld.Name() {
						case "htlcResolution":
							owners = append(owners, name)
							if strings.Contains(fld.Type().String(), "Outgoing") {
								dir[name] = "OutgoingHTLCs"
							} else {
								dir[name] = "IncomingHTLCs"
							}
						case "commitResolution":
							owners = append(owners, name)
							dir[name] = "CommitResolution"
						}
					}
				}
			}
			sort.Strings(owners)
			o.Site("resolver types owning a resolution: %v", owners)
			if len(owners) < 3 {
				o.FailAt(f.ID+"#owners", "", "expected at least 3 direct owners of a resolution field, found %v", owners)
			}
			// embedded owners: a type embedding an owner owns it too
			for _, pkg := range []*packages.Package{p.Pkg("contractcourt")} {
				sc := pkg.Types.Scope()
				for _, name := range sc.Names() {
					tn, ok := sc.Lookup(name).(*types.TypeName)
					if !ok {
						continue
					}
					st, ok := tn.Type().Underlying().(*types.Struct)
					if !ok {
						continue
					}
					for i := 0; i < st.NumFields(); i++ {
						fld := st.Field(i)
						if !fld.Embedded() {
							continue
						}
						base := strings.TrimPrefix(fld.Type().String(), "*")
						base = base[strings.LastIndex(base, ".")+1:]
						if d, ok := dir[base]; ok {
							if _, dup := dir[name]; !dup {
								owners = append(owners, name)
								dir[name] = d
							}
						}
					}
				}
			}
			sort.Strings(owners)
			_, clauses := f.TypeSwitchCases()
			have := map[string]*ast.CaseClause{}
			for _, cl := range clauses {
				for _, te := range cl.List {
					t := an.TypeID(f.Info().TypeOf(te))
					have[t[strings.LastIndex(t, ".")+1:]] = cl
				}
			}
			for _, t := range owners {
				cl, ok := have[t]
				o.Site("relaunch case for %s: %v (expects %s)", t, ok, dir[t])
				if !ok {
					o.FailAt(f.ID+"#no-case-"+t, f.Where(f.Body.Pos()), "maybeAugmentTaprootResolvers has no case for *%s, which owns a %s resolution: a Go type switch does not match an embedded type, so its taproot data is not restored after a restart", t, dir[t])
					continue
				}
				txt := an.Text(cl)
				_ = txt
				src := ""
				ast.Inspect(cl, func(n ast.Node) bool {
					if sel, ok := n.(*ast.SelectorExpr); ok {
						switch sel.Sel.Name {
						case "OutgoingHTLCs", "IncomingHTLCs", "CommitResolution":
							if src == "" {
								src = sel.Sel.Name
							}
						}
					}
					return true
				})
				if src != dir[t] {
					o.FailAt(f.ID+"#case-source-"+t, f.Where(cl.Pos()), "the case for *%s restores from %s, expected %s", t, src, dir[t])
				}
				if dir[t] != "CommitResolution" {
					okCmp := false
					ast.Inspect(cl, func(n ast.Node) bool {
						if be, ok := n.(*ast.BinaryExpr); ok && be.Op.String() == "==" &&
							strings.HasSuffix(an.Text(be.X), "htlcResolution.ClaimOutpoint") && strings.HasSuffix(an.Text(be.Y), ".ClaimOutpoint") {
							okCmp = true
						}
						return true
					})
					if !okCmp {
						o.FailAt(f.ID+"#case-match-"+t, f.Where(cl.Pos()), "the case for *%s does not select the stored resolution by its ClaimOutpoint", t)
					}
				}
			}
			// nursery: best height before the reload
			ns := p.Func(cc + "UtxoNursery.Start")
			var store []an.Site
			for _, s := range ns.AllCalls(false) {
				c := s.Node.(*ast.CallExpr)
				if an.CalleeID(ns.Info(), c) == "sync/atomic.StoreUint32" && len(c.Args) == 2 && strings.HasSuffix(an.Text(c.Args[0]), ".bestHeight") {
					store = append(store, s)
					if a := ns.ArgCanon(s); !strings.Contains(a[1], "GetBestBlock()") {
						o.FailAt(ns.ID+"#best-height-source", s.Where(), "the nursery's best height is initialised from %s, expected the chain's best block", a[1])
					}
				}
			}
			if need(o, ns, "atomic.StoreUint32(&u.bestHeight, …)", store, 1) {
				reload := ns.Calls(an.CalleeNamed("reloadPreschool", "reloadClasses"), false)
				if need(o, ns, "reloadPreschool / reloadClasses", reload, 2) {
					before(o, ns, "the store of the best height", store, "the reload of stored outputs", reload)
				}
				mustPass(o, ns, "ChainIO.GetBestBlock", ns.Calls(an.CalleeNamed("GetBestBlock"), false), an.OkErrNil, store)
			}
		})
}
