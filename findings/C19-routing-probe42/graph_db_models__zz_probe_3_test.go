package models

import (
	"math"
	"math/big"
	"testing"

	"github.com/lightningnetwork/lnd/lnwire"
	"github.com/stretchr/testify/require"
)

// TestProbeComputeFeeNoWrap: the fee rate of a channel update is a uint32 of
// gossip. The fee a policy demands for an amount must never come out below the
// fee of BOLT 7 computed without a word size (it may saturate, it must not
// wrap).
func TestProbeComputeFeeNoWrap(t *testing.T) {
	exact := func(base, rate, amt uint64) *big.Int {
		f := new(big.Int).Mul(
			new(big.Int).SetUint64(amt), new(big.Int).SetUint64(rate),
		)
		f.Div(f, big.NewInt(1_000_000))

		return f.Add(f, new(big.Int).SetUint64(base))
	}

	cases := []struct {
		base, rate, amt uint64
	}{
		{1000, 1, 1_000_000},
		{0, 2500, 123_456_789},
		// 2^31 ppm times 2^33 msat (0.086 BTC) is 2^64.
		{1000, 1 << 31, 1 << 33},
		{0, math.MaxUint32, 5_000_000_000},
		{math.MaxUint32, math.MaxUint32, 2_100_000_000_000_000},
		{0, math.MaxUint32, 2_100_000_000_000_000_000},
		{math.MaxUint32, 1_000_000, math.MaxUint64 - 5},
	}

	for _, c := range cases {
		want := exact(c.base, c.rate, c.amt)

		cached := &CachedEdgePolicy{
			FeeBaseMSat:               lnwire.MilliSatoshi(c.base),
			FeeProportionalMillionths: lnwire.MilliSatoshi(c.rate),
		}
		full := &ChannelEdgePolicy{
			FeeBaseMSat:               lnwire.MilliSatoshi(c.base),
			FeeProportionalMillionths: lnwire.MilliSatoshi(c.rate),
		}

		for name, got := range map[string]lnwire.MilliSatoshi{
			"cached": cached.ComputeFee(lnwire.MilliSatoshi(c.amt)),
			"full":   full.ComputeFee(lnwire.MilliSatoshi(c.amt)),
		} {
			// Exact when the exact fee is a payable amount, never
			// below it otherwise; always safe to convert to int64.
			require.LessOrEqual(t, uint64(got),
				uint64(math.MaxInt64), "%s: %+v", name, c)

			gotBig := new(big.Int).SetUint64(uint64(got))
			if want.Cmp(big.NewInt(2_100_000_000_000_000_000)) <= 0 {
				require.Zerof(t, want.Cmp(gotBig), "%s: %+v: "+
					"fee %v, exact %v", name, c, got, want)
			} else {
				require.GreaterOrEqualf(t, uint64(got),
					uint64(2_100_000_000_000_000_000),
					"%s: %+v: fee %v, exact %v", name, c,
					got, want)
			}
		}
	}
}
