package spec

import (
	"go/ast"
	"go/token"
	"go/types"
	"strings"

	"lndlint/internal/an"
	"lndlint/internal/flow"
)

// nullableByPresence: a NULL-able SQL column (sql.NullInt32 & co.) is tested
// by its Valid flag; a branch condition or switch tag that looks at the
// payload (.Int32, .Int64, .String, ...) must sit below `.Valid` of the same
// value.  Comparing the payload alone confuses NULL with the zero value of
// the column (e.g. failure reason 0 = timeout).
func nullableByPresence(r *an.Run, pkgs []string, floor int, why string) {
	p := r.Prog
	r.Obl("nullable-columns-tested-by-presence", "GUARD",
		"in "+strings.Join(pkgs, ", ")+" every branch condition or switch tag that reads the payload of a sql.Null* value is dominated by the Valid flag of that same value",
		why, floor,
		func(o *an.Obl) {
			payload := map[string]bool{"Int16": true, "Int32": true, "Int64": true, "String": true, "Bool": true, "Float64": true, "Time": true, "Byte": true, "V": true}
			for _, f := range p.Funcs(false, pkgs...) {
				info := f.Info()
				for _, v := range f.Graph().V {
					var e ast.Expr
					switch v.Kind {
					case flow.KCond:
						e, _ = v.Node.(ast.Expr)
					case flow.KCase:
						e = v.Tag
					}
					if e == nil {
						continue
					}
					// the payload may reach the condition through locals
					// (`code := col.Int32; if code != 0`, `kind := T(col.Int32);
					// switch kind`): follow every local mentioned in the
					// condition to all its definitions
					seen := map[types.Object]bool{}
					var scan func(e ast.Node, depth int)
					scan = func(e ast.Node, depth int) {
						ast.Inspect(e, func(n ast.Node) bool {
							if u, ok := n.(*ast.UnaryExpr); ok && u.Op == token.AND {
								return false // a pointer to a copy: its nil-ness is a presence test of its own
							}
							if id, ok := n.(*ast.Ident); ok && depth < 5 {
								if obj, ok := info.Uses[id].(*types.Var); ok && !obj.IsField() && !seen[obj] {
									seen[obj] = true
									for _, d := range nullableLocalDefs(f, obj) {
										scan(d, depth+1)
									}
								}
								return true
							}
							sel, ok := n.(*ast.SelectorExpr)
							if !ok || !payload[sel.Sel.Name] {
								return true
							}
							t := info.TypeOf(sel.X)
							if t == nil {
								return true
							}
							nt, ok := types.Unalias(t).(*types.Named)
							if !ok || nt.Obj().Pkg() == nil || nt.Obj().Pkg().Path() != "database/sql" || !strings.HasPrefix(nt.Obj().Name(), "Null") {
								return true
							}
							x := f.Canon(sel.X)
							s := an.Site{Fn: f, V: v, Node: v.Node}
							fact := an.Truth(canonTerm("^"+regexpQuote(x)+`\.Valid$`), true, an.Text(sel.X)+".Valid")
							ok2, _ := f.Guarded(s, fact)
							o.Site("%s tests %s (guarded by Valid: %v)", f.Where(v.Pos()), an.Text(sel), ok2)
							if !ok2 {
								o.FailAt(f.Root().ID+"#payload-of-"+an.Text(sel.X)+"-without-valid", f.Where(v.Pos()), "%s branches on %s (through %s) without testing %s.Valid: NULL and the column's zero value are confused", f.ID, an.Text(sel), an.Text(v.Node), an.Text(sel.X))
							}
							return true
						})
					}
					scan(e, 0)
				}
			}
		})
}

// nullableLocalDefs returns every expression assigned to the local obj in the
// root function of f (plain and multi-value assignments, declarations, the
// init statement of an if / switch).
func nullableLocalDefs(f *an.Func, obj types.Object) []ast.Expr {
	info := f.Info()
	var out []ast.Expr
	ast.Inspect(f.Root().Body, func(n ast.Node) bool {
		switch x := n.(type) {
		case *ast.AssignStmt:
			for i, l := range x.Lhs {
				id, ok := ast.Unparen(l).(*ast.Ident)
				if !ok || (info.Defs[id] != obj && info.Uses[id] != obj) {
					continue
				}
				if len(x.Lhs) == len(x.Rhs) {
					out = append(out, x.Rhs[i])
				} else if len(x.Rhs) == 1 {
					out = append(out, x.Rhs[0])
				}
			}
		case *ast.ValueSpec:
			for i, nm := range x.Names {
				if info.Defs[nm] != obj {
					continue
				}
				if len(x.Values) == len(x.Names) {
					out = append(out, x.Values[i])
				} else if len(x.Values) == 1 {
					out = append(out, x.Values[0])
				}
			}
		}
		return true
	})
	return out
}
