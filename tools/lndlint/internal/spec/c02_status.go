package spec

import (
	"go/ast"
	"strings"

	"lndlint/internal/an"
)

// c02DiskCopyIntact complements status-writers-use-disk-copy (c06.go): the
// argument of putOpenChannel canonicalises to fetchOpenChannel(...) as long as
// the local is defined once, also when the fetched value behind the pointer
// is replaced (`*disk = *channel`) or its commitments / revocation state are
// assigned from somewhere else before the write.  The status writers change
// the status, the pending flag, the short channel id and the confirmation
// heights of the copy, nothing that a state transition owns.
func c02DiskCopyIntact(r *an.Run) {
	p := r.Prog
	r.Obl("status-writers-use-disk-copy.copy-not-overwritten", "ROLE",
		"between fetchOpenChannel and putOpenChannel a status writer never replaces the fetched channel value as a whole (`*disk = ...`), never rebinds the variable, and never assigns its commitments or revocation state (LocalCommitment, RemoteCommitment, RevocationProducer, RevocationStore, RemoteCurrentRevocation, RemoteNextRevocation)",
		"putOpenChannel rewrites both commitments and the revocation state; a disk copy overwritten from the in-memory handle rolls the durable commitment back exactly like writing the handle itself", 7,
		func(o *an.Obl) {
			owned := map[string]bool{"LocalCommitment": true, "RemoteCommitment": true, "RevocationProducer": true,
				"RevocationStore": true, "RemoteCurrentRevocation": true, "RemoteNextRevocation": true}
			n := 0
			for _, f := range p.Funcs(false, "channeldb") {
				for _, s := range f.Calls(an.CalleeIs("channeldb.putOpenChannel"), false) {
					c := s.Node.(*ast.CallExpr)
					if len(c.Args) != 2 || !strings.HasPrefix(f.Canon(c.Args[1]), "channeldb.fetchOpenChannel(") {
						continue
					}
					obj := c02ObjOf(f, c.Args[1])
					if obj == nil {
						o.FailAt(f.Root().ID+"#disk-copy-variable", s.Where(), "%s hands %s to putOpenChannel, expected the local bound to fetchOpenChannel's result", f.Root().ID, an.Text(c.Args[1]))
						continue
					}
					n++
					o.Site("%s: the copy %s is written back by %s", f.Root().ID, obj.Name(), s.String())
					defs := 0
					ast.Inspect(f.Root().Body, func(nd ast.Node) bool {
						as, ok := nd.(*ast.AssignStmt)
						if !ok {
							return true
						}
						for _, l := range as.Lhs {
							e := ast.Unparen(l)
							if c02ObjOf(f, e) == obj {
								defs++
								continue
							}
							// walk to the root of the assigned path
							whole := false
							first := ""
							for {
								switch x := e.(type) {
								case *ast.StarExpr:
									if c02ObjOf(f, x.X) == obj {
										whole = first == ""
									}
									e = ast.Unparen(x.X)
									continue
								case *ast.SelectorExpr:
									first = x.Sel.Name
									e = ast.Unparen(x.X)
									continue
								case *ast.IndexExpr:
									e = ast.Unparen(x.X)
									continue
								}
								break
							}
							if c02ObjOf(f, e) != obj {
								continue
							}
							switch {
							case whole:
								o.FailAt(f.Root().ID+"#disk-copy-replaced", f.Where(as.Pos()), "%s replaces the channel value it fetched before writing it back: %s", f.Root().ID, an.Text(as))
							case owned[first]:
								o.FailAt(f.Root().ID+"#disk-copy-"+first, f.Where(as.Pos()), "%s assigns %s of the fetched channel before writing it back: %s", f.Root().ID, first, an.Text(as))
							}
						}
						return true
					})
					if defs != 1 {
						o.FailAt(f.Root().ID+"#disk-copy-rebound", s.Where(), "%s binds the variable %s %d times, expected only to fetchOpenChannel's result", f.Root().ID, obj.Name(), defs)
					}
				}
			}
			if n < 6 {
				o.FailAt("putOpenChannel#disk-copies", "", "expected at least 6 status writers that write a fetched copy back, found %d", n)
			}
		})
}
