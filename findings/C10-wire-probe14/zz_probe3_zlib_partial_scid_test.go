package lnwire

// Probe for suspicion 3 (property C10): the zlib branch of
// decodeShortChanIDs accepts a decompressed stream whose length is 3 or 6
// (mod 8), i.e. one that ends after the block height or after the tx index of
// a final, partial short channel ID. The plain branch rejects any length that
// is not a multiple of 8, and the comment in decodeCompressedShortChanIDs says
// a partial final ID is an error.
//
// Run: go test -count=1 -run TestProbe3 ./lnwire/

import (
	"bytes"
	"compress/zlib"
	"encoding/binary"
	"testing"

	"github.com/stretchr/testify/require"
)

func probe3Msg(typ MessageType, body []byte) []byte {
	var b [2]byte
	binary.BigEndian.PutUint16(b[:], uint16(typ))

	return append(b[:], body...)
}

func TestProbe3ZlibPartialFinalShortChanID(t *testing.T) {
	for _, extra := range []int{0, 1, 2, 3, 4, 5, 6, 7} {
		payload := []byte{0, 0, 1, 0, 0, 1, 0, 1}
		payload = append(payload, bytes.Repeat([]byte{0xee}, extra)...)

		var z bytes.Buffer
		zw := zlib.NewWriter(&z)
		_, _ = zw.Write(payload)
		require.NoError(t, zw.Close())

		body := make([]byte, 32)
		var l [2]byte
		binary.BigEndian.PutUint16(l[:], uint16(z.Len()+1))
		body = append(body, l[:]...)
		body = append(body, byte(EncodingSortedZlib))
		body = append(body, z.Bytes()...)

		msg, err := ReadMessage(
			bytes.NewReader(probe3Msg(MsgQueryShortChanIDs, body)), 0,
		)
		switch {
		// A whole number of scids is fine.
		case extra == 0:
			require.NoError(t, err)
			q := msg.(*QueryShortChanIDs)
			require.Len(t, q.ShortChanIDs, 1)

		case err == nil:
			q := msg.(*QueryShortChanIDs)
			t.Errorf("zlib stream with %d trailing bytes after "+
				"the last full scid accepted (%d scids)",
				extra, len(q.ShortChanIDs))
		}

		// Plain sibling for comparison.
		body = make([]byte, 32)
		binary.BigEndian.PutUint16(l[:], uint16(len(payload)+1))
		body = append(body, l[:]...)
		body = append(body, byte(EncodingSortedPlain))
		body = append(body, payload...)
		_, err = ReadMessage(
			bytes.NewReader(probe3Msg(MsgQueryShortChanIDs, body)), 0,
		)
		if extra == 0 {
			require.NoError(t, err)
		} else {
			require.Error(t, err, "plain, %d trailing bytes", extra)
		}
	}
}
