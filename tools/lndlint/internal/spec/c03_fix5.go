package spec

import (
	"go/ast"
	"go/token"
	"go/types"
	"strings"

	"lndlint/internal/an"
	"lndlint/internal/flow"
)

func init() {
	specExtras["C03"] = append(specExtras["C03"], c03f5Rules)
}

// c03f5AddOnlyTests: comparisons of an entry type with Add alone (NoOpAdd not
// tested alongside) that are harmless, with the reason.
var c03f5AddOnlyTests = map[string]string{
	"lnwallet.compactLogs": "adds are skipped because they leave the log together with their settle/fail; a no-op add that passes this test is skipped by the next one (its remove heights are zero)",
}

// c03f5Rules: repair 39d76f7 (every place that treats adds treats no-op adds
// alike: the commit diff lists the circuit a no-op add opened, which is what
// ProcessChanSyncMsg hands back on a retransmission) and repair 9b717a1 (a
// restarted link signs a commitment it owes).
func c03f5Rules(r *an.Run) {
	p := r.Prog

	r.Obl("add-cases-cover-noop-adds", "REG",
		"every tagged switch over an update type (lnwallet.updateType) in non-test lnwallet that names Add in a case names NoOpAdd in the same case, or in a case with the same body (a case ending in fallthrough continues with the next one; a switch that maps every constant to a literal of its own, the String method, is no treatment); every comparison of an update type with Add (== / !=) stands next to the same comparison of the same operand with NoOpAdd (`x == Add || x == NoOpAdd`, `x != Add && x != NoOpAdd`), except the tabled sites where skipping the sibling is harmless",
		"a no-op add is an HTLC on the commitment like any add: it opens a circuit, carries an onion and heights; where only Add is handled the no-op add's circuit key is missing from the commit diff, so after a reconnect the retransmitted commitment is handed back without it and the switch never learns the circuit was opened (C03); the same omission in a restore or evaluation step drops the HTLC", 10,
		func(o *an.Obl) {
			ut := p.LookupType("lnwallet", "updateType")
			isConst := func(fn *an.Func, e ast.Expr, name string) bool {
				var id *ast.Ident
				switch x := ast.Unparen(e).(type) {
				case *ast.Ident:
					id = x
				case *ast.SelectorExpr:
					id = x.Sel
				}
				if id == nil {
					return false
				}
				c, ok := fn.Info().Uses[id].(*types.Const)
				return ok && c.Name() == name && types.Identical(c.Type(), ut)
			}
			nSw := 0
			for _, es := range p.EnumSwitches("lnwallet", "updateType", "lnwallet") {
				addAt, noopAt := -1, -1
				for i, cl := range es.Clauses {
					for _, c := range cl {
						switch c {
						case "Add":
							addAt = i
						case "NoOpAdd":
							noopAt = i
						}
					}
				}
				if addAt < 0 && noopAt < 0 {
					continue
				}
				if c03f5NameTable(es.Stmt) {
					o.Site("%s: switch over %s at %s maps every constant to a literal of its own (a name table): skipped", es.Fn.ID, es.Tag, es.Where)
					continue
				}
				nSw++
				o.Site("%s: switch over %s at %s: %v", es.Fn.ID, es.Tag, es.Where, es.Clauses)
				switch {
				case addAt == noopAt:
				case addAt >= 0 && noopAt >= 0:
					// separate cases: the bodies must be the same
					// (a case that ends in `fallthrough` continues with the
					// body of the next one)
					var body func(i int) string
					body = func(i int) string {
						var parts []string
						for _, st := range es.Stmt.Body.List[i].(*ast.CaseClause).Body {
							if br, ok := st.(*ast.BranchStmt); ok && br.Tok == token.FALLTHROUGH && i+1 < len(es.Stmt.Body.List) {
								if rest := body(i + 1); rest != "" {
									parts = append(parts, rest)
								}
								break
							}
							parts = append(parts, an.Text(st))
						}
						return strings.Join(parts, "; ")
					}
					if body(addAt) != body(noopAt) {
						o.FailAt(es.Fn.ID+"#add-and-noop-add-differ", es.Where, "%s: the switch over %s handles Add by {%s} but NoOpAdd by {%s}", es.Fn.ID, es.Tag, body(addAt), body(noopAt))
					}
				case addAt >= 0:
					o.FailAt(es.Fn.ID+"#case-add-without-noop-add", es.Where, "%s: the switch over %s has a case for Add that does not cover NoOpAdd (clauses %v)", es.Fn.ID, es.Tag, es.Clauses)
				default:
					o.FailAt(es.Fn.ID+"#case-noop-add-without-add", es.Where, "%s: the switch over %s has a case for NoOpAdd but none for Add (clauses %v)", es.Fn.ID, es.Tag, es.Clauses)
				}
			}
			if nSw < 5 {
				o.FailAt("lnwallet#update-type-switches", "", "expected at least 5 update-type switches with an Add case, found %d", nSw)
			}
			// comparisons
			nCmp := 0
			tabledSeen := map[string]bool{}
			for _, fn := range p.Funcs(false, "lnwallet") {
				if fn.Lit != nil {
					continue
				}
				var stack []ast.Node
				ast.Inspect(fn.Body, func(n ast.Node) bool {
					if n == nil {
						stack = stack[:len(stack)-1]
						return true
					}
					stack = append(stack, n)
					be, ok := n.(*ast.BinaryExpr)
					if !ok || (be.Op != token.EQL && be.Op != token.NEQ) {
						return true
					}
					var operand ast.Expr
					switch {
					case isConst(fn, be.Y, "Add"):
						operand = be.X
					case isConst(fn, be.X, "Add"):
						operand = be.Y
					default:
						return true
					}
					nCmp++
					// the enclosing chain of the joining operator
					join := token.LOR
					if be.Op == token.NEQ {
						join = token.LAND
					}
					top := ast.Expr(be)
					for i := len(stack) - 2; i >= 0; i-- {
						switch x := stack[i].(type) {
						case *ast.ParenExpr:
							top = x
							continue
						case *ast.BinaryExpr:
							if x.Op == join {
								top = x
								continue
							}
						}
						break
					}
					want := fn.Canon(operand)
					paired := false
					ast.Inspect(top, func(m ast.Node) bool {
						sib, ok := m.(*ast.BinaryExpr)
						if !ok || sib.Op != be.Op {
							return true
						}
						if (isConst(fn, sib.Y, "NoOpAdd") && fn.Canon(sib.X) == want) || (isConst(fn, sib.X, "NoOpAdd") && fn.Canon(sib.Y) == want) {
							paired = true
						}
						return true
					})
					o.Site("%s: %s (NoOpAdd tested alongside: %v)", fn.ID, an.Text(top), paired)
					if paired {
						return true
					}
					if why, ok := c03f5AddOnlyTests[fn.ID]; ok {
						tabledSeen[fn.ID] = true
						o.Site("%s: tabled: %s", fn.ID, why)
						return true
					}
					o.FailAt(fn.ID+"#add-test-without-noop-add", fn.Where(be.Pos()), "%s tests %s without the same test for NoOpAdd", fn.ID, an.Text(be))
					return true
				})
			}
			for id := range c03f5AddOnlyTests {
				if !tabledSeen[id] {
					o.FailAt(id+"#tabled-add-test-gone", "", "the tabled Add-only comparison of %s is gone: remove it from the table", id)
				}
			}
			if nCmp < 2 {
				o.FailAt("lnwallet#add-comparisons", "", "expected at least 2 comparisons of an update type with Add (isAdd, compactLogs), found %d", nCmp)
			}
		})

	r.Obl("restarted-link-signs-what-it-owes", "PATH",
		"channelLink.resolveFwdPkgs asks channel.OweCommitment() exactly once, after the loop that reprocesses the forwarding packages and outside of it; the one updateCommitTx call lies on the true edge of that test, restricted by nothing else but the success of the package loading and of every reprocessing step; no non-failing return is reachable on the true edge without updateCommitTx, whose error is handed out",
		"after a stop between persisting our revocation and signing, the commitment heights agree and channel_reestablish retransmits nothing, yet the peer's updates are locked in on our commitment only: OweCommitment is the only test that sees them (NumPendingUpdates(Local, Remote) counts our own updates); a link that does not sign here leaves the peer's HTLC out of its commitment until unrelated traffic arrives, past its deadline", 14,
		func(o *an.Obl) {
			f := p.Func(hs + "channelLink.resolveFwdPkgs")
			g := f.Graph()
			c02ParamsStable(o, f)
			owe := f.Calls(an.CalleeIs(lw+"LightningChannel.OweCommitment"), true)
			upd := f.Calls(an.CalleeIs(hs+"channelLink.updateCommitTx", hs+"channelLink.updateCommitTxOrFail"), true)
			if !needExactly(o, f, "channel.OweCommitment()", owe, 1) || !needExactly(o, f, "updateCommitTx", upd, 1) {
				return
			}
			if recv := f.Canon(owe[0].Node.(*ast.CallExpr).Fun); recv != "$recv.channel.OweCommitment" {
				o.FailAt(f.ID+"#asked-channel", owe[0].Where(), "resolveFwdPkgs asks %s, expected the link's own channel", recv)
			}
			if an.CalleeID(f.Info(), upd[0].Node.(*ast.CallExpr)) != hs+"channelLink.updateCommitTx" || f.Canon(upd[0].Node.(*ast.CallExpr).Fun) != "$recv.updateCommitTx" {
				o.FailAt(f.ID+"#signing-call", upd[0].Where(), "resolveFwdPkgs signs through %s, expected l.updateCommitTx whose error it returns", upd[0].String())
			}
			oweT := an.CallNamed("OweCommitment", an.FieldPath(an.Recv(), "channel"))
			owes := an.Truth(oweT, true, "channel.OweCommitment()")
			owesNot := an.Truth(oweT, false, "!channel.OweCommitment()")
			guarded(o, f, upd[0], owes)
			onlyGuards(o, f, upd[0], []string{`^!\(err != nil\)$`, `^err == nil$`, `^l\.channel\.OweCommitment\(\)$`}, "signing after the restart")
			// the test is a condition of its own (not negated away, not part
			// of a stored boolean)
			if len(f.EdgesOf(owes)) == 0 {
				o.FailAt(f.ID+"#owe-not-tested", owe[0].Where(), "the answer of OweCommitment() is not tested by a condition of resolveFwdPkgs")
			}
			// every non-failing return: either the channel owes nothing or
			// the link signed
			mustDoUnless(o, f, "updateCommitTx", upd, f.SuccessReturns(), owesNot)
			// the error of the signing step is handed out: the call is the
			// operand of a return, or its failure edge reaches no non-failing
			// return
			if es, direct := f.UnionOk(upd, an.OkErrNil); !direct[upd[0].V] {
				if len(es) == 0 {
					o.FailAt(f.ID+"#signing-error-dropped", upd[0].Where(), "the error of %s is neither returned nor tested", upd[0].String())
				} else {
					failureStops(o, f, "updateCommitTx", upd, an.OkErrNil, f.SuccessReturns(), "a non-failing return")
				}
			}
			// after the reprocessing loop
			res := f.Calls(an.CalleeIs(hs+"channelLink.resolveFwdPkg"), true)
			load := f.Calls(an.CalleeNamed("LoadFwdPkgs"), true)
			if !needExactly(o, f, "resolveFwdPkg", res, 1) || !needExactly(o, f, "LoadFwdPkgs", load, 1) {
				return
			}
			mustPass(o, f, "LoadFwdPkgs", load, an.OkErrNil, owe)
			hdr := enclosingLoopHeader(f, res[0].Node)
			if !strings.HasPrefix(hdr, "$recv.channel.LoadFwdPkgs(") {
				o.FailAt(f.ID+"#package-loop", res[0].Where(), "resolveFwdPkg is not called in a loop over the loaded packages (loop header %q)", hdr)
				return
			}
			loopVisitsAll(o, f, `^\$recv\.channel\.LoadFwdPkgs\(`)
			failureStops(o, f, "resolveFwdPkg", res, an.OkErrNil, owe, "the OweCommitment test")
			if enclosingLoopHeader(f, owe[0].Node) != "" {
				o.FailAt(f.ID+"#owe-inside-loop", owe[0].Where(), "OweCommitment() is asked inside a loop (%s): the answer must reflect all reprocessed packages", enclosingLoopHeader(f, owe[0].Node))
			}
			// the test is not reachable from inside the loop body except
			// through the loop's exhaustion
			for _, head := range g.V {
				rs, ok := head.Node.(*ast.RangeStmt)
				if !ok || head.Kind != flow.KRange || !strings.HasPrefix(f.Canon(rs.X), "$recv.channel.LoadFwdPkgs(") {
					continue
				}
				cut := flow.EdgeSet{}
				for _, e := range head.Out {
					if e.Kind == flow.ERangeDone {
						cut[e] = true
					}
				}
				if g.Reach(g.Entry, cut, nil)[owe[0].V] {
					o.FailAt(f.ID+"#owe-before-reprocessing", owe[0].Where(), "OweCommitment() can be asked before every forwarding package was reprocessed")
				}
				o.Site("%s: OweCommitment() is asked after the loop at %s is exhausted", f.ID, f.Where(head.Pos()))
			}
		})
}

// c03f5NameTable: every case of the switch is a single `return <literal>`
// (the String method of the enumeration): each constant has, by construction,
// a value of its own.
func c03f5NameTable(sw *ast.SwitchStmt) bool {
	n := 0
	for _, cl := range sw.Body.List {
		cc := cl.(*ast.CaseClause)
		if len(cc.Body) != 1 {
			return false
		}
		rs, ok := cc.Body[0].(*ast.ReturnStmt)
		if !ok || len(rs.Results) != 1 {
			return false
		}
		if _, isLit := ast.Unparen(rs.Results[0]).(*ast.BasicLit); !isLit {
			return false
		}
		if cc.List != nil && len(cc.List) != 1 {
			return false
		}
		n++
	}
	return n > 0
}
