package spec

import (
	"go/ast"
	"regexp"
	"strings"

	"lndlint/internal/an"
	"lndlint/internal/flow"
)

func init() { specExtras["C14"] = append(specExtras["C14"], c14r5Rules) }

// c14r5Rules: round-5 seeds i (requests pruned one block early) and j (the
// lowest disconnected height tracked with the comparison flipped).
func c14r5Rules(r *an.Run) {
	p := r.Prog

	r.Obl("requests-are-forgotten-only-beyond-the-reorg-safety-limit", "MIRROR",
		"ConnectTip reads and deletes the height indexes confsByInitialHeight and spendsByHeight only under the key `connected height - reorgSafetyLimit` (parameter 1 minus the receiver's limit, whatever local holds it) and only below `connected height >= reorgSafetyLimit`; the requests it deletes from confNotifications / spendNotifications are the keys of the index entry of that height; every other comparison of the package that involves reorgSafetyLimit is the writers' test `event height + reorgSafetyLimit > currentHeight` (an event is filed in the index exactly while that holds) or the registration bound `numConfs > reorgSafetyLimit` of newConfNtfn: the height pruned is the first one for which the writers' test no longer holds",
		"a request forgotten while its block can still be disconnected within the safety limit gets Done, is not found by DisconnectTip (no NegativeConf / Reorg, no renewed notification on re-inclusion), and a client asking for reorgSafetyLimit confirmations has its set deleted in the block in which it is to be notified", 10,
		func(o *an.Obl) {
			ct := p.Func(c14f5TN + "ConnectTip")
			const want = "($p1 - $recv.reorgSafetyLimit)"
			limit := an.FieldPath(an.Recv(), "reorgSafetyLimit")
			deep := an.Cmp(an.Param(1), an.GE, limit, "connected height >= reorgSafetyLimit")
			check := func(k *c14f5Kind, v *flow.Vertex, n ast.Node, what, key string) {
				s := an.Site{Fn: ct, V: v, Node: n}
				o.Site("ConnectTip %s %s under %s", what, k.index, key)
				if key != want {
					o.FailAt(ct.ID+"#"+k.index+"-pruned-under", s.Where(), "ConnectTip %s %s under %s, expected %s: an event at height h stays filed while h + reorgSafetyLimit > currentHeight, so the entry to forget when height T is connected is T - reorgSafetyLimit", what, k.index, key, want)
				}
				if ok, _ := ct.Guarded(s, deep); !ok {
					o.FailAt(ct.ID+"#"+k.index+"-pruned-below-the-limit", s.Where(), "ConnectTip %s %s[%s] on a path on which [%s] was not established (the subtraction wraps around)", what, k.index, key, deep.Desc)
				}
			}
			for _, k := range c14f5Kinds {
				nIdx, nReq := 0, 0
				seen := map[ast.Node]bool{}
				for _, v := range ct.Graph().V {
					v.Inspect(false, func(n ast.Node) bool {
						if seen[n] {
							return true
						}
						switch x := n.(type) {
						case *ast.IndexExpr:
							if ct.Canon(x.X) == "$recv."+k.index {
								seen[n] = true
								nIdx++
								check(k, v, x, "reads", ct.Canon(x.Index))
							}
						case *ast.CallExpr:
							if an.CalleeID(ct.Info(), x) != "builtin.delete" || len(x.Args) != 2 {
								return true
							}
							switch ct.Canon(x.Args[0]) {
							case "$recv." + k.index:
								seen[n] = true
								nIdx++
								check(k, v, x, "deletes from", ct.Canon(x.Args[1]))
							case "$recv." + k.reqMap:
								seen[n] = true
								nReq++
								got := ct.Canon(x.Args[1])
								o.Site("ConnectTip forgets the %s request %s", k.name, got)
								if got != "$key($recv."+k.index+"["+want+"])" {
									o.FailAt(ct.ID+"#"+k.reqMap+"-forgets", ct.Where(x.Pos()), "ConnectTip deletes %s from %s, expected the requests filed under %s[%s]", got, k.reqMap, k.index, want)
								}
							}
						}
						return true
					})
				}
				if nIdx < 2 || nReq < 1 {
					o.FailAt(ct.ID+"#"+k.name+"-pruning", ct.Where(ct.Body.Pos()), "expected ConnectTip to walk and delete the mature entry of %s and to delete its requests from %s; found %d index uses and %d request deletions", k.index, k.reqMap, nIdx, nReq)
				}
			}
			// every other comparison with the limit
			cur := an.FieldPath(an.Recv(), "currentHeight")
			sum := canonTerm(`^\(.+ \+ \$recv\.reorgSafetyLimit\)$`)
			filed := an.AnyOf("event height + reorgSafetyLimit > currentHeight",
				an.CmpX(sum, an.GT, cur, ""), an.CmpX(sum, an.LE, cur, ""))
			bound := an.AnyOf("numConfs > reorgSafetyLimit",
				an.CmpX(canonTerm(`^\$p\d+$`), an.GT, limit, ""), an.CmpX(canonTerm(`^\$p\d+$`), an.LE, limit, ""))
			depth := an.AnyOf(deep.Desc, deep, an.Cmp(an.Param(1), an.LT, limit, ""))
			nFiled := 0
			for _, f := range p.Funcs(false, "chainntnfs") {
				for _, v := range f.Graph().V {
					if v.Kind != flow.KCond {
						continue
					}
					e, ok := v.Node.(ast.Expr)
					if !ok || !strings.Contains(f.Canon(e), "reorgSafetyLimit") {
						continue
					}
					class := ""
					for _, ed := range v.Out {
						switch {
						case filed.Hold(f, ed):
							class = "filed"
						case f.Root().ID == c14f5TN+"newConfNtfn":
							if bound.Hold(f, ed) {
								class = "bound"
							}
						case f.Root().ID == ct.ID && depth.Hold(f, ed):
							class = "depth"
						}
					}
					o.Site("%s: %s compares with the reorg safety limit (%s)", f.ID, f.Canon(e), class)
					if class == "filed" {
						nFiled++
					}
					if class == "" {
						o.FailAt(f.ID+"#unclassified-reorg-safety-comparison", f.Where(e.Pos()), "%s compares %s: neither the writers' test [%s], nor newConfNtfn's bound [%s], nor ConnectTip's [%s]; a request would be filed, refused or forgotten at another depth than the one the rest of the notifier assumes", f.ID, f.Canon(e), filed.Desc, bound.Desc, deep.Desc)
					}
				}
			}
			if nFiled < 4 {
				o.FailAt("chainntnfs#filed-tests", "", "expected the four tests `event height + reorgSafetyLimit > currentHeight` of the historical writers (conf and spend, set and dispatch), found %d", nFiled)
			}
		})

	r.Obl("reorged-height-keeps-the-lowest-height-disconnected", "GUARD",
		"DisconnectTip: in each of the two loops over confNotifications and spendNotifications, the assignment of the height being disconnected to the set's reorgedHeight is reached only through `set.reorgedHeight == 0` or `disconnected height < set.reorgedHeight` (the set being the loop's element), and an iteration completes without it only through `set.reorgedHeight != 0` and `disconnected height >= set.reorgedHeight`: the field only ever moves down, on both sides alike",
		"UpdateConfDetails / updateSpendDetails discard historical results at or above reorgedHeight; during a reorg the heights arrive in descending order, so a field that keeps the highest (or only the first) height lets a rescan result from a lower disconnected block through: the client is told a block that is not on the active chain and the real re-inclusion is taken for address reuse", 8,
		func(o *an.Obl) {
			dt := p.Func(c14f5TN + "DisconnectTip")
			for _, k := range c14f5Kinds {
				loop := "$recv." + k.reqMap
				elem := canonTerm("^" + regexp.QuoteMeta("$elem("+loop+")") + "$")
				reorged := an.Field("chainntnfs."+k.setType, "reorgedHeight", elem)
				var ws []an.Site
				for _, s := range dt.Assigns(an.Field("chainntnfs."+k.setType, "reorgedHeight", nil), false) {
					as, ok := s.Node.(*ast.AssignStmt)
					if !ok || len(as.Lhs) != 1 || len(as.Rhs) != 1 {
						o.FailAt(dt.ID+"#"+k.name+"-reorged-height-write", s.Where(), "unexpected update of reorgedHeight: %s", an.Text(s.Node))
						continue
					}
					if !an.Match(dt, reorged, as.Lhs[0]) {
						o.FailAt(dt.ID+"#"+k.name+"-reorged-height-of", s.Where(), "DisconnectTip writes %s, expected the reorgedHeight of the element of the loop over %s", dt.Canon(as.Lhs[0]), k.reqMap)
						continue
					}
					if c := dt.Canon(as.Rhs[0]); c != "$p0" {
						o.FailAt(dt.ID+"#"+k.name+"-reorged-height-value", s.Where(), "reorgedHeight is set to %s, expected the height being disconnected", c)
					}
					ws = append(ws, s)
				}
				if !needExactly(o, dt, k.name+" set.reorgedHeight = disconnected height", ws, 1) {
					continue
				}
				unset := an.Cmp(reorged, an.LE, an.IntConst(0), "set.reorgedHeight == 0")
				lower := an.Cmp(an.Param(0), an.LE, reorged, "disconnected height < set.reorgedHeight")
				guarded(o, dt, ws[0], an.AnyOf(unset.Desc+" or "+lower.Desc, unset, lower))
				loopRe := "^" + regexp.QuoteMeta(loop) + "$"
				everyIterationOr(o, dt, loopRe, ws, an.Cmp(reorged, an.NE, an.IntConst(0), "set.reorgedHeight != 0"),
					"the lowering of the "+k.name+" set's reorgedHeight (a)")
				everyIterationOr(o, dt, loopRe, ws, an.Cmp(an.Param(0), an.GE, reorged, "disconnected height >= set.reorgedHeight"),
					"the lowering of the "+k.name+" set's reorgedHeight (b)")
			}
		})
}
