package lnwire

import (
	"bytes"
	"testing"

	"github.com/stretchr/testify/require"
)

// ReadElement(*bool) only ever assigns true: decoding a 0 byte into a target
// that holds true leaves it true.
func TestProbeBoolDecodeAssignsFalse(t *testing.T) {
	b := true
	require.NoError(t, ReadElement(bytes.NewReader([]byte{0}), &b))
	if b {
		t.Errorf("ReadElement(*bool) of byte 0 left the target true")
	}

	// The same through a reused message value.
	var buf bytes.Buffer
	require.NoError(t, (&Stfu{Initiator: false}).Encode(&buf, 0))

	msg := &Stfu{Initiator: true}
	require.NoError(t, msg.Decode(bytes.NewReader(buf.Bytes()), 0))
	if msg.Initiator {
		t.Errorf("Stfu with initiator=0 decoded into a reused value " +
			"keeps Initiator == true")
	}
}
