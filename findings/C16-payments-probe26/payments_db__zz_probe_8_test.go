package paymentsdb

import (
	"crypto/sha256"
	"testing"

	"github.com/lightningnetwork/lnd/record"
	"github.com/stretchr/testify/require"
)

// Suspicion 8 (AMP part): the AMP record of a new shard must be consistent
// with the shards in flight: same set ID, and no mix of AMP and non-AMP shards.
func TestZZProbe8AMPSetIDAcrossShards(t *testing.T) {
	for name, db := range zzSeedStores(t) {
		t.Run(name, func(t *testing.T) {
			ctx := t.Context()
			preimg := genPreimage(t)
			rhash := sha256.Sum256(preimg[:])
			info := genPaymentCreationInfo(t, rhash)
			hash := info.PaymentIdentifier
			require.NoError(t, db.InitPayment(ctx, hash, info))

			third := info.Value / 3
			mpp := record.NewMPP(info.Value, [32]byte{1})
			shard := func(id uint64, amp *record.AMP) error {
				a := genAttemptWithHash(
					t, id, genSessionKey(t), rhash,
				)
				a.Route.FinalHop().AmtToForward = third
				a.Route.FinalHop().MPP = mpp
				a.Route.FinalHop().AMP = amp
				_, err := db.RegisterAttempt(ctx, hash, a)

				return err
			}

			setA, setB := [32]byte{0xa}, [32]byte{0xb}
			require.NoError(t, shard(
				0, record.NewAMP([32]byte{1}, setA, 0),
			))

			// Same set, next child: fine.
			require.NoError(t, shard(
				1, record.NewAMP([32]byte{2}, setA, 1),
			))

			// Another set while shards of set A are in flight.
			require.Error(t, shard(
				2, record.NewAMP([32]byte{3}, setB, 2),
			), "shard of another AMP set admitted")

			// A shard without AMP record while AMP shards are in
			// flight.
			require.Error(t, shard(3, nil),
				"non-AMP shard admitted to an AMP payment")

			p, err := db.FetchPayment(ctx, hash)
			require.NoError(t, err)
			require.Len(t, p.HTLCs, 2)
		})
	}
}
