package an

import "lndlint/internal/flow"

// FlowVertex is the vertex type of the flow graph, re-exported for spec code.
type FlowVertex = flow.Vertex
