package spec

import (
	"go/ast"
	"go/constant"
	"go/token"
	"go/types"
	"sort"
	"strings"

	"lndlint/internal/an"
)

// c10RecordSearch pins tlv.Stream.getRecord, the search for the known record
// of a wire type among the (ascending) records of the stream.
func c10RecordSearch(r *an.Run) {
	p := r.Prog
	r.Obl("known-record-search-keeps-its-place", "GUARD",
		"tlv.Stream.getRecord(typ, idx) returns (records[idx], idx+1, true) only under records[idx].typ == typ with idx < len(records); every other return is (Record{}, idx, false), so that the record the search stopped at is compared again with the next wire type; idx is written only by idx++ under records[idx].typ < typ; Stream.decode continues every search at the index the previous one returned",
		"returning idx+1 for a wire type the stream does not know skips the known record the search stopped at: that record, although present on the wire, is then not parsed into its field but reported as an unknown blob, so the decoded message differs from the one sent", 3,
		func(o *an.Obl) {
			f := p.Func("tlv.Stream.getRecord")
			rec := "$recv.records[$p1]"
			found := 0
			for _, rt := range f.Returns() {
				rs, ok := rt.Node.(*ast.ReturnStmt)
				if !ok || len(rs.Results) != 3 {
					o.FailAt(f.ID+"#return-shape", rt.Where(), "unexpected return %s", rt.String())
					continue
				}
				c := []string{f.Canon(rs.Results[0]), f.Canon(rs.Results[1]), f.Canon(rs.Results[2])}
				o.Site("%s -> %v", rt.String(), c)
				if c[2] == "true" {
					found++
					if c[0] != rec || c[1] != "($p1 + 1)" {
						o.FailAt(f.ID+"#found-return", rt.Where(), "the found case returns (%s, %s), expected (%s, ($p1 + 1))", c[0], c[1], rec)
					}
					guarded(o, f, rt, an.CmpX(canonTerm(`^`+regexpQuote(rec)+`\.typ$`), an.EQ, an.Param(0), "records[idx].typ == typ"))
					guarded(o, f, rt, an.CmpX(an.Param(1), an.LT, an.Len(canonTerm(`^\$recv\.records$`)), "idx < len(records)"))
					continue
				}
				if c[0] != "tlv.Record{}" || c[1] != "$p1" || c[2] != "false" {
					o.FailAt(f.ID+"#not-found-return", rt.Where(), "a not-found case returns (%s, %s, %s), expected (tlv.Record{}, $p1, false): the search must resume at the same known record", c[0], c[1], c[2])
				}
			}
			if found != 1 {
				o.FailAt(f.ID+"#found-returns", f.Where(f.Body.Pos()), "expected exactly one found return, got %d", found)
			}
			// the running index
			idx := f.Params(false)[1]
			adv := 0
			for _, s := range f.Assigns(func(fn *an.Func, e ast.Expr) bool {
				id, ok := e.(*ast.Ident)
				return ok && fn.Info().Uses[id] == types.Object(idx)
			}, true) {
				inc, ok := s.Node.(*ast.IncDecStmt)
				if !ok || inc.Tok != token.INC {
					o.FailAt(f.ID+"#index-written", s.Where(), "the search index is written by %s, expected only idx++", s.String())
					continue
				}
				adv++
				guarded(o, f, s, an.CmpX(canonTerm(`^`+regexpQuote(rec)+`\.typ$`), an.LT, an.Param(0), "records[idx].typ < typ"))
			}
			if adv != 1 {
				o.FailAt(f.ID+"#index-advance", f.Where(f.Body.Pos()), "expected exactly one idx++, got %d", adv)
			}
			if ws := c08WritesOf(f, f.Params(false)[0], true); len(ws) > 0 {
				o.FailAt(f.ID+"#type-written", f.Where(f.Body.Pos()), "the wire type searched for is overwritten: %s", ws[0])
			}
			// the caller resumes where the search stopped
			d := p.Func("tlv.Stream.decode")
			cs := d.Calls(an.CalleeIs("tlv.Stream.getRecord"), true)
			if needExactly(o, d, "getRecord", cs, 1) {
				call := cs[0].Node.(*ast.CallExpr)
				id, ok := ast.Unparen(call.Args[1]).(*ast.Ident)
				if !ok {
					o.FailAt(d.ID+"#search-index", cs[0].Where(), "the search starts at %s, expected the running record index", an.Text(call.Args[1]))
					return
				}
				obj := c08ObjOf(d.Info(), id)
				// written only by `idx = <second result of getRecord>`
				var second types.Object
				ast.Inspect(d.Body, func(n ast.Node) bool {
					if as, ok := n.(*ast.AssignStmt); ok && len(as.Rhs) == 1 && len(as.Lhs) == 3 && ast.Unparen(as.Rhs[0]) == ast.Expr(call) {
						if i, ok := as.Lhs[1].(*ast.Ident); ok {
							second = c08ObjOf(d.Info(), i)
						}
					}
					return true
				})
				if second == nil {
					o.FailAt(d.ID+"#search-result-unbound", cs[0].Where(), "the index returned by getRecord is not bound to a variable")
					return
				}
				if ws := c08WritesOf(d, second, true); len(ws) > 0 {
					o.FailAt(d.ID+"#search-result-rewritten", cs[0].Where(), "the index returned by getRecord is overwritten: %s", ws[0])
				}
				var upd []an.Site
				for _, s := range d.Assigns(func(fn *an.Func, e ast.Expr) bool {
					i, ok := e.(*ast.Ident)
					return ok && fn.Info().Uses[i] == obj
				}, true) {
					as, ok := s.Node.(*ast.AssignStmt)
					if !ok || len(as.Lhs) != 1 || len(as.Rhs) != 1 || as.Tok != token.ASSIGN {
						o.FailAt(d.ID+"#search-index-written", s.Where(), "the running record index is written by %s", s.String())
						continue
					}
					upd = append(upd, s)
					o.Site("%s", s.String())
					if ri, ok := ast.Unparen(as.Rhs[0]).(*ast.Ident); !ok || d.Info().Uses[ri] != second {
						o.FailAt(d.ID+"#search-index-written", s.Where(), "the running record index is set to %s, expected the index getRecord returned (%s)", an.Text(as.Rhs[0]), second.Name())
					}
					if !d.Before([]an.Site{cs[0]}, s) {
						o.FailAt(d.ID+"#search-index-order", s.Where(), "the running record index is updated before the search")
					}
				}
				if len(upd) != 1 {
					o.FailAt(d.ID+"#search-index-updates", cs[0].Where(), "expected exactly one update of the running record index, found %d", len(upd))
				} else {
					// no way from one search to the next that skips the update
					g := d.Graph()
					for _, e := range cs[0].V.Out {
						if g.Reach(e.To, nil, map[*an.FlowVertex]bool{upd[0].V: true})[cs[0].V] {
							o.FailAt(d.ID+"#search-index-stale", cs[0].Where(), "a record can be searched for without the index of the previous search having been taken over")
							break
						}
					}
				}
			}
		})
}

// c10AddressAccounting: ReadAddress reports how many bytes of the address
// list it consumed; the caller's loop and the size of an opaque address are
// computed from that number.
func c10AddressAccounting(r *an.Run) {
	p := r.Prog
	r.Obl("address-bytes-read-are-counted-exactly", "BOUND",
		"lnwire.ReadAddress starts its count at the number of bytes of the descriptor it reads, and in every case arm of a known address type adds exactly the number of bytes that arm reads with io.ReadFull: the sizes of the arrays read into plus len(v) for every slice v read into; the arm of an unknown type sets the count to the length of the whole list",
		"the caller stops its loop on the count and the opaque address of an unknown type gets the remaining addrsLen - count bytes: an over-count cuts the tail of a following unknown address (the announcement re-encodes to different bytes and its signature no longer verifies), an under-count makes it swallow bytes of the next field", 6,
		func(o *an.Obl) {
			f := p.Func("lnwire.ReadAddress")
			info := f.Info()
			// the counter: the local returned as first result by the last return
			var counter types.Object
			for _, rt := range f.StrictSuccessReturns() {
				if rs, ok := rt.Node.(*ast.ReturnStmt); ok && len(rs.Results) == 3 {
					if id, ok := ast.Unparen(rs.Results[0]).(*ast.Ident); ok {
						if counter != nil && info.Uses[id] != counter {
							o.FailAt(f.ID+"#two-counters", rt.Where(), "successful returns report different counters")
						}
						counter = info.Uses[id]
					} else {
						o.FailAt(f.ID+"#count-not-a-variable", rt.Where(), "a successful return reports %s, expected the running count", an.Text(rs.Results[0]))
					}
				}
			}
			if counter == nil {
				o.FailAt(f.ID+"#no-counter", f.Where(f.Body.Pos()), "cannot find the running byte count")
				return
			}
			// bytes read by the io.ReadFull calls directly inside node
			type tally struct {
				fixed int64
				vars  map[types.Object]int
				bad   []string
			}
			readsIn := func(nodes []ast.Stmt) tally {
				t := tally{vars: map[types.Object]int{}}
				for _, st := range nodes {
					ast.Inspect(st, func(n ast.Node) bool {
						if _, isLit := n.(*ast.FuncLit); isLit {
							return false
						}
						c, ok := n.(*ast.CallExpr)
						if !ok || an.CalleeID(info, c) != "io.ReadFull" || len(c.Args) != 2 {
							return true
						}
						if f.Canon(c.Args[0]) != "$p0" {
							return true
						}
						switch x := ast.Unparen(c.Args[1]).(type) {
						case *ast.SliceExpr:
							if arr, ok := info.TypeOf(x.X).Underlying().(*types.Array); ok && x.Low == nil && x.High == nil {
								t.fixed += arr.Len()
								return true
							}
						case *ast.Ident:
							if _, isSlice := info.TypeOf(x).Underlying().(*types.Slice); isSlice {
								t.vars[info.Uses[x]]++
								return true
							}
						}
						t.bad = append(t.bad, an.Text(c.Args[1]))
						return true
					})
				}
				return t
			}
			// amount: constant part and len(v) terms of an added expression
			var amount func(e ast.Expr, t *tally)
			amount = func(e ast.Expr, t *tally) {
				e = an.Strip(info, e)
				if tv, ok := info.Types[e]; ok && tv.Value != nil {
					if v, exact := constant.Int64Val(constant.ToInt(tv.Value)); exact {
						t.fixed += v
						return
					}
				}
				switch x := e.(type) {
				case *ast.BinaryExpr:
					if x.Op == token.ADD {
						amount(x.X, t)
						amount(x.Y, t)
						return
					}
				case *ast.CallExpr:
					if an.CalleeID(info, x) == "builtin.len" && len(x.Args) == 1 {
						if id, ok := ast.Unparen(x.Args[0]).(*ast.Ident); ok {
							t.vars[info.Uses[id]]++
							return
						}
					}
				}
				t.bad = append(t.bad, an.Text(e))
			}
			same := func(a, b tally) bool {
				if a.fixed != b.fixed || len(a.vars) != len(b.vars) || len(a.bad)+len(b.bad) > 0 {
					return false
				}
				for k, v := range a.vars {
					if b.vars[k] != v {
						return false
					}
				}
				return true
			}
			show := func(t tally) string {
				var parts []string
				for k, v := range t.vars {
					parts = append(parts, strings.Repeat("+len("+k.Name()+")", v))
				}
				sort.Strings(parts)
				s := constant.MakeInt64(t.fixed).String() + strings.Join(parts, "")
				if len(t.bad) > 0 {
					s += " ?" + strings.Join(t.bad, ",")
				}
				return s
			}
			isCounter := func(e ast.Expr) bool {
				id, ok := ast.Unparen(e).(*ast.Ident)
				return ok && c08ObjOf(info, id) == counter
			}
			// the switch over the address type
			var sw *ast.SwitchStmt
			var before []ast.Stmt
			for i, st := range f.Body.List {
				if s, ok := st.(*ast.SwitchStmt); ok {
					sw, before = s, f.Body.List[:i]
					break
				}
			}
			if sw == nil {
				o.FailAt(f.ID+"#no-switch", f.Where(f.Body.Pos()), "cannot find the switch over the address type")
				return
			}
			// initial value = bytes read before the switch
			inits := 0
			for _, st := range before {
				as, ok := st.(*ast.AssignStmt)
				if !ok || len(as.Lhs) != 1 || len(as.Rhs) != 1 || !isCounter(as.Lhs[0]) {
					continue
				}
				inits++
				var got tally
				got.vars = map[types.Object]int{}
				amount(as.Rhs[0], &got)
				want := readsIn(before)
				o.Site("before the switch: read %s, counted %s", show(want), show(got))
				if as.Tok != token.DEFINE || !same(got, want) {
					o.FailAt(f.ID+"#initial-count", f.Where(as.Pos()), "the count starts at %s but %s bytes were read so far", show(got), show(want))
				}
			}
			if inits != 1 {
				o.FailAt(f.ID+"#initial-count", f.Where(f.Body.Pos()), "expected one initialisation of the count before the switch, found %d", inits)
			}
			arms := 0
			for _, cl := range sw.Body.List {
				cc := cl.(*ast.CaseClause)
				name := "default"
				if len(cc.List) > 0 {
					name = an.Text(cc.List[0])
				}
				want := readsIn(cc.Body)
				var got tally
				got.vars = map[types.Object]int{}
				adds, sets := 0, 0
				for _, st := range cc.Body {
					ast.Inspect(st, func(n ast.Node) bool {
						switch x := n.(type) {
						case *ast.AssignStmt:
							for i, l := range x.Lhs {
								if !isCounter(l) {
									continue
								}
								direct := false
								for _, top := range cc.Body {
									direct = direct || top == ast.Stmt(x)
								}
								switch {
								case x.Tok == token.ADD_ASSIGN && direct:
									adds++
									amount(x.Rhs[0], &got)
								case x.Tok == token.ASSIGN && direct && len(cc.List) == 0 && i < len(x.Rhs) && f.Canon(x.Rhs[i]) == "$p1":
									sets++
								default:
									o.FailAt(f.ID+"#count-written:"+name, f.Where(x.Pos()), "case %s writes the count by %s", name, an.Text(x))
								}
							}
						case *ast.IncDecStmt:
							if isCounter(x.X) {
								o.FailAt(f.ID+"#count-written:"+name, f.Where(x.Pos()), "case %s writes the count by %s", name, an.Text(x))
							}
						}
						return true
					})
				}
				arms++
				o.Site("case %s: read %s, counted %s (adds %d, whole-list %d)", name, show(want), show(got), adds, sets)
				switch {
				case len(cc.List) == 0:
					// unknown type: everything that is left belongs to it
					if sets != 1 || adds != 0 {
						o.FailAt(f.ID+"#opaque-count", f.Where(cc.Pos()), "the arm of an unknown address type must set the count to the length of the whole list ($p1) once")
					}
				case want.fixed == 0 && len(want.vars) == 0 && len(want.bad) == 0:
					if adds != 0 {
						o.FailAt(f.ID+"#count:"+name, f.Where(cc.Pos()), "case %s reads nothing but adds %s to the count", name, show(got))
					}
				default:
					if adds != 1 || !same(got, want) {
						o.FailAt(f.ID+"#count:"+name, f.Where(cc.Pos()), "case %s reads %s bytes but adds %s to the count (in %d statements)", name, show(want), show(got), adds)
					}
				}
			}
			if arms < 6 {
				o.FailAt(f.ID+"#arms", f.Where(sw.Pos()), "expected at least 6 address type arms, found %d", arms)
			}
		})
}
