package chainntnfs_test

import (
	"testing"

	"github.com/btcsuite/btcd/wire/v2"
	"github.com/lightningnetwork/lnd/chainntnfs"
	"github.com/stretchr/testify/require"
)

// Suspicion 5a: CancelConf closes Confirmed, Updates and NegativeConf but not
// Done, unlike CancelSpend and TearDown.
func TestProbe5CancelConfClosesDone(t *testing.T) {
	hintCache := newMockHintCache()
	n := chainntnfs.NewTxNotifier(
		10, chainntnfs.ReorgSafetyLimit, hintCache, hintCache,
	)

	tx := wire.MsgTx{Version: 23}
	tx.AddTxOut(&wire.TxOut{PkScript: testRawScript})
	txHash := tx.TxHash()

	confReg, err := n.RegisterConf(&txHash, testRawScript, 1, 5)
	require.NoError(t, err)
	op := wire.OutPoint{Index: 5}
	spendReg, err := n.RegisterSpend(&op, testRawScript, 5)
	require.NoError(t, err)

	confReg.Event.Cancel()
	spendReg.Event.Cancel()

	select {
	case _, ok := <-spendReg.Event.Done:
		require.False(t, ok)
	default:
		t.Fatalf("spend Done not closed on cancel")
	}
	select {
	case _, ok := <-confReg.Event.Done:
		require.False(t, ok)
	default:
		t.Errorf("conf Done not closed on cancel")
	}

	// Cancelling twice and tearing down afterwards must not panic.
	confReg.Event.Cancel()
	n.TearDown()
}

// Suspicion 5b: a historically dispatched confirmation/spend that is already
// deeper than the reorg safety limit never gets Done, and its set is never
// removed.
func TestProbe5DeepHistoricalDispatchGetsDone(t *testing.T) {
	hintCache := newMockHintCache()
	n := chainntnfs.NewTxNotifier(20, 5, hintCache, hintCache)

	tx := wire.MsgTx{Version: 23}
	tx.AddTxOut(&wire.TxOut{PkScript: testRawScript})
	txHash := tx.TxHash()

	confReg, err := n.RegisterConf(&txHash, testRawScript, 1, 5)
	require.NoError(t, err)
	confReq := confReg.HistoricalDispatch.ConfRequest
	require.NoError(t, n.UpdateConfDetails(
		confReq, &chainntnfs.TxConfirmation{
			Tx:          &tx,
			BlockHash:   probeBlock(10, &tx).Hash(),
			BlockHeight: 10,
		},
	))

	op := wire.OutPoint{Index: 5}
	spendTx := probeSpendTx(op, 2)
	spendHash := spendTx.TxHash()
	spendReg, err := n.RegisterSpend(&op, testRawScript, 5)
	require.NoError(t, err)
	spendReq := spendReg.HistoricalDispatch.SpendRequest
	require.NoError(t, n.UpdateSpendDetails(
		spendReq, &chainntnfs.SpendDetail{
			SpentOutPoint:  &op,
			SpenderTxHash:  &spendHash,
			SpendingTx:     spendTx,
			SpendingHeight: 10,
		},
	))

	select {
	case <-confReg.Event.Confirmed:
	default:
		t.Fatalf("expected confirmation")
	}
	select {
	case <-spendReg.Event.Spend:
	default:
		t.Fatalf("expected spend")
	}

	for h := uint32(21); h <= 40; h++ {
		require.NoError(t, n.ConnectTip(probeBlock(h), h))
		require.NoError(t, n.NotifyHeight(h))
	}

	select {
	case <-confReg.Event.Done:
	default:
		t.Errorf("no Done for a confirmation 30 blocks deep, safety " +
			"limit 5")
	}
	select {
	case <-spendReg.Event.Done:
	default:
		t.Errorf("no Done for a spend 30 blocks deep, safety limit 5")
	}
}
