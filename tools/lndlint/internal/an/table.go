package an

import (
	"go/ast"
	"sort"
	"strings"

	"lndlint/internal/flow"
)

// AtomCanon returns the canonical text of the condition decided at a
// KCond / KCase vertex ("tag == case" for tagged switches).
func (f *Func) AtomCanon(v *flow.Vertex) string {
	switch v.Kind {
	case flow.KCond:
		return f.Canon(v.Node.(ast.Expr))
	case flow.KCase:
		if v.Tag != nil {
			return f.Canon(v.Tag) + " == " + f.Canon(v.Node.(ast.Expr))
		}
	}
	return ""
}

// Decide returns the truth value of the atom at vertex v under a valuation,
// and whether the valuation decides it.
type Decide func(f *Func, v *flow.Vertex) (val bool, known bool)

// ByCanon decides atoms whose canonical text is a key of m.
func ByCanon(m map[string]bool) Decide {
	return func(f *Func, v *flow.Vertex) (bool, bool) {
		val, ok := m[f.AtomCanon(v)]
		return val, ok
	}
}

// ReachUnder computes the vertices reachable from the entry of f when every
// decided condition takes only the edge the valuation dictates; undecided
// conditions are followed both ways (an over-approximation, so the set of
// reachable outcome sites is an upper bound that is exact when all the
// conditions between entry and the outcomes are decided).
func (f *Func) ReachUnder(d Decide) map[*flow.Vertex]bool {
	return f.ReachUnderFrom(f.Graph().Entry, d)
}

// ReachUnderFrom is ReachUnder from an arbitrary start vertex.
func (f *Func) ReachUnderFrom(start *flow.Vertex, d Decide) map[*flow.Vertex]bool {
	return f.ReachUnderStop(start, d, nil)
}

// ReachUnderStop is ReachUnderFrom that does not expand the vertices of stop.
func (f *Func) ReachUnderStop(start *flow.Vertex, d Decide, stop map[*flow.Vertex]bool) map[*flow.Vertex]bool {
	seen := map[*flow.Vertex]bool{start: true}
	work := []*flow.Vertex{start}
	for len(work) > 0 {
		v := work[len(work)-1]
		work = work[:len(work)-1]
		if stop[v] && v != start {
			continue
		}
		val, known := false, false
		if v.Kind == flow.KCond || v.Kind == flow.KCase {
			val, known = d(f, v)
		}
		for _, e := range v.Out {
			if known && (e.Kind == flow.ETrue || e.Kind == flow.EFalse) {
				if (e.Kind == flow.ETrue) != val {
					continue
				}
			}
			if !seen[e.To] {
				seen[e.To] = true
				work = append(work, e.To)
			}
		}
	}
	return seen
}

// UndecidedBetween lists the canonical atoms of the undecided conditions
// that are reachable under d; used to report which inputs a table does not
// bind.
func (f *Func) UndecidedBetween(d Decide) []string {
	reach := f.ReachUnder(d)
	set := map[string]bool{}
	for v := range reach {
		if v.Kind == flow.KCond || v.Kind == flow.KCase {
			if _, known := d(f, v); !known {
				set[f.AtomCanon(v)] = true
			}
		}
	}
	var out []string
	for k := range set {
		out = append(out, k)
	}
	sort.Strings(out)
	return out
}

// Valuations enumerates all assignments of the given atoms.
func Valuations(atoms []string) []map[string]bool {
	n := len(atoms)
	var out []map[string]bool
	for mask := 0; mask < 1<<n; mask++ {
		m := map[string]bool{}
		for i, a := range atoms {
			m[a] = mask&(1<<i) != 0
		}
		out = append(out, m)
	}
	return out
}

// ValString renders a valuation.
func ValString(atoms []string, m map[string]bool) string {
	var parts []string
	for _, a := range atoms {
		if m[a] {
			parts = append(parts, a)
		} else {
			parts = append(parts, "!("+a+")")
		}
	}
	return strings.Join(parts, " && ")
}

// IntEnv binds canonical integer terms to representative values and
// canonical boolean atoms to truth values. It decides comparison atoms whose
// two sides evaluate over the bound terms, integer literals and +/-.
type IntEnv struct {
	Ints  map[string]int64
	Bools map[string]bool
}

func (env IntEnv) eval(f *Func, e ast.Expr) (int64, bool) {
	e = ast.Unparen(e)
	if v, ok := env.Ints[f.Canon(e)]; ok {
		return v, true
	}
	if tv, ok := f.Info().Types[e]; ok && tv.Value != nil {
		if c := constantInt(tv); c != nil {
			return *c, true
		}
	}
	switch x := e.(type) {
	case *ast.BinaryExpr:
		a, ok1 := env.eval(f, x.X)
		b, ok2 := env.eval(f, x.Y)
		if ok1 && ok2 {
			switch x.Op.String() {
			case "+":
				return a + b, true
			case "-":
				return a - b, true
			}
		}
	case *ast.Ident:
		if d := f.UniqueDef(x); d != nil {
			return env.eval(f, d)
		}
	case *ast.CallExpr:
		// conversion
		if len(x.Args) == 1 {
			if tv, ok := f.Info().Types[x.Fun]; ok && tv.IsType() {
				return env.eval(f, x.Args[0])
			}
		}
	}
	return 0, false
}

// Decide implements the valuation.
func (env IntEnv) Decide() Decide {
	return func(f *Func, v *flow.Vertex) (bool, bool) {
		if b, ok := env.Bools[f.AtomCanon(v)]; ok {
			return b, true
		}
		if v.Kind != flow.KCond {
			return false, false
		}
		be, ok := ast.Unparen(v.Node.(ast.Expr)).(*ast.BinaryExpr)
		if !ok {
			return false, false
		}
		a, ok1 := env.eval(f, be.X)
		b, ok2 := env.eval(f, be.Y)
		if !ok1 || !ok2 {
			return false, false
		}
		switch be.Op.String() {
		case "<":
			return a < b, true
		case "<=":
			return a <= b, true
		case ">":
			return a > b, true
		case ">=":
			return a >= b, true
		case "==":
			return a == b, true
		case "!=":
			return a != b, true
		}
		return false, false
	}
}
