package spec

import (
	"go/ast"
	"sort"
	"strings"

	"lndlint/internal/an"
)

func init() {
	register(&Spec{
		ID:          "C20",
		Loads:       []LoadSpec{{Patterns: []string{"./discovery", "./netann", "./graph", "./graph/db", "./lnwire"}}},
		Explanation: "Decides that a remote channel announcement reaches the graph only after ValidateChannelAnn succeeded (unconditionally for remote messages) and, unless channel validation is assumed or the id is an alias, after the funding output was located, matched against the 2-of-2 of the announced bitcoin keys and found unspent, with capacity and outpoint taken from that lookup; that the version-1 validator verifies the four signatures, each against its own key, over the double hash of DataToSign, which covers every non-signature field; that a channel update is applied only after the staleness test, field validation and a signature check under the node key selected by the direction bit, and the store applies it only when strictly newer than the timestamp stored for that same direction; that a node announcement is stored only after signature validation, for a node known to the graph, when strictly newer; and that messages are handed on for relay only on the accepting paths.",
		NotDecided: []string{
			"that every corruption is detected (cryptographic strength, parser totality: C10)", "gossip version 2 announcements beyond the dispatch to their validator", "the chain backend's answers (GetUtxo / block fetch)", "rate limiting, ban scores and the reject cache (they only drop more)",
		},
		Assumptions: commonAssumptions,
		Engines:     "PATH, GUARD, MIRROR, CODEC, ROLE",
		Run:         runC20,
	})
}

func runC20(r *an.Run) {
	p := r.Prog
	gs := "discovery.AuthenticatedGossiper."
	// the direction of an update: its channel flags masked with the direction bit
	dirTerm := canonTerm(`^\(.*ChannelFlags & lnwire\.ChanUpdateDirection\)$|^\(\$p\d & lnwire\.ChanUpdateDirection\)$`)

	r.Obl("signatures-over-the-signed-digest", "MIRROR",
		"validateChannelAnn1 returns nil only after four Verify calls succeeded, each on the double hash of a.DataToSign() with the pairing (BitcoinSig1, BitcoinKey1), (BitcoinSig2, BitcoinKey2), (NodeSig1, NodeID1), (NodeSig2, NodeID2); the channel update and node announcement validators verify their single signature over the double hash of DataToSign under the key they are given / the announced node id; DataToSign of the three messages mentions every field of the message except the signatures",
		"a signature checked against the wrong key, or over a digest that omits a field, lets anyone forge or alter announcements", 20,
		func(o *an.Obl) {
			f := p.Func("netann.validateChannelAnn1")
			vs := f.Calls(an.CalleeNamed("Verify"), false)
			pairs := map[string]string{"BitcoinSig1": "BitcoinKey1", "BitcoinSig2": "BitcoinKey2", "NodeSig1": "NodeID1", "NodeSig2": "NodeID2"}
			seen := map[string]bool{}
			for _, s := range vs {
				c := s.Node.(*ast.CallExpr)
				recv := f.Canon(c.Fun.(*ast.SelectorExpr).X)
				a := f.ArgCanon(s)
				o.Site("Verify: sig=%s hash=%s key=%s", recv, a[0], a[1])
				if !strings.Contains(a[0], "DoubleHashB($p0.DataToSign()") {
					o.FailAt(f.ID+"#digest", s.Where(), "a signature is verified over %s, expected the double hash of a.DataToSign()", a[0])
				}
				matched := false
				for sig, key := range pairs {
					if strings.HasPrefix(recv, "$p0."+sig+".ToSignature()") {
						matched = true
						seen[sig] = true
						if !strings.Contains(a[1], "ParsePubKey($p0."+key+"[:])") {
							o.FailAt(f.ID+"#pairing-"+sig, s.Where(), "%s is verified under %s, expected %s", sig, a[1], key)
						}
					}
				}
				if !matched {
					o.FailAt(f.ID+"#unknown-sig", s.Where(), "cannot relate the verified signature %s to an announcement field", recv)
				}
			}
			for sig := range pairs {
				if !seen[sig] {
					o.FailAt(f.ID+"#unverified-"+sig, f.Where(f.Body.Pos()), "%s is never verified", sig)
				}
			}
			for _, s := range f.StrictSuccessReturns() {
				for _, v := range vs {
					mustPass(o, f, "Verify("+f.Canon(v.Node.(*ast.CallExpr).Fun.(*ast.SelectorExpr).X)+")", []an.Site{v}, an.OkBoolTrue, []an.Site{s})
				}
			}
			// single-signature validators
			for _, c := range []struct{ fn, key string }{
				{"netann.verifyChannelUpdate1Signature", "$p1"},
				{"netann.ValidateNodeAnnSignature", "ParsePubKey($p0.NodeID[:])"},
			} {
				g := p.Func(c.fn)
				gv := g.Calls(an.CalleeNamed("Verify"), false)
				if !need(o, g, "Verify", gv, 1) {
					continue
				}
				a := g.ArgCanon(gv[0])
				recv := g.Canon(gv[0].Node.(*ast.CallExpr).Fun.(*ast.SelectorExpr).X)
				o.Site("%s: Verify sig=%s hash=%s key=%s", c.fn, recv, a[0], a[1])
				if !strings.Contains(a[0], "DoubleHashB($p0.DataToSign()") {
					o.FailAt(g.ID+"#digest", gv[0].Where(), "the signature is verified over %s", a[0])
				}
				if !strings.Contains(a[1], c.key) {
					o.FailAt(g.ID+"#key", gv[0].Where(), "the signature is verified under %s, expected %s", a[1], c.key)
				}
				if !strings.HasPrefix(recv, "$p0.Signature.ToSignature()") {
					o.FailAt(g.ID+"#sig", gv[0].Where(), "the verified signature is %s", recv)
				}
				mustPass(o, g, "Verify", gv, an.OkBoolTrue, g.StrictSuccessReturns())
			}
			// validators chain: fields then signature
			for _, c := range []struct{ fn, first, second string }{
				{"netann.ValidateChannelUpdateAnn", "netann.ValidateChannelUpdateFields", "netann.VerifyChannelUpdateSignature"},
				{"netann.ValidateNodeAnn", "netann.ValidateNodeAnnFields", "netann.ValidateNodeAnnSignature"},
			} {
				g := p.Func(c.fn)
				a, b := g.Calls(an.CalleeIs(c.first), false), g.Calls(an.CalleeIs(c.second), false)
				if need(o, g, c.first, a, 1) && need(o, g, c.second, b, 1) {
					for _, s := range g.Returns() {
						if s.V == b[0].V {
							mustPass(o, g, c.first, a, an.OkErrNil, []an.Site{s})
						} else if an.IsNilIdent(g.Info(), s.Node.(*ast.ReturnStmt).Results[0]) {
							o.FailAt(g.ID+"#success-without-signature", s.Where(), "%s succeeds without the signature check", c.fn)
						}
					}
				}
			}
			vu := p.Func("netann.VerifyChannelUpdateSignature")
			for _, s := range vu.Calls(an.CalleeIs("netann.verifyChannelUpdate1Signature"), false) {
				if a := vu.ArgCanon(s); a[1] != "$p1" {
					o.FailAt(vu.ID+"#key", s.Where(), "the v1 update signature is checked under %s", a[1])
				}
			}
			// digest coverage
			for _, m := range []struct {
				typ  string
				sigs map[string]string
			}{
				{"ChannelAnnouncement1", map[string]string{"NodeSig1": "signature", "NodeSig2": "signature", "BitcoinSig1": "signature", "BitcoinSig2": "signature"}},
				{"ChannelUpdate1", map[string]string{"Signature": "signature", "InboundFee": "Encode packs it into ExtraOpaqueData, which DataToSign covers; signers pack it there before signing"}},
				{"NodeAnnouncement1", map[string]string{"Signature": "signature"}},
			} {
				p.CheckPair(o, an.CodecPair{Name: m.typ + " digest", TypePkg: "lnwire", TypeName: m.typ,
					Enc: []string{"lnwire." + m.typ + ".Encode"}, Dec: []string{"lnwire." + m.typ + ".DataToSign"},
					EncOnly: m.sigs, MentionsOnly: true})
			}
		})

	r.Obl("channel-announcement-admission", "PATH",
		"handleChanAnnouncement reaches Graph.AddEdge only if the message is local or netann.ValidateChannelAnn(ann) was executed and succeeded, and only if AssumeChannelValid or IsAlias(scid) or validateFundingTransaction succeeded; the edge added carries the announced keys and ids and, when validated, the capacity / outpoint / script that validation returned; validateFundingTransaction succeeds only after the funding transaction was fetched, chanvalidate.Validate matched the script built from the two announced bitcoin keys, and GetUtxo found that output unspent; the announcement is relayed only after AddEdge succeeded",
		"an announcement that skips either check puts a channel nobody proved to exist (or to be theirs) into the graph pathfinding trusts", 12,
		func(o *an.Obl) {
			f := p.Func(gs + "handleChanAnnouncement")
			add := f.Calls(an.CalleeNamed("AddEdge"), false)
			val := f.Calls(an.CalleeIs("netann.ValidateChannelAnn"), false)
			fund := f.Calls(an.CalleeIs(gs+"validateFundingTransaction"), false)
			if !need(o, f, "Graph.AddEdge", add, 1) {
				return
			}
			remote := an.FieldPath(an.Param(1), "isRemote")
			mustPassUnless(o, f, "ValidateChannelAnn", val, an.OkErrNil, add, an.Truth(remote, false, "!nMsg.isRemote"))
			if len(val) == 1 {
				if a := f.ArgCanon(val[0]); a[0] != "$p2" {
					o.FailAt(f.ID+"#validated-msg", val[0].Where(), "ValidateChannelAnn is given %s", a[0])
				}
			}
			mustPassUnless(o, f, "validateFundingTransaction", fund, an.OkErrNil, add,
				an.Truth(an.FieldPath(an.FieldPath(an.Recv(), "cfg"), "AssumeChannelValid"), true, "d.cfg.AssumeChannelValid"),
				an.Truth(an.CallNamed("IsAlias", nil), true, "d.cfg.IsAlias(scid)"))
			if len(fund) == 1 {
				if a := f.ArgCanon(fund[0]); a[1] != "$p2" {
					o.FailAt(f.ID+"#funding-msg", fund[0].Where(), "validateFundingTransaction is given %s", a[1])
				}
			}
			// the edge
			if a := f.ArgCanon(add[0]); !strings.HasPrefix(a[1], "graph/db/models.NewV1Channel(") {
				o.FailAt(f.ID+"#edge", add[0].Where(), "the edge added is %s", a[1])
			}
			ne := f.Calls(an.CalleeNamed("NewV1Channel"), false)
			if need(o, f, "NewV1Channel", ne, 1) {
				a := f.ArgCanon(ne[0])
				o.Site("NewV1Channel(%s, %s, %s, %s, …)", a[0], a[1], a[2], a[3])
				if a[0] != "$p2.ShortChannelID.ToUint64()" || a[2] != "$p2.NodeID1" || a[3] != "$p2.NodeID2" {
					o.FailAt(f.ID+"#edge-ids", ne[0].Where(), "the edge is built from (%s, %s, %s)", a[0], a[2], a[3])
				}
				for k, v := range map[string]string{"BitcoinKey1Bytes": "ann.BitcoinKey1", "BitcoinKey2Bytes": "ann.BitcoinKey2"} {
					if got := kvText(ne[0].Node, k); got != v {
						o.FailAt(f.ID+"#edge-"+k, ne[0].Where(), "the edge's %s is %s", k, got)
					}
				}
			}
			for _, fld := range []string{"Capacity", "ChannelPoint"} {
				for _, s := range f.Assigns(an.FieldPath(an.LocalNamed("edge"), fld), false) {
					c := an.Text(s.Node.(*ast.AssignStmt).Rhs[0])
					o.Site("edge.%s = %s", fld, c)
					switch c {
					case "capacity", "op":
						mustPass(o, f, "validateFundingTransaction", fund, an.OkErrNil, []an.Site{s})
					case "*nMsg.optionalMsgFields.capacity", "cp":
					default:
						o.FailAt(f.ID+"#edge-"+fld, s.Where(), "edge.%s is set from %s", fld, c)
					}
				}
			}
			// once the funding output was validated, the edge always carries what validation returned
			if len(fund) == 1 && len(add) > 0 {
				oke, _ := f.OkEdges(fund[0], an.OkErrNil)
				for _, fld := range []string{"Capacity", "ChannelPoint", "FundingScript"} {
					stop := map[*an.FlowVertex]bool{}
					for _, s := range f.Assigns(an.FieldPath(an.LocalNamed("edge"), fld), false) {
						if c := an.Text(s.Node.(*ast.AssignStmt).Rhs[0]); c == "capacity" || c == "op" || c == "fn.Some(script)" {
							stop[s.V] = true
						}
					}
					if len(stop) == 0 {
						o.FailAt(f.ID+"#validated-"+fld+"-unused", fund[0].Where(), "the %s returned by funding validation is not stored on the edge", fld)
						continue
					}
					for e := range oke {
						if f.Graph().Reach(e.To, nil, stop)[add[0].V] {
							o.FailAt(f.ID+"#validated-"+fld+"-skipped", add[0].Where(), "after a successful funding validation the edge can be added without the validated %s", fld)
						}
					}
				}
			}
			// relay only after AddEdge
			for _, s := range f.Returns() {
				rs := s.Node.(*ast.ReturnStmt)
				if an.IsNilIdent(f.Info(), rs.Results[0]) {
					continue
				}
				o.Site("relay exit %s", s.String())
				stop := map[*an.FlowVertex]bool{add[0].V: true}
				if f.Graph().Reach(f.Graph().Entry, nil, stop)[s.V] {
					o.FailAt(f.ID+"#relay-without-add", s.Where(), "announcements are handed on for relay on a path that never calls AddEdge")
				}
			}
			// funding validation
			g := p.Func(gs + "validateFundingTransaction")
			succ := g.StrictSuccessReturns()
			for _, c := range []string{"FetchFundingTxWrapper", "makeFundingScript", "Validate", "GetUtxo"} {
				mustPass(o, g, c, g.Calls(an.CalleeNamed(c), false), an.OkErrNil, succ)
			}
			for _, s := range g.Calls(an.CalleeNamed("makeFundingScript"), false) {
				a := g.ArgCanon(s)
				o.Site("makeFundingScript%v", a[:2])
				if a[0] != "$p1.BitcoinKey1[:]" || a[1] != "$p1.BitcoinKey2[:]" {
					o.FailAt(g.ID+"#script-keys", s.Where(), "the funding script is built from (%s, %s)", a[0], a[1])
				}
			}
			for _, s := range g.Calls(an.CalleeNamed("Validate"), false) {
				if got := kvText(s.Node, "MultiSigPkScript"); got != "fundingPkScript" {
					o.FailAt(g.ID+"#validated-script", s.Where(), "chanvalidate is given script %s", got)
				}
				if got := kvText(s.Node, "FundingTx"); got != "fundingTx" {
					o.FailAt(g.ID+"#validated-tx", s.Where(), "chanvalidate is given tx %s", got)
				}
				if got := kvText(s.Node, "ID"); got != "scid" {
					o.FailAt(g.ID+"#validated-locator", s.Where(), "chanvalidate locates %s", got)
				}
			}
			for _, s := range g.Calls(an.CalleeNamed("GetUtxo"), false) {
				c := s.Node.(*ast.CallExpr)
				if an.Text(c.Args[0]) != "fundingPoint" || an.Text(c.Args[1]) != "fundingPkScript" {
					o.FailAt(g.ID+"#utxo-args", s.Where(), "GetUtxo is asked for (%s, %s)", an.Text(c.Args[0]), an.Text(c.Args[1]))
				}
			}
			for _, s := range succ {
				rs := s.Node.(*ast.ReturnStmt)
				if an.Text(rs.Results[0]) != "*fundingPoint" || an.Text(rs.Results[1]) != "btcutil.Amount(chanUtxo.Value)" || an.Text(rs.Results[2]) != "fundingPkScript" {
					o.FailAt(g.ID+"#results", s.Where(), "validateFundingTransaction returns (%s, %s, %s)", an.Text(rs.Results[0]), an.Text(rs.Results[1]), an.Text(rs.Results[2]))
				}
			}
			// dispatcher
			v := p.Func("netann.ValidateChannelAnn")
			if n := len(v.Calls(an.CalleeIs("netann.validateChannelAnn1"), false)); n != 1 {
				o.FailAt(v.ID+"#v1", v.Where(v.Body.Pos()), "ValidateChannelAnn dispatches to the v1 validator %d times", n)
			}
			for _, s := range v.Returns() {
				if an.IsNilIdent(v.Info(), s.Node.(*ast.ReturnStmt).Results[0]) {
					o.FailAt(v.ID+"#nil", s.Where(), "ValidateChannelAnn returns nil without validating")
				}
			}
		})

	r.Obl("channel-update-admission", "GUARD",
		"handleChanUpdate reaches Graph.UpdateEdge only below !IsStaleEdgePolicy(graphScid, timestamp, flags) and a successful ValidateChannelUpdateAnn(pubKey, chanInfo.Capacity, upd), where pubKey is chanInfo.NodeKey1() for direction 0 and NodeKey2() for direction 1; the update is relayed only after UpdateEdge succeeded; Builder.updateEdge writes the policy only for an existing channel and only when the timestamp stored for that same direction is before the new one; IsStaleEdgePolicy compares with the same direction's timestamp; both stores report the two directions' timestamps in (node1, node2) order; every function of discovery and graph that writes a policy through UpdateEdge first passes ValidateChannelUpdateAnn against the stored channel's capacity; makeZombiePubkeys keeps node 1's key only in slot 1 and node 2's key only in slot 2, and processZombieUpdate marks the edge live only after the signature verified under the key of the update's own direction",
		"an update accepted from the wrong side, or not strictly newer, lets a peer (or a replay) overwrite the channel's forwarding policy", 18,
		func(o *an.Obl) {
			f := p.Func(gs + "handleChanUpdate")
			upd := f.Calls(an.CalleeNamed("UpdateEdge"), false)
			val := f.Calls(an.CalleeIs("netann.ValidateChannelUpdateAnn"), false)
			if need(o, f, "Graph.UpdateEdge", upd, 1) {
				mustPass(o, f, "ValidateChannelUpdateAnn", val, an.OkErrNil, upd)
				guarded(o, f, upd[0], an.Truth(an.CallNamed("IsStaleEdgePolicy", nil), false, "!IsStaleEdgePolicy(...)"))
				guarded(o, f, upd[0], an.Cmp(an.FieldPath(an.Param(2), "Timestamp"), an.NE, an.IntConst(0), "upd.Timestamp != 0"))
				mustPass(o, f, "Graph.GetChannelByID", f.Calls(an.CalleeNamed("GetChannelByID"), false), an.OkErrNil, upd)
				if a := f.ArgCanon(upd[0]); !strings.Contains(a[1], "ChanEdgePolicyFromWire(") {
					o.FailAt(f.ID+"#applied-policy", upd[0].Where(), "the policy applied is %s", a[1])
				}
				for _, s := range f.Calls(an.CalleeNamed("ChanEdgePolicyFromWire"), false) {
					if a := f.ArgCanon(s); a[1] != "$p2" {
						o.FailAt(f.ID+"#policy-source", s.Where(), "the policy is built from %s", a[1])
					}
				}
				for _, s := range f.Returns() {
					rs := s.Node.(*ast.ReturnStmt)
					if an.IsNilIdent(f.Info(), rs.Results[0]) {
						continue
					}
					mustPass(o, f, "Graph.UpdateEdge", upd, an.OkErrNil, []an.Site{s})
				}
			}
			if len(val) == 1 {
				c := val[0].Node.(*ast.CallExpr)
				o.Site("ValidateChannelUpdateAnn(%s, %s, %s)", an.Text(c.Args[0]), an.Text(c.Args[1]), an.Text(c.Args[2]))
				if an.Text(c.Args[0]) != "pubKey" || an.Text(c.Args[1]) != "chanInfo.Capacity" || an.Text(c.Args[2]) != "upd" {
					o.FailAt(f.ID+"#validate-args", val[0].Where(), "ValidateChannelUpdateAnn(%s, %s, %s)", an.Text(c.Args[0]), an.Text(c.Args[1]), an.Text(c.Args[2]))
				}
			}
			for _, s := range f.Calls(an.CalleeNamed("IsStaleEdgePolicy"), false) {
				c := s.Node.(*ast.CallExpr)
				if an.Text(c.Args[0]) != "graphScid" || an.Text(c.Args[1]) != "timestamp" || an.Text(c.Args[2]) != "upd.ChannelFlags" {
					o.FailAt(f.ID+"#stale-args", s.Where(), "IsStaleEdgePolicy(%s, %s, %s)", an.Text(c.Args[0]), an.Text(c.Args[1]), an.Text(c.Args[2]))
				}
			}
			// every writer of a channel policy in discovery/graph validates the
			// whole update (fields and signature), not the signature alone
			nW := 0
			for _, fn := range p.Funcs(false, "discovery", "graph") {
				if fn.Lit != nil || fn.ID == "graph.Builder.UpdateEdge" {
					continue
				}
				ws := fn.Calls(func(id string, c *ast.CallExpr) bool {
					return strings.HasSuffix(id, ".UpdateEdge") && !strings.Contains(id, "graph/db")
				}, true)
				if len(ws) == 0 {
					continue
				}
				nW += len(ws)
				vs := fn.Calls(an.CalleeIs("netann.ValidateChannelUpdateAnn"), false)
				o.Site("%s writes a policy at %d sites, %d full validations", fn.ID, len(ws), len(vs))
				mustPass(o, fn, "ValidateChannelUpdateAnn", vs, an.OkErrNil, ws)
				for _, v := range vs {
					a := fn.ArgCanon(v)
					o.Site("%s ValidateChannelUpdateAnn(%s, %s, %s)", fn.ID, a[0], a[1], a[2])
					if !strings.HasSuffix(a[1], ".Capacity") {
						o.FailAt(fn.ID+"#validate-capacity", v.Where(), "the update is validated against capacity %s, expected the stored channel's Capacity", a[1])
					}
				}
			}
			if nW < 3 {
				o.FailAt("UpdateEdge#writers", "", "expected at least 3 policy writers (gossip, onion failure, own update), found %d", nW)
			}
			// zombie resurrection: the key kept for a direction is that
			// node's key, and the key checked is the one of the update's direction
			mz := p.Func("graph/db.makeZombiePubkeys")
			for _, s := range mz.Returns() {
				rs := s.Node.(*ast.ReturnStmt)
				a, b := mz.Canon(rs.Results[0]), mz.Canon(rs.Results[1])
				o.Site("makeZombiePubkeys returns (%s, %s)", a, b)
				if a != "$p0" && !strings.HasSuffix(a, "{}") {
					o.FailAt(mz.ID+"#slot-1", s.Where(), "slot 1 of the zombie index receives %s, expected node 1's key or a blank key", a)
				}
				if b != "$p1" && !strings.HasSuffix(b, "{}") {
					o.FailAt(mz.ID+"#slot-2", s.Where(), "slot 2 of the zombie index receives %s, expected node 2's key or a blank key", b)
				}
			}
			pz := p.Func(gs + "processZombieUpdate")
			nz := 0
			for _, s := range pz.Assigns(an.LocalNamed("pubKey"), false) {
				as := s.Node.(*ast.AssignStmt)
				c := an.Text(as.Rhs[0])
				for _, row := range []struct {
					isNode1 bool
					key     string
				}{{true, "chanInfo.NodeKey1()"}, {false, "chanInfo.NodeKey2()"}} {
					if ok, _ := pz.Guarded(s, an.Truth(an.LocalNamed("isNode1"), row.isNode1, "")); ok {
						nz++
						o.Site("processZombieUpdate: isNode1=%v -> %s", row.isNode1, c)
						if c != row.key {
							o.FailAt(pz.ID+"#key-for-direction", s.Where(), "a zombie update with isNode1=%v is checked against %s, expected %s", row.isNode1, c, row.key)
						}
					}
				}
			}
			if nz != 2 {
				o.FailAt(pz.ID+"#direction-keys", pz.Where(pz.Body.Pos()), "processZombieUpdate selects the signer key at %d direction cases, expected 2", nz)
			}
			for _, s := range pz.Assigns(an.LocalNamed("isNode1"), false) {
				if c := an.Text(s.Node.(*ast.AssignStmt).Rhs[0]); c != "msg.ChannelFlags & lnwire.ChanUpdateDirection == 0" {
					o.FailAt(pz.ID+"#direction", s.Where(), "isNode1 is %s", c)
				}
			}
			ml := pz.Calls(an.CalleeNamed("MarkEdgeLive"), false)
			if need(o, pz, "MarkEdgeLive", ml, 1) {
				mustPass(o, pz, "VerifyChannelUpdateSignature", pz.Calls(an.CalleeIs("netann.VerifyChannelUpdateSignature"), false), an.OkErrNil, ml)
			}
			// key by direction, in every function that selects a key by the direction bit
			for _, fn := range []string{gs + "handleChanUpdate", "graph.Builder.ApplyChannelUpdate"} {
				g := p.Func(fn)
				n := 0
				for _, s := range g.Assigns(an.LocalNamed("pubKey"), false) {
					as := s.Node.(*ast.AssignStmt)
					c := an.Text(as.Rhs[0])
					for dir, want := range map[int64]string{0: "NodeKey1()", 1: "NodeKey2()"} {
						if ok, _ := g.Guarded(s, an.Cmp(dirTerm, an.EQ, an.IntConst(dir), "")); ok {
							n++
							o.Site("%s: direction %d -> %s", fn, dir, c)
							if !strings.HasSuffix(c, want) {
								o.FailAt(g.ID+"#key-for-direction", s.Where(), "direction %d is checked against %s, expected %s", dir, c, want)
							}
						}
					}
				}
				if n != 2 {
					o.FailAt(g.ID+"#direction-keys", g.Where(g.Body.Pos()), "%s selects the signer key at %d direction cases, expected 2", fn, n)
				}
			}
			for _, s := range f.Assigns(an.LocalNamed("direction"), false) {
				if c := an.Text(s.Node.(*ast.AssignStmt).Rhs[0]); c != "upd.ChannelFlags & lnwire.ChanUpdateDirection" {
					o.FailAt(f.ID+"#direction", s.Where(), "direction is %s", c)
				}
			}
			// builder: strictly newer, same direction
			b := p.Func("graph.Builder.updateEdge")
			wr := b.Calls(an.CalleeNamed("UpdateEdgePolicy"), false)
			has := b.Calls(an.CalleeNamed("HasV1ChannelEdge"), false)
			if need(o, b, "UpdateEdgePolicy", wr, 1) && need(o, b, "HasV1ChannelEdge", has, 1) {
				guarded(o, b, wr[0], an.Truth(an.LocalNamed("exists"), true, "exists"))
				for dir, ts := range map[int64]string{0: "edge1Timestamp", 1: "edge2Timestamp"} {
					// below case dir, the write needs edgeNTimestamp.Before(policy.LastUpdate)
					fact := an.AnyOf("other direction, or stored timestamp before the new one",
						an.Cmp(dirTerm, an.NE, an.IntConst(dir), ""),
						an.Cmp(dirTerm, an.EQ, an.IntConst(1-dir), ""),
						an.Truth(an.CallNamed("Before", an.LocalNamed(ts), an.FieldPath(an.Param(1), "LastUpdate")), true, ""))
					guarded(o, b, wr[0], fact)
				}
				// result order
				for i, name := range []string{"edge1Timestamp", "edge2Timestamp", "exists", "isZombie"} {
					for _, s := range b.Assigns(an.LocalNamed(name), false) {
						as := s.Node.(*ast.AssignStmt)
						if len(as.Lhs) < 4 || an.Text(as.Lhs[i]) != name {
							o.FailAt(b.ID+"#result-order", s.Where(), "%s is not result %d of HasV1ChannelEdge", name, i)
						}
					}
				}
			}
			st := p.Func("graph.Builder.IsStaleEdgePolicy")
			nDir := 0
			defer func() {
				if nDir != 2 {
					o.FailAt(st.ID+"#direction-cases", st.Where(st.Body.Pos()), "IsStaleEdgePolicy decides %d direction cases on the direction bit of the flags, expected 2", nDir)
				}
			}()
			for _, s := range st.Returns() {
				c := an.Text(s.Node.(*ast.ReturnStmt).Results[0])
				for dir, ts := range map[int64]string{0: "edge1Timestamp", 1: "edge2Timestamp"} {
					if ok, _ := st.Guarded(s, an.Cmp(dirTerm, an.EQ, an.IntConst(dir), "")); ok {
						nDir++
						o.Site("IsStaleEdgePolicy direction %d -> %s", dir, c)
						if c != "!"+ts+".Before(timestamp)" {
							o.FailAt(st.ID+"#direction-timestamp", s.Where(), "direction %d is stale iff %s, expected !%s.Before(timestamp)", dir, c, ts)
						}
					}
				}
			}
			// stores: (node1, node2) order
			kv := p.Func("graph/db.KVStore.HasV1ChannelEdge")
			n := 0
			for _, lf := range kv.Lits {
				for _, res := range []struct{ name, src string }{{"upd1Time", "e1"}, {"upd2Time", "e2"}} {
					for _, s := range lf.Assigns(an.TextIs(res.name), false) {
						n++
						c := an.Text(s.Node.(*ast.AssignStmt).Rhs[0])
						o.Site("KVStore: %s = %s", res.name, c)
						if c != res.src+".LastUpdate" {
							o.FailAt(kv.ID+"#"+res.name, s.Where(), "%s is taken from %s, expected %s.LastUpdate", res.name, c, res.src)
						}
						guarded(o, lf, s, an.IsNil(an.LocalNamed(res.src), false, res.src+" != nil"))
					}
				}
				for _, s := range lf.Calls(an.CalleeNamed("fetchChanEdgePolicies"), false) {
					_ = s
				}
			}
			if n != 2 {
				o.FailAt(kv.ID+"#timestamps", kv.Where(kv.Body.Pos()), "expected the two direction timestamps to be read from the policies, found %d assignments", n)
			}
			for _, s := range kv.Returns() {
				rs := s.Node.(*ast.ReturnStmt)
				if len(rs.Results) == 5 && an.IsNilIdent(kv.Info(), rs.Results[4]) {
					if an.Text(rs.Results[0]) != "upd1Time" || an.Text(rs.Results[1]) != "upd2Time" {
						o.FailAt(kv.ID+"#result-order", s.Where(), "HasV1ChannelEdge returns (%s, %s)", an.Text(rs.Results[0]), an.Text(rs.Results[1]))
					}
				}
			}
			sq := p.Func("graph/db.SQLStore.HasV1ChannelEdge")
			m := 0
			for _, lf := range sq.Lits {
				for _, res := range []struct{ name, pol, node string }{{"node1LastUpdate", "policy1", "NodeID1"}, {"node2LastUpdate", "policy2", "NodeID2"}} {
					for _, s := range lf.Assigns(an.TextIs(res.name), false) {
						m++
						c := an.Text(s.Node.(*ast.AssignStmt).Rhs[0])
						o.Site("SQLStore: %s = %s", res.name, c)
						if !strings.Contains(c, res.pol+".LastUpdate") {
							o.FailAt(sq.ID+"#"+res.name, s.Where(), "%s is taken from %s", res.name, c)
						}
					}
					for _, s := range lf.Assigns(an.LocalNamed(res.pol), false) {
						if got := kvText(s.Node, "NodeID"); got != "channel."+res.node {
							o.FailAt(sq.ID+"#"+res.pol, s.Where(), "%s is fetched for %s", res.pol, got)
						}
					}
				}
			}
			if m != 2 {
				o.FailAt(sq.ID+"#timestamps", sq.Where(sq.Body.Pos()), "expected two direction timestamp reads in the SQL store, found %d", m)
			}
		})

	r.Obl("node-announcement-admission", "GUARD",
		"handleNodeAnnouncement calls addNode only below a non-zero timestamp and !IsStaleNode, and relays only after addNode succeeded and IsPublicNode is true; the gossiper's addNode stores the node only after netann.ValidateNodeAnn succeeded; Builder.addNode stores it only after assertNodeAnnFreshness succeeded, which requires the node to exist in the graph and its stored timestamp to be before the new one",
		"a node announcement accepted unsigned, for an unknown node or as a replay lets anyone rewrite a node's addresses and features", 8,
		func(o *an.Obl) {
			f := p.Func(gs + "handleNodeAnnouncement")
			an1 := f.Calls(an.CalleeIs(gs+"addNode"), false)
			if need(o, f, "addNode", an1, 1) {
				guarded(o, f, an1[0], an.Truth(an.CallNamed("IsStaleNode", nil), false, "!IsStaleNode(...)"))
				guarded(o, f, an1[0], an.Cmp(an.FieldPath(an.Param(2), "Timestamp"), an.NE, an.IntConst(0), "nodeAnn.Timestamp != 0"))
				for _, s := range f.Calls(an.CalleeNamed("IsStaleNode"), false) {
					c := s.Node.(*ast.CallExpr)
					if an.Text(c.Args[1]) != "nodeAnn.NodeID" || an.Text(c.Args[2]) != "timestamp" {
						o.FailAt(f.ID+"#stale-args", s.Where(), "IsStaleNode(%s, %s)", an.Text(c.Args[1]), an.Text(c.Args[2]))
					}
				}
				for _, v := range f.Graph().V {
					as, ok := v.Node.(*ast.AssignStmt)
					if !ok || an.Text(as.Lhs[0]) != "announcements" || !isAppend(f, as.Rhs[0]) {
						continue
					}
					s := an.Site{Fn: f, V: v, Node: as}
					mustPass(o, f, "addNode", an1, an.OkErrNil, []an.Site{s})
					guarded(o, f, s, an.Truth(an.LocalNamed("isPublic"), true, "isPublic"))
				}
			}
			g := p.Func(gs + "addNode")
			ga := g.Calls(an.CalleeNamed("AddNode"), false)
			if need(o, g, "Graph.AddNode", ga, 1) {
				mustPass(o, g, "netann.ValidateNodeAnn", g.Calls(an.CalleeIs("netann.ValidateNodeAnn"), false), an.OkErrNil, ga)
				if a := g.ArgCanon(ga[0]); !strings.Contains(a[1], "NodeFromWireAnnouncement($p1)") {
					o.FailAt(g.ID+"#stored-node", ga[0].Where(), "the node stored is %s", a[1])
				}
			}
			// who else calls Graph.AddNode in discovery
			var callers []string
			for _, h := range p.Funcs(false, "discovery") {
				for range h.Calls(an.CalleeNamed("AddNode"), true) {
					callers = append(callers, h.Root().ID)
				}
			}
			sort.Strings(callers)
			o.Site("AddNode callers in discovery: %v", callers)
			for _, c := range callers {
				if c != gs+"addNode" {
					o.FailAt(c+"#adds-node", "", "%s adds a node to the graph without the gossiper's validation", c)
				}
			}
			b := p.Func("graph.Builder.addNode")
			ba := b.Calls(an.CalleeNamed("AddNode"), false)
			if need(o, b, "Graph.AddNode", ba, 1) {
				mustPass(o, b, "assertNodeAnnFreshness", b.Calls(an.CalleeIs("graph.Builder.assertNodeAnnFreshness"), false), an.OkErrNil, ba)
				for _, s := range b.Calls(an.CalleeIs("graph.Builder.assertNodeAnnFreshness"), false) {
					a := b.ArgCanon(s)
					o.Site("addNode freshness(%s, %s)", a[1], a[2])
					if a[1] != "$p1.PubKeyBytes" || a[2] != "$p1.LastUpdate" {
						o.FailAt(b.ID+"#freshness-args", s.Where(), "freshness is asserted for (%s, %s), expected the announced node's key and timestamp", a[1], a[2])
					}
				}
			}
			fr := p.Func("graph.Builder.assertNodeAnnFreshness")
			for _, s := range fr.StrictSuccessReturns() {
				guarded(o, fr, s, an.Truth(an.LocalNamed("exists"), true, "exists"))
				guarded(o, fr, s, an.Truth(an.CallNamed("Before", an.LocalNamed("lastUpdate"), an.Param(2)), true, "lastUpdate.Before(msgTimestamp)"))
				mustPass(o, fr, "HasV1Node", fr.Calls(an.CalleeNamed("HasV1Node"), false), an.OkErrNil, []an.Site{s})
			}
		})
}
