package spec

import (
	"go/ast"
	"strings"

	"lndlint/internal/an"
	"lndlint/internal/flow"
)

func init() {
	specExtras["C12"] = append(specExtras["C12"], c12DustOnce)
}

// c12DustOnce: offered dust on the confirmed commitment is failed back, and
// an HTLC examined by more than one stage is failed back once (repairs
// b3aa835, 51c8ea1).
func c12DustOnce(r *an.Run) {
	p := r.Prog
	ca := "contractcourt.ChannelArbitrator."
	r.Obl("confirmed-commitment-dust-is-failed-back-once", "PATH",
		"in stateStep the abandonForwards call of the non-breach StateContractClosed branch is given a set built from both htlcActions[HtlcFailDanglingAction] and htlcActions[HtlcFailDustAction]; abandonForwards replaces its argument by the difference with c.abandonedForwards before it builds or delivers any message, the loop that adds the delivered indexes to c.abandonedForwards runs only after DeliverResolutionMsg succeeded and precedes every success return after it; checkRemoteDanglingActions overwrites an index already merged from the other remote commitment only when the known entry has no output (OutputIndex < 0)",
		"the dust actions computed against the commitment that confirmed were dropped (an HTLC that is dust only there, or dangling dust skipped in StateDefault, was never failed back); without the remembered set a breach close and a re-entered StateDefault fail the same HTLC twice; a map-order merge treats an HTLC with an output on one remote commitment as dust at random", 6,
		func(o *an.Obl) {
			f := p.Func(ca + "stateStep")
			var closed []an.Site
			for _, s := range f.Calls(an.CalleeIs(ca+"abandonForwards"), false) {
				gs := strings.Join(f.GuardsAt(s), " ; ")
				if strings.Contains(gs, "c.state == StateContractClosed") && strings.Contains(gs, "!(contractResolutions.BreachResolution != nil)") {
					closed = append(closed, s)
				}
			}
			if need(o, f, "abandonForwards in the non-breach StateContractClosed branch", closed, 1) {
				for _, s := range closed {
					a := f.ArgCanon(s)[0]
					o.Site("%s set=%s", s.String(), a)
					for _, act := range []string{"HtlcFailDanglingAction", "HtlcFailDustAction"} {
						if !strings.Contains(a, "[contractcourt."+act+"]") && !strings.Contains(a, "["+act+"]") {
							o.FailAt(f.ID+"#closed-fail-back-set-"+act, s.Where(), "the set failed back once a commitment confirmed is %s: it does not include htlcActions[%s]", a, act)
						}
					}
				}
			}

			af := p.Func(ca + "abandonForwards")
			var diff []an.Site
			for _, s := range af.Assigns(an.Param(0), false) {
				as := s.Node.(*ast.AssignStmt)
				if len(as.Rhs) == 1 && reMatch(`^\$p0\.Diff\(\$recv\.abandonedForwards\)$`, af.Canon(as.Rhs[0])) {
					diff = append(diff, s)
				} else {
					o.FailAt(af.ID+"#argument-rewritten", s.Where(), "abandonForwards rewrites its argument by %s, expected only htlcs.Diff(c.abandonedForwards)", an.Text(as))
				}
			}
			deliver := af.Calls(an.CalleeNamed("DeliverResolutionMsg"), false)
			if need(o, af, "htlcs = htlcs.Diff(c.abandonedForwards)", diff, 1) && need(o, af, "DeliverResolutionMsg", deliver, 1) {
				before(o, af, "the difference with the remembered set", diff, "the delivery", deliver)
				var uses []an.Site
				for _, v := range af.Graph().V {
					if rs, ok := v.Node.(*ast.RangeStmt); ok && v.Kind == flow.KRange && af.Canon(rs.X) == "$p0" {
						uses = append(uses, an.Site{Fn: af, V: v, Node: rs})
					}
				}
				if need(o, af, "loops over the argument", uses, 2) {
					before(o, af, "the difference with the remembered set", diff, "a loop over the argument", uses)
				}
				// the remembering loop
				var remember []an.Site
				for _, u := range uses {
					rs := u.Node.(*ast.RangeStmt)
					ok := false
					ast.Inspect(rs.Body, func(n ast.Node) bool {
						if c, isCall := n.(*ast.CallExpr); isCall && len(c.Args) == 1 && reMatch(`^\$recv\.abandonedForwards\.Add$`, af.Canon(c.Fun)) {
							if k, isID := rs.Key.(*ast.Ident); isID && an.Text(c.Args[0]) == k.Name {
								ok = true
							}
						}
						return true
					})
					if ok {
						remember = append(remember, u)
					}
				}
				if need(o, af, "loop adding the delivered indexes to c.abandonedForwards", remember, 1) {
					mustPass(o, af, "a successful DeliverResolutionMsg", deliver, an.OkErrNil, remember)
					after := af.Graph().Reach(deliver[0].V, nil, nil)
					var rets []an.Site
					for _, s := range af.StrictSuccessReturns() {
						if after[s.V] {
							rets = append(rets, s)
						}
					}
					if need(o, af, "success return after the delivery", rets, 1) {
						before(o, af, "the loop remembering the delivered indexes", remember, "the success return after the delivery", rets)
					}
				}
			}

			cr := p.Func(ca + "checkRemoteDanglingActions")
			ws := cr.Assigns(an.Index(an.LocalNamed("remoteHTLCs"), an.Any()), false)
			if need(o, cr, "remoteHTLCs[idx] = htlc", ws, 1) {
				for _, w := range ws {
					as := w.Node.(*ast.AssignStmt)
					ix := as.Lhs[0].(*ast.IndexExpr)
					if c := cr.Canon(ix.Index); !strings.HasSuffix(c, ".HtlcIndex") {
						o.FailAt(cr.ID+"#merge-key", w.Where(), "the remote views are merged under %s, expected the HTLC index", c)
					}
					guarded(o, cr, w, an.AnyOf("no entry merged yet for the index, or the merged one has no output",
						an.Truth(an.LocalNamed("ok"), false, "!ok"),
						an.Cmp(an.FieldPath(an.LocalNamed("known"), "OutputIndex"), an.LT, an.IntConst(0), "known.OutputIndex < 0")))
				}
			}
		})
}
