#!/bin/bash
# Builds the checker from files on disk only (offline).
set -e
cd "$(dirname "$0")"
. ./env.sh
mkdir -p bin evidence
(cd tools/lndlint && go build -o ../../bin/lndlint .)
# warm the build cache with the export data the loader needs (no-op when already warm)
(cd "${REPO:-/repo}" && go list -export -deps ./... >/dev/null 2>&1 || true)
echo "lndlint built with $(go version)"
