package an

import (
	"go/ast"
	"go/types"
	"sort"
)

// Ref is one reference to an object from source code.
type Ref struct {
	Fn    *Func // enclosing root function (nil for package-level initialisers)
	Where string
	Kind  string // call | value | lit | write | read
	Node  ast.Node
}

// StaticCallees returns the IDs of the functions statically called from f,
// including calls made inside its nested function literals, and the source
// functions referenced as values (method values, function values).
func (f *Func) StaticCallees() map[string]bool {
	out := map[string]bool{}
	info := f.Info()
	ast.Inspect(f.Body, func(n ast.Node) bool {
		switch x := n.(type) {
		case *ast.CallExpr:
			if c := Callee(info, x); c != nil {
				out[FuncID(c)] = true
			}
		case *ast.Ident:
			if fn, ok := info.Uses[x].(*types.Func); ok {
				out[FuncID(fn)] = true
			}
		}
		return true
	})
	return out
}

// Reachable returns the set of source function IDs (roots only) reachable
// from the given function IDs through static calls and function-value
// references inside the loaded packages. Interface method calls are resolved
// to every loaded concrete method with the same name whose receiver type
// implements the interface.
func (p *Prog) Reachable(from ...string) map[string]bool {
	seen := map[string]bool{}
	var work []string
	for _, id := range from {
		if p.funcs[id] != nil {
			seen[id] = true
			work = append(work, id)
		}
	}
	for len(work) > 0 {
		id := work[len(work)-1]
		work = work[:len(work)-1]
		f := p.funcs[id]
		if f == nil {
			continue
		}
		for c := range f.StaticCallees() {
			targets := []string{c}
			if p.funcs[c] == nil {
				targets = p.implementers(c)
			}
			for _, t := range targets {
				if p.funcs[t] != nil && !seen[t] {
					seen[t] = true
					work = append(work, t)
				}
			}
		}
	}
	return seen
}

// implementers maps an interface method ID (pkg.Iface.Method) to the IDs of
// concrete source methods implementing it.
func (p *Prog) implementers(ifaceMethodID string) []string {
	if p.implCache == nil {
		p.implCache = map[string][]string{}
		// collect interface methods lazily: index concrete methods by name
		p.methodsByName = map[string][]*Func{}
		for _, f := range p.all {
			if f.Obj != nil && f.Decl != nil && f.Decl.Recv != nil {
				p.methodsByName[f.Obj.Name()] = append(p.methodsByName[f.Obj.Name()], f)
			}
		}
	}
	if v, ok := p.implCache[ifaceMethodID]; ok {
		return v
	}
	var out []string
	// find the interface type object
	var iface *types.Interface
	var mname string
	for _, pkg := range p.pkgs {
		_ = pkg
	}
	// parse "pkg.Type.Method"
	last := -1
	for i := len(ifaceMethodID) - 1; i >= 0; i-- {
		if ifaceMethodID[i] == '.' {
			last = i
			break
		}
	}
	if last > 0 {
		mname = ifaceMethodID[last+1:]
		rest := ifaceMethodID[:last]
		dot := -1
		for i := len(rest) - 1; i >= 0; i-- {
			if rest[i] == '.' {
				dot = i
				break
			}
		}
		if dot > 0 {
			pkgShort, tname := rest[:dot], rest[dot+1:]
			iface = p.lookupIface(pkgShort, tname)
		}
	}
	if iface != nil {
		for _, f := range p.methodsByName[mname] {
			recv := f.Obj.Type().(*types.Signature).Recv().Type()
			if types.Implements(recv, iface) || types.Implements(types.NewPointer(recv), iface) {
				out = append(out, f.ID)
			}
		}
	}
	sort.Strings(out)
	p.implCache[ifaceMethodID] = out
	return out
}

func (p *Prog) lookupIface(pkgShort, name string) *types.Interface {
	// search loaded packages and their imports
	var find func(pkg *types.Package) *types.Interface
	find = func(pkg *types.Package) *types.Interface {
		if Short(pkg.Path()) != pkgShort {
			return nil
		}
		if tn, ok := pkg.Scope().Lookup(name).(*types.TypeName); ok {
			if it, ok := tn.Type().Underlying().(*types.Interface); ok {
				return it
			}
		}
		return nil
	}
	for _, pk := range p.pkgs {
		if it := find(pk.Types); it != nil {
			return it
		}
		for _, imp := range pk.Types.Imports() {
			if it := find(imp); it != nil {
				return it
			}
		}
	}
	return nil
}

// RefsTo lists the references to obj (a function, method, variable, field or
// type) in non-test-ish source of the loaded packages. For methods,
// selections of interface methods that obj's receiver implements are
// included when viaIface is set.
func (p *Prog) RefsTo(obj types.Object, viaIface bool) []Ref {
	var out []Ref
	fn, isFunc := obj.(*types.Func)
	var recv types.Type
	if isFunc {
		if sig := fn.Type().(*types.Signature); sig.Recv() != nil {
			recv = sig.Recv().Type()
		}
	}
	for _, short := range p.Pkgs() {
		pkg := p.pkgs[short]
		info := pkg.TypesInfo
		for _, file := range pkg.Syntax {
			fname := pkg.Fset.Position(file.Pos()).Filename
			if IsTestish(fname) {
				continue
			}
			// map positions to enclosing root function
			var encl func(pos ast.Node) *Func
			encl = func(n ast.Node) *Func {
				for _, d := range file.Decls {
					if fd, ok := d.(*ast.FuncDecl); ok && fd.Body != nil && fd.Pos() <= n.Pos() && n.End() <= fd.End() {
						if o, ok := info.Defs[fd.Name].(*types.Func); ok {
							return p.byObj[o]
						}
					}
				}
				return nil
			}
			ast.Inspect(file, func(n ast.Node) bool {
				id, ok := n.(*ast.Ident)
				if !ok {
					return true
				}
				u := info.Uses[id]
				if u == nil {
					return true
				}
				match := false
				if uo, ok := u.(*types.Func); ok && isFunc {
					if uo.Origin() == fn.Origin() {
						match = true
					} else if viaIface && recv != nil && uo.Name() == fn.Name() {
						if usig := uo.Type().(*types.Signature); usig.Recv() != nil {
							if it, ok := usig.Recv().Type().Underlying().(*types.Interface); ok {
								if types.Implements(recv, it) || types.Implements(types.NewPointer(recv), it) {
									match = true
								}
							}
						}
					}
				} else if uv, ok := u.(*types.Var); ok {
					if ov, ok := obj.(*types.Var); ok && uv.Origin() == ov.Origin() {
						match = true
					}
				} else if u == obj {
					match = true
				}
				if match {
					out = append(out, Ref{Fn: encl(id), Where: Where(pkg, id.Pos()), Kind: "use", Node: id})
				}
				return true
			})
		}
	}
	return out
}

// RefFuncs reduces refs to the sorted set of enclosing function IDs
// ("<package-level>" for initialisers).
func RefFuncs(refs []Ref) []string {
	set := map[string]bool{}
	for _, r := range refs {
		if r.Fn == nil {
			set["<package-level>"] = true
		} else {
			set[r.Fn.ID] = true
		}
	}
	var out []string
	for k := range set {
		out = append(out, k)
	}
	sort.Strings(out)
	return out
}

// CompositeLitsOf lists the non-test-ish composite literals of named type t.
func (p *Prog) CompositeLitsOf(t *types.Named) []Ref {
	var out []Ref
	for _, short := range p.Pkgs() {
		pkg := p.pkgs[short]
		info := pkg.TypesInfo
		for _, file := range pkg.Syntax {
			if IsTestish(pkg.Fset.Position(file.Pos()).Filename) {
				continue
			}
			ast.Inspect(file, func(n ast.Node) bool {
				cl, ok := n.(*ast.CompositeLit)
				if !ok {
					return true
				}
				lt := info.TypeOf(cl)
				if nt := NamedOf(lt); nt != nil && nt.Obj() == t.Obj() {
					var fn *Func
					for _, d := range file.Decls {
						if fd, ok := d.(*ast.FuncDecl); ok && fd.Body != nil && fd.Pos() <= cl.Pos() && cl.End() <= fd.End() {
							if o, ok := info.Defs[fd.Name].(*types.Func); ok {
								fn = p.byObj[o]
							}
						}
					}
					out = append(out, Ref{Fn: fn, Where: Where(pkg, cl.Pos()), Kind: "lit", Node: cl})
				}
				return true
			})
		}
	}
	return out
}

// WhoMay checks that the referencing functions of obj are within allowed
// (map id -> reason). It records every reference as a site.
func (p *Prog) WhoMay(o *Obl, what string, refs []Ref, allowed map[string]string, required []string) {
	got := map[string]bool{}
	for _, r := range refs {
		id := "<package-level>"
		if r.Fn != nil {
			id = r.Fn.ID
		}
		got[id] = true
		o.Site("%s referenced by %s at %s", what, id, r.Where)
		if _, ok := allowed[id]; !ok {
			o.FailAt(what+"<-"+id, r.Where, "%s is referenced from %s, which is not in the allowed set %v", what, id, keysOf(allowed))
		}
	}
	for _, req := range required {
		if !got[req] {
			o.FailAt(what+"<-missing-"+req, "", "%s is no longer referenced from %s", what, req)
		}
	}
}

func keysOf(m map[string]string) []string {
	var out []string
	for k := range m {
		out = append(out, k)
	}
	sort.Strings(out)
	return out
}

// KeyUse is one use of a package-level key variable as the first argument of
// a bucket method.
type KeyUse struct {
	Key  string
	Site Site
	Root *Func
}

// KeyUses finds, in the non-test-ish functions of package short, the calls
// of a method named method (e.g. Put, Get, Delete) and resolves their first
// argument to package-level variables: directly, through any definition of a
// local variable (e.g. append(key, 0x00)), or through a parameter of the
// enclosing function whose callers in the package pass such a variable.
func (p *Prog) KeyUses(short, method string) []KeyUse {
	var out []KeyUse
	pkg := p.Pkg(short)
	isKeyVar := func(o types.Object) bool {
		v, ok := o.(*types.Var)
		return ok && v.Pkg() == pkg.Types && v.Parent() == pkg.Types.Scope()
	}
	// callers index: callee id -> call sites
	type callAt struct {
		fn   *Func
		call *ast.CallExpr
	}
	callers := map[string][]callAt{}
	fns := p.Funcs(false, short)
	for _, f := range fns {
		if f.Lit != nil {
			continue
		}
		info := f.Info()
		ast.Inspect(f.Body, func(n ast.Node) bool {
			if c, ok := n.(*ast.CallExpr); ok {
				if id := CalleeID(info, c); id != "" {
					callers[id] = append(callers[id], callAt{f, c})
				}
			}
			return true
		})
	}
	var resolve func(f *Func, e ast.Expr, depth int) []string
	resolve = func(f *Func, e ast.Expr, depth int) []string {
		info := f.Info()
		var keys []string
		ast.Inspect(e, func(n ast.Node) bool {
			id, ok := n.(*ast.Ident)
			if !ok {
				return true
			}
			o := info.Uses[id]
			if o == nil {
				return true
			}
			if isKeyVar(o) {
				keys = append(keys, o.Name())
				return true
			}
			v, ok := o.(*types.Var)
			if !ok || v.IsField() || depth > 2 {
				return true
			}
			// local: all definitions
			if d := f.defs()[o]; d != nil {
				for _, ex := range d.exprs {
					keys = append(keys, resolve(f, ex, depth+1)...)
				}
			}
			// parameter of the root function: callers' arguments
			root := f.Root()
			for i, pv := range root.Params(false) {
				if pv == v && root.Obj != nil {
					for _, ca := range callers[root.ID] {
						if i < len(ca.call.Args) {
							keys = append(keys, resolve(ca.fn, ca.call.Args[i], depth+1)...)
						}
					}
				}
			}
			return true
		})
		return keys
	}
	for _, f := range fns {
		if f.Lit != nil {
			continue // literals are covered through their root's body
		}
		info := f.Info()
		g := f
		ast.Inspect(f.Body, func(n ast.Node) bool {
			c, ok := n.(*ast.CallExpr)
			if !ok || len(c.Args) == 0 {
				return true
			}
			sel, ok := ast.Unparen(c.Fun).(*ast.SelectorExpr)
			if !ok || sel.Sel.Name != method {
				return true
			}
			if s := info.Selections[sel]; s == nil || s.Kind() != types.MethodVal {
				return true
			}
			for _, k := range resolve(g, c.Args[0], 0) {
				out = append(out, KeyUse{Key: k, Site: Site{Fn: g, Node: c}, Root: g})
			}
			return true
		})
	}
	return out
}
