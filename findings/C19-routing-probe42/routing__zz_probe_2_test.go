package routing

import (
	"testing"

	"github.com/btcsuite/btcd/btcutil/v2"
	"github.com/lightningnetwork/lnd/fn/v2"
	"github.com/lightningnetwork/lnd/lnwire"
	"github.com/lightningnetwork/lnd/routing/route"
	"github.com/stretchr/testify/require"
)

// TestProbeBuildRouteMinAmountExceedsMaxHtlc: BuildRoute without an amount
// searches the minimum amount in a backward pass (senderAmtBackwardPass),
// re-derives the receiver amount in a forward pass (receiverAmtForwardPass)
// and checks the channel limits in these two passes. The route itself is then
// made by newRoute in a third (backward) pass from the receiver amount
// (router.go:1419). Because the forward pass rounds in favour of the receiver,
// the third pass can end above the sender amount that was checked (the
// existing TestBuildRoute documents 20179 -> 20180 msat). Nothing compares the
// amounts of the third pass with the channel limits any more.
func TestProbeBuildRouteMinAmountExceedsMaxHtlc(t *testing.T) {
	chanCapSat := btcutil.Amount(100000)
	paymentAddrFeatures := lnwire.NewFeatureVector(
		lnwire.NewRawFeatureVector(lnwire.PaymentAddrOptional),
		lnwire.Features,
	)

	// The policies of TestBuildRoute's "route with inbound fees", except
	// that a->d accepts at most 20179 msat, the amount the backward pass
	// arrives at.
	const maxHtlcAD = lnwire.MilliSatoshi(20179)

	testChannels := []*testChannel{
		symmetricTestChannel("a", "d", chanCapSat, &testChannelPolicy{
			Expiry:             144,
			FeeRate:            20000,
			MinHTLC:            lnwire.NewMSatFromSatoshis(5),
			MaxHTLC:            maxHtlcAD,
			InboundFeeBaseMsat: -1000,
			InboundFeeRate:     -1000,
		}, 9),
		symmetricTestChannel("d", "f", chanCapSat, &testChannelPolicy{
			Expiry:             144,
			FeeRate:            60000,
			MinHTLC:            lnwire.NewMSatFromSatoshis(20),
			MaxHTLC:            lnwire.NewMSatFromSatoshis(120),
			Features:           paymentAddrFeatures,
			InboundFeeBaseMsat: 2000,
			InboundFeeRate:     2000,
		}, 10),
	}

	testGraph, err := createTestGraphFromChannels(
		t, true, testChannels, "a",
	)
	require.NoError(t, err)

	ctx := createTestCtxFromGraphInstance(t, 101, testGraph)

	var payAddr [32]byte
	payAddr[0] = 3

	hops := []route.Vertex{ctx.aliases["d"], ctx.aliases["f"]}
	rt, err := ctx.router.BuildRoute(
		fn.None[lnwire.MilliSatoshi](), hops, nil, 40,
		fn.Some(payAddr), fn.None[[]byte](),
	)
	if err != nil {
		return
	}

	require.LessOrEqualf(t, rt.TotalAmount, maxHtlcAD, "the first hop "+
		"carries %v over a channel with max htlc %v", rt.TotalAmount,
		maxHtlcAD)
}
