package routing

import (
	"math"
	"testing"

	"github.com/lightningnetwork/lnd/graph/db/models"
	"github.com/lightningnetwork/lnd/lnwire"
	"github.com/lightningnetwork/lnd/routing/route"
	"github.com/stretchr/testify/require"
)

// TestProbeValidateCLTVLimitPadWrap: the final delta of an invoice is taken
// over as a uint16 (routerrpc: uint16(payReq.MinFinalCLTVExpiry())). Adding
// the block padding to it must not wrap: a limit of 2016 blocks is not greater
// than 65534+3.
func TestProbeValidateCLTVLimitPadWrap(t *testing.T) {
	for _, delta := range []uint16{65533, 65534, 65535} {
		require.Errorf(t, ValidateCLTVLimit(2016, delta, true),
			"limit 2016 accepted for final delta %v plus padding",
			delta)
	}

	// Unchanged behaviour around the boundary.
	require.Error(t, ValidateCLTVLimit(43, 40, true))
	require.NoError(t, ValidateCLTVLimit(44, 40, true))
	require.Error(t, ValidateCLTVLimit(40, 40, false))
	require.NoError(t, ValidateCLTVLimit(41, 40, false))
	require.NoError(t, ValidateCLTVLimit(65539, 65535, true))
}

// probeRequestRoute runs RequestRoute of a payment session whose path finder
// is a mock that returns a one hop path and records the cltv limit it got.
func probeRequestRoute(t *testing.T, payment *LightningPayment,
	height uint32) (*route.Route, *uint32, error) {

	var paymentHash [32]byte
	require.NoError(t, payment.SetPaymentHash(paymentHash))

	session, err := newPaymentSession(
		payment, route.Vertex{},
		func(Graph) (bandwidthHints, error) {
			return &mockBandwidthHints{}, nil
		},
		&sessionGraph{},
		&MissionControl{},
		PathFindingConfig{},
	)
	require.NoError(t, err)

	var gotLimit *uint32
	session.pathFinder = func(_ *graphParams, r *RestrictParams,
		_ *PathFindingConfig, _, _, _ route.Vertex,
		_ lnwire.MilliSatoshi, _ float64, _ int32) ([]*unifiedEdge,
		float64, error) {

		limit := r.CltvLimit
		gotLimit = &limit

		path := []*unifiedEdge{{
			policy: &models.CachedEdgePolicy{
				ToNodePubKey: func() route.Vertex {
					return route.Vertex{}
				},
				ToNodeFeatures: lnwire.NewFeatureVector(
					nil, nil,
				),
			},
		}}

		return path, 1.0, nil
	}

	rt, err := session.RequestRoute(
		payment.Amount, payment.FeeLimit, 0, height, nil,
	)

	return rt, gotLimit, err
}

// TestProbeRequestRouteFinalDeltaPadWrap: with a final delta of 65534 the
// route must give the final hop at least 65534 blocks, or not be returned.
func TestProbeRequestRouteFinalDeltaPadWrap(t *testing.T) {
	const height = 10

	payment := &LightningPayment{
		CltvLimit:      math.MaxUint32,
		FinalCLTVDelta: 65534,
		Amount:         1000,
		FeeLimit:       1000,
	}

	rt, _, err := probeRequestRoute(t, payment, height)
	if err != nil {
		return
	}

	require.GreaterOrEqualf(t, rt.TotalTimeLock, uint32(height+65534),
		"the final hop asked for a delta of 65534, the route's total "+
			"time lock is %v at height %v", rt.TotalTimeLock, height)
}

// TestProbeRequestRouteCltvLimitUnderflow: a payment whose cltv limit does not
// even cover the final delta plus padding must not be searched with an
// (effectively) unlimited cltv limit.
func TestProbeRequestRouteCltvLimitUnderflow(t *testing.T) {
	const height = 10

	payment := &LightningPayment{
		CltvLimit:      20,
		FinalCLTVDelta: 40,
		Amount:         1000,
		FeeLimit:       1000,
	}

	rt, limit, err := probeRequestRoute(t, payment, height)
	if err != nil {
		return
	}

	require.NotNil(t, limit)
	require.LessOrEqualf(t, *limit, payment.CltvLimit, "path finding ran "+
		"with a cltv limit of %v for a payment limited to %v blocks "+
		"(route total time lock %v at height %v)", *limit,
		payment.CltvLimit, rt.TotalTimeLock, height)
}
