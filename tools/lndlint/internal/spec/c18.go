package spec

import (
	"go/ast"
	"go/token"
	"strings"

	"lndlint/internal/an"
)

func init() {
	register(&Spec{
		ID:          "C18",
		Loads:       []LoadSpec{{Patterns: []string{"./sweep"}}},
		Explanation: "Decides that a sweep transaction is handed to the wallet only by TxPublisher.broadcast, whose record was produced by createAndCheckTx below `fee <= Budget` with the fee that prepareSweepTx computed; that the fee ceiling is min(budget rate, MaxFeeRate) and the schedule clamps at its ending rate; that the schedule position only moves forward and the current rate is only ever derived from the position; that every requested input gets exactly one transaction input; that the amount left after required outputs and fee either becomes a change output not below the dust floor or is added to the reported fee; and that the RBF creation loop leaves only with a checked transaction or an error and raises the fee only through the fee function.",
		NotDecided: []string{
			"monotonicity and ceiling-reaching of the numeric rate sequence (float arithmetic in the delta)", "fee estimator answers", "weight estimation accuracy (the fee is rate x estimated weight)",
			"the wallet-funded 'sweep all' transaction built by the free function createSweepTx in txgenerator.go (not a sweeper publication)",
		},
		Assumptions: commonAssumptions,
		Engines:     "GUARD, WHO, STATE, PATH",
		TagMatrix:   [][]string{{"GOARCH=386"}},
		Run:         runC18,
	})
}

const sw = "sweep."

func runC18(r *an.Run) {
	p := r.Prog
	tp := sw + "TxPublisher."

	r.Obl("published-only-within-budget", "GUARD",
		"createAndCheckTx returns a transaction without error only below `sweepCtx.fee <= req.Budget`; sweepTxCtx.fee is result 0 of prepareSweepTx; TxPublisher.createSweepTx is called only by createAndCheckTx; Wallet.PublishTransaction is called in package sweep only by TxPublisher.broadcast, on record.tx; broadcast's callers take the record from updateRecord/createRBFCompliantTx after createAndCheckTx succeeded; r.tx and r.fee are written only by updateRecord from the checked context",
		"a transaction published without the budget comparison can burn more than the caller allowed for these inputs", 10,
		func(o *an.Obl) {
			f := p.Func(tp + "createAndCheckTx")
			fee := an.FieldPath(an.LocalNamed("sweepCtx"), "fee")
			bud := an.FieldPath(an.LocalNamed("req"), "Budget")
			n := 0
			for _, s := range f.Returns() {
				rs := s.Node.(*ast.ReturnStmt)
				if !an.IsNilIdent(f.Info(), rs.Results[1]) {
					continue
				}
				n++
				guarded(o, f, s, an.CmpX(fee, an.LE, bud, "sweepCtx.fee <= req.Budget"))
				mustPass(o, f, "createSweepTx", f.Calls(an.CalleeIs(tp+"createSweepTx"), false), an.OkErrNil, []an.Site{s})
			}
			if n < 1 {
				o.FailAt(f.ID+"#success", f.Where(f.Body.Pos()), "createAndCheckTx has no success return")
			}
			for _, s := range f.Assigns(an.LocalNamed("req"), false) {
				if c := f.Canon(s.Node.(*ast.AssignStmt).Rhs[0]); c != "$p0.req" {
					o.FailAt(f.ID+"#req", s.Where(), "the budget is read from %s", c)
				}
			}
			// the fee in the context
			cs := p.Func(tp + "createSweepTx")
			for _, cl := range p.CompositeLitsOf(p.LookupType("sweep", "sweepTxCtx")) {
				if cl.Fn == nil {
					continue
				}
				if cl.Fn.ID != cs.ID {
					o.FailAt(cl.Fn.ID+"#builds-ctx", cl.Where, "%s builds a sweepTxCtx", cl.Fn.ID)
					continue
				}
				for _, el := range cl.Node.(*ast.CompositeLit).Elts {
					kv := el.(*ast.KeyValueExpr)
					if an.Text(kv.Key) != "fee" {
						continue
					}
					id, _ := kv.Value.(*ast.Ident)
					var call *ast.CallExpr
					ri := -1
					if id != nil {
						call, ri = cs.UniqueCallDef(id)
					}
					o.Site("sweepTxCtx.fee = %s", an.Text(kv.Value))
					if call == nil || an.CalleeID(cs.Info(), call) != sw+"prepareSweepTx" || ri != 0 {
						o.FailAt(cs.ID+"#ctx-fee", cs.Where(kv.Pos()), "the fee recorded for the budget check (%s) is not the fee computed by prepareSweepTx", an.Text(kv.Value))
					}
				}
			}
			// who calls what
			for _, g := range p.Funcs(false, "sweep") {
				for _, s := range g.Calls(an.CalleeIs(tp+"createSweepTx"), true) {
					o.Site("%s", s.String())
					if g.Root().ID != f.ID {
						o.FailAt(g.ID+"#calls-createSweepTx", s.Where(), "%s builds a sweep transaction without the budget check", g.ID)
					}
				}
				for _, s := range g.Calls(an.CalleeNamed("PublishTransaction"), true) {
					o.Site("%s", s.String())
					if g.Root().ID != tp+"broadcast" {
						o.FailAt(g.ID+"#publishes", s.Where(), "%s publishes a transaction; only TxPublisher.broadcast may", g.ID)
						continue
					}
					if a := g.ArgCanon(s); a[0] != "$p0.tx" {
						o.FailAt(g.ID+"#published-tx", s.Where(), "broadcast publishes %s, expected the record's transaction", a[0])
					}
				}
				for _, s := range g.Calls(an.CalleeIs(tp+"broadcast"), true) {
					o.Site("%s", s.String())
					a := g.ArgCanon(s)
					switch g.Root().ID {
					case tp + "createAndPublishTx":
						mustPass(o, g, "createAndCheckTx", g.Calls(an.CalleeIs(tp+"createAndCheckTx"), false), an.OkErrNil, []an.Site{s})
						if !strings.HasPrefix(a[0], tp+"updateRecord(") && !strings.Contains(a[0], ".updateRecord(") {
							o.FailAt(g.ID+"#record", s.Where(), "the record broadcast is %s", a[0])
						}
					case tp + "handleInitialBroadcast":
						mustPass(o, g, "initializeTx", g.Calls(an.CalleeIs(tp+"initializeTx"), false), an.OkErrNil, []an.Site{s})
					default:
						o.FailAt(g.ID+"#broadcasts", s.Where(), "%s calls broadcast", g.ID)
					}
				}
				for _, fld := range []string{"tx", "fee"} {
					for _, s := range g.Assigns(an.Field(sw+"monitorRecord", fld, nil), false) {
						o.Site("record writer %s", s.String())
						if g.ID != tp+"updateRecord" {
							o.FailAt(g.ID+"#writes-record-"+fld, s.Where(), "%s writes monitorRecord.%s", g.ID, fld)
						} else if c := g.Canon(s.Node.(*ast.AssignStmt).Rhs[0]); c != "$p1."+fld {
							o.FailAt(g.ID+"#record-"+fld, s.Where(), "monitorRecord.%s is set from %s", fld, c)
						}
					}
				}
			}
			// updateRecord callers: after createAndCheckTx
			for _, g := range p.Funcs(false, "sweep") {
				for _, s := range g.Calls(an.CalleeIs(tp+"updateRecord"), false) {
					a := g.ArgCanon(s)
					o.Site("%s ctx=%s", s.String(), a[1])
					if g.ID == f.ID && strings.Contains(a[1], ".createSweepTx(") {
						// the missing-inputs exit records the attempted
						// transaction and returns ErrInputMissing
						continue
					}
					if !strings.HasPrefix(a[1], tp+"createAndCheckTx(") && !strings.Contains(a[1], "createAndCheckTx(") {
						o.FailAt(g.ID+"#record-source", s.Where(), "updateRecord is fed %s, expected the context returned by createAndCheckTx", a[1])
					}
				}
			}
			it := p.Func(tp + "initializeTx")
			mustPass(o, it, "createRBFCompliantTx", it.Calls(an.CalleeIs(tp+"createRBFCompliantTx"), false), an.OkErrNil, it.StrictSuccessReturnsOrNilPtr())
		})

	r.Obl("rate-ceiling-clamps", "GUARD",
		"MaxFeeRateAllowed returns r.MaxFeeRate when Budget/size exceeds it and Budget/size otherwise; the fee function is constructed with that value as its ending rate, and a starting rate above it is replaced by it before the per-block delta and the current rate are derived; feeRateAtPosition returns the ending rate for p >= width or when the computed rate exceeds it, and the computed rate only below `rate <= endingFeeRate`",
		"a ceiling above the budget rate or the configured maximum lets later bumps exceed what the property allows", 8,
		func(o *an.Obl) {
			f := p.Func(sw + "BumpRequest.MaxFeeRateAllowed")
			var budgetRate string
			for _, s := range f.Assigns(an.LocalNamed("maxFeeRateAllowed"), false) {
				budgetRate = f.Canon(s.Node.(*ast.AssignStmt).Rhs[0])
				o.Site("budget rate = %s", budgetRate)
				if !strings.Contains(budgetRate, "NewSatPerKWeight($recv.Budget, ") {
					o.FailAt(f.ID+"#budget-rate", s.Where(), "the budget rate is %s, expected Budget over the transaction weight", budgetRate)
				}
			}
			cap := an.FieldPath(an.Recv(), "MaxFeeRate")
			loc := an.LocalNamed("maxFeeRateAllowed")
			k := 0
			for _, s := range f.Returns() {
				rs := s.Node.(*ast.ReturnStmt)
				if !an.IsNilIdent(f.Info(), rs.Results[1]) {
					continue
				}
				k++
				switch an.Text(rs.Results[0]) {
				case "r.MaxFeeRate":
					guarded(o, f, s, an.CmpX(loc, an.GT, cap, "budget rate > MaxFeeRate"))
				case "maxFeeRateAllowed":
					guarded(o, f, s, an.CmpX(loc, an.LE, cap, "budget rate <= MaxFeeRate"))
				default:
					o.FailAt(f.ID+"#returns", s.Where(), "MaxFeeRateAllowed returns %s", an.Text(rs.Results[0]))
				}
			}
			if k != 2 {
				o.FailAt(f.ID+"#exits", f.Where(f.Body.Pos()), "expected two successful exits, found %d", k)
			}
			g := p.Func(tp + "initializeFeeFunction")
			nf := g.Calls(an.CalleeIs(sw+"NewLinearFeeFunction"), false)
			if need(o, g, "NewLinearFeeFunction", nf, 1) {
				a := g.ArgCanon(nf[0])
				o.Site("NewLinearFeeFunction ceiling = %s", a[0])
				if !strings.Contains(a[0], "MaxFeeRateAllowed()") {
					o.FailAt(g.ID+"#ceiling", nf[0].Where(), "the fee function's ceiling is %s", a[0])
				}
				mustPass(o, g, "MaxFeeRateAllowed", g.Calls(an.CalleeIs(sw+"BumpRequest.MaxFeeRateAllowed"), false), an.OkErrNil, nf)
			}
			c := p.Func(sw + "NewLinearFeeFunction")
			for _, cl := range p.CompositeLitsOf(p.LookupType("sweep", "LinearFeeFunction")) {
				if cl.Fn == nil || cl.Fn.ID != c.ID {
					continue
				}
				for _, el := range cl.Node.(*ast.CompositeLit).Elts {
					kv := el.(*ast.KeyValueExpr)
					if an.Text(kv.Key) == "endingFeeRate" {
						o.Site("constructor endingFeeRate = %s", an.Text(kv.Value))
						if c.Canon(kv.Value) != "$p0" {
							o.FailAt(c.ID+"#ending", c.Where(kv.Pos()), "endingFeeRate is initialised from %s", an.Text(kv.Value))
						}
					}
				}
			}
			// the starting rate is never above the ending rate when the
			// per-block delta `end - start` is computed (the delta is stored
			// in an unsigned type): either `start > end` is false or start
			// was set to end
			var deltas, caps []an.Site
			for _, v := range c.Graph().V {
				as, ok := v.Node.(*ast.AssignStmt)
				if !ok || len(as.Lhs) != 1 || len(as.Rhs) != 1 {
					continue
				}
				l, rhs := an.Text(as.Lhs[0]), c.Canon(as.Rhs[0])
				if strings.Contains(an.Text(as.Rhs[0]), "end - start") {
					deltas = append(deltas, an.Site{Fn: c, V: v, Node: as})
				}
				if l == "start" && as.Tok.String() == "=" {
					o.Site("start = %s", rhs)
					if an.Text(as.Rhs[0]) == "end" {
						caps = append(caps, an.Site{Fn: c, V: v, Node: as})
					} else {
						o.FailAt(c.ID+"#start-reassigned", c.Where(as.Pos()), "the starting rate is reassigned to %s", rhs)
					}
				}
			}
			if need(o, c, "delta computation from end - start", deltas, 1) {
				le := an.CmpX(an.LocalNamed("start"), an.LE, an.LocalNamed("end"), "start <= end")
				if len(caps) == 0 {
					// rejecting instead of capping is as good
					guardedAll(o, c, deltas, le)
				} else {
					mustDoUnless(o, c, "start = end", caps, deltas, le)
				}
			}
			for _, s := range c.Assigns(an.Field(sw+"LinearFeeFunction", "currentFeeRate", nil), false) {
				o.Site("%s", s.String())
				if len(deltas) > 0 {
					before(o, c, "the cap of the starting rate", deltas, "the assignment of currentFeeRate", []an.Site{s})
				}
			}
			h := p.Func(sw + "LinearFeeFunction.feeRateAtPosition")
			end := an.FieldPath(an.Recv(), "endingFeeRate")
			for _, s := range h.Returns() {
				txt := an.Text(s.Node.(*ast.ReturnStmt).Results[0])
				switch txt {
				case "l.endingFeeRate":
					guarded(o, h, s, an.AnyOf("p >= width or rate above the ceiling",
						an.CmpX(an.Param(0), an.GE, an.FieldPath(an.Recv(), "width"), ""),
						an.CmpX(an.LocalNamed("feeRate"), an.GT, end, "")))
				case "feeRate":
					guarded(o, h, s, an.CmpX(an.LocalNamed("feeRate"), an.LE, end, "feeRate <= endingFeeRate"))
					guarded(o, h, s, an.CmpX(an.Param(0), an.LT, an.FieldPath(an.Recv(), "width"), "p < width"))
				default:
					o.FailAt(h.ID+"#returns", s.Where(), "feeRateAtPosition returns %s", txt)
				}
			}
		})

	r.Obl("schedule-position-monotone", "STATE",
		"LinearFeeFunction.position is written only by increaseFeeRate (with its argument) below `position < width`; increaseFeeRate is reached only from Increment with position+1 and from IncreaseFeeRate below `newPosition > l.position`; currentFeeRate is written only as feeRateAtPosition(position) there and from the starting rate in the constructor",
		"a position that can move backwards lowers the offered fee rate on a later block", 8,
		func(o *an.Obl) {
			inc := p.Func(sw + "LinearFeeFunction.increaseFeeRate")
			for _, f := range p.Funcs(false, "sweep") {
				for _, s := range f.Assigns(an.Field(sw+"LinearFeeFunction", "position", nil), false) {
					o.Site("position writer %s", s.String())
					if f.ID != inc.ID {
						o.FailAt(f.ID+"#writes-position", s.Where(), "%s writes the schedule position", f.ID)
						continue
					}
					if c := f.Canon(s.Node.(*ast.AssignStmt).Rhs[0]); c != "$p0" {
						o.FailAt(f.ID+"#position-value", s.Where(), "position is set to %s", c)
					}
					guarded(o, f, s, an.CmpX(an.FieldPath(an.Recv(), "position"), an.LT, an.FieldPath(an.Recv(), "width"), "l.position < l.width"))
				}
				for _, s := range f.Assigns(an.Field(sw+"LinearFeeFunction", "currentFeeRate", nil), false) {
					c := f.Canon(s.Node.(*ast.AssignStmt).Rhs[0])
					o.Site("rate writer %s (%s)", s.String(), c)
					switch f.ID {
					case inc.ID:
						if c != "$recv.feeRateAtPosition($p0)" {
							o.FailAt(f.ID+"#rate-value", s.Where(), "currentFeeRate is set to %s", c)
						}
					case sw + "NewLinearFeeFunction":
						if t := an.Text(s.Node.(*ast.AssignStmt).Rhs[0]); t != "start" {
							o.FailAt(f.ID+"#initial-rate", s.Where(), "the constructor sets currentFeeRate to %s, expected the (capped) starting rate", t)
						}
					default:
						o.FailAt(f.ID+"#writes-rate", s.Where(), "%s writes the current fee rate", f.ID)
					}
				}
				for _, s := range f.Calls(an.CalleeIs(inc.ID), false) {
					a := f.ArgCanon(s)
					o.Site("%s position=%s", s.String(), a[0])
					switch f.ID {
					case sw + "LinearFeeFunction.Increment":
						if a[0] != "($recv.position + 1)" {
							o.FailAt(f.ID+"#step", s.Where(), "Increment moves to %s", a[0])
						}
					case sw + "LinearFeeFunction.IncreaseFeeRate":
						guarded(o, f, s, an.CmpX(an.LocalNamed("newPosition"), an.GT, an.FieldPath(an.Recv(), "position"), "newPosition > l.position"))
					default:
						o.FailAt(f.ID+"#moves-position", s.Where(), "%s moves the schedule position", f.ID)
					}
				}
			}
			// IncreaseFeeRate: newPosition = width + 1 - confTarget below confTarget < width+1
			f := p.Func(sw + "LinearFeeFunction.IncreaseFeeRate")
			for _, s := range f.Assigns(an.LocalNamed("newPosition"), false) {
				as := s.Node.(*ast.AssignStmt)
				if as.Tok == token.DEFINE {
					continue
				}
				c := f.Canon(as.Rhs[0])
				o.Site("newPosition = %s", c)
				if c != "(($recv.width + 1) - $p0)" {
					o.FailAt(f.ID+"#new-position", s.Where(), "the position for a deadline in confTarget blocks is %s, expected width + 1 - confTarget", c)
				}
				guarded(o, f, s, an.CmpX(an.Param(0), an.LT, canonTerm(`^\(\$recv\.width \+ 1\)$`), "confTarget < width + 1"))
			}
		})

	r.Obl("ramp-follows-the-block-height", "PATH",
		"TxPublisher.monitor stores the height of the new block before it processes the records of that block, and Start stores it before the monitor runs; the conf target of the initial fee function and of every bump is calcCurrentConfTarget(stored height, req.DeadlineHeight), which is deadline - current height floored at zero; a bump hands exactly that conf target to IncreaseFeeRate and publishes only when it reported an increase",
		"a height that lags by one block shifts the whole ramp: the ceiling is offered at the deadline block instead of one block before it", 7,
		func(o *an.Obl) {
			isStore := func(id string, c *ast.CallExpr) bool {
				sel, ok := c.Fun.(*ast.SelectorExpr)
				return ok && sel.Sel.Name == "Store" && strings.HasSuffix(an.Text(sel.X), ".currentHeight")
			}
			mon := p.Func(tp + "monitor")
			st := mon.Calls(isStore, false)
			pr := mon.Calls(an.CalleeIs(tp+"processRecords"), false)
			if need(o, mon, "currentHeight.Store", st, 1) && need(o, mon, "processRecords", pr, 1) {
				before(o, mon, "currentHeight.Store", st, "processRecords", pr)
				// inside one block event: the store sits in the same case body, ahead
				for _, a := range st {
					if c := mon.Canon(callArg(a, 0)); !reMatch(`\.Height\(\)$`, c) {
						o.FailAt(mon.ID+"#stored-height", a.Where(), "the stored height is %s, expected the height of the received block", c)
					}
					for _, b := range pr {
						if a.Node.Pos() > b.Node.Pos() {
							o.FailAt(mon.ID+"#height-after-records", a.Where(), "the block's height is stored after its records were processed: every bump of this block sees the previous height")
						}
					}
				}
			}
			start := p.Func(tp + "Start")
			sst := start.Calls(isStore, false)
			if need(o, start, "currentHeight.Store", sst, 1) {
				for _, v := range start.Graph().V {
					if g, ok := v.Node.(*ast.GoStmt); ok && strings.Contains(an.Text(g.Call.Fun), "monitor") {
						before(o, start, "currentHeight.Store", sst, "go t.monitor()", []an.Site{{Fn: start, V: v, Node: g}})
					}
				}
			}
			// conf target sources
			for _, fn := range []string{tp + "initializeFeeFunction", tp + "handleFeeBumpTx"} {
				f := p.Func(fn)
				cs := f.Calls(an.CalleeIs(sw+"calcCurrentConfTarget"), false)
				if !need(o, f, "calcCurrentConfTarget", cs, 1) {
					continue
				}
				a := f.ArgCanon(cs[0])
				o.Site("%s: conf target = calcCurrentConfTarget(%s, %s)", fn, a[0], a[1])
				if a[0] != "$recv.currentHeight.Load()" && a[0] != "$p1" {
					o.FailAt(fn+"#height-source", cs[0].Where(), "the conf target is computed from height %s", a[0])
				}
				if !strings.HasSuffix(a[1], ".DeadlineHeight") {
					o.FailAt(fn+"#deadline-source", cs[0].Where(), "the conf target is computed from deadline %s", a[1])
				}
			}
			prc := p.Func(tp + "processRecords")
			for _, v := range prc.Graph().V {
				g, ok := v.Node.(*ast.GoStmt)
				if !ok || !strings.Contains(an.Text(g.Call.Fun), "handleFeeBumpTx") {
					continue
				}
				c := prc.Canon(g.Call.Args[1])
				o.Site("processRecords hands height %s to handleFeeBumpTx", c)
				if c != "$recv.currentHeight.Load()" {
					o.FailAt(prc.ID+"#bump-height", prc.Where(g.Pos()), "bumps are given height %s", c)
				}
			}
			cc := p.Func(sw + "calcCurrentConfTarget")
			for _, s := range cc.Assigns(an.LocalNamed("deadlineDelta"), false) {
				if c := cc.Canon(s.Node.(*ast.AssignStmt).Rhs[0]); c != "($p1 - $p0)" {
					o.FailAt(cc.ID+"#delta", s.Where(), "blocks left are %s, expected deadline - currentHeight", c)
				}
			}
			for _, s := range cc.Assigns(an.LocalNamed("confTarget"), false) {
				c := cc.Canon(s.Node.(*ast.AssignStmt).Rhs[0])
				o.Site("confTarget = %s", c)
				switch c {
				case "0":
					guarded(o, cc, s, an.Cmp(an.LocalNamed("deadlineDelta"), an.LT, an.IntConst(0), "deadlineDelta < 0"))
				case "uint32(($p1 - $p0))":
					guarded(o, cc, s, an.Cmp(an.LocalNamed("deadlineDelta"), an.GE, an.IntConst(0), "deadlineDelta >= 0"))
				default:
					o.FailAt(cc.ID+"#conf-target", s.Where(), "the conf target is %s", c)
				}
			}
			hb := p.Func(tp + "handleFeeBumpTx")
			inc := hb.Calls(an.CalleeNamed("IncreaseFeeRate"), false)
			pub := hb.Calls(an.CalleeIs(tp+"createAndPublishTx"), false)
			if need(o, hb, "IncreaseFeeRate", inc, 1) && need(o, hb, "createAndPublishTx", pub, 1) {
				if a := hb.ArgCanon(inc[0]); !strings.HasPrefix(a[0], sw+"calcCurrentConfTarget(") {
					o.FailAt(hb.ID+"#increase-arg", inc[0].Where(), "IncreaseFeeRate is given %s", a[0])
				}
				mustPass(o, hb, "IncreaseFeeRate", inc, an.OkErrNil, pub)
				guarded(o, hb, pub[0], an.Truth(an.LocalNamed("increased"), true, "increased"))
			}
		})

	r.Obl("every-input-spent-once", "PATH",
		"TxPublisher.createSweepTx: the two loops over the requested inputs skip on complementary predicates (RequiredTxOut() == nil / != nil) and each adds exactly one transaction input per non-skipped element, spending that element's outpoint; a required output is added together with its input",
		"an input left out of the transaction stays unswept although the caller was told it was handled; one added twice makes the transaction invalid", 3,
		func(o *an.Obl) {
			f := p.Func(tp + "createSweepTx")
			adds := f.Calls(an.CalleeNamed("AddTxIn"), false)
			if !need(o, f, "AddTxIn", adds, 2) {
				return
			}
			var preds []string
			for _, s := range adds {
				hdr := enclosingLoopHeader(f, s.Node)
				if hdr != "$p0" {
					o.FailAt(f.ID+"#input-loop", s.Where(), "transaction inputs are added from %s, expected the requested inputs", hdr)
				}
				reqNil, _ := f.Guarded(s, an.IsNil(an.CallNamed("RequiredTxOut", nil), true, ""))
				reqSet, _ := f.Guarded(s, an.IsNil(an.CallNamed("RequiredTxOut", nil), false, ""))
				preds = append(preds, map[[2]bool]string{{true, false}: "no-required-output", {false, true}: "required-output"}[[2]bool{reqNil, reqSet}])
				o.Site("%s for inputs with %s", s.String(), preds[len(preds)-1])
				// spends the element's outpoint
				txt := f.Canon(callArg(s, 0))
				if !strings.Contains(txt, "PreviousOutPoint: $elem($p0).OutPoint()") {
					o.FailAt(f.ID+"#outpoint", s.Where(), "the transaction input does not spend the loop element's outpoint: %s", txt)
				}
			}
			if len(preds) != 2 || preds[0] == preds[1] || preds[0] == "" || preds[1] == "" {
				o.FailAt(f.ID+"#complementary", f.Where(f.Body.Pos()), "the two input loops do not partition the inputs: %v", preds)
			}
			// each loop: every non-skipped iteration passes AddTxIn
			for i, s := range adds {
				var head *an.FlowVertex
				for _, v := range f.Graph().V {
					if rs, ok := v.Node.(*ast.RangeStmt); ok && rs.Pos() <= s.Node.Pos() && s.Node.End() <= rs.End() && f.Canon(rs.X) == "$p0" {
						head = v
					}
				}
				if head == nil {
					continue
				}
				var body *an.FlowVertex
				for _, e := range head.Out {
					if e.Kind == 4 {
						body = e.To
					}
				}
				skip := an.IsNil(an.CallNamed("RequiredTxOut", nil), preds[i] == "required-output", "")
				cut := f.EdgesOf(skip)
				if body != nil && f.Graph().Reach(body, cut, map[*an.FlowVertex]bool{head: true, s.V: true})[head] {
					o.FailAt(f.ID+"#skipped-input", s.Where(), "an input of the %s class can pass its loop without getting a transaction input", preds[i])
				}
			}
			ro := f.Calls(an.CalleeNamed("AddTxOut"), false)
			nReq := 0
			for _, s := range ro {
				if strings.Contains(f.Canon(callArg(s, 0)), "RequiredTxOut()") {
					nReq++
					guarded(o, f, s, an.IsNil(an.CallNamed("RequiredTxOut", nil), false, "o.RequiredTxOut() != nil"))
					if c := f.Canon(callArg(s, 0)); c != "$elem($p0).RequiredTxOut()" {
						o.FailAt(f.ID+"#required-output-source", s.Where(), "the required output added is %s, expected the loop element's", c)
					}
				}
			}
			if nReq != 1 {
				o.FailAt(f.ID+"#required-output-sites", f.Where(f.Body.Pos()), "expected exactly one place that adds an input's required output, found %d", nReq)
			}
		})

	r.Obl("leftover-is-change-or-fee", "PATH",
		"prepareSweepTx: changeAmt = totalInput - requiredOutput - txFee below `requiredOutput + txFee <= totalInput`; on every successful path it is either appended as the change output (only below `changeAmt >= dust floor of the change script`) or added to the returned fee; the returned fee is that txFee; locktime conflicts and immature locktimes fail",
		"a dust change output is unrelayable; a leftover neither paid out nor counted in the reported fee makes the real fee exceed what the budget check saw", 6,
		func(o *an.Obl) {
			f := p.Func(sw + "prepareSweepTx")
			// the transaction's lock time: an input's required lock time is
			// adopted only when it is reached and equals the one adopted so far
			nLT := 0
			for _, s := range f.Assigns(an.LocalNamed("locktime"), false) {
				as := s.Node.(*ast.AssignStmt)
				if as.Tok == token.DEFINE || an.Text(as.Rhs[0]) == "int32(-1)" {
					continue
				}
				nLT++
				o.Site("locktime = %s", an.Text(as.Rhs[0]))
				if an.Text(as.Rhs[0]) != "int32(lt)" {
					o.FailAt(f.ID+"#locktime-value", s.Where(), "the lock time adopted is %s", an.Text(as.Rhs[0]))
				}
				guarded(o, f, s, an.Truth(an.LocalNamed("ok"), true, "the input requires a lock time"))
				guarded(o, f, s, an.CmpX(an.LocalNamed("lt"), an.LE, canonTerm(`^\$p\d$`), "lt <= uint32(currentHeight)"))
				guarded(o, f, s, an.AnyOf("no lock time adopted yet, or the same one",
					an.CmpX(an.LocalNamed("locktime"), an.EQ, canonTerm(`^-1$`), ""),
					an.CmpX(an.LocalNamed("locktime"), an.EQ, an.LocalNamed("lt"), "")))
			}
			if nLT != 1 {
				o.FailAt(f.ID+"#locktime-sites", f.Where(f.Body.Pos()), "expected one place that adopts an input's lock time, found %d", nLT)
			}
			ca := f.Assigns(an.LocalNamed("changeAmt"), false)
			if need(o, f, "changeAmt", ca, 1) {
				c := f.Canon(ca[0].Node.(*ast.AssignStmt).Rhs[0])
				o.Site("changeAmt = %s", an.Text(ca[0].Node.(*ast.AssignStmt).Rhs[0]))
				if an.Text(ca[0].Node.(*ast.AssignStmt).Rhs[0]) != "totalInput - requiredOutput - txFee" {
					o.FailAt(f.ID+"#change-amount", ca[0].Where(), "changeAmt is %s", c)
				}
				guarded(o, f, ca[0], an.CmpX(canonTerm(`.*`), an.LE, an.LocalNamed("totalInput"), "requiredOutput + txFee <= totalInput"))
			}
			floor := an.LocalNamed("changeFloor")
			amt := an.LocalNamed("changeAmt")
			var toFee, toChange []an.Site
			for _, v := range f.Graph().V {
				as, ok := v.Node.(*ast.AssignStmt)
				if !ok || len(as.Lhs) != 1 {
					continue
				}
				s := an.Site{Fn: f, V: v, Node: as}
				switch {
				case an.Text(as.Lhs[0]) == "txFee" && as.Tok == token.ADD_ASSIGN:
					if an.Text(as.Rhs[0]) != "changeAmt" {
						o.FailAt(f.ID+"#fee-add", s.Where(), "the fee is increased by %s", an.Text(as.Rhs[0]))
					}
					toFee = append(toFee, s)
					guarded(o, f, s, an.CmpX(amt, an.LT, floor, "changeAmt < changeFloor"))
				case an.Text(as.Lhs[0]) == "txFee" && as.Tok != token.DEFINE:
					o.FailAt(f.ID+"#fee-write", s.Where(), "unexpected fee update %s", an.Text(as))
				case an.Text(as.Lhs[0]) == "changeOuts" && isAppend(f, as.Rhs[0]) && kvText(as.Rhs[0], "IsExtra") == "false":
					toChange = append(toChange, s)
					guarded(o, f, s, an.CmpX(amt, an.GE, floor, "changeAmt >= changeFloor"))
					if kvText(as.Rhs[0], "Value") != "int64(changeAmt)" {
						o.FailAt(f.ID+"#change-value", s.Where(), "the change output carries %s, expected changeAmt", kvText(as.Rhs[0], "Value"))
					}
				}
			}
			need(o, f, "txFee += changeAmt", toFee, 1)
			need(o, f, "change output", toChange, 1)
			stop := map[*an.FlowVertex]bool{}
			for _, s := range append(toFee, toChange...) {
				stop[s.V] = true
			}
			if len(ca) == 1 {
				reach := f.Graph().Reach(ca[0].V, nil, stop)
				for _, s := range f.Returns() {
					rs := s.Node.(*ast.ReturnStmt)
					if !an.IsNilIdent(f.Info(), rs.Results[3]) {
						continue
					}
					o.Site("success exit %s", s.String())
					if reach[s.V] {
						o.FailAt(f.ID+"#leftover-lost", s.Where(), "prepareSweepTx can succeed with the leftover amount neither in a change output nor in the reported fee")
					}
					if an.Text(rs.Results[0]) != "txFee" {
						o.FailAt(f.ID+"#reported-fee", s.Where(), "the reported fee is %s", an.Text(rs.Results[0]))
					}
				}
			}
			for _, s := range f.Assigns(floor, false) {
				c := f.Canon(s.Node.(*ast.AssignStmt).Rhs[0])
				o.Site("changeFloor = %s", c)
				if !strings.Contains(c, "DustLimitForSize(len($p1.DeliveryAddress))") {
					o.FailAt(f.ID+"#dust-floor", s.Where(), "the dust floor is %s", c)
				}
			}
		})

	r.Obl("rbf-loop-exits", "PATH",
		"createRBFCompliantTx returns a record only below a nil error of createAndCheckTx in that iteration; every other exit is an error; within the loop the fee changes only through feeFunction.Increment, whose error leaves the loop",
		"a record returned after a failed check publishes a transaction the mempool test or the budget rejected", 3,
		func(o *an.Obl) {
			f := p.Func(tp + "createRBFCompliantTx")
			chk := f.Calls(an.CalleeIs(tp+"createAndCheckTx"), false)
			if !need(o, f, "createAndCheckTx", chk, 1) {
				return
			}
			for _, s := range f.Returns() {
				rs := s.Node.(*ast.ReturnStmt)
				if an.IsNilIdent(f.Info(), rs.Results[1]) {
					mustPass(o, f, "createAndCheckTx", chk, an.OkErrNil, []an.Site{s})
					guarded(o, f, s, an.IsNil(an.LocalNamed("err"), true, "err == nil"))
				} else if !an.IsNilIdent(f.Info(), rs.Results[0]) {
					o.FailAt(f.ID+"#error-with-record", s.Where(), "a record is returned together with an error")
				}
			}
			incs := f.Calls(an.CalleeNamed("Increment"), false)
			if need(o, f, "feeFunction.Increment", incs, 1) {
				// a failed Increment (budget used up) ends the attempt
				var succ []an.Site
				for _, s := range f.Returns() {
					if an.IsNilIdent(f.Info(), s.Node.(*ast.ReturnStmt).Results[1]) {
						succ = append(succ, s)
					}
				}
				failureStops(o, f, "feeFunction.Increment", incs, an.OkErrNil, append(succ, chk...), "another createAndCheckTx round or a successful return")
			}
			for _, s := range f.AllCalls(false) {
				id := an.CalleeID(f.Info(), s.Node.(*ast.CallExpr))
				if strings.HasSuffix(id, ".IncreaseFeeRate") || strings.HasSuffix(id, ".increaseFeeRate") {
					o.FailAt(f.ID+"#other-bump", s.Where(), "the RBF loop changes the fee through %s", id)
				}
			}
		})
}

// kvText returns the source text of the value of the first key: value pair
// named key inside n.
func kvText(n ast.Node, key string) string {
	out := ""
	ast.Inspect(n, func(m ast.Node) bool {
		if kv, ok := m.(*ast.KeyValueExpr); ok && out == "" && an.Text(kv.Key) == key {
			out = an.Text(kv.Value)
		}
		return out == ""
	})
	return out
}
