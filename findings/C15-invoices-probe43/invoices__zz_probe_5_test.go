package invoices_test

import (
	"testing"
	"time"

	"github.com/lightningnetwork/lnd/chainntnfs"
	"github.com/lightningnetwork/lnd/clock"
	invpkg "github.com/lightningnetwork/lnd/invoices"
	"github.com/stretchr/testify/require"
)

// TestProbeDuplicateHtlcEarlierExpiry: a hold invoice is accepted with htlc A
// (expiry 15). A second legacy htlc B with the earlier expiry 5 is then taken
// as a duplicate (resultDuplicateToAccepted) and held too. The height based
// expiry watcher exists to cancel a held invoice before the expiry of ANY of
// its held htlcs, so the invoice must be canceled when height 5 is reached.
//
// OBSERVED on the unmodified tree (KV and SQLite): the invoice is handed to the
// watcher on resultAccepted only (with min expiry 15); at height 5 nothing
// happens, htlc B stays held past its expiry.
func TestProbeDuplicateHtlcEarlierExpiry(t *testing.T) {
	t.Run("KV", func(t *testing.T) {
		probeDuplicateHtlcEarlierExpiry(t, probeMakeKV)
	})
	t.Run("SQLite", func(t *testing.T) {
		probeDuplicateHtlcEarlierExpiry(t, probeMakeSQLite)
	})
}

func probeDuplicateHtlcEarlierExpiry(t *testing.T,
	makeDB func(t *testing.T) (invpkg.InvoiceDB, *clock.TestClock)) {

	defer timeout()()

	ctx := newTestContext(t, nil, makeDB)
	ctxb := t.Context()

	testInvoice := newInvoice(t, false, false)
	testInvoice.HodlInvoice = true
	testInvoice.PaymentRequest = []byte{1, 2, 3}
	_, err := ctx.registry.AddInvoice(
		ctxb, testInvoice, testInvoicePaymentHash,
	)
	require.NoError(t, err)

	hodlChan := make(chan interface{}, 2)

	// Htlc A, expiry 15.
	resolution, err := ctx.registry.NotifyExitHopHtlc(
		testInvoicePaymentHash, testInvoice.Terms.Value,
		testHtlcExpiry+10, testCurrentHeight, getCircuitKey(1),
		hodlChan, nil, testPayload,
	)
	require.NoError(t, err)
	require.Nil(t, resolution)

	inv, err := ctx.registry.LookupInvoice(ctxb, testInvoicePaymentHash)
	require.NoError(t, err)
	require.Equal(t, invpkg.ContractAccepted, inv.State)

	// Htlc B, a duplicate with the earlier expiry 5.
	resolution, err = ctx.registry.NotifyExitHopHtlc(
		testInvoicePaymentHash, testInvoice.Terms.Value,
		testHtlcExpiry, testCurrentHeight, getCircuitKey(2),
		hodlChan, nil, testPayload,
	)
	require.NoError(t, err)
	require.Nil(t, resolution, "htlc B was expected to be held")

	inv, err = ctx.registry.LookupInvoice(ctxb, testInvoicePaymentHash)
	require.NoError(t, err)
	require.Len(t, inv.Htlcs, 2)
	require.Equal(
		t, invpkg.HtlcStateAccepted, inv.Htlcs[getCircuitKey(2)].State,
	)

	// Mine up to the expiry of htlc B. The mock blocks until the watcher
	// has consumed each height.
	for _, h := range []int32{
		int32(testHtlcExpiry - 1), int32(testHtlcExpiry),
		int32(testHtlcExpiry + 1),
	} {
		ctx.notifier.blockChan <- &chainntnfs.BlockEpoch{Height: h}
	}

	select {
	case res := <-hodlChan:
		checkFailResolution(
			t, res.(invpkg.HtlcResolution), invpkg.ResultCanceled,
		)

	case <-time.After(2 * time.Second):
		inv, err = ctx.registry.LookupInvoice(
			ctxb, testInvoicePaymentHash,
		)
		require.NoError(t, err)
		t.Fatalf("height %d is past the expiry %d of held htlc B, "+
			"invoice state %v, htlc B state %v: not canceled",
			testHtlcExpiry+1, testHtlcExpiry, inv.State,
			inv.Htlcs[getCircuitKey(2)].State)
	}
}
