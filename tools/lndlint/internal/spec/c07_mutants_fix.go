package spec

// Witnesses restoring the shape the repair 24be704 removed, plus a variant.
func init() {
	registry["C07"].Mutants = append(registry["C07"].Mutants, []Mutant{
		{Name: "fixrev-replayed-malformed-fail-not-converted", File: "htlcswitch/switch.go",
			Old:    "\t\t\t\tif len(msg.Reason) == convertedSize {\n\t\t\t\t\tfailPacket.convertedError = true\n\t\t\t\t}\n",
			New:    "\t\t\t\t_ = convertedSize\n",
			Expect: "replayed-responses-are-built-like-the-first-delivery"},
		{Name: "replayed-fail-always-converted", File: "htlcswitch/switch.go",
			Old:    "\t\t\t\tif len(msg.Reason) == convertedSize {\n\t\t\t\t\tfailPacket.convertedError = true\n\t\t\t\t}\n",
			New:    "\t\t\t\tif len(msg.Reason) <= convertedSize {\n\t\t\t\t\tfailPacket.convertedError = true\n\t\t\t\t}\n",
			Expect: "replayed-responses-are-built-like-the-first-delivery"},
		{Name: "replayed-settle-without-dest-ref", File: "htlcswitch/switch.go",
			Old:    "\t\t\t\t\toutgoingHTLCID: msg.ID,\n\t\t\t\t\tdestRef: &channeldb.SettleFailRef{\n\t\t\t\t\t\tSource: fwdPkg.Source,\n\t\t\t\t\t\tHeight: fwdPkg.Height,\n\t\t\t\t\t\tIndex:  uint16(i),\n\t\t\t\t\t},\n\t\t\t\t\thtlc: msg,\n\t\t\t\t}\n\n\t\t\t\t// If the failure",
			New:    "\t\t\t\t\toutgoingHTLCID: msg.ID,\n\t\t\t\t\thtlc: msg,\n\t\t\t\t}\n\n\t\t\t\t// If the failure",
			Expect: "replayed-responses-are-built-like-the-first-delivery"},
	}...)
}
