package htlcswitch

import (
	"math/big"
	"testing"

	"github.com/lightningnetwork/lnd/graph/db/models"
	"github.com/lightningnetwork/lnd/lnwire"
	"github.com/stretchr/testify/require"
)

// newSeedDemoLink builds a bare link around a real test channel, the same way
// TestCheckHtlcForward does.
func newSeedDemoLink(t *testing.T,
	policy models.ForwardingPolicy) *channelLink {

	t.Helper()

	testChannel, _, err := createTestChannel(
		t, alicePrivKey, bobPrivKey, 100000, 100000, 1000, 1000,
		lnwire.ShortChannelID{},
	)
	require.NoError(t, err)

	link := &channelLink{
		cfg: ChannelLinkConfig{
			FwrdingPolicy: policy,
			FetchLastChannelUpdate: func(lnwire.ShortChannelID) (
				*lnwire.ChannelUpdate1, error) {

				return &lnwire.ChannelUpdate1{}, nil
			},
			MaxOutgoingCltvExpiry: DefaultMaxOutgoingCltvExpiry,
			HtlcNotifier:          &mockHTLCNotifier{},
		},
		log:     log,
		channel: testChannel.channel,
	}
	link.attachFailAliasUpdate(func(lnwire.ShortChannelID,
		bool) *lnwire.ChannelUpdate1 {

		return nil
	})

	return link
}

// seedDemoFeeOracle decides the fee rule with unbounded integers: the HTLC
// may be forwarded only if out <= in and in-out covers base + proportional
// outbound fee plus the (signed) inbound fee.
func seedDemoFeeOracle(policy models.ForwardingPolicy, in, out uint64,
	inbound models.InboundFee) bool {

	bIn := new(big.Int).SetUint64(in)
	bOut := new(big.Int).SetUint64(out)
	if bOut.Cmp(bIn) > 0 {
		return false
	}

	million := big.NewInt(1_000_000)

	outFee := new(big.Int).Mul(bOut, big.NewInt(int64(policy.FeeRate)))
	outFee.Quo(outFee, million)
	outFee.Add(outFee, big.NewInt(int64(policy.BaseFee)))

	// Inbound fee is charged on out+outFee, truncated towards zero.
	base := new(big.Int).Add(bOut, outFee)
	inFee := new(big.Int).Mul(base, big.NewInt(int64(inbound.Rate)))
	inFee.Quo(inFee, million)
	inFee.Add(inFee, big.NewInt(int64(inbound.Base)))

	expected := new(big.Int).Add(outFee, inFee)
	actual := new(big.Int).Sub(bIn, bOut)

	return actual.Cmp(expected) >= 0
}

// TestSeedDemoNoForwardAtALoss shows that a link never forwards more than it
// received, even if the inbound discount of the incoming channel is larger
// than the outbound fee of the outgoing channel (so that the "expected fee" is
// negative).
func TestSeedDemoNoForwardAtALoss(t *testing.T) {
	policy := models.ForwardingPolicy{
		TimeLockDelta: 20,
		MinHTLCOut:    500,
		MaxHTLC:       1000,
		BaseFee:       10,
	}
	link := newSeedDemoLink(t, policy)

	var hash [32]byte

	// Inbound discount of 10 msat + 10%: for 1000 msat out the outbound
	// fee is 10, the inbound fee is -10 - 101 = -111, the sum is -101.
	inbound := models.InboundFee{Base: -10, Rate: -100_000}

	// The sender hands us 899 msat and asks us to pass on 1000 msat. That
	// "pays" the negative total fee of -101 exactly, but we would be
	// paying 101 msat out of our own pocket.
	result := link.CheckHtlcForward(
		hash, 899, 1000, 200, 150, inbound, 0,
		lnwire.ShortChannelID{}, nil,
	)
	require.NotNil(t, result, "forwarded 1000 msat for an incoming "+
		"htlc of only 899 msat")
	_, ok := result.WireMessage().(*lnwire.FailFeeInsufficient)
	require.True(t, ok, "expected FailFeeInsufficient, got %T",
		result.WireMessage())

	// Sweep the neighbourhood of the boundary and compare every verdict
	// of the fee rule with exact arithmetic.
	inbounds := []models.InboundFee{
		{},
		{Base: -2, Rate: -1_000},
		{Base: -10, Rate: -100_000},
		{Base: -500},
		{Rate: -1_000_000},
		{Base: 5, Rate: 1_000},
	}
	for _, inb := range inbounds {
		for out := uint64(990); out <= 1000; out++ {
			for in := uint64(0); in <= 1100; in++ {
				res := link.CheckHtlcForward(
					hash, lnwire.MilliSatoshi(in),
					lnwire.MilliSatoshi(out), 200, 150,
					inb, 0, lnwire.ShortChannelID{}, nil,
				)
				want := seedDemoFeeOracle(policy, in, out, inb)
				require.Equalf(t, want, res == nil,
					"in=%d out=%d inbound=%+v: oracle "+
						"accept=%v, link err=%v",
					in, out, inb, want, res)
			}
		}
	}
}
