package invoices_test

import (
	"testing"

	invpkg "github.com/lightningnetwork/lnd/invoices"
	"github.com/lightningnetwork/lnd/record"
	"github.com/stretchr/testify/require"
)

// Probe 4: an MPP htlc with the right payment hash but a payment address that
// belongs to no invoice must get the same verdict on both stores. The KV store
// falls back to the hash index (fetchInvoiceNumByRef) and updateMpp answers
// ResultAddressMismatch; the SQL store (getInvoiceByRef) calls any address
// mismatch an equivocation and the htlc is failed with ResultInvoiceNotFound.
func TestProbe4WrongAddrRightHashSameVerdict(t *testing.T) {
	runProbe(t, func(t *testing.T, makeDB probeMakeDB) {
		defer timeout()()

		ctx := newTestContext(t, nil, makeDB)
		ctxb := t.Context()

		inv := newInvoice(t, false, false)
		inv.Terms.PaymentAddr = [32]byte{1}
		_, err := ctx.registry.AddInvoice(
			ctxb, inv, testInvoicePaymentHash,
		)
		require.NoError(t, err)

		wrongAddr := [32]byte{2}

		// Store level: a hash+addr reference whose address is unknown
		// resolves through the hash.
		_, err = ctx.idb.LookupInvoice(ctxb, invpkg.InvoiceRefByHashAndAddr(
			testInvoicePaymentHash, wrongAddr,
		))
		if err != nil {
			t.Errorf("SUSPECT: lookup by right hash and unknown "+
				"address: %v", err)
		}

		res, err := ctx.registry.NotifyExitHopHtlc(
			testInvoicePaymentHash, testInvoiceAmount, testHtlcExpiry,
			testCurrentHeight, getCircuitKey(0), nil, nil,
			&mockPayload{
				mpp: record.NewMPP(testInvoiceAmount, wrongAddr),
			},
		)
		require.NoError(t, err)
		fail, ok := res.(*invpkg.HtlcFailResolution)
		require.True(t, ok)
		if fail.Outcome != invpkg.ResultAddressMismatch {
			t.Errorf("SUSPECT: verdict %v instead of %v",
				fail.Outcome, invpkg.ResultAddressMismatch)
		}
	})
}
