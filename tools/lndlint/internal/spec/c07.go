package spec

import (
	"go/ast"
	"strings"

	"lndlint/internal/an"
)

var circuitLock = an.LockSpec{
	Pkg: "htlcswitch", Type: "circuitMap", Mutex: "mtx",
	Fields:      []string{"pending", "opened", "closed", "hashIndex"},
	Constructor: "htlcswitch.NewCircuitMap",
	ConstructorPhase: map[string]string{
		"htlcswitch.circuitMap.restoreMemState": "called from NewCircuitMap before the map is returned",
	},
}

func init() {
	register(&Spec{
		ID:          "C07",
		Loads:       []LoadSpec{{Patterns: []string{"./htlcswitch", "./lnwallet", "./chanstate"}}},
		Explanation: "Decides the lock discipline of the circuit map (every access to pending/opened/closed/hashIndex under mtx, helpers only from lock holders, restore only during construction), that the closing test-and-set is one critical section, the commit decision table (found/keystone/loaded-from-disk -> add/drop/fail), that a failed batch write rolls back exactly the circuits this call inserted, that memory follows disk for opening and deleting, that only a circuit closed through closeCircuit is delivered back, that only committed adds are routed, that keystones are opened before signing, that both trim callers use the channel's next local HTLC index, that circuits of fully closed channels awaiting an on-chain resolution are kept, the PaymentCircuit codec, and that the commit diff carries the circuit keys and forwarding references.",
		NotDecided: []string{
			"interleavings beyond what the critical sections imply", "that the set of restored circuits equals the durable set for every history",
			"mailbox redelivery timing",
		},
		Assumptions: commonAssumptions,
		Engines:     "LOCK (must-held lock dataflow), TABLE, PATH, GUARD, WHO, CODEC",
		Run:         runC07,
	})
}

const hs = "htlcswitch."

func runC07(r *an.Run) {
	p := r.Prog

	r.Obl("circuit-map-lock-discipline", "LOCK",
		"every read of circuitMap.pending/opened/closed/hashIndex happens with mtx held (read or write), every write with the write lock, on all paths; unexported helpers are entered with the lock by every caller; restoreMemState runs only during construction",
		"two concurrent responses for one circuit must not both find it open; an unlocked access makes the at-most-one-response guarantee depend on scheduling", 30,
		func(o *an.Obl) { p.CheckLocks(o, circuitLock) })

	r.Obl("closing-test-and-set-atomic", "LOCK",
		"FailCircuit and CloseCircuit take the write lock once, release it only by defer (also inside function literals), look the circuit up under their key parameter and test `closed` under the very key they then insert (the incoming key of the circuit found), act on the unmodified results of those two lookups, insert into `closed` only after the circuit was found and `closed` did not contain it, never remove from `closed`, and return the circuit only on that path; the switch reaches FailCircuit/CloseCircuit only through closeCircuit, which hands out a circuit only as the result of one of them and only when that call returned no error",
		"this is the one place that turns two competing settle/fail packets into exactly one delivery", 8,
		func(o *an.Obl) {
			for _, name := range []string{"FailCircuit", "CloseCircuit"} {
				f := p.Func(hs + "circuitMap." + name)
				ins := f.Assigns(func(fn *an.Func, e ast.Expr) bool {
					ix, ok := e.(*ast.IndexExpr)
					return ok && an.Field(hs+"circuitMap", "closed", nil)(fn, ast.Unparen(ix.X))
				}, false)
				if len(ins) != 1 {
					o.FailAt(f.ID+"#closed-insert", f.Where(f.Body.Pos()), "expected one insertion into closed, found %d", len(ins))
					continue
				}
				if lvl := p.LockLevelAt(circuitLock, ins[0]); lvl != 2 {
					o.FailAt(f.ID+"#insert-unlocked", ins[0].Where(), "insertion into closed at lock level %d", lvl)
				}
				c07CriticalSection(o, f, name, ins[0])
			}
			c07CloseCircuitReturns(o, p)
			w := r.Wide()
			for _, m := range []string{"FailCircuit", "CloseCircuit"} {
				w.WhoMay(o, hs+"CircuitMap."+m, w.RefsTo(w.Method("htlcswitch", "circuitMap", m), true),
					map[string]string{hs + "Switch.closeCircuit": "single entry point for responses"}, []string{hs + "Switch.closeCircuit"})
			}
		})

	r.Obl("commit-circuits-table", "TABLE",
		"CommitCircuits per circuit: not pending -> inserted into pending and appended to adds (and addFails); pending with keystone -> drops; pending without keystone and not loaded from disk -> drops; pending, no keystone, loaded from disk -> fails (and addFails)",
		"a duplicate forward of an HTLC that is already committed must be dropped, and one whose packet was lost in a restart must be failed back, never forwarded again", 4,
		func(o *an.Obl) {
			f := p.Func(hs + "circuitMap.CommitCircuits")
			var found, ks, disk string
			for _, v := range f.Graph().V {
				c := f.AtomCanon(v)
				switch {
				case strings.HasSuffix(c, ".HasKeystone()"):
					ks = c
				case strings.HasSuffix(c, ".LoadedFromDisk"):
					disk = c
				case strings.HasSuffix(c, "#1") && strings.Contains(c, ".pending["):
					found = c
				}
			}
			if found == "" || ks == "" || disk == "" {
				// the `ok` of the comma-ok lookup is a local; find it by name
				for _, v := range f.Graph().V {
					if id, isId := v.Node.(*ast.Ident); isId && v.Kind.String() == "cond" && id.Name == "ok" {
						found = f.AtomCanon(v)
					}
				}
			}
			if found == "" || ks == "" || disk == "" {
				o.FailAt(f.ID+"#atoms", f.Where(f.Body.Pos()), "cannot find the decision atoms (found=%q keystone=%q disk=%q)", found, ks, disk)
				return
			}
			kind := func(s an.Site) string {
				as := s.Node.(*ast.AssignStmt)
				if ix, isIx := ast.Unparen(as.Lhs[0]).(*ast.IndexExpr); isIx && strings.HasSuffix(f.Canon(ix.X), ".pending") {
					return "insert"
				}
				if id, isId := as.Lhs[0].(*ast.Ident); isId && isAppend(f, as.Rhs[0]) {
					return id.Name
				}
				return ""
			}
			var sites []an.Site
			for _, v := range f.Graph().V {
				if as, isAs := v.Node.(*ast.AssignStmt); isAs && len(as.Lhs) == 1 && len(as.Rhs) == 1 {
					s := an.Site{Fn: f, V: v, Node: as}
					switch kind(s) {
					case "insert", "adds", "drops", "fails", "addFails":
						sites = append(sites, s)
					}
				}
			}
			atoms := []string{found, ks, disk}
			for _, val := range an.Valuations(atoms) {
				// evaluate one loop iteration: reach from the loop head with
				// the valuation, stopping at the back edge (range head)
				var head *an.Site
				for _, v := range f.Graph().V {
					if v.Kind.String() == "range" {
						if rs, isR := v.Node.(*ast.RangeStmt); isR && f.Canon(rs.X) == "$p0" && len(sites) > 0 && rs.Pos() <= sites[0].Node.Pos() && sites[0].Node.End() <= rs.End() {
							s := an.Site{Fn: f, V: v}
							head = &s
						}
					}
				}
				if head == nil {
					o.FailAt(f.ID+"#loop", f.Where(f.Body.Pos()), "cannot find the loop over the circuits")
					return
				}
				var body = head.V.Out[0].To
				for _, e := range head.V.Out {
					if e.Kind == 4 { // flow.ERangeIn
						body = e.To
					}
				}
				reach := f.ReachUnderStop(body, an.ByCanon(val), map[*an.FlowVertex]bool{head.V: true})
				got := map[string]bool{}
				for _, s := range sites {
					if reach[s.V] {
						got[kind(s)] = true
					}
				}
				var want []string
				switch {
				case !val[found]:
					want = []string{"addFails", "adds", "insert"}
				case val[ks]:
					want = []string{"drops"}
				case !val[disk]:
					want = []string{"drops"}
				default:
					want = []string{"addFails", "fails"}
				}
				var gl []string
				for k := range got {
					gl = append(gl, k)
				}
				sortStrings(gl)
				o.Site("found=%v keystone=%v loadedFromDisk=%v -> %v", val[found], val[ks], val[disk], gl)
				if strings.Join(gl, ",") != strings.Join(want, ",") {
					o.FailAt(f.ID+"#commit-table", f.Where(f.Body.Pos()), "CommitCircuits: for found=%v keystone=%v loadedFromDisk=%v the circuit goes to %v, expected %v", val[found], val[ks], val[disk], gl, want)
				}
			}
		})

	r.Obl("memory-follows-disk", "PATH",
		"CommitCircuits reports Adds and keeps the inserted circuits only after the batch write succeeded; on failure it deletes from pending exactly the circuits this call inserted (the rolled-back list is appended only for circuits that were not already pending); OpenCircuits updates opened/hashIndex only after the keystone write succeeded, rejects duplicates (every ErrDuplicateKeystone return) before the write and admits a keystone's circuit to the batch only where the lookup of the keystone's outgoing key in `opened` answered false (the further freshness conditions of repair d742950 are open-circuits-batch-binds-fresh-keys); DeleteCircuits restores every removed circuit when the delete fails",
		"after a restart the switch must know exactly the durably recorded circuits; a rollback that removes circuits which are still on disk makes the same HTLC both failed back and forwarded", 10,
		func(o *an.Obl) {
			f := p.Func(hs + "circuitMap.CommitCircuits")
			batch := f.Calls(kvUpdate, false)
			if !need(o, f, "kvdb.Batch", batch, 1) {
				return
			}
			// actions.Adds = X only on the ok edge
			addsAsg := f.Assigns(an.Field(hs+"CircuitFwdActions", "Adds", nil), false)
			if need(o, f, "actions.Adds assignment", addsAsg, 1) {
				mustPass(o, f, "kvdb.Batch", batch, an.OkErrNil, addsAsg)
			}
			// rollback loop
			var del []an.Site
			for _, s := range f.Calls(an.CalleeIs("builtin.delete"), false) {
				if strings.HasSuffix(f.ArgCanon(s)[0], ".pending") {
					del = append(del, s)
				}
			}
			if len(del) != 1 {
				o.FailAt(f.ID+"#rollback-delete", f.Where(f.Body.Pos()), "expected one rollback delete from pending, found %d", len(del))
			} else {
				// only on the failure side of the batch
				es, _ := f.UnionOk(batch, an.OkErrNil)
				g := f.Graph()
				reachOK := map[*an.FlowVertex]bool{}
				for e := range es {
					for v := range g.Reach(e.To, nil, nil) {
						reachOK[v] = true
					}
				}
				if reachOK[del[0].V] {
					o.FailAt(f.ID+"#rollback-on-success", del[0].Where(), "pending circuits are deleted on the success path")
				}
				hdr := enclosingLoopHeader(f, del[0].Node)
				o.Site("rollback ranges over %s", hdr)
				// the ranged slice: every append to it must be below "not
				// already pending"
				var rolled string
				ast.Inspect(f.Body, func(n ast.Node) bool {
					if rs, isR := n.(*ast.RangeStmt); isR && rs.Pos() <= del[0].Node.Pos() && del[0].Node.End() <= rs.End() {
						if id, isId := rs.X.(*ast.Ident); isId {
							rolled = id.Name
						}
					}
					return true
				})
				if rolled == "" {
					o.FailAt(f.ID+"#rollback-source", del[0].Where(), "cannot identify the list the rollback iterates")
				} else {
					notPending := an.Truth(an.LocalNamed("ok"), false, "circuit was not already pending")
					n := 0
					for _, s := range f.Assigns(an.LocalNamed(rolled), false) {
						if as, isAs := s.Node.(*ast.AssignStmt); isAs && len(as.Rhs) == 1 && isAppend(f, as.Rhs[0]) {
							n++
							guarded(o, f, s, notPending)
						}
					}
					if n == 0 {
						o.FailAt(f.ID+"#rollback-appends", del[0].Where(), "no append to the rolled-back list %s found", rolled)
					}
					// and it is the list reported as Adds
					if len(addsAsg) == 1 && an.Text(addsAsg[0].Node.(*ast.AssignStmt).Rhs[0]) != rolled {
						o.FailAt(f.ID+"#rollback-vs-adds", del[0].Where(), "the rollback iterates %s but the circuits reported as added are %s", rolled, an.Text(addsAsg[0].Node.(*ast.AssignStmt).Rhs[0]))
					}
				}
			}
			g := p.Func(hs + "circuitMap.OpenCircuits")
			upd := g.Calls(kvUpdate, false)
			var memWrites []an.Site
			memWrites = append(memWrites, g.Assigns(func(fn *an.Func, e ast.Expr) bool {
				ix, ok := e.(*ast.IndexExpr)
				return ok && an.Field(hs+"circuitMap", "opened", nil)(fn, ast.Unparen(ix.X))
			}, false)...)
			memWrites = append(memWrites, g.Calls(an.CalleeIs(hs+"circuitMap.addCircuitToHashIndex"), false)...)
			memWrites = append(memWrites, g.Assigns(an.Field(hs+"PaymentCircuit", "Outgoing", nil), false)...)
			if need(o, g, "kvdb.Update", upd, 1) && need(o, g, "in-memory opening", memWrites, 3) {
				mustPass(o, g, "keystone write", upd, an.OkErrNil, memWrites)
			}
			// duplicate keystones are rejected before the write: every
			// ErrDuplicateKeystone return precedes it (since repair d742950 there
			// are several: outgoing key open or used earlier in the batch,
			// circuit bound otherwise), and a circuit is admitted to the batch
			// only where `opened` has nothing under the keystone's outgoing key
			for _, s := range upd {
				rets := g.Returns()
				nDup := 0
				for _, ret := range rets {
					if rs, isR := ret.Node.(*ast.ReturnStmt); isR && len(rs.Results) == 1 && strings.HasSuffix(g.Canon(rs.Results[0]), "ErrDuplicateKeystone") {
						nDup++
						o.Site("duplicate keystone rejected at %s", ret.Where())
						if !g.Graph().Reach(g.Graph().Entry, nil, map[*an.FlowVertex]bool{s.V: true})[ret.V] {
							o.FailAt(g.ID+"#dup-after-write", ret.Where(), "the duplicate keystone check happens after the write")
						}
					}
				}
				if nDup < 1 {
					o.FailAt(g.ID+"#dup-check", g.Where(g.Body.Pos()), "expected at least one ErrDuplicateKeystone rejection before the write, found %d", nDup)
				}
			}
			c07f5OpenedKeyFree(o, g)
			d := p.Func(hs + "circuitMap.DeleteCircuits")
			dBatch := d.Calls(kvUpdate, false)
			var restore []an.Site
			restore = append(restore, d.Assigns(func(fn *an.Func, e ast.Expr) bool {
				ix, ok := e.(*ast.IndexExpr)
				return ok && (an.Field(hs+"circuitMap", "pending", nil)(fn, ast.Unparen(ix.X)) ||
					an.Field(hs+"circuitMap", "closed", nil)(fn, ast.Unparen(ix.X)) || an.Field(hs+"circuitMap", "opened", nil)(fn, ast.Unparen(ix.X)))
			}, false)...)
			if need(o, d, "kvdb.Batch", dBatch, 1) {
				es, _ := d.UnionOk(dBatch, an.OkErrNil)
				n := 0
				for _, s := range restore {
					if d.Graph().Reach(dBatch[0].V, nil, nil)[s.V] {
						n++
						o.Site("restore on failure: %s", s.String())
						// must not be reachable through the ok edge
						okReach := false
						for e := range es {
							if d.Graph().Reach(e.To, nil, nil)[s.V] {
								okReach = true
							}
						}
						if okReach {
							o.FailAt(d.ID+"#restore-on-success", s.Where(), "a deleted circuit is re-inserted on the success path")
						}
					}
				}
				if n < 3 {
					o.FailAt(d.ID+"#restore-missing", d.Where(d.Body.Pos()), "expected pending, closed and opened to be restored when the delete fails, found %d restores", n)
				}
			}
		})

	r.Obl("only-closed-circuits-are-delivered", "PATH",
		"the switch's mailOrchestrator.Deliver sites are tabled: handlePacketSettle and handlePacketFail deliver only after closeCircuit succeeded (and, for settles, returned a circuit); failAddPacket delivers the failure of an add that was never forwarded; interceptedForward.resolve is the interceptor path; ForwardPackets routes an add only if CommitCircuits listed it under Adds and fails it back only if listed under Fails",
		"a response delivered without closing the circuit, or an add routed without a committed circuit, can be delivered or forwarded twice", 10,
		func(o *an.Obl) {
			allowed := map[string]string{
				hs + "Switch.handlePacketSettle":       "after closeCircuit",
				hs + "Switch.handlePacketFail":         "after closeCircuit",
				hs + "Switch.failAddPacket":            "local failure of an add that was not forwarded",
				hs + "interceptedForward.resolve":      "interceptor resolution",
				hs + "Switch.handleLocalResponse":      "",
				hs + "interceptedForward.FailWithCode": "",
			}
			for _, f := range p.Funcs(false, "htlcswitch") {
				for _, s := range f.Calls(an.CalleeIs(hs+"mailOrchestrator.Deliver"), false) {
					o.Site("Deliver in %s", s.String())
					if _, ok := allowed[f.Root().ID]; !ok {
						o.FailAt("Deliver<-"+f.Root().ID, s.Where(), "unclassified delivery site %s", s.String())
					}
				}
			}
			for _, name := range []string{"handlePacketSettle", "handlePacketFail"} {
				f := p.Func(hs + "Switch." + name)
				cc := f.Calls(an.CalleeIs(hs+"Switch.closeCircuit"), false)
				del := f.Calls(an.CalleeIs(hs+"mailOrchestrator.Deliver"), false)
				if need(o, f, "closeCircuit", cc, 1) && need(o, f, "Deliver", del, 1) {
					mustPass(o, f, "closeCircuit", cc, an.OkErrNil, del)
					if name == "handlePacketSettle" {
						guardedAll(o, f, del, an.IsNil(an.ResultOf(an.CallTo(hs+"Switch.closeCircuit", nil), 0), false, "circuit != nil"))
					}
				}
			}
			fp := p.Func(hs + "Switch.ForwardPackets")
			// appends to the routed / failed lists
			for list, fld := range map[string]string{"addedPackets": "Adds", "failedPackets": "Fails"} {
				for _, s := range fp.Assigns(an.LocalNamed(list), false) {
					if as, isAs := s.Node.(*ast.AssignStmt); isAs && len(as.Rhs) == 1 && isAppend(fp, as.Rhs[0]) {
						guarded(o, fp, s, an.Cmp(an.FieldPath(nil, "circuit"), an.EQ, an.Index(an.FieldPath(nil, fld), an.IntConst(0)), "packet.circuit == actions."+fld+"[0]"))
					}
				}
			}
			// routeAsync: either inside the loop over the list that only
			// receives committed adds, or for a packet that is not an add
			var addedObj interface{}
			for _, s := range fp.Assigns(an.LocalNamed("addedPackets"), false) {
				if as, isAs := s.Node.(*ast.AssignStmt); isAs {
					addedObj = fp.Info().Uses[as.Lhs[0].(*ast.Ident)]
				}
			}
			n := 0
			for _, s := range fp.Calls(an.CalleeIs(hs+"Switch.routeAsync"), false) {
				n++
				inAdded := false
				ast.Inspect(fp.Body, func(x ast.Node) bool {
					if rs, isR := x.(*ast.RangeStmt); isR && rs.Pos() <= s.Node.Pos() && s.Node.End() <= rs.End() {
						if id, isId := rs.X.(*ast.Ident); isId && addedObj != nil && fp.Info().Uses[id] == addedObj {
							inAdded = true
						}
					}
					return true
				})
				o.Site("%s (inside loop over committed adds: %v)", s.String(), inAdded)
				if !inAdded {
					guarded(o, fp, s, an.TypeCaseIs("lnwire.UpdateAddHTLC", false, "packet is not an update_add_htlc"))
				}
			}
			if n != 2 {
				o.FailAt(fp.ID+"#routeAsync-sites", fp.Where(fp.Body.Pos()), "expected two routeAsync sites (responses, committed adds), found %d", n)
			}
		})

	r.Obl("keystones-before-signature", "PATH",
		"channelLink.updateCommitTx opens the batched keystones (durably) before SignNextCommitment; both TrimOpenCircuits callers pass the channel's NextLocalHtlcIndex, which returns an HTLC index on both of its branches: the LocalHtlcIndex of the pending remote commitment if there is one, else of the remote commitment (never a log index)",
		"an outgoing HTLC that reached a commitment without a durable keystone cannot be matched to its incoming HTLC after a restart: the response is lost or the add is re-forwarded", 4,
		func(o *an.Obl) {
			f := p.Func(hs + "channelLink.updateCommitTx")
			open := f.Calls(an.CalleeNamed("OpenCircuits"), false)
			sign := f.Calls(an.CalleeNamed("SignNextCommitment"), false)
			if need(o, f, "OpenCircuits", open, 1) && need(o, f, "SignNextCommitment", sign, 1) {
				mustPass(o, f, "OpenCircuits", open, an.OkErrNil, sign)
				if a := f.ArgCanon(open[0]); len(a) != 1 || !strings.HasSuffix(a[0], ".keystoneBatch") {
					o.FailAt(f.ID+"#keystone-batch", open[0].Where(), "OpenCircuits must receive the link's keystone batch; got %v", a)
				}
			}
			n := 0
			for _, fn := range r.Wide().Funcs(false) {
				for _, s := range fn.Calls(an.CalleeNamed("TrimOpenCircuits"), false) {
					n++
					a := fn.ArgCanon(s)
					o.Site("%s start=%s", s.String(), a[1])
					if !strings.HasSuffix(a[1], ".NextLocalHtlcIndex()") {
						o.FailAt(fn.ID+"#trim-start", s.Where(), "TrimOpenCircuits starts at %s, expected the channel's NextLocalHtlcIndex()", a[1])
					}
					if !strings.HasSuffix(a[0], ".ShortChanID()") || strings.Split(a[0], ".ShortChanID()")[0] != strings.Split(a[1], ".NextLocalHtlcIndex()")[0] && !strings.Contains(a[1], "channel.") {
						o.FailAt(fn.ID+"#trim-channel", s.Where(), "TrimOpenCircuits channel id %s and start index %s come from different channels", a[0], a[1])
					}
				}
			}
			if n < 2 {
				o.FailAt("TrimOpenCircuits#callers", "", "expected two callers of TrimOpenCircuits, found %d", n)
			}
			c07NextLocalHtlcIndex(o, p)
		})

	r.Obl("closed-channel-cleanup-keeps-pending-resolutions", "GUARD",
		"cleanClosedChannels marks a keystone and its circuit for deletion only if the incoming channel is fully closed, or the outgoing channel is fully closed and no resolution message is pending for that outgoing key (CheckResolutionMsg != nil); keystone and circuit are always marked together; pending closes are skipped",
		"a circuit purged while its on-chain resolution is still to be delivered loses the incoming HTLC's settle/fail", 6,
		func(o *an.Obl) {
			f := p.Func(hs + "circuitMap.cleanClosedChannels")
			// closures that mark keys
			marks := 0
			for _, lf := range f.Lits {
				for _, v := range lf.Graph().V {
					as, isAs := v.Node.(*ast.AssignStmt)
					if !isAs || len(as.Lhs) != 1 {
						continue
					}
					ix, isIx := ast.Unparen(as.Lhs[0]).(*ast.IndexExpr)
					if !isIx {
						continue
					}
					id, isId := ix.X.(*ast.Ident)
					if !isId || (id.Name != "circuitKeySet" && id.Name != "keystoneKeySet") {
						continue
					}
					s := an.Site{Fn: lf, V: v, Node: as}
					key := lf.Canon(ix.Index)
					if strings.Contains(key, ".Incoming") {
						// circuit bucket pass: keyed by the decoded circuit
						guarded(o, lf, s, closureCallTruth("Incoming", true))
						continue
					}
					marks++
					fact := an.AnyOf("incoming channel closed, or no pending resolution for the outgoing key",
						closureCallTruth("inKey", true), an.IsNil(canonTerm(`\.CheckResolutionMsg\(`), false, ""))
					guarded(o, lf, s, fact)
				}
			}
			if marks != 4 {
				o.FailAt(f.ID+"#marks", f.Where(f.Body.Pos()), "expected four deletion marks in the keystone pass (keystone+circuit for each of the two cases), found %d", marks)
			}
			// pending closes skipped
			for _, s := range f.Assigns(func(fn *an.Func, e ast.Expr) bool {
				ix, ok := e.(*ast.IndexExpr)
				if !ok {
					return false
				}
				id, ok := ix.X.(*ast.Ident)
				return ok && id.Name == "closedChanIDSet"
			}, false) {
				guarded(o, f, s, an.Truth(an.FieldPath(nil, "IsPending"), false, "!closedChannel.IsPending"))
			}
		})

	r.Obl("circuit-codec-and-commit-diff", "CODEC",
		"PaymentCircuit.Encode/Decode move the same fields in the same order; every circuit restored from disk is marked LoadedFromDisk; createCommitDiff puts the gathered opened/closed circuit keys and add/settle-fail references into the CommitDiff, gathering OpenCircuitKey for added HTLCs and SourceRef/DestRef/ClosedCircuitKey for settles and fails",
		"the commit diff is what makes acking forwarding packages and closing circuits atomic with the signature", 8,
		func(o *an.Obl) {
			p.CheckPair(o, an.CodecPair{Name: "PaymentCircuit", TypePkg: "htlcswitch", TypeName: "PaymentCircuit",
				Enc: []string{hs + "PaymentCircuit.Encode"}, Dec: []string{hs + "PaymentCircuit.Decode"}, MinEvents: 4})
			rm := p.Func(hs + "circuitMap.restoreMemState")
			nLoaded := 0
			for _, lf := range rm.Lits {
				ins := lf.Assigns(func(fn *an.Func, e ast.Expr) bool {
					ix, ok := e.(*ast.IndexExpr)
					if !ok {
						return false
					}
					id, ok := ix.X.(*ast.Ident)
					return ok && id.Name == "pending"
				}, false)
				flag := lf.Assigns(an.Field(hs+"PaymentCircuit", "LoadedFromDisk", nil), false)
				for _, s := range ins {
					nLoaded++
					o.Site("restored circuit inserted at %s", s.String())
					if len(flag) == 0 || !lf.Before(flag, s) {
						o.FailAt(rm.ID+"#LoadedFromDisk", s.Where(), "a circuit is restored into pending without LoadedFromDisk being set first")
					}
					for _, fs := range flag {
						if !an.BoolConst(true)(lf, ast.Unparen(fs.Node.(*ast.AssignStmt).Rhs[0])) {
							o.FailAt(rm.ID+"#LoadedFromDisk-value", fs.Where(), "LoadedFromDisk is set to %s", an.Text(fs.Node))
						}
					}
				}
			}
			if nLoaded != 1 {
				o.FailAt(rm.ID+"#restore-insert", rm.Where(rm.Body.Pos()), "expected one insertion of restored circuits into pending, found %d", nLoaded)
			}
			cd := p.Func(lw + "LightningChannel.createCommitDiff")
			want := map[string]string{"OpenedCircuitKeys": "OpenCircuitKey", "ClosedCircuitKeys": "ClosedCircuitKey", "AddAcks": "SourceRef", "SettleFailAcks": "DestRef"}
			for _, ref := range p.CompositeLitsOf(p.LookupType("chanstate", "CommitDiff")) {
				if ref.Fn == nil || ref.Fn.ID != cd.ID {
					continue
				}
				for _, el := range ref.Node.(*ast.CompositeLit).Elts {
					kv, isKv := el.(*ast.KeyValueExpr)
					if !isKv {
						continue
					}
					k := kv.Key.(*ast.Ident).Name
					src, ok := want[k]
					if !ok {
						continue
					}
					delete(want, k)
					list, isId := kv.Value.(*ast.Ident)
					if !isId {
						o.FailAt(cd.ID+"#"+k, cd.Where(kv.Pos()), "CommitDiff.%s is not one of the gathered lists", k)
						continue
					}
					// appends to that list take *pd.<src>
					n := 0
					for _, s := range cd.Assigns(an.LocalNamed(list.Name), false) {
						if as, isAs := s.Node.(*ast.AssignStmt); isAs && len(as.Rhs) == 1 && isAppend(cd, as.Rhs[0]) {
							n++
							c := cd.Canon(as.Rhs[0])
							o.Site("CommitDiff.%s <- %s", k, an.Text(as.Rhs[0]))
							if !strings.Contains(c, "."+src+")") && !strings.HasSuffix(c, "."+src) {
								o.FailAt(cd.ID+"#"+k+"-source", s.Where(), "CommitDiff.%s gathers %s, expected the update's %s", k, an.Text(as.Rhs[0]), src)
							}
							guarded(o, cd, s, an.IsNil(an.FieldPath(nil, src), false, "pd."+src+" != nil"))
						}
					}
					if n != 1 {
						o.FailAt(cd.ID+"#"+k+"-appends", cd.Where(kv.Pos()), "expected one gathering site for CommitDiff.%s, found %d", k, n)
					}
				}
			}
			for k := range want {
				o.FailAt(cd.ID+"#missing-"+k, cd.Where(cd.Body.Pos()), "createCommitDiff no longer sets CommitDiff.%s", k)
			}
		})

	r.Obl("circuit-key-roles-and-full-trim", "ROLE",
		"the circuit map's `pending` and `closed` sets are keyed by the incoming circuit key and `opened` by the outgoing key (the fields and the locals restoreMemState assigns to them): no function indexes `opened` with an expression it also uses for `pending` or `closed`, an expression made of `.Incoming` / InKey / inKey never indexes `opened` and one made of `.Outgoing` / OutKey / outKey never indexes `pending` or `closed`; a key parameter of a circuit map method has the side of the map it indexes and every caller in htlcswitch passes it a key of that side; NewCircuitMap runs the start-up trim (trimAllOpenCircuits) unconditionally; the trim ranges over exactly the channels FetchAllOpenChannels returned, its loop is left only at the end or with an error, and every iteration reaches TrimOpenCircuits(channel's short id, channel's NextLocalHtlcIndex) unless the channel is pending or has no final short channel id",
		"CloseCircuit and FailCircuit arbitrate through the same `closed` entry: keyed differently, a local failure and a remote response for one HTLC both win and two responses go upstream; a trim that stops early leaves uncommitted keystones open, so the re-forwarded add is dropped instead of failed back", 20,
		func(o *an.Obl) {
			c07KeyRoles(o, p)
			c07StartupTrim(o, p)
		})

	retrySafeClosures(r, []string{"htlcswitch"}, `^htlcswitch\.circuitMap\.`, 6, "the circuit map commits, opens, trims and deletes circuits in kvdb transactions (kvdb.Batch retries by design); a closure that continues from an aborted run writes other circuits than the ones its in-memory mirror is updated with")
}

// closureCallTruth is the fact "a call of a local function value with an
// argument whose printed form mentions argHint evaluates to want".
func closureCallTruth(argHint string, want bool) an.Fact {
	return an.Truth(func(f *an.Func, e ast.Expr) bool {
		c, ok := e.(*ast.CallExpr)
		if !ok || len(c.Args) != 1 {
			return false
		}
		if _, isId := c.Fun.(*ast.Ident); !isId || an.CalleeID(f.Info(), c) != "" {
			return false
		}
		return strings.Contains(an.Text(c.Args[0]), argHint)
	}, want, "isClosedChannel("+argHint+".ChanID)")
}
