package lnwallet

import (
	"testing"

	"github.com/lightningnetwork/lnd/channeldb"
	"github.com/lightningnetwork/lnd/lnwallet/chainfee"
	"github.com/stretchr/testify/assert"
	"github.com/stretchr/testify/require"
)

// TestRestoreLocalFeeUpdatesInLogOrder checks that the channel opener restores
// its own fee updates in log-index order after a restart, so that the newest
// fee update is the one that determines the fee rate of the next commitment.
//
// The opener (alice) has two fee updates in flight when she restarts:
//
//	alice                              bob
//	  ----update_fee(F1)---------------->
//	  ----commit_sig-------------------->
//	  <---revoke_and_ack-----------------   F1 is on bob's commitment, but bob
//	                                        has not signed for it yet: F1 is
//	                                        persisted by alice under "local
//	                                        updates the peer still has to sign"
//	  ----update_fee(F2)---------------->
//	  ----commit_sig-------------------->   F2 is persisted by alice in the
//	                                        pending remote commit diff
//	  (alice restarts)
//	  <---revoke_and_ack-----------------
//	  <---commit_sig---------------------   covers F1 and F2: fee rate is F2
//
// restoreStateLogs used to put the updates of the pending commit diff (F2, log
// index 1) into the local update log before the updates the peer still has to
// sign for (F1, log index 0). evaluateHTLCView takes the fee rate from the last
// fee update of the opener's log, so alice built her next commitment with F1
// and rejected bob's valid signature with an InvalidCommitSigError.
func TestRestoreLocalFeeUpdatesInLogOrder(t *testing.T) {
	t.Parallel()

	testCases := []struct {
		name string

		// restartBeforeRevocation restarts alice while F1 awaits bob's
		// signature and F2 sits in her pending remote commit diff.
		restartBeforeRevocation bool

		// restartAfterRevocation restarts alice after she received bob's
		// second revocation. Both F1 and F2 are then persisted as local
		// updates the peer still has to sign, in the order they had in
		// the local update log.
		restartAfterRevocation bool
	}{
		{
			name: "no restart",
		},
		{
			name:                    "restart before revocation",
			restartBeforeRevocation: true,
		},
		{
			name:                    "restart before and after revocation",
			restartBeforeRevocation: true,
			restartAfterRevocation:  true,
		},
	}

	for _, tc := range testCases {
		t.Run(tc.name, func(t *testing.T) {
			t.Parallel()

			testRestoreLocalFeeUpdatesInLogOrder(
				t, tc.restartBeforeRevocation,
				tc.restartAfterRevocation,
			)
		})
	}
}

func testRestoreLocalFeeUpdatesInLogOrder(t *testing.T,
	restartBeforeRevocation, restartAfterRevocation bool) {

	// Alice is the channel opener, so she is the one sending fee updates.
	alice, bob, err := CreateTestChannels(
		t, channeldb.SingleFunderTweaklessBit,
	)
	require.NoError(t, err)

	startFee := chainfee.SatPerKWeight(
		alice.channelState.LocalCommitment.FeePerKw,
	)
	fee1, fee2 := startFee*2, startFee*3

	// assertLocalLogOrdered asserts that alice's local update log holds
	// exactly the two fee updates, oldest first. A wrong order does not stop
	// the test, so that its consequence (the rejected signature) is
	// reported as well.
	assertLocalLogOrdered := func(alice *LightningChannel) {
		t.Helper()

		var (
			logIndexes []uint64
			feeRates   []chainfee.SatPerKWeight
		)
		log := alice.updateLogs.Local
		for e := log.Front(); e != nil; e = e.Next() {
			pd := e.Value
			require.Equal(t, FeeUpdate, pd.EntryType)

			logIndexes = append(logIndexes, pd.LogIndex)
			feeRates = append(feeRates, chainfee.SatPerKWeight(
				pd.Amount.ToSatoshis(),
			))
		}

		assert.Equal(t, []uint64{0, 1}, logIndexes,
			"local update log is not in log index order")
		assert.Equal(
			t, []chainfee.SatPerKWeight{fee1, fee2}, feeRates,
		)
	}

	// Alice sends the first fee update and signs for it. Bob revokes, but
	// does not sign yet.
	require.NoError(t, alice.UpdateFee(fee1))
	require.NoError(t, bob.ReceiveUpdateFee(fee1))

	aliceSig1, err := alice.SignNextCommitment(ctxb)
	require.NoError(t, err)
	require.NoError(t, bob.ReceiveNewCommitment(aliceSig1.CommitSigs))

	bobRev1, _, _, err := bob.RevokeCurrentCommitment()
	require.NoError(t, err)
	_, _, err = alice.ReceiveRevocation(bobRev1)
	require.NoError(t, err)

	// Alice sends the second fee update and signs for it as well.
	require.NoError(t, alice.UpdateFee(fee2))
	require.NoError(t, bob.ReceiveUpdateFee(fee2))

	aliceSig2, err := alice.SignNextCommitment(ctxb)
	require.NoError(t, err)

	// Alice restarts. The first fee update is restored from the local
	// updates the peer still has to sign for, the second one from the
	// pending remote commit diff.
	if restartBeforeRevocation {
		alice, err = restartChannel(alice)
		require.NoError(t, err)
	}
	assertLocalLogOrdered(alice)

	// Bob processes alice's second signature, revokes, and signs a single
	// commitment that covers both fee updates.
	require.NoError(t, bob.ReceiveNewCommitment(aliceSig2.CommitSigs))

	bobRev2, _, _, err := bob.RevokeCurrentCommitment()
	require.NoError(t, err)
	bobSig, err := bob.SignNextCommitment(ctxb)
	require.NoError(t, err)

	_, _, err = alice.ReceiveRevocation(bobRev2)
	require.NoError(t, err)

	// Alice restarts again. Now both fee updates are restored from the
	// local updates the peer still has to sign for.
	if restartAfterRevocation {
		alice, err = restartChannel(alice)
		require.NoError(t, err)
	}
	assertLocalLogOrdered(alice)

	// Bob's signature is valid: alice must build her commitment with the
	// newest fee rate and accept it.
	err = alice.ReceiveNewCommitment(bobSig.CommitSigs)
	require.NoError(t, err, "alice rejects bob's valid signature")

	aliceRev, _, _, err := alice.RevokeCurrentCommitment()
	require.NoError(t, err)
	_, _, err = bob.ReceiveRevocation(aliceRev)
	require.NoError(t, err)

	// Both sides end up with the second fee rate on all commitments.
	for _, c := range []*LightningChannel{alice, bob} {
		require.EqualValues(
			t, fee2, c.channelState.LocalCommitment.FeePerKw,
		)
		require.EqualValues(
			t, fee2, c.channelState.RemoteCommitment.FeePerKw,
		)
	}
}
