package channeldb

import (
	"testing"

	"github.com/lightningnetwork/lnd/lnwire"
	"github.com/stretchr/testify/require"
)

// TestProbeUpdateCommitmentRevertsOtherInstanceChanInfo: two OpenChannel
// instances of the same channel exist in a running node (the link's and e.g.
// the funding manager's / chain watcher's). The Mark* methods are careful to
// read-modify-write the copy on disk, but UpdateChannelCommitment writes the
// whole chanInfo record (status flags, short channel id, the aux TLV stream
// with real scid, confirmation height, close confirmation height, memo...) from
// the CALLER's in-memory copy. Whatever another instance recorded since the
// link's copy was loaded (or last refreshed) is silently reverted by the link's
// next revoke_and_ack.
func TestProbeUpdateCommitmentRevertsOtherInstanceChanInfo(t *testing.T) {
	t.Parallel()

	fullDB, err := MakeTestDB(t)
	require.NoError(t, err)
	cdb := fullDB.ChannelStateDB()

	// The link's copy.
	linkCopy := createTestChannel(t, cdb, openChannelOption())

	// Another subsystem's copy of the same channel.
	others, err := cdb.FetchOpenChannels(linkCopy.IdentityPub)
	require.NoError(t, err)
	require.Len(t, others, 1)
	otherCopy := others[0]

	// The other subsystem records the confirmed scid of a zero conf channel
	// and the confirmation height.
	realScid := lnwire.NewShortChanIDFromInt(0x0102030405060708)
	require.NoError(t, otherCopy.MarkRealScid(realScid))
	require.NoError(t, otherCopy.MarkConfirmationHeight(777))

	onDisk, err := cdb.FetchOpenChannels(linkCopy.IdentityPub)
	require.NoError(t, err)
	require.Equal(t, realScid, onDisk[0].ZeroConfRealScid())
	require.EqualValues(t, 777, onDisk[0].ConfirmationHeight)

	// The link revokes a commitment before it got around to refreshing its
	// copy.
	newCommit := linkCopy.LocalCommitment
	newCommit.CommitHeight++
	_, err = linkCopy.UpdateCommitment(&newCommit, nil)
	require.NoError(t, err)

	onDisk, err = cdb.FetchOpenChannels(linkCopy.IdentityPub)
	require.NoError(t, err)

	t.Logf("after the link's revocation: real scid on disk = %v, "+
		"confirmation height on disk = %v",
		onDisk[0].ZeroConfRealScid(), onDisk[0].ConfirmationHeight)

	require.Equal(t, realScid, onDisk[0].ZeroConfRealScid(),
		"real scid recorded by the other instance was reverted")
	require.EqualValues(t, 777, onDisk[0].ConfirmationHeight,
		"confirmation height recorded by the other instance was "+
			"reverted")
}
