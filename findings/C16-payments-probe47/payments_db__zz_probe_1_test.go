package paymentsdb

import (
	"crypto/sha256"
	"testing"

	"github.com/lightningnetwork/lnd/record"
	"github.com/stretchr/testify/require"
)

// TestZZProbe1OmitHopsState: the derived payment state handed out by
// QueryPayments must not depend on Query.OmitHops: the flag only asks for the
// hop list to be left out of the answer.
func TestZZProbe1OmitHopsState(t *testing.T) {
	for name, db := range zzSeedStores(t) {
		ctx := t.Context()

		// Payment one: a single settled attempt.
		preimg := genPreimage(t)
		rhash := sha256.Sum256(preimg[:])
		info := genPaymentCreationInfo(t, rhash)
		hash := info.PaymentIdentifier
		require.NoError(t, db.InitPayment(ctx, hash, info))

		a := genAttemptWithHash(t, 0, genSessionKey(t), rhash)
		_, err := db.RegisterAttempt(ctx, hash, a)
		require.NoError(t, err)
		_, err = db.SettleAttempt(
			ctx, hash, 0, &HTLCSettleInfo{Preimage: preimg},
		)
		require.NoError(t, err)

		// Payment two: one of two MPP shards in flight.
		preimg2 := genPreimage(t)
		rhash2 := sha256.Sum256(preimg2[:])
		info2 := genPaymentCreationInfo(t, rhash2)
		hash2 := info2.PaymentIdentifier
		require.NoError(t, db.InitPayment(ctx, hash2, info2))

		b := genAttemptWithHash(t, 1, genSessionKey(t), rhash2)
		half := info2.Value / 2
		b.Route.TotalAmount -= b.Route.FinalHop().AmtToForward - half
		b.Route.FinalHop().AmtToForward = half
		b.Route.FinalHop().MPP = record.NewMPP(
			info2.Value, [32]byte{1},
		)
		_, err = db.RegisterAttempt(ctx, hash2, b)
		require.NoError(t, err)

		resp, err := db.QueryPayments(ctx, Query{
			MaxPayments: 10, IncludeIncomplete: true, OmitHops: true,
		})
		require.NoError(t, err)
		require.Len(t, resp.Payments, 2, name)

		for i, h := range []([32]byte){hash, hash2} {
			full, err := db.FetchPayment(ctx, h)
			require.NoError(t, err)

			q := resp.Payments[i]
			require.Equal(t, full.Info.PaymentIdentifier,
				q.Info.PaymentIdentifier)
			require.Equal(t, full.Status, q.Status, name)
			require.Equalf(t, *full.State, *q.State,
				"%s: payment %d: state with OmitHops differs "+
					"from FetchPayment", name, i)
		}

		// On the SQL backend the hops must still be left out.
		if name == "sql" {
			for _, p := range resp.Payments {
				for _, h := range p.HTLCs {
					require.Empty(t, h.Route.Hops)
				}
			}
		}
	}
}
