#!/bin/bash
# usage: seedmatrix.sh [pattern]   applies every kept seed (seeded/<id>-<v>/patch.diff) to /repo in turn,
# runs the quick check of its property, reverts, and prints one line per seed. Needs a clean /repo and
# must not run concurrently with anything else that reads or edits /repo. A seed that is not reported
# (OK) or whose patch no longer applies is a regression of the checker resp. of the seed's context.
cd /verif || exit 2
rc=0
for d in seeded/${1:-*}/; do
  id=$(basename "$d"); p=${id%-*}
  res=$(./tryseed.sh "/verif/$d/patch.diff" "$p" 2>&1 | grep -v KNOWN | grep -E "^(OK|FAIL|patch|/repo)" | head -1 | cut -c1-70)
  echo "$id $res"
  case "$res" in FAIL*) ;; *) rc=1 ;; esac
done
exit $rc
