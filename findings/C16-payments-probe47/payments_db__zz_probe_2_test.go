package paymentsdb

import (
	"crypto/sha256"
	"testing"

	"github.com/lightningnetwork/lnd/lntypes"
	"github.com/lightningnetwork/lnd/lnwire"
	"github.com/lightningnetwork/lnd/tlv"
	"github.com/stretchr/testify/assert"
	"github.com/stretchr/testify/require"
)

// TestZZProbe2NilAttemptHash: an attempt registered without a hash of its own
// is locked to the payment hash (HTLCAttemptInfo.Hash doc). Both backends must
// hand it out alike, and neither may lose the first hop amount and the first
// hop wire records of its route.
func TestZZProbe2NilAttemptHash(t *testing.T) {
	type view struct {
		hash     *lntypes.Hash
		firstAmt lnwire.MilliSatoshi
		records  lnwire.CustomRecords
	}
	views := make(map[string]view)

	preimg := genPreimage(t)
	rhash := sha256.Sum256(preimg[:])

	for name, db := range zzSeedStores(t) {
		ctx := t.Context()

		info := genPaymentCreationInfo(t, rhash)
		hash := info.PaymentIdentifier
		require.NoError(t, db.InitPayment(ctx, hash, info))

		a := genAttemptWithHash(t, 0, genSessionKey(t), rhash)
		a.Hash = nil
		a.Route.FirstHopAmount = tlv.NewRecordT[tlv.TlvType0](
			tlv.NewBigSizeT(lnwire.MilliSatoshi(4242)),
		)
		a.Route.FirstHopWireCustomRecords = lnwire.CustomRecords{
			lnwire.MinCustomRecordsTlvType + 7: []byte{7},
		}
		_, err := db.RegisterAttempt(ctx, hash, a)
		require.NoError(t, err)

		p, err := db.FetchPayment(ctx, hash)
		require.NoError(t, err)
		require.Len(t, p.HTLCs, 1)

		r := p.HTLCs[0].Route
		views[name] = view{
			hash:     p.HTLCs[0].Hash,
			firstAmt: r.FirstHopAmount.Val.Int(),
			records:  r.FirstHopWireCustomRecords,
		}

		assert.EqualValuesf(t, 4242, r.FirstHopAmount.Val.Int(),
			"%s: first hop amount lost", name)
		assert.Lenf(t, r.FirstHopWireCustomRecords, 1,
			"%s: first hop wire records lost", name)
	}

	assert.Equal(t, views["sql"], views["kv"], "backends differ")
}
