package brontide

import (
	"net"
	"testing"
	"time"

	"github.com/stretchr/testify/require"
)

// TestZZProbe2AcceptNilConnOnError: when the handshake of an inbound
// connection fails, Accept must return a nil net.Conn together with the
// error, as every net.Listener does, not an interface wrapping a nil *Conn.
func TestZZProbe2AcceptNilConnOnError(t *testing.T) {
	listener, _, err := makeListener()
	require.NoError(t, err)
	defer listener.Close()

	// A raw TCP peer sends an act one with an unknown handshake version.
	raw, err := net.Dial("tcp", listener.Addr().String())
	require.NoError(t, err)
	defer raw.Close()

	var actOne [ActOneSize]byte
	actOne[0] = 0xff
	_, err = raw.Write(actOne[:])
	require.NoError(t, err)

	type res struct {
		conn net.Conn
		err  error
	}
	resChan := make(chan res, 1)
	go func() {
		c, err := listener.Accept()
		resChan <- res{c, err}
	}()

	select {
	case r := <-resChan:
		require.Error(t, r.err)
		if r.conn != nil {
			t.Fatalf("Accept returned a non-nil net.Conn (%T, nil "+
				"pointer: %v) together with error %q", r.conn,
				r.conn.(*Conn) == nil, r.err)
		}

	case <-time.After(10 * time.Second):
		t.Fatalf("Accept did not return")
	}
}
