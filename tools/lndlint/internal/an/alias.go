package an

import "lndlint/internal/flow"

// FlowVertex is the vertex type of the flow graph, re-exported for spec code.
type FlowVertex = flow.Vertex

// FlowEdge is the edge type of the flow graph, re-exported for spec code.
type FlowEdge = flow.Edge

// FlowEdgeSet is a set of edges to cut.
type FlowEdgeSet = flow.EdgeSet
