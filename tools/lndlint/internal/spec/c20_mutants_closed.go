package spec

// Gaps reported by the adversarial round (tools/scripts/gaps/advB-report.md, C20) that are now reported.
func init() {
	registry["C20"].Mutants = append(registry["C20"].Mutants, []Mutant{

		{Name: "closed-ca-relayed-after-graph-rejected-edge", File: "discovery/gossiper.go",
			Old:    "\t\tcompleteGossipResult(nMsg.errPromise, err)\n\n\t\treturn nil, false\n\t}\n\n\t// If err is nil, release the lock immediately.",
			New:    "\t\tcompleteGossipResult(nMsg.errPromise, err)\n\n\t\treturn []networkMsg{*nMsg}, true\n\t}\n\n\t// If err is nil, release the lock immediately.",
			Expect: "channel-announcement-admission"},

		{Name: "closed-ca-edge-node-keys-swapped-after-construction", File: "discovery/gossiper.go",
			Old:    "\t// If there were any optional message fields provided, we'll include\n",
			New:    "\tedge.NodeKey1Bytes, edge.NodeKey2Bytes = edge.NodeKey2Bytes, edge.NodeKey1Bytes\n\n",
			Expect: "channel-announcement-admission"},

		{Name: "closed-ca-optional-capacity-overrides-validated", File: "discovery/gossiper.go",
			Old:    "\tlog.Debugf(\"Adding edge for short_chan_id: %v\", scid.ToUint64())\n",
			New:    "\tif nMsg.optionalMsgFields != nil &&\n\t\tnMsg.optionalMsgFields.capacity != nil {\n\n\t\tedge.Capacity = *nMsg.optionalMsgFields.capacity\n\t}\n",
			Expect: "channel-announcement-admission"},

		{Name: "closed-ca-funding-script-from-key-1-twice", File: "discovery/gossiper.go",
			Old:    "\t\twitnessScript, err := input.GenMultiSigScript(\n\t\t\tbitcoinKey1, bitcoinKey2,\n\t\t)",
			New:    "\t\twitnessScript, err := input.GenMultiSigScript(\n\t\t\tbitcoinKey1, bitcoinKey1,\n\t\t)",
			Expect: "channel-announcement-admission"},

		{Name: "closed-ca-expected-script-taken-from-funding-tx", File: "discovery/gossiper.go",
			Old:    "\t// Next we'll validate that this channel is actually well formed. If\n",
			New:    "\tif int(scid.TxPosition) < len(fundingTx.TxOut) {\n\t\tfundingPkScript = fundingTx.TxOut[scid.TxPosition].PkScript\n\t}\n\n",
			Expect: "channel-announcement-admission"},

		{Name: "closed-ca-dispatcher-validates-featureless-only", File: "netann/channel_announcement.go",
			Old:    "\tcase *lnwire.ChannelAnnouncement1:\n\t\treturn validateChannelAnn1(ann)",
			New:    "\tcase *lnwire.ChannelAnnouncement1:\n\t\tvar err error\n\t\tif ann.Features.IsEmpty() {\n\t\t\terr = validateChannelAnn1(ann)\n\t\t}\n\n\t\treturn err",
			Expect: "channel-announcement-admission"},

		{Name: "closed-ca-validated-capacity-halved", File: "discovery/gossiper.go",
			Old:    "\t\tedge.FundingScript = fn.Some(script)\n",
			New:    "\t\tedge.FundingScript = fn.Some(script)\n\t\tcapacity /= 2\n",
			Expect: "channel-announcement-admission"},

		{Name: "closed-cu-signer-key-overwritten-after-switch", File: "discovery/gossiper.go",
			Old:    "\tlog.Debugf(\"Validating ChannelUpdate: channel=%v, for node=%x, has \"+\n",
			New:    "\tpubKey, _ = chanInfo.NodeKey1()\n\n\tlog.Debugf(\"Validating ChannelUpdate: channel=%v, for node=%x, has \"+\n",
			Expect: "channel-update-admission"},

		{Name: "closed-cu-stale-check-against-wall-clock", File: "discovery/gossiper.go",
			Old:    "\ttimestamp := time.Unix(int64(upd.Timestamp), 0)\n",
			New:    "\ttimestamp := time.Now()\n",
			Expect: "channel-update-admission"},

		{Name: "closed-cu-applied-policy-direction-flipped", File: "discovery/gossiper.go",
			Old:    "\tif err := d.cfg.Graph.UpdateEdge(ctx, update, ops...); err != nil {",
			New:    "\tupdate.ChannelFlags ^= lnwire.ChanUpdateDirection\n\tif err := d.cfg.Graph.UpdateEdge(ctx, update, ops...); err != nil {",
			Expect: "channel-update-admission"},

		{Name: "closed-cu-zombie-verified-under-node-1-key-always", File: "discovery/gossiper.go",
			Old:    "\terr := netann.ValidateChannelUpdateAnn(pubKey, 0, msg)\n",
			New:    "\tsigner, _ := chanInfo.NodeKey1()\n\terr := netann.ValidateChannelUpdateAnn(signer, 0, msg)\n",
			Expect: "channel-update-admission"},

		{Name: "closed-cu-zombie-falls-back-to-other-nodes-key", File: "discovery/gossiper.go",
			Old:    "\tcase !isNode1 && chanInfo.NodeKey2Bytes != emptyPubkey:\n\t\tpubKey, _ = chanInfo.NodeKey2()\n",
			New:    "\tcase !isNode1 && chanInfo.NodeKey2Bytes != emptyPubkey:\n\t\tpubKey, _ = chanInfo.NodeKey2()\n\tcase chanInfo.NodeKey1Bytes != emptyPubkey:\n\t\tpubKey, _ = chanInfo.NodeKey1()\n",
			Expect: "channel-update-admission"},

		{Name: "closed-cu-zombie-keys-swapped-at-kv-call-site", File: "graph/db/kv_store.go",
			Old:    "\t\tnodeKey1, nodeKey2 = makeZombiePubkeys(\n\t\t\tedgeInfo.NodeKey1Bytes, edgeInfo.NodeKey2Bytes,",
			New:    "\t\tnodeKey1, nodeKey2 = makeZombiePubkeys(\n\t\t\tedgeInfo.NodeKey2Bytes, edgeInfo.NodeKey1Bytes,",
			Expect: "channel-update-admission"},

		{Name: "closed-cu-zombie-key-results-swapped-at-sql-call-site", File: "graph/db/sql_store.go",
			Old:    "\t\tnodeKey1, nodeKey2 = makeZombiePubkeys(\n\t\t\tinfo.NodeKey1Bytes",
			New:    "\t\tnodeKey2, nodeKey1 = makeZombiePubkeys(\n\t\t\tinfo.NodeKey1Bytes",
			Expect: "channel-update-admission"},

		{Name: "closed-cu-stale-policy-timestamps-destructured-swapped", File: "graph/builder.go",
			Old:    "\tedge1Timestamp, edge2Timestamp, exists, isZombie, err :=\n\t\tb.cfg.Graph.HasV1ChannelEdge(\n",
			New:    "\tedge2Timestamp, edge1Timestamp, exists, isZombie, err :=\n\t\tb.cfg.Graph.HasV1ChannelEdge(\n",
			Expect: "channel-update-admission"},

		{Name: "closed-cu-kv-policies-destructured-swapped", File: "graph/db/kv_store.go",
			Old:    "\t\te1, e2, err := fetchChanEdgePolicies(\n\t\t\tedgeIndex, edges, channelID[:],\n\t\t)\n\t\tif err != nil {\n\t\t\treturn err\n\t\t}\n\n\t\t// As we may have only one of the edges populated, only set the",
			New:    "\t\te2, e1, err := fetchChanEdgePolicies(\n\t\t\tedgeIndex, edges, channelID[:],\n\t\t)\n\t\tif err != nil {\n\t\t\treturn err\n\t\t}\n\n\t\t// As we may have only one of the edges populated, only set the",
			Expect: "channel-update-admission"},

		{Name: "closed-cu-kv-cached-timestamps-swapped", File: "graph/db/kv_store.go",
			Old:    "\t\tc.cacheMu.RUnlock()\n\t\tupd1Time = time.Unix(entry.upd1Time, 0)\n\t\tupd2Time = time.Unix(entry.upd2Time, 0)",
			New:    "\t\tc.cacheMu.RUnlock()\n\t\tupd1Time = time.Unix(entry.upd2Time, 0)\n\t\tupd2Time = time.Unix(entry.upd1Time, 0)",
			Expect: "channel-update-admission"},

		{Name: "closed-cu-sql-store-returns-timestamps-swapped", File: "graph/db/sql_store.go",
			Old:    "\t\t\tisZombie,\n\t\t),\n\t)\n\n\treturn node1LastUpdate, node2LastUpdate, exists, isZombie, nil\n}\n\n// HasChannelEdge returns true if the database knows of a channel edge with the\n// passed channel ID and gossip version, and false otherwise. If an edge with",
			New:    "\t\t\tisZombie,\n\t\t),\n\t)\n\n\treturn node2LastUpdate, node1LastUpdate, exists, isZombie, nil\n}\n\n// HasChannelEdge returns true if the database knows of a channel edge with the\n// passed channel ID and gossip version, and false otherwise. If an edge with",
			Expect: "channel-update-admission"},

		{Name: "closed-cu-sql-store-caches-timestamps-swapped", File: "graph/db/sql_store.go",
			Old:    "\t\tnewRejectCacheEntryV1(\n\t\t\tnode1LastUpdate, node2LastUpdate, exists,\n\t\t\tisZombie,\n\t\t),\n\t)\n\n\treturn node1LastUpdate, node2LastUpdate, exists, isZombie, nil\n}\n\n// HasChannelEdge returns true if the database knows of a channel edge with the\n// passed channel ID and gossip version, and false otherwise. If an edge with",
			New:    "\t\tnewRejectCacheEntryV1(\n\t\t\tnode2LastUpdate, node1LastUpdate, exists,\n\t\t\tisZombie,\n\t\t),\n\t)\n\n\treturn node1LastUpdate, node2LastUpdate, exists, isZombie, nil\n}\n\n// HasChannelEdge returns true if the database knows of a channel edge with the\n// passed channel ID and gossip version, and false otherwise. If an edge with",
			Expect: "channel-update-admission"},

		{Name: "closed-cu-apply-update-key-overwritten-after-switch", File: "graph/builder.go",
			Old:    "\t// Exit early if the pubkey cannot be decided.\n",
			New:    "\tpubKey, _ = ch.NodeKey1()\n\n",
			Expect: "channel-update-admission"},

		{Name: "closed-cu-stale-policy-disabled-updates-never-stale", File: "graph/builder.go",
			Old:    "\t// then we can exit early.\n\tswitch {\n",
			New:    "\t// then we can exit early.\n\tswitch {\n\tcase flags&lnwire.ChanUpdateDisabled != 0:\n\t\treturn false\n\n",
			Expect: "channel-update-admission"},

		{Name: "closed-na-stale-check-against-wall-clock", File: "discovery/gossiper.go",
			Old:    "\ttimestamp := time.Unix(int64(nodeAnn.Timestamp), 0)\n",
			New:    "\ttimestamp := time.Now()\n",
			Expect: "node-announcement-admission"},

		{Name: "closed-na-public-flag-forced-for-local", File: "discovery/gossiper.go",
			Old:    "\tvar announcements []networkMsg\n\n\t// If it does, we'll add their announcement to our batch so that it can\n",
			New:    "\tvar announcements []networkMsg\n\n\tisPublic = isPublic || !nMsg.isRemote\n\n",
			Expect: "node-announcement-admission"},

		{Name: "closed-na-stale-announcement-relayed-by-literal", File: "discovery/gossiper.go",
			Old:    "\t\tlog.Debugf(\"Skipped processing stale node: %x\", nodeAnn.NodeID)\n\t\tcompleteGossipResult(nMsg.errPromise, nil)\n\t\treturn nil, true",
			New:    "\t\tlog.Debugf(\"Skipped processing stale node: %x\", nodeAnn.NodeID)\n\t\tcompleteGossipResult(nMsg.errPromise, nil)\n\t\treturn []networkMsg{*nMsg}, true",
			Expect: "node-announcement-admission"},

		{Name: "closed-na-builder-exported-add-bypasses-freshness", File: "graph/builder.go",
			Old:    "\terr := b.addNode(ctx, node, op...)\n",
			New:    "\terr := b.cfg.Graph.AddNode(ctx, node, op...)\n",
			Expect: "node-announcement-admission"},

		{Name: "closed-na-announced-timestamp-rewritten-before-freshness", File: "graph/builder.go",
			Old:    "\terr := b.assertNodeAnnFreshness(ctx, node.PubKeyBytes, node.LastUpdate)",
			New:    "\tnode.LastUpdate = time.Now()\n\terr := b.assertNodeAnnFreshness(ctx, node.PubKeyBytes, node.LastUpdate)",
			Expect: "node-announcement-admission"},

		{Name: "closed-na-unadvertised-node-relayed-from-else-branch", File: "discovery/gossiper.go",
			Old:    "\t\tlog.Tracef(\"Skipping broadcasting node announcement for %x \"+\n\t\t\t\"due to being unadvertised\", nodeAnn.NodeID)\n",
			New:    "\t\tcompleteGossipResult(nMsg.errPromise, nil)\n\n\t\treturn []networkMsg{*nMsg}, true\n",
			Expect: "node-announcement-admission"},
	}...)
}
