package lnwallet

// PROBE (unmodified tree): NewLocalForceCloseSummary documents that it may run
// "after recovery", when the channel state in the database is NOT the state of
// the commitment that confirmed ("We use the passed state num to derive our
// scripts, since in case this is after recovery, our latest channels state
// might not be up to date ... we'll always use what we have in our latest
// state when extracting resolutions"). It then indexes the confirmed
// transaction with the output indexes of the HTLCs of the database state:
//
//	newOutgoingHtlcResolution: txOut := commitTx.TxOut[htlc.OutputIndex]
//	newIncomingHtlcResolution: txOut := commitTx.TxOut[htlc.OutputIndex]
//
// If the confirmed commitment has fewer outputs than the stale state, this is
// an index-out-of-range panic inside the chain watcher's close handling (and
// again on every restart). If it has enough outputs, resolutions are built for
// outputs that are not HTLC outputs at all.
//
// Place in lnwallet/ and run:
//   go test -count=1 -run TestProbeStaleStateLocalClose -v ./lnwallet/

import (
	"testing"

	"github.com/lightningnetwork/lnd/channeldb"
	"github.com/lightningnetwork/lnd/fn/v2"
	"github.com/lightningnetwork/lnd/lnwire"
	"github.com/stretchr/testify/require"
)

func TestProbeStaleStateLocalClose(t *testing.T) {
	alice, bob, err := CreateTestChannels(
		t, channeldb.SingleFunderTweaklessBit,
	)
	require.NoError(t, err)

	// State N: three offered HTLCs on Alice's commitment.
	var preimages [][32]byte
	for i := 0; i < 3; i++ {
		htlc, pre := createHTLC(i, lnwire.NewMSatFromSatoshis(50_000))
		preimages = append(preimages, pre)
		addAndReceiveHTLC(t, alice, bob, htlc, nil)
	}
	require.NoError(t, ForceStateTransition(alice, bob))

	// This is what a node restored from a backup taken now would have.
	stale, err := alice.channelState.Db.FetchOpenChannels(
		alice.channelState.IdentityPub,
	)
	require.NoError(t, err)
	staleState := stale[0]
	require.Len(t, staleState.LocalCommitment.Htlcs, 3)

	// The channel moves on: all HTLCs are settled, the commitment is back
	// to two outputs.
	for i := 0; i < 3; i++ {
		require.NoError(t, bob.SettleHTLC(
			preimages[i], uint64(i), nil, nil, nil,
		))
		require.NoError(t, alice.ReceiveHTLCSettle(
			preimages[i], uint64(i),
		))
	}
	require.NoError(t, ForceStateTransition(bob, alice))

	summary, err := alice.ForceClose(WithSkipContractResolutions())
	require.NoError(t, err)
	newCommit := summary.CloseTx
	newHeight := alice.channelState.LocalCommitment.CommitHeight
	require.Len(t, newCommit.TxOut, 2)

	// The chain watcher of the restored node sees its own (newer)
	// commitment confirm and asks for the close summary.
	var (
		panicked interface{}
		fcs      *LocalForceCloseSummary
	)
	func() {
		defer func() { panicked = recover() }()

		fcs, err = NewLocalForceCloseSummary(
			staleState, alice.Signer, newCommit, 100, newHeight,
			fn.None[AuxLeafStore](),
			fn.None[AuxContractResolver](),
		)
	}()

	require.Nil(t, panicked, "NewLocalForceCloseSummary panicked")

	// The chain watcher "tries to act even though it won't be able to
	// sweep HTLCs": the to_local output (keys derived from the confirmed
	// state number) must still be resolved, and no HTLC resolution may be
	// fabricated from the stale state.
	require.NoError(t, err)
	res := fcs.ContractResolutions.UnwrapOrFail(t)
	require.NotNil(t, res.CommitResolution)
	require.Empty(t, res.HtlcResolutions.OutgoingHTLCs)
	require.Empty(t, res.HtlcResolutions.IncomingHTLCs)
}
