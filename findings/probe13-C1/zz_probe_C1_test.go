package contractcourt

// Probe C1 (property C04). Run:
//   go test -count=1 -run TestProbeC1LegacyRevokedStateWithDustHtlc -v \
//       ./contractcourt/
//
// Suspicion: lnwallet.createBreachRetributionLegacy pre-sizes the HTLC
// retribution slice to len(revokedLog.Htlcs) and skips dust HTLCs with
// `continue`, so the slot of every dust HTLC stays zero-valued (empty
// outpoint, nil SignDesc.Output). newRetributionInfo dereferences
// SignDesc.Output.Value for every slot, so a revoked state stored in the
// legacy revocation-log format (a full ChannelCommitment, which lists dust
// HTLCs too) that carries a dust HTLC crashes the breach arbitrator instead of
// being punished.
//
// Observed on the unmodified tree:
//   HtlcRetributions: 2 entries for 1 non-dust HTLC
//   PANIC in newRetributionInfo: runtime error: invalid memory address or nil
//   pointer dereference
//
// The legacy log is served to NewBreachRetribution through the channel's
// store (FindPreviousState returns a *ChannelCommitment when the state is
// only present in the deprecated bucket); the probe serves the genuine remote
// commitment of the revoked height that way.

import (
	"testing"

	"github.com/btcsuite/btcd/wire/v2"
	"github.com/lightningnetwork/lnd/channeldb"
	"github.com/lightningnetwork/lnd/chanstate"
	"github.com/lightningnetwork/lnd/fn/v2"
	"github.com/lightningnetwork/lnd/lnwallet"
	"github.com/lightningnetwork/lnd/lnwire"
	"github.com/stretchr/testify/require"
)

// probeLegacyLogStore answers FindPreviousState as a database does whose
// revocation log was never migrated to the new format.
type probeLegacyLogStore struct {
	chanstate.Store

	height uint64
	legacy *channeldb.ChannelCommitment
}

func (s *probeLegacyLogStore) FindPreviousState(c *chanstate.OpenChannel,
	updateNum uint64) (*chanstate.RevocationLog,
	*chanstate.ChannelCommitment, error) {

	if updateNum != s.height {
		return nil, nil, channeldb.ErrLogEntryNotFound
	}

	return nil, s.legacy, nil
}

func TestProbeC1LegacyRevokedStateWithDustHtlc(t *testing.T) {
	alice, bob, err := lnwallet.CreateTestChannels(
		t, channeldb.SingleFunderTweaklessBit,
	)
	require.NoError(t, err)

	// One dust HTLC (no output on Bob's commitment) and one HTLC with an
	// output, both offered by Alice.
	dust, _ := createHTLC(0, lnwire.NewMSatFromSatoshis(500))
	big, _ := createHTLC(1, lnwire.NewMSatFromSatoshis(1_000_000))
	for _, htlc := range []*lnwire.UpdateAddHTLC{dust, big} {
		_, err := alice.AddHTLC(htlc, nil)
		require.NoError(t, err)
		_, err = bob.ReceiveHTLC(htlc)
		require.NoError(t, err)
	}
	require.NoError(t, lnwallet.ForceStateTransition(alice, bob))

	// This is the state Bob is going to revoke. The legacy revocation log
	// stored exactly this: the whole remote commitment.
	state := alice.State()
	revoked := state.RemoteCommitment
	require.Len(t, revoked.Htlcs, 2)
	var nonDust int
	for _, htlc := range revoked.Htlcs {
		if htlc.OutputIndex >= 0 {
			nonDust++
		}
	}
	require.Equal(t, 1, nonDust)

	// Bob revokes it.
	require.NoError(t, lnwallet.ForceStateTransition(alice, bob))
	require.Greater(
		t, state.RemoteCommitment.CommitHeight, revoked.CommitHeight,
	)

	state.Db = &probeLegacyLogStore{
		Store:  state.Db,
		height: revoked.CommitHeight,
		legacy: &revoked,
	}

	br, err := lnwallet.NewBreachRetribution(
		state, revoked.CommitHeight, 100, nil,
		fn.None[lnwallet.AuxLeafStore](),
		fn.None[lnwallet.AuxContractResolver](),
	)
	require.NoError(t, err)

	t.Logf("HtlcRetributions: %d entries for %d non-dust HTLC",
		len(br.HtlcRetributions), nonDust)

	var retInfo *retributionInfo
	func() {
		defer func() {
			if r := recover(); r != nil {
				t.Fatalf("PANIC in newRetributionInfo: %v", r)
			}
		}()

		retInfo = newRetributionInfo(&state.FundingOutpoint, br)
	}()

	// Both commitment outputs and the one HTLC output, each of them
	// describing an output the revoked commitment really has.
	require.Len(t, retInfo.breachedOutputs, 2+nonDust)
	breachTx := revoked.CommitTx
	seen := make(map[wire.OutPoint]struct{})
	for _, bo := range retInfo.breachedOutputs {
		require.Equal(t, breachTx.TxHash(), bo.outpoint.Hash)
		require.Less(t, int(bo.outpoint.Index), len(breachTx.TxOut))
		require.NotContains(t, seen, bo.outpoint)
		seen[bo.outpoint] = struct{}{}

		txOut := breachTx.TxOut[bo.outpoint.Index]
		require.Equal(t, txOut.PkScript, bo.signDesc.Output.PkScript)
	}
}
