package chainntnfs_test

import (
	"testing"

	"github.com/btcsuite/btcd/btcutil/v2"
	"github.com/btcsuite/btcd/wire/v2"
	"github.com/lightningnetwork/lnd/chainntnfs"
	"github.com/stretchr/testify/require"
)

// Suspicion 3: ProcessRelevantSpendTx goes straight to updateSpendDetails and
// so does not apply the staleness check UpdateSpendDetails applies. A
// relevant-tx notification of a block that has been disconnected and replaced
// in the meantime (btcd and neutrino queue them apart from the block
// connects/disconnects) is accepted: the client is told of a spend that is not
// on the active chain, and the real spend that follows is ignored.
func TestProbe3ProcessRelevantSpendTxStale(t *testing.T) {
	hintCache := newMockHintCache()
	n := chainntnfs.NewTxNotifier(
		10, chainntnfs.ReorgSafetyLimit, hintCache, hintCache,
	)

	op := wire.OutPoint{Index: 4}
	spendTx := probeSpendTx(op, 2)

	reg, err := n.RegisterSpend(&op, testRawScript, 5)
	require.NoError(t, err)
	require.NotNil(t, reg.HistoricalDispatch)

	// Block 10 (which the backend's rescan is looking at and which holds
	// the spend) is replaced by 10' without the spend.
	require.NoError(t, n.DisconnectTip(10))
	require.NoError(t, n.ConnectTip(probeBlock(1010), 10))
	require.NoError(t, n.NotifyHeight(10))

	// The relevant tx notification for old block 10 is processed only now.
	require.NoError(t, n.ProcessRelevantSpendTx(btcutil.NewTx(spendTx), 10))

	select {
	case spend := <-reg.Event.Spend:
		t.Errorf("client told outpoint spent at height %d by a tx "+
			"of a disconnected block", spend.SpendingHeight)
	default:
	}

	// The outpoint is really spent by another tx in block 11.
	otherTx := probeSpendTx(op, 3)
	otherHash := otherTx.TxHash()
	require.NoError(t, n.ConnectTip(probeBlock(1011, otherTx), 11))
	require.NoError(t, n.NotifyHeight(11))

	select {
	case spend := <-reg.Event.Spend:
		require.Equal(t, int32(11), spend.SpendingHeight)
		require.Equal(t, otherHash, *spend.SpenderTxHash)
	default:
		t.Errorf("client not told of the spend on the active chain")
	}
}

// A relevant tx of a block that is part of the chain is still accepted after
// an earlier reorg below the request's spend (the check must not refuse
// everything once any block was disconnected): here the tx is delivered ahead
// of its block and then found at tip.
func TestProbe3ProcessRelevantSpendTxAfterReorgStillWorks(t *testing.T) {
	hintCache := newMockHintCache()
	n := chainntnfs.NewTxNotifier(
		10, chainntnfs.ReorgSafetyLimit, hintCache, hintCache,
	)

	op := wire.OutPoint{Index: 4}
	spendTx := probeSpendTx(op, 2)

	reg, err := n.RegisterSpend(&op, testRawScript, 5)
	require.NoError(t, err)

	// The rescan finds the spend in block 7, nothing was disconnected at
	// or below it.
	require.NoError(t, n.DisconnectTip(10))
	require.NoError(t, n.ConnectTip(probeBlock(1010), 10))
	require.NoError(t, n.NotifyHeight(10))
	require.NoError(t, n.ProcessRelevantSpendTx(btcutil.NewTx(spendTx), 7))

	select {
	case spend := <-reg.Event.Spend:
		require.Equal(t, int32(7), spend.SpendingHeight)
	default:
		t.Fatalf("client not told of the spend at height 7")
	}
}
