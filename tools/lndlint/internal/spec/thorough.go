package spec

import (
	"lndlint/internal/an"
)

// Mutant is a checker-validation witness: a textual edit of one source file
// (applied in memory through the loader's overlay, never on disk) that breaks
// one obligation while still type-checking. The thorough tier asserts that
// the obligation reports it.
type Mutant struct {
	Name   string
	File   string // relative to the repository root
	Old    string // must occur exactly once in the file
	New    string
	Expect string // substring of the obligation id that must be violated
}

// LoadFn is the loader signature of main.
type LoadFn func(repo string, s *Spec, tags []string, env []string, overlay map[string][]byte) (*an.Prog, []map[string]any, error)

// Thorough runs the extra work of the thorough tier; filled in by
// thorough_impl.go.
var Thorough = func(r *an.Run, s *Spec, repo string, load LoadFn) {}
