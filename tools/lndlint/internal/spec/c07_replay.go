package spec

import (
	"go/ast"
	"sort"
	"strings"

	"lndlint/internal/an"
)

func init() {
	specExtras["C07"] = append(specExtras["C07"], c07Replay)
	specExtras["C09"] = append(specExtras["C09"], c09MalformedCode)
}

// c07PacketShape collects, for the case clause of message type msgType in f,
// the fields of the htlcPacket built there (composite literal keys and later
// field assignments) and whether convertedError is set under the size test.
func c07PacketShape(f *an.Func, msgType string) (fields []string, clause *ast.CaseClause) {
	types_, clauses := f.TypeSwitchCases()
	set := map[string]bool{}
	for i, cl := range clauses {
		match := false
		for _, t := range types_[i] {
			if an.TypeID(t) == msgType {
				match = true
			}
		}
		if !match {
			continue
		}
		clause = cl
		var pktNames []string
		ast.Inspect(cl, func(n ast.Node) bool {
			switch x := n.(type) {
			case *ast.AssignStmt:
				if len(x.Lhs) == 1 && len(x.Rhs) == 1 {
					if lit := c07PacketLit(f, x.Rhs[0]); lit != nil {
						pktNames = append(pktNames, an.Text(x.Lhs[0]))
						for _, el := range lit.Elts {
							if kv, ok := el.(*ast.KeyValueExpr); ok {
								set[an.Text(kv.Key)] = true
							}
						}
					}
					if sel, ok := x.Lhs[0].(*ast.SelectorExpr); ok {
						for _, pn := range pktNames {
							if an.Text(sel.X) == pn {
								set[sel.Sel.Name] = true
							}
						}
					}
				}
			}
			return true
		})
	}
	for k := range set {
		fields = append(fields, k)
	}
	sort.Strings(fields)
	return fields, clause
}

func c07PacketLit(f *an.Func, e ast.Expr) *ast.CompositeLit {
	if u, ok := e.(*ast.UnaryExpr); ok {
		e = u.X
	}
	lit, ok := e.(*ast.CompositeLit)
	if !ok || an.TypeID(f.Info().TypeOf(lit)) != "htlcswitch.htlcPacket" {
		return nil
	}
	return lit
}

// c07Replay: the switch's start-up replay of unacknowledged settles and fails
// builds the packets the link built for the first delivery (repair 24be704),
// and a circuit restored half-open has somebody who disposes of it.
func c07Replay(r *an.Run) {
	p := r.Prog
	hs := "htlcswitch."
	r.Obl("replayed-responses-are-built-like-the-first-delivery", "MIRROR",
		"channelLink.processRemoteSettleFails (first delivery) and Switch.reforwardSettleFails (replay when the switch starts) set the same htlcPacket fields for an UpdateFulfillHTLC and for an UpdateFailHTLC; both mark a fail whose reason has FailureMessageLength+4 bytes convertedError, and only such a fail",
		"a fail received as update_fail_malformed_htlc is stored without an HMAC; the switch encrypts it as the originating hop only when the packet says so: a replay that does not say so delivers an undecodable failure, closes the circuit, and the link's own correct replay is dropped", 4,
		func(o *an.Obl) {
			first := p.Func(hs + "channelLink.processRemoteSettleFails")
			replay := p.Func(hs + "Switch.reforwardSettleFails")
			for _, mt := range []string{"lnwire.UpdateFulfillHTLC", "lnwire.UpdateFailHTLC"} {
				a, ca := c07PacketShape(first, mt)
				b, cb := c07PacketShape(replay, mt)
				o.Site("%s: first delivery sets %v, replay sets %v", mt, a, b)
				if ca == nil || cb == nil {
					o.FailAt(replay.ID+"#case-"+mt, replay.Where(replay.Body.Pos()), "cannot find the case for *%s in both functions", mt)
					continue
				}
				if strings.Join(a, ",") != strings.Join(b, ",") {
					o.FailAt(replay.ID+"#packet-fields-"+mt, replay.Where(cb.Pos()), "the packet replayed for a *%s sets %v, the first delivery sets %v", mt, b, a)
				}
			}
			for _, f := range []*an.Func{first, replay} {
				ws := f.Assigns(an.FieldPath(an.Any(), "convertedError"), false)
				if !need(o, f, "convertedError = true", ws, 1) {
					continue
				}
				for _, w := range ws {
					as := w.Node.(*ast.AssignStmt)
					if an.Text(as.Rhs[0]) != "true" {
						o.FailAt(f.ID+"#converted-value", w.Where(), "convertedError is set to %s", an.Text(as.Rhs[0]))
					}
					allowed := []string{
						`^len\([A-Za-z]+\.Reason\) == [A-Za-z]+$`, // the size test
						`^!\(.*\)$`,                       // earlier exits not taken (hodl masks)
						`^case \*lnwire\.UpdateFailHTLC$`, // the message kind
					}
					// the continuation test of `for i := 0; i < len(list); i++` over a
					// list the function does not write is the head of the loop, as
					// `range list` is, not a restriction of the mark
					for _, g := range c08IndexLoopGuards(f) {
						allowed = append(allowed, "^"+regexpQuote(g)+"$")
					}
					onlyGuards(o, f, w, allowed, "the conversion mark")
					guarded(o, f, w, an.Cmp(an.Len(canonTerm(`\.Reason$`)), an.EQ, canonTerm(`^\(?lnwire\.FailureMessageLength \+ 4\)?$`), "len(msg.Reason) == lnwire.FailureMessageLength + 4"))
				}
			}
		})

	r.Obl("restored-half-open-circuits-have-an-owner", "WHO",
		"PaymentCircuit.LoadedFromDisk is the only mark of a circuit that was restored without knowing whether its Add survived; besides circuitMap.CommitCircuits (which answers the replay of an incoming link) it is read by a function reachable from Switch.Start or Switch.GetAttemptResult, the owner of the circuits whose incoming side is hop.Source and which no link replays",
		"SendHTLC commits the circuit before the Add enters the in-memory mailbox and the keystone is written only when the Add is signed for: after a stop in between, the half-open circuit of a local payment is restored, nothing fails it, GetAttemptResult waits forever and the payment stays in flight", 1,
		func(o *an.Obl) {
			fld := p.Field("htlcswitch", "PaymentCircuit", "LoadedFromDisk")
			if fld == nil {
				o.FailAt(hs+"PaymentCircuit.LoadedFromDisk#anchor", "", "field not found")
				return
			}
			reach := p.Reachable(hs+"Switch.Start", hs+"Switch.GetAttemptResult")
			readers := map[string]bool{}
			for _, ref := range p.RefsTo(fld, false) {
				if ref.Fn == nil || an.IsTestish(ref.Fn.Filename()) {
					continue
				}
				// writes (x.LoadedFromDisk = …) are not readers
				isWrite := false
				ast.Inspect(ref.Fn.Body, func(n ast.Node) bool {
					if as, ok := n.(*ast.AssignStmt); ok {
						for _, l := range as.Lhs {
							if sel, ok := l.(*ast.SelectorExpr); ok && sel.Sel == ref.Node {
								isWrite = true
							}
						}
					}
					return true
				})
				if isWrite {
					continue
				}
				readers[ref.Fn.Root().ID] = true
			}
			o.Site("readers of PaymentCircuit.LoadedFromDisk: %v", c07Keys(readers))
			if !readers[hs+"circuitMap.CommitCircuits"] {
				o.FailAt(hs+"circuitMap.CommitCircuits#restored-circuit-test", "", "CommitCircuits no longer distinguishes a circuit loaded from disk")
			}
			owner := false
			for id := range readers {
				if id != hs+"circuitMap.CommitCircuits" && reach[id] {
					owner = true
				}
			}
			if !owner {
				o.FailAt(hs+"Switch.Start#restored-local-half-open-circuits-have-no-owner", p.Func(hs+"Switch.Start").Where(p.Func(hs+"Switch.Start").Body.Pos()), "no function reachable from Switch.Start or GetAttemptResult looks at LoadedFromDisk: a half-open circuit of a locally initiated HTLC restored after a restart is neither failed nor removed")
			}
		})
}

func c07Keys(m map[string]bool) []string {
	var out []string
	for k := range m {
		out = append(out, k)
	}
	sort.Strings(out)
	return out
}

// c09MalformedCode: the code sent in update_fail_malformed_htlc is the one
// the failing step produced (repair 95d6d1a).
func c09MalformedCode(r *an.Run) {
	p := r.Prog
	r.Obl("malformed-fail-names-the-failing-step", "GUARD",
		"in channelLink.processRemoteAdds the failure code handed to sendMalformedHTLCError is a local that was compared unequal to lnwire.CodeNone on the way to the call",
		"two decode steps each return a code; handing over the one of the step that succeeded sends failure_code 0, which lacks the BADONION bit: a conforming peer fails the channel", 3,
		func(o *an.Obl) {
			f := p.Func("htlcswitch.channelLink.processRemoteAdds")
			sites := f.Calls(an.CalleeIs("htlcswitch.channelLink.sendMalformedHTLCError"), false)
			if !need(o, f, "sendMalformedHTLCError", sites, 3) {
				return
			}
			for _, s := range sites {
				arg := callArg(s, 1)
				id, ok := ast.Unparen(arg).(*ast.Ident)
				if !ok {
					o.FailAt(f.ID+"#malformed-code-argument", s.Where(), "the code argument %s is not a local holding a step's result", an.Text(arg))
					continue
				}
				guarded(o, f, s, an.Cmp(an.LocalNamed(id.Name), an.NE, canonTerm(`^lnwire\.CodeNone$`), id.Name+" != lnwire.CodeNone"))
			}
		})
}
