package contractcourt

import (
	"testing"

	"github.com/lightningnetwork/lnd/channeldb"
	"github.com/stretchr/testify/require"
)

// TestProbeNurseryReIncubate mimics what the legacy (pre-anchor) timeout
// resolver does across restarts: resolveSecondLevelTxLegacy hands the HTLC to
// the nursery again on every Resolve, also when the nursery has long moved
// the output on. The store only looks for a duplicate under the crib prefix,
// so the same outpoint ends up tracked twice.
func TestProbeNurseryReIncubate(t *testing.T) {
	cdb, err := channeldb.MakeTestDB(t)
	require.NoError(t, err)

	ns, err := NewNurseryStore(&chainHash, cdb)
	require.NoError(t, err)

	baby := babyOutputs[0]
	chanPoint := baby.OriginChanPoint()

	// First incubation, timeout tx confirms, second level output is swept.
	require.NoError(t, ns.Incubate(nil, []babyOutput{baby}))
	assertNumChanOutputs(t, ns, chanPoint, 1)

	baby.SetConfHeight(baby.expiry + 1)
	require.NoError(t, ns.CribToKinder(&baby))
	assertNumChanOutputs(t, ns, chanPoint, 1)

	maturity := baby.ConfHeight() + baby.BlocksToMaturity()
	require.NoError(t, ns.GraduateKinder(maturity, &baby.kidOutput))
	assertNumChanOutputs(t, ns, chanPoint, 1)
	assertChannelMaturity(t, ns, chanPoint, true)

	// Restart: the resolver (not yet resolved, e.g. it has not seen the
	// sweep confirm) incubates the same output again.
	require.NoError(t, ns.Incubate(nil, []babyOutput{babyOutputs[0]}))

	// Expected if Incubate were idempotent: still one output, still mature.
	assertNumChanOutputs(t, ns, chanPoint, 1)
	assertChannelMaturity(t, ns, chanPoint, true)
}
