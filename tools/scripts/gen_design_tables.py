#!/usr/bin/env python3
"""Rewrites the generated blocks of DESIGN.md (between <!-- GEN:x --> and <!-- /GEN:x -->) from evidence/*.json."""
import json, glob, re, os
root = os.path.join(os.path.dirname(os.path.abspath(__file__)), "..", "..")
def samples(x):
    if isinstance(x, dict):
        if isinstance(x.get("samples"), list):
            return x["samples"]
        for v in x.values():
            r = samples(v)
            if r:
                return r
    return None
rows, counts = [], []
for f in sorted(glob.glob(os.path.join(root, "evidence", "C??.json"))):
    pid = f[-8:-5]
    names = []
    for o in samples(json.load(open(f))) or []:
        parts = (o.get("id") or "").split("/")
        if len(parts) >= 3:
            names.append("%s (%s)" % (parts[2], parts[1]))
    rows.append("| %s | %s |" % (pid, ", ".join(names)))
    counts.append((pid, len(names)))
table = "| Prop | Obligations (engine) |\n|---|---|\n" + "\n".join(rows)
cnt = ", ".join("%s %d" % c for c in counts) + " — %d in total" % sum(c[1] for c in counts)
p = os.path.join(root, "DESIGN.md")
s = open(p).read()
for key, val in (("obltable", table), ("oblcounts", cnt)):
    s, n = re.subn(r"(<!-- GEN:%s -->\n).*?(\n<!-- /GEN:%s -->)" % (key, key), lambda m: m.group(1) + val + m.group(2), s, flags=re.S)
    assert n == 1, key
open(p, "w").write(s)
print("ok", cnt)
