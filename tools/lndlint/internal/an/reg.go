package an

import (
	"go/ast"
	"go/types"
	"sort"
)

// EnumConsts returns the names of the package-level constants of named type
// pkg.name, sorted.
func (p *Prog) EnumConsts(short, name string) []string {
	t := p.LookupType(short, name)
	scope := t.Obj().Pkg().Scope()
	var out []string
	for _, n := range scope.Names() {
		if c, ok := scope.Lookup(n).(*types.Const); ok && types.Identical(c.Type(), t) {
			out = append(out, n)
		}
	}
	sort.Strings(out)
	return out
}

// EnumSwitch describes one tagged switch over an enum-typed value.
type EnumSwitch struct {
	Fn         *Func
	Stmt       *ast.SwitchStmt
	Tag        string
	Clauses    [][]string // constant names per clause (nil for default)
	HasDefault bool
	Where      string
}

// Named returns the set of constants named in any clause.
func (e EnumSwitch) Named() map[string]bool {
	out := map[string]bool{}
	for _, cl := range e.Clauses {
		for _, c := range cl {
			out[c] = true
		}
	}
	return out
}

// EnumSwitches lists the tagged switches over values of type pkg.name in the
// non-test-ish functions of pkgs.
func (p *Prog) EnumSwitches(short, name string, pkgs ...string) []EnumSwitch {
	t := p.LookupType(short, name)
	var out []EnumSwitch
	for _, f := range p.Funcs(false, pkgs...) {
		if f.Lit != nil {
			continue
		}
		info := f.Info()
		ast.Inspect(f.Body, func(n ast.Node) bool {
			sw, ok := n.(*ast.SwitchStmt)
			if !ok || sw.Tag == nil {
				return true
			}
			tt := info.TypeOf(sw.Tag)
			if tt == nil || !types.Identical(tt, t) {
				return true
			}
			es := EnumSwitch{Fn: f, Stmt: sw, Tag: f.Canon(sw.Tag), Where: f.Where(sw.Pos())}
			for _, cl := range sw.Body.List {
				cc := cl.(*ast.CaseClause)
				if cc.List == nil {
					es.HasDefault = true
					es.Clauses = append(es.Clauses, nil)
					continue
				}
				var names []string
				for _, e := range cc.List {
					var id *ast.Ident
					switch x := ast.Unparen(e).(type) {
					case *ast.Ident:
						id = x
					case *ast.SelectorExpr:
						id = x.Sel
					}
					if id != nil {
						if c, ok := info.Uses[id].(*types.Const); ok {
							names = append(names, c.Name())
							continue
						}
					}
					names = append(names, "?"+types.ExprString(e))
				}
				es.Clauses = append(es.Clauses, names)
			}
			out = append(out, es)
			return true
		})
	}
	return out
}
