package spec

import (
	"go/ast"
	"strings"

	"lndlint/internal/an"
	"lndlint/internal/flow"
)

func init() {
	specExtras["C13"] = append(specExtras["C13"], c13RestoredState)
}

// c13RestoredState: four places where the state found after a restart differs
// from what an uninterrupted run sees at the same point (repairs e2a7867,
// b0eb28f, f96f99b, 729b294).
func c13RestoredState(r *an.Run) {
	p := r.Prog
	cc := "contractcourt."
	r.Obl("restored-state-is-resumed-not-stranded", "PATH",
		"ChannelArbitrator.resolveContract: when the first IsResolved() test of the contract it was handed answers true, every path to the function's end passes log.ResolveContract; maybeAugmentTaprootResolvers: the cases of the incoming resolvers (success, incoming contest) compute the new htlcResolution from the restored one as well as from the logged one, through a function that copies Preimage from the restored value; UtxoNursery.waitForTimeoutConf: after a successful CribToKinder every path to a return passes sweepMatureOutputs unless the maturity height (ConfHeight()+BlocksToMaturity()) is above the best height read before the store call; every SupplementState(chanState) call of relaunchResolvers and prepContractResolutions is under chanState != nil",
		"a resolver checkpoints resolved=true in its own transaction, before the arbitrator removes it from the log: a contract restored in that state is skipped by launch and resolve alike, and the channel is never marked fully resolved; the logged resolution never holds the preimage (it is learned later and lives in the resolver's checkpoint), so overwriting the restored resolution makes a restarted taproot success resolver sweep with a zero preimage; a timeout output promoted after its class height passed is graduated by no block epoch; the historical channel record can be absent and the attendant goroutine would panic on every start", 8,
		func(o *an.Obl) {
			// 1. resolveContract
			f := p.Func(cc + "ChannelArbitrator.resolveContract")
			g := f.Graph()
			isRes := an.CallNamed("IsResolved", an.Param(0))
			yes := f.EdgesOf(an.Truth(isRes, true, "currentContract.IsResolved()"))
			no := f.EdgesOf(an.Truth(isRes, false, "!currentContract.IsResolved()"))
			tests := map[*flow.Vertex]bool{}
			for e := range yes {
				tests[e.From] = true
			}
			for e := range no {
				tests[e.From] = true
			}
			stopFirst := map[*flow.Vertex]bool{}
			for v := range tests {
				stopFirst[v] = true
			}
			for _, s := range f.Calls(an.CalleeNamed("Resolve"), false) {
				stopFirst[s.V] = true
			}
			first := g.Reach(g.Entry, nil, stopFirst)
			remove := f.Calls(an.CalleeNamed("ResolveContract"), false)
			if need(o, f, "log.ResolveContract", remove, 2) && len(tests) > 0 {
				stop := map[*flow.Vertex]bool{}
				for _, s := range remove {
					stop[s.V] = true
				}
				n := 0
				for e := range yes {
					if !first[e.From] {
						continue
					}
					n++
					o.Site("%s: first IsResolved() test at %s; its true edge leads to ResolveContract", f.ID, f.Where(e.From.Pos()))
					if stop[e.To] {
						continue
					}
					if g.Reach(e.To, nil, stop)[g.Exit] {
						o.FailAt(f.ID+"#restored-resolved-contract-not-removed", f.Where(e.From.Pos()), "a contract that is already resolved when resolveContract starts (stop between the resolver's final checkpoint and ResolveContract) reaches the end of the function without log.ResolveContract: it stays in the log forever")
					}
				}
				if n == 0 {
					o.FailAt(f.ID+"#first-test", f.Where(f.Body.Pos()), "cannot find the first IsResolved() test of resolveContract")
				}
			} else if len(tests) == 0 {
				o.FailAt(f.ID+"#tests", f.Where(f.Body.Pos()), "resolveContract no longer tests currentContract.IsResolved()")
			}

			// 2. taproot augmentation keeps what the resolver learned
			ma := p.Func(cc + "maybeAugmentTaprootResolvers")
			_, clauses := ma.TypeSwitchCases()
			nIn := 0
			for _, cl := range clauses {
				incoming := false
				for _, te := range cl.List {
					t := an.TypeID(ma.Info().TypeOf(te))
					if strings.HasSuffix(t, "htlcSuccessResolver") || strings.HasSuffix(t, "htlcIncomingContestResolver") {
						incoming = true
					}
				}
				if !incoming {
					continue
				}
				ast.Inspect(cl, func(n ast.Node) bool {
					as, ok := n.(*ast.AssignStmt)
					if !ok || len(as.Lhs) != 1 || !strings.HasSuffix(an.Text(as.Lhs[0]), ".htlcResolution") {
						return true
					}
					nIn++
					rhs := as.Rhs[0]
					lhsTxt := an.Text(as.Lhs[0])
					call, isCall := rhs.(*ast.CallExpr)
					usesRestored := false
					if isCall {
						for _, a := range call.Args {
							if an.Text(a) == lhsTxt {
								usesRestored = true
							}
						}
					}
					o.Site("maybeAugmentTaprootResolvers: %s = %s", lhsTxt, an.Text(rhs))
					if !usesRestored {
						o.FailAt(ma.ID+"#incoming-resolution-overwritten", ma.Where(as.Pos()), "%s is replaced by %s: the preimage the restored resolver had checkpointed is lost", lhsTxt, an.Text(rhs))
						return true
					}
					callee := p.FuncOpt(an.CalleeID(ma.Info(), call))
					if callee == nil {
						o.FailAt(ma.ID+"#augment-callee", ma.Where(as.Pos()), "cannot resolve the function merging the restored and the logged resolution (%s)", an.Text(call.Fun))
						return true
					}
					// which parameter receives the restored value
					ri := -1
					for i, a := range call.Args {
						if an.Text(a) == lhsTxt {
							ri = i
						}
					}
					ws := callee.Assigns(an.FieldPath(an.Any(), "Preimage"), false)
					okCopy := false
					for _, w := range ws {
						was := w.Node.(*ast.AssignStmt)
						if callee.Canon(was.Rhs[0]) == "$p"+itoa(ri)+".Preimage" {
							okCopy = true
						}
					}
					if !okCopy {
						o.FailAt(callee.ID+"#preimage-kept", callee.Where(callee.Body.Pos()), "%s does not copy Preimage from its restored argument (parameter %d)", callee.ID, ri)
					}
					return true
				})
			}
			if nIn < 2 {
				o.FailAt(ma.ID+"#incoming-cases", ma.Where(ma.Body.Pos()), "expected the htlcResolution assignments of the two incoming resolver cases, found %d", nIn)
			}

			// 3. late promotion
			w := p.Func(cc + "UtxoNursery.waitForTimeoutConf")
			crib := w.Calls(an.CalleeNamed("CribToKinder"), false)
			sweep := w.Calls(an.CalleeIs(cc+"UtxoNursery.sweepMatureOutputs"), false)
			var load []an.Site
			for _, s := range w.AllCalls(false) {
				c := s.Node.(*ast.CallExpr)
				if an.CalleeID(w.Info(), c) == "sync/atomic.LoadUint32" && len(c.Args) == 1 && strings.HasSuffix(an.Text(c.Args[0]), ".bestHeight") {
					load = append(load, s)
				}
			}
			if need(o, w, "CribToKinder", crib, 1) && need(o, w, "sweepMatureOutputs", sweep, 1) && need(o, w, "atomic.LoadUint32(&u.bestHeight)", load, 1) {
				before(o, w, "the read of the best height", load, "the store call", crib)
				after := w.Graph().Reach(crib[0].V, nil, nil)
				var rets []an.Site
				for _, s := range w.Returns() {
					if after[s.V] {
						rets = append(rets, s)
					}
				}
				maturity := canonTerm(`ConfHeight\(\) \+ .*BlocksToMaturity\(\)\)?$`)
				best := canonTerm(`atomic\.LoadUint32\(&\$recv\.bestHeight\)$`)
				mustPassUnless(o, w, "sweepMatureOutputs", sweep, an.OkPassed, rets,
					an.Cmp(maturity, an.GT, best, "maturity height > best height"),
					an.IsNil(an.LocalNamed("err"), false, "CribToKinder failed"))
				for _, s := range sweep {
					if a := w.ArgCanon(s); !reMatch(`ConfHeight\(\) \+ .*BlocksToMaturity\(\)\)?$`, a[0]) {
						o.FailAt(w.ID+"#late-sweep-height", s.Where(), "the late output is offered for class height %s, expected its maturity height", a[0])
					}
				}
			}

			// 4. SupplementState only with a found channel state
			nSup := 0
			for _, fn := range []string{"relaunchResolvers", "prepContractResolutions"} {
				ff := p.Func(cc + "ChannelArbitrator." + fn)
				for _, s := range ff.Calls(an.CalleeNamed("SupplementState"), true) {
					nSup++
					guarded(o, s.Fn, s, an.IsNil(an.LocalNamed("chanState"), false, "chanState != nil"))
				}
			}
			if nSup < 8 {
				o.FailAt(cc+"ChannelArbitrator#supplement-sites", "", "expected at least 8 SupplementState calls in relaunchResolvers / prepContractResolutions, found %d", nSup)
			}
		})
}
