package lnwire

import (
	"bytes"
	"testing"

	"github.com/stretchr/testify/require"
)

// TestProbeDecodeBlindedPathsIsAFunctionOfTheBytes decodes the same record
// twice into one target: the second decode must yield what the bytes say, not
// the paths of the first decode followed by them.
func TestProbeDecodeBlindedPathsIsAFunctionOfTheBytes(t *testing.T) {
	intro, _ := validPubkeyIntro(t)
	orig := &BlindedPaths{Paths: []BlindedPath{{
		IntroductionNode: intro,
		BlindingPoint:    validBlindingPoint(t),
		Hops: []BlindedHop{{
			BlindedNodeID: validBlindingPoint(t),
			EncryptedData: []byte{1, 2, 3},
		}},
	}}}

	var (
		b   bytes.Buffer
		buf [8]byte
	)
	require.NoError(t, encodeBlindedPaths(&b, orig, &buf))
	raw := b.Bytes()

	var target BlindedPaths
	require.NoError(t, decodeBlindedPaths(
		bytes.NewReader(raw), &target, &buf, uint64(len(raw)),
	))
	require.Len(t, target.Paths, 1)

	require.NoError(t, decodeBlindedPaths(
		bytes.NewReader(raw), &target, &buf, uint64(len(raw)),
	))
	require.Len(t, target.Paths, 1, "decode appended to the paths the "+
		"target already held")

	// A zero-length record means no paths.
	require.NoError(t, decodeBlindedPaths(
		bytes.NewReader(nil), &target, &buf, 0,
	))
	require.Empty(t, target.Paths)
}
