package sweep

import (
	"testing"

	"github.com/lightningnetwork/lnd/fn/v2"
	"github.com/lightningnetwork/lnd/input"
	"github.com/lightningnetwork/lnd/lnwallet/chainfee"
	"github.com/stretchr/testify/require"
)

// TestProbePublishFailedKeepsOfferedRate is the unit version of
// TestProbeRetryRateForgottenAfterInitialFailure: a failed attempt that reports
// no fee rate (or a lower one) must not erase (or lower) the fee rate already
// recorded for the input, while a higher one is taken over.
//
// FAILS on the unmodified tree.
func TestProbePublishFailedKeepsOfferedRate(t *testing.T) {
	s := New(&UtxoSweeperConfig{})

	inp := createMockInput(t, s, Published)
	pi := s.inputs[inp.OutPoint()]
	pi.params.StartingFeeRate = fn.Some(chainfee.SatPerKWeight(1676))

	set := &MockInputSet{}
	set.On("Inputs").Return([]input.Input{inp})

	// A failure that carries no fee rate, e.g. ErrTxNoOutput.
	s.markInputsPublishFailed(set, 0)
	require.Equal(t, PublishFailed, pi.state)
	require.EqualValues(t, 1676, pi.params.StartingFeeRate.UnwrapOr(0))

	// A failure that carries a lower fee rate.
	pi.state = PendingPublish
	s.markInputsPublishFailed(set, 500)
	require.EqualValues(t, 1676, pi.params.StartingFeeRate.UnwrapOr(0))

	// A failure that carries a higher fee rate.
	pi.state = PendingPublish
	s.markInputsPublishFailed(set, 2000)
	require.EqualValues(t, 2000, pi.params.StartingFeeRate.UnwrapOr(0))
}
