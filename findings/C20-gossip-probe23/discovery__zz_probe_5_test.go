package discovery

import (
	"math"
	"testing"
	"time"

	"github.com/lightningnetwork/lnd/routing/route"
	"github.com/stretchr/testify/require"
)

// TestProbeNodeAnnFarFutureTimestamp: a node announcement dated at the end of
// the uint32 range, correctly signed by the node, is accepted without any
// bound (channel updates have one) and from then on every correctly dated
// announcement of the node is stale.
func TestProbeNodeAnnFarFutureTimestamp(t *testing.T) {
	ctx := t.Context()

	tCtx, err := createTestCtx(t, 10, false)
	require.NoError(t, err)

	peer := &mockPeer{pk: remoteKeyPriv1.PubKey()}

	// The node needs a known channel for its announcement to be kept.
	batch, err := tCtx.createRemoteAnnouncements(5)
	require.NoError(t, err)
	require.NoError(t, mustProcess(
		t, tCtx.gossiper.ProcessRemoteAnnouncement(
			ctx, batch.chanAnn, peer,
		),
	))

	future, err := createNodeAnnouncement(remoteKeyPriv1, math.MaxUint32)
	require.NoError(t, err)
	err = mustProcess(t, tCtx.gossiper.ProcessRemoteAnnouncement(
		ctx, future, peer,
	))
	t.Logf("far-future node announcement: %v", err)

	now, err := createNodeAnnouncement(
		remoteKeyPriv1, uint32(time.Now().Unix()),
	)
	require.NoError(t, err)
	require.NoError(t, mustProcess(
		t, tCtx.gossiper.ProcessRemoteAnnouncement(ctx, now, peer),
	))

	node, err := tCtx.router.FetchNode(
		ctx, route.Vertex(now.NodeID),
	)
	require.NoError(t, err)
	require.Equal(t, int64(now.Timestamp), node.LastUpdate.Unix(),
		"correctly dated node announcement was shadowed by the "+
			"far-future one")
}
