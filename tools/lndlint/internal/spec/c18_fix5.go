package spec

import (
	"go/ast"
	"go/token"
	"go/types"
	"strings"

	"lndlint/internal/an"
	"lndlint/internal/flow"
)

func init() {
	specExtras["C18"] = append(specExtras["C18"], c18f5Rules)
}

// c18f5Rules: necessary conditions behind the repairs f94f7cd, f9eb33b,
// 7925fd7 and 53291d0 in package sweep (f94f7cd and 53291d0 extend the table
// of reoffered-input-keeps-the-rate-already-offered in c18_fix4.go through
// c18f5MonotoneRateWrite), and behind the round-4 seeds C18/g (a fee rate
// re-labelled into another unit) and C18/h (the weight behind the ceiling and
// the transaction built disagree on the extra output).
func c18f5Rules(r *an.Run) {
	p := r.Prog

	r.Obl("estimator-failure-is-retried-not-fatal", "GUARD",
		"NewLinearFeeFunction: every return reached when obtaining the starting rate failed (the failure edges of the call that defines it; its only source of failure is the fee estimator) is a failing return whose error wraps ErrEstimateFeeRate under a %w verb; initializeFeeFunction hands the constructor's result out as a tail return or returns its error bare / %w-wrapped, and is called only by initializeTx (which keeps the chain) and calculateRetryFeeRate; in handleInitialTxError a true `errors.Is(err, ErrEstimateFeeRate)` leads to `result.Event = TxFailed` on every path and to no other event; in calculateRetryFeeRate, once initializeFeeFunction failed, a failing return is reached only below a false `errors.Is(<that error>, ErrEstimateFeeRate)` tested after the last write of that error",
		"the property quantifies over every estimator answer, errors included: an estimator that errs while the fee function is created says nothing about the inputs; answering it with TxFatal removes a time-sensitive input from the sweeper for good, so the ceiling is never offered by its deadline", 10,
		func(o *an.Obl) {
			c18f5EstimatorFailureRetried(o, p)
		})

	r.Obl("wallet-inputs-are-added-until-a-non-dust-change-fits", "GUARD",
		"BudgetInputSet.AddWalletInputs: the loop that adds wallet UTXOs is left before the UTXOs are exhausted only by a failing return or below `shortfall + reserve <= 0`, shortfall being b.budgetShortfall() computed after the addWalletInput of that iteration and not written since, reserve being lnwallet.DustLimitForSize of a P2WSH/P2TR script (the largest dust limit of a change script); NeedWalletInput returns `b.budgetShortfall() > 0`; budgetShortfall returns needed - borrowable, needed starting at the extra budget and growing by the budget of every input with a required output, borrowable growing by value - budget of every other input",
		"when the fee reaches the budget what is left of the borrowed wallet value is the change: stopping as soon as the budget is merely covered leaves a change below dust, which is donated to the fee, the fee exceeds the budget, createAndCheckTx refuses the transaction on every retry and the ceiling is never published", 13,
		func(o *an.Obl) {
			c18f5WalletInputsLeaveChange(o, p)
		})

	r.Obl("fee-rate-unit-is-converted-not-relabelled", "TABLE",
		"in package sweep no conversion to one of the fee-rate unit types of lnwallet/chainfee (SatPerKWeight, SatPerKVByte, SatPerVByte) has an operand that derives (through parentheses, conversions, arithmetic and singly-defined locals) from a value of another of these unit types: a change of unit goes through the unit's FeePerKWeight/FeePerKVByte/FeePerVByte method; every BumpRequest literal of package sweep sets MaxFeeRate to <receiver>.cfg.MaxFeeRate.FeePerKWeight() (the method of the config field's unit type) and the field is written nowhere else",
		"the configured maximum is kept in sat/vbyte and the publisher caps in sat/kw: a value re-labelled instead of converted (FeePerKVByte() wrapped into SatPerKWeight) makes the cap MaxFeeRateAllowed applies four times the configured maximum", 9,
		func(o *an.Obl) {
			c18f5UnitsConverted(o, p)
		})

	r.Obl("ceiling-weight-counts-the-extra-output-the-transaction-gets", "MIRROR",
		"BumpRequest.MaxFeeRateAllowed: the weight the budget is divided by is calcSweepTxWeight(r.Inputs, addrs); addrs is defined once as the list holding the request's delivery address and is otherwise only appended the package's P2TR dummy script, under no other condition than a flag, on every path to the weight computation on which the flag is true; the flag is defined once as fn.Any(r.Inputs, pred), pred(i) = fn.MapOptionZ(i.ResolutionBlob(), b -> len(b) > 0): the extra output is counted as soon as ANY input has a blob; prepareSweepTx hands the aux sweeper's DeriveSweepAddr its complete input list (parameter 0, before it is overwritten) and the change address, the option it fills is the one whose WhenSome closure appends the derived output's script to the script list given to getWeightEstimate, before that call",
		"the aux sweeper adds its output to the real transaction as soon as one input of the set has a resolution blob; a ceiling computed from a weight without that output (a universal instead of an existential test over the inputs) is above budget over real size: at the top of the ramp fee = rate x real weight exceeds the budget, createAndCheckTx refuses the transaction and the ceiling is never published", 12,
		func(o *an.Obl) {
			c18f5ExtraOutputAgreement(o, p)
		})
}

// ---------------------------------------------------------------- shared

// c18f5SameExpr: a and b are the same expression: identifiers refer to the same
// object, selectors select the same member of the same operand, calls have
// the same callee expression and arguments, literals the same value.
func c18f5SameExpr(f *an.Func, a, b ast.Expr) bool {
	a, b = ast.Unparen(a), ast.Unparen(b)
	switch x := a.(type) {
	case *ast.Ident:
		y, ok := b.(*ast.Ident)
		if !ok {
			return false
		}
		ox, oy := c17ObjOfIdent(f, x), c17ObjOfIdent(f, y)
		return ox != nil && ox == oy
	case *ast.SelectorExpr:
		y, ok := b.(*ast.SelectorExpr)
		return ok && x.Sel.Name == y.Sel.Name && c18f5SameExpr(f, x.X, y.X)
	case *ast.CallExpr:
		y, ok := b.(*ast.CallExpr)
		if !ok || len(x.Args) != len(y.Args) || !c18f5SameExpr(f, x.Fun, y.Fun) {
			return false
		}
		for i := range x.Args {
			if !c18f5SameExpr(f, x.Args[i], y.Args[i]) {
				return false
			}
		}
		return true
	case *ast.BasicLit:
		y, ok := b.(*ast.BasicLit)
		return ok && x.Kind == y.Kind && x.Value == y.Value
	case *ast.StarExpr:
		y, ok := b.(*ast.StarExpr)
		return ok && c18f5SameExpr(f, x.X, y.X)
	}
	return false
}

// c18f5FailureEdges returns the edges taken when the call at site s (an
// `x, err := call(…)` whose error is tested against nil) failed.
func c18f5FailureEdges(f *an.Func, s an.Site) []*flow.Edge {
	okEdges, direct := f.OkEdges(s, an.OkErrNil)
	if direct {
		return nil
	}
	var out []*flow.Edge
	seen := map[*flow.Vertex]bool{}
	for e := range okEdges {
		if seen[e.From] {
			continue
		}
		seen[e.From] = true
		for _, x := range e.From.Out {
			if !okEdges[x] {
				out = append(out, x)
			}
		}
	}
	return out
}

// c18f5ReturnsFrom lists the returns of f reached from the given edges without
// passing another return.
func c18f5ReturnsFrom(f *an.Func, edges []*flow.Edge) []an.Site {
	stop := map[*flow.Vertex]bool{}
	for _, s := range f.Returns() {
		stop[s.V] = true
	}
	hit := map[*flow.Vertex]bool{}
	for _, e := range edges {
		for v := range f.Graph().Reach(e.To, nil, stop) {
			hit[v] = true
		}
	}
	var out []an.Site
	for _, s := range f.Returns() {
		if hit[s.V] {
			out = append(out, s)
		}
	}
	return out
}

// c18f5FormatVerbs returns the verb letters of a constant format string in
// operand order (%% skipped); nil when the format is not a constant.
func c18f5FormatVerbs(f *an.Func, e ast.Expr) []byte {
	tv, ok := f.Info().Types[e]
	if !ok || tv.Value == nil {
		return nil
	}
	s := tv.Value.ExactString()
	var out []byte
	for i := 0; i < len(s); i++ {
		if s[i] != '%' {
			continue
		}
		i++
		for i < len(s) && strings.IndexByte("+-# 0123456789.[]*", s[i]) >= 0 {
			i++
		}
		if i < len(s) && s[i] != '%' {
			out = append(out, s[i])
		}
	}
	return out
}

// c18f5WrapsSentinel: e is the package-level error sweep.<name>, or a fmt.Errorf
// call that lists the sentinel as the operand of a %w verb.
func c18f5WrapsSentinel(f *an.Func, e ast.Expr, name string) bool {
	e = ast.Unparen(e)
	is := an.PkgVar("sweep", name)
	if is(f, e) {
		return true
	}
	call, ok := e.(*ast.CallExpr)
	if !ok || an.CalleeID(f.Info(), call) != "fmt.Errorf" || len(call.Args) < 2 {
		return false
	}
	verbs := c18f5FormatVerbs(f, call.Args[0])
	for i, a := range call.Args[1:] {
		if is(f, ast.Unparen(a)) && i < len(verbs) && verbs[i] == 'w' {
			return true
		}
	}
	return false
}

// ---------------------------------------------------------------- f94f7cd, 53291d0

// c18f5MonotoneRateWrite checks one tabled writer `B.params.StartingFeeRate =
// fn.Some(x)` of an input's recorded rate (as is the assignment at site w, x
// the operand of fn.Some): the write is reached only below `x >= B.params.
// StartingFeeRate.UnwrapOr(0)` tested after the last write of B and of x (a
// rate at or below the recorded one is skipped), or x is max(…) over the
// recorded rate.
func c18f5MonotoneRateWrite(o *an.Obl, f *an.Func, w an.Site, as *ast.AssignStmt, x ast.Expr) {
	sel, _ := an.Strip(f.Info(), as.Lhs[0]).(*ast.SelectorExpr)
	var base ast.Expr
	if sel != nil && sel.Sel.Name == "StartingFeeRate" {
		if inner, ok := ast.Unparen(sel.X).(*ast.SelectorExpr); ok && inner.Sel.Name == "params" {
			base = ast.Unparen(inner.X)
		}
	}
	if base == nil || x == nil {
		o.FailAt(f.ID+"#monotone-shape", w.Where(), "%s: cannot read the input and the rate of this writer of the recorded starting rate", an.Text(as))
		return
	}
	recorded := func(g *an.Func, e ast.Expr) bool {
		call, ok := ast.Unparen(e).(*ast.CallExpr)
		if !ok || len(call.Args) != 1 || !an.IntConst(0)(g, ast.Unparen(call.Args[0])) {
			return false
		}
		fun, ok := ast.Unparen(call.Fun).(*ast.SelectorExpr)
		if !ok || fun.Sel.Name != "UnwrapOr" {
			return false
		}
		return c18f5SameExpr(g, fun.X, sel)
	}
	// max(x, recorded) needs no guard
	if call, ok := ast.Unparen(x).(*ast.CallExpr); ok && an.CalleeID(f.Info(), call) == "builtin.max" {
		for _, a := range call.Args {
			if recorded(f, a) {
				o.Site("%s: the rate written is the maximum over the recorded one", w.String())
				return
			}
		}
	}
	newRate := func(g *an.Func, e ast.Expr) bool { return c18f5SameExpr(g, e, x) }
	notLower := an.Cmp(newRate, an.GE, recorded, "new rate >= recorded StartingFeeRate.UnwrapOr(0)")
	guarded(o, f, w, notLower)
	var objs []types.Object
	for _, e := range []ast.Expr{base, x} {
		if id, ok := ast.Unparen(e).(*ast.Ident); ok {
			if obj := c17ObjOfIdent(f, id); obj != nil {
				objs = append(objs, obj)
			}
		}
	}
	c17HoldsSinceLastWrite(o, f, w, notLower, objs...)
}

// ---------------------------------------------------------------- f9eb33b

const c18f5EstSentinel = "ErrEstimateFeeRate"

func c18f5EstimatorFailureRetried(o *an.Obl, p *an.Prog) {
	tp := sw + "TxPublisher."

	// ---- the constructor names the cause
	k := c18CtorShape(p)
	c := k.f
	n := 0
	for _, w := range k.startDef {
		as, _ := w.Node.(*ast.AssignStmt)
		if as == nil || len(as.Rhs) != 1 || len(as.Lhs) != 2 {
			continue
		}
		call, _ := ast.Unparen(as.Rhs[0]).(*ast.CallExpr)
		s, ok := c17SiteOfNode(c, w.Node)
		if call == nil || !ok {
			continue
		}
		fail := c18f5FailureEdges(c, an.Site{Fn: c, V: s.V, Node: call})
		for _, ret := range c18f5ReturnsFrom(c, fail) {
			n++
			rs, _ := ret.Node.(*ast.ReturnStmt)
			o.Site("the starting rate could not be obtained: %s", ret.String())
			if rs == nil || len(rs.Results) != 2 || c.ClassifyReturn(ret) != an.RetFailure {
				o.FailAt(c.ID+"#estimate-failed-return", ret.Where(), "after the starting rate could not be obtained the constructor leaves by %s, expected a failing return", ret.String())
				continue
			}
			if !c18f5WrapsSentinel(c, rs.Results[1], c18f5EstSentinel) {
				o.FailAt(c.ID+"#estimate-failed-error", ret.Where(), "the failure to obtain the starting rate is returned as %s, expected %s (bare or as the operand of a %%w verb): handleInitialTxError and calculateRetryFeeRate recognise it by errors.Is", an.Text(rs.Results[1]), c18f5EstSentinel)
			}
		}
	}
	if n == 0 {
		o.FailAt(c.ID+"#estimate-failed-return", c.Where(c.Body.Pos()), "cannot find the return taken when the call that defines the starting rate fails")
	}

	// ---- the chain into the handlers
	g := p.Func(tp + "initializeFeeFunction")
	ctorCalls := g.Calls(an.CalleeIs(sw+"NewLinearFeeFunction"), false)
	allTail := len(ctorCalls) > 0
	for _, s := range ctorCalls {
		rs, isRet := s.V.Node.(*ast.ReturnStmt)
		if !isRet || len(rs.Results) != 1 || ast.Unparen(rs.Results[0]) != s.Node {
			allTail = false
		}
	}
	if allTail {
		for _, s := range ctorCalls {
			o.Site("initializeFeeFunction hands out the constructor's result: %s", s.String())
		}
	} else {
		c18f4ChainKept(o, g, an.CalleeIs(sw+"NewLinearFeeFunction"), "NewLinearFeeFunction")
	}
	it := p.Func(tp + "initializeTx")
	c18f4ChainKept(o, it, an.CalleeIs(g.ID), "initializeFeeFunction")
	retry := p.Func(tp + "calculateRetryFeeRate")
	for _, fn := range p.Funcs(false, "sweep") {
		for _, s := range fn.Calls(an.CalleeIs(g.ID), true) {
			if id := fn.Root().ID; id != it.ID && id != retry.ID {
				o.FailAt(fn.ID+"#creates-fee-function", s.Where(), "%s calls initializeFeeFunction; only initializeTx (handled by handleInitialTxError) and calculateRetryFeeRate recognise an estimator failure", fn.ID)
			}
		}
	}

	// ---- handleInitialTxError: retried
	h := p.Func(tp + "handleInitialTxError")
	notReassigned(o, h, c17ParamNames(h, 1)...)
	var failed, others []an.Site
	for _, s := range h.Assigns(an.Field(sw+"BumpResult", "Event", nil), false) {
		as, _ := s.Node.(*ast.AssignStmt)
		if as != nil && len(as.Rhs) == 1 && as.Tok == token.ASSIGN && an.PkgVar("sweep", "TxFailed")(h, ast.Unparen(as.Rhs[0])) {
			failed = append(failed, s)
		} else {
			others = append(others, s)
		}
	}
	is := an.Truth(an.CallTo("errors.Is", nil, an.Param(1), an.PkgVar("sweep", c18f5EstSentinel)), true, "errors.Is(err, "+c18f5EstSentinel+")")
	es := h.EdgesOf(is)
	if len(es) == 0 {
		o.FailAt(h.ID+"#no-case-"+c18f5EstSentinel, h.Where(h.Body.Pos()), "handleInitialTxError has no test errors.Is(err, %s): an estimator failure falls through to TxFatal", c18f5EstSentinel)
	}
	for e := range es {
		o.Site("errors.Is(err, %s) at %s leads to TxFailed", c18f5EstSentinel, h.Where(e.From.Pos()))
		if c18ReachesWithout(h, e.To, nil, failed, h.Graph().Exit) {
			o.FailAt(h.ID+"#event-of-"+c18f5EstSentinel, h.Where(e.From.Pos()), "after errors.Is(err, %s) the function can return without `result.Event = TxFailed`", c18f5EstSentinel)
		}
		reach := h.Graph().Reach(e.To, nil, nil)
		for _, x := range others {
			if reach[x.V] {
				o.FailAt(h.ID+"#event-of-"+c18f5EstSentinel, x.Where(), "after errors.Is(err, %s) the event can be set by %s; the inputs must be retried (TxFailed)", c18f5EstSentinel, an.Text(x.Node))
			}
		}
	}

	// ---- calculateRetryFeeRate: an estimator failure is not an error of the inputs
	calls := retry.Calls(an.CalleeIs(g.ID), false)
	if !need(o, retry, "initializeFeeFunction", calls, 1) {
		return
	}
	for _, s := range calls {
		o.Site("%s", s.String())
		as, _ := s.V.Node.(*ast.AssignStmt)
		var errObj types.Object
		if as != nil && len(as.Lhs) == 2 && len(as.Rhs) == 1 && ast.Unparen(as.Rhs[0]) == s.Node {
			if id, ok := as.Lhs[1].(*ast.Ident); ok && id.Name != "_" {
				errObj = c17ObjOfIdent(retry, id)
			}
		}
		fail := c18f5FailureEdges(retry, s)
		if errObj == nil || len(fail) == 0 {
			o.FailAt(retry.ID+"#fee-function-error", s.Where(), "cannot find the error of initializeFeeFunction and its test in calculateRetryFeeRate")
			continue
		}
		notEst := an.Truth(an.CallTo("errors.Is", nil, c17ObjTerm(errObj), an.PkgVar("sweep", c18f5EstSentinel)), false, "!errors.Is(err, "+c18f5EstSentinel+")")
		for _, ret := range c18f5ReturnsFrom(retry, fail) {
			if retry.ClassifyReturn(ret) == an.RetSuccess {
				o.Site("initializeFeeFunction failed: %s", ret.String())
				continue
			}
			guarded(o, retry, ret, notEst)
			c17HoldsSinceLastWrite(o, retry, ret, notEst, errObj)
		}
	}
}

// ---------------------------------------------------------------- 7925fd7

func c18f5WalletInputsLeaveChange(o *an.Obl, p *an.Prog) {
	bs := sw + "BudgetInputSet."
	f := p.Func(bs + "AddWalletInputs")
	g := f.Graph()
	adds := f.Calls(an.CalleeIs(bs+"addWalletInput"), false)
	if !needExactly(o, f, "addWalletInput", adds, 1) {
		return
	}
	// the loop that adds
	var head *flow.Vertex
	for _, v := range g.V {
		rs, ok := v.Node.(*ast.RangeStmt)
		if !ok || v.Kind != flow.KRange || rs.Body == nil {
			continue
		}
		if rs.Body.Pos() <= adds[0].Node.Pos() && adds[0].Node.End() <= rs.Body.End() {
			if head == nil || head.Node.(*ast.RangeStmt).Pos() < rs.Pos() {
				head = v
			}
		}
	}
	if head == nil {
		o.FailAt(f.ID+"#loop", adds[0].Where(), "addWalletInput is not called inside a loop over the wallet's UTXOs")
		return
	}
	var body, done *flow.Vertex
	for _, e := range head.Out {
		switch e.Kind {
		case flow.ERangeIn:
			body = e.To
		case flow.ERangeDone:
			done = e.To
		}
	}
	if body == nil {
		return
	}
	stopHead := map[*flow.Vertex]bool{head: true}
	in := g.Reach(body, nil, stopHead)
	post := map[*flow.Vertex]bool{}
	if done != nil {
		post = g.Reach(done, nil, stopHead)
	}

	shortfall := an.CallTo(bs+"budgetShortfall", an.Recv())
	reserve := an.CallTo("lnwallet.DustLimitForSize", nil, an.Or(an.PkgVar("input", "P2WSHSize"), an.PkgVar("input", "P2TRSize")))
	neg := func(t an.Term) an.Term {
		return func(fn *an.Func, e ast.Expr) bool {
			u, ok := ast.Unparen(e).(*ast.UnaryExpr)
			return ok && u.Op == token.SUB && an.Match(fn, t, u.X)
		}
	}
	enough := an.AnyOf("shortfall + change reserve <= 0",
		an.Cmp(an.Bin(token.ADD, shortfall, reserve), an.LE, an.IntConst(0), ""),
		an.Cmp(shortfall, an.LE, neg(reserve), ""),
		an.Cmp(neg(shortfall), an.GE, reserve, ""))

	// the locals the establishing tests read
	var objs []types.Object
	var sfDefs []an.Site
	seenObj := map[types.Object]bool{}
	for e := range f.EdgesOf(enough) {
		ast.Inspect(e.From.Node, func(n ast.Node) bool {
			id, ok := n.(*ast.Ident)
			if !ok {
				return true
			}
			obj, isVar := c17ObjOfIdent(f, id).(*types.Var)
			if !isVar || obj.IsField() || seenObj[obj] || !definesObj(f, obj) {
				return true
			}
			seenObj[obj] = true
			objs = append(objs, obj)
			if d := f.UniqueDef(id); d != nil && an.Match(f, shortfall, d) {
				if s, ok := c17SiteOfNode(f, d); ok {
					sfDefs = append(sfDefs, s)
				}
			}
			return true
		})
	}

	nExit := 0
	check := func(s an.Site, what string) {
		nExit++
		o.Site("AddWalletInputs stops adding at %s", s.String())
		guarded(o, f, s, enough)
		c17HoldsSinceLastWrite(o, f, s, enough, objs...)
		// the shortfall is the one after this iteration's addition
		stop := map[*flow.Vertex]bool{}
		for _, d := range sfDefs {
			stop[d.V] = true
		}
		for _, e := range adds[0].V.Out {
			if r := g.Reach(e.To, nil, stop); r[s.V] && !stop[s.V] {
				o.FailAt(f.ID+"#stale-shortfall", s.Where(), "%s (%s) is reached after addWalletInput without computing budgetShortfall() again: the amount compared does not count the input just added", what, s.String())
				break
			}
		}
	}
	for v := range in {
		if v == head || post[v] || v == g.Exit || v == g.PanicExit || v.Kind == flow.KPanic {
			continue
		}
		for _, e := range v.Out {
			to := e.To
			if to == head || to == g.PanicExit || (in[to] && !post[to] && to != g.Exit) {
				continue
			}
			if rs, isRet := v.Node.(*ast.ReturnStmt); isRet {
				s := an.Site{Fn: f, V: v, Node: rs}
				if f.ClassifyReturn(s) == an.RetFailure {
					o.Site("failing exit of the loop: %s", s.String())
					continue
				}
				check(s, "the return that ends the borrowing")
				continue
			}
			if v.Node == nil {
				continue
			}
			check(an.Site{Fn: f, V: v, Node: v.Node}, "the jump out of the loop")
		}
	}
	if nExit == 0 {
		// a loop that always runs to the end borrows everything: allowed, but
		// then this rule no longer sees the construct it was written for
		o.FailAt(f.ID+"#no-early-exit", f.Where(head.Pos()), "the loop over the wallet's UTXOs has no exit below `shortfall + reserve <= 0`: the rule no longer sees the stop condition")
	}

	// ---- the two readers of the shortfall
	nw := p.Func(bs + "NeedWalletInput")
	for _, s := range nw.Returns() {
		rs, _ := s.Node.(*ast.ReturnStmt)
		if rs == nil || len(rs.Results) != 1 {
			continue
		}
		c := nw.Canon(rs.Results[0])
		o.Site("NeedWalletInput returns %s", c)
		if !reMatch(`^\(\$recv\.budgetShortfall\(\) > 0\)$|^\(0 < \$recv\.budgetShortfall\(\)\)$`, c) {
			o.FailAt(nw.ID+"#verdict", s.Where(), "NeedWalletInput returns %s, expected b.budgetShortfall() > 0", c)
		}
	}
	c18f5ShortfallValue(o, p.Func(bs+"budgetShortfall"))
}

// c18f5ShortfallValue: budgetShortfall returns needed - borrowable with the
// tabled writes of the two accumulators.
func c18f5ShortfallValue(o *an.Obl, f *an.Func) {
	var needed, borrow types.Object
	for _, s := range f.Returns() {
		rs, _ := s.Node.(*ast.ReturnStmt)
		if rs == nil || len(rs.Results) != 1 {
			continue
		}
		be, _ := ast.Unparen(rs.Results[0]).(*ast.BinaryExpr)
		var x, y *ast.Ident
		if be != nil && be.Op == token.SUB {
			x, _ = ast.Unparen(be.X).(*ast.Ident)
			y, _ = ast.Unparen(be.Y).(*ast.Ident)
		}
		o.Site("budgetShortfall returns %s", an.Text(rs.Results[0]))
		if x == nil || y == nil {
			o.FailAt(f.ID+"#value", s.Where(), "budgetShortfall returns %s, expected <budget needed> - <budget borrowable>", an.Text(rs.Results[0]))
			return
		}
		nx, ny := c17ObjOfIdent(f, x), c17ObjOfIdent(f, y)
		if (needed != nil && needed != nx) || (borrow != nil && borrow != ny) {
			o.FailAt(f.ID+"#value", s.Where(), "budgetShortfall returns differences of different locals")
			return
		}
		needed, borrow = nx, ny
	}
	if needed == nil || borrow == nil {
		o.FailAt(f.ID+"#value", f.Where(f.Body.Pos()), "budgetShortfall has no return of the form needed - borrowable")
		return
	}
	hasRequired := an.Cmp(canonTerm(`^\$elem\(\$recv\.inputs\)\.RequiredTxOut\(\)$`), an.NE, an.Nil(), "the input has a required output")
	noRequired := an.Cmp(canonTerm(`^\$elem\(\$recv\.inputs\)\.RequiredTxOut\(\)$`), an.EQ, an.Nil(), "the input has no required output")
	for _, w := range c17WritesOf(f, needed) {
		s, ok := c17SiteOfNode(f, w.Node)
		c := ""
		if w.Rhs != nil {
			c = f.Canon(w.Rhs)
		}
		o.Site("needed: %s", an.Text(w.Node))
		switch {
		case w.Tok == token.VAR && c == "$recv.extraBudget":
		case ok && w.Tok == token.ADD_ASSIGN && w.Whole && c == "$elem($recv.inputs).params.Budget":
			guarded(o, f, s, hasRequired)
		default:
			o.FailAt(f.ID+"#needed", f.Where(w.Node.Pos()), "the budget needed is written by %s; tabled: the initial extra budget and `+= <input>.params.Budget` for an input with a required output", an.Text(w.Node))
		}
	}
	for _, w := range c17WritesOf(f, borrow) {
		s, ok := c17SiteOfNode(f, w.Node)
		c := ""
		if w.Rhs != nil {
			c = f.Canon(w.Rhs)
		}
		o.Site("borrowable: %s", an.Text(w.Node))
		switch {
		case w.Tok == token.VAR && w.Rhs == nil:
		case ok && w.Tok == token.ADD_ASSIGN && w.Whole && reMatch(`^\([\w./]*btcutil(/v2)?\.Amount\(\$elem\(\$recv\.inputs\)\.SignDesc\(\)\.Output\.Value\) - \$elem\(\$recv\.inputs\)\.params\.Budget\)$`, c):
			guarded(o, f, s, noRequired)
		default:
			o.FailAt(f.ID+"#borrowable", f.Where(w.Node.Pos()), "the budget borrowable is written by %s (%s); tabled: `+= value - budget` of an input without required output", an.Text(w.Node), c)
		}
	}
}

// ---------------------------------------------------------------- seed C18/g

var c18f5Units = map[string]bool{
	"lnwallet/chainfee.SatPerKWeight": true,
	"lnwallet/chainfee.SatPerKVByte":  true,
	"lnwallet/chainfee.SatPerVByte":   true,
}

// c18f5UnitOf returns the fee-rate unit type of e's static type, "" if none.
func c18f5UnitOf(f *an.Func, e ast.Expr) string {
	t := f.Info().TypeOf(e)
	if t == nil {
		return ""
	}
	if _, isPtr := t.(*types.Pointer); isPtr {
		return ""
	}
	if id := an.TypeID(t); c18f5Units[id] {
		return id
	}
	return ""
}

// c18f5ForeignUnit walks the operand of a conversion to the unit `target`
// through parentheses, conversions, arithmetic and singly-defined locals and
// returns the first sub-expression whose type is another fee-rate unit.
func c18f5ForeignUnit(f *an.Func, e ast.Expr, target string, depth int) (ast.Expr, string) {
	e = ast.Unparen(e)
	if e == nil || depth > 8 {
		return nil, ""
	}
	if u := c18f5UnitOf(f, e); u != "" {
		if u != target {
			return e, u
		}
		// same unit: a nested conversion is judged on its own
		if call, ok := e.(*ast.CallExpr); ok && len(call.Args) == 1 {
			if tv, isConv := f.Info().Types[call.Fun]; isConv && tv.IsType() {
				return nil, ""
			}
		}
	}
	switch x := e.(type) {
	case *ast.CallExpr:
		if len(x.Args) == 1 {
			if tv, ok := f.Info().Types[x.Fun]; ok && tv.IsType() {
				return c18f5ForeignUnit(f, x.Args[0], target, depth+1)
			}
		}
	case *ast.BinaryExpr:
		if w, u := c18f5ForeignUnit(f, x.X, target, depth+1); w != nil {
			return w, u
		}
		return c18f5ForeignUnit(f, x.Y, target, depth+1)
	case *ast.UnaryExpr:
		if x.Op == token.SUB || x.Op == token.ADD {
			return c18f5ForeignUnit(f, x.X, target, depth+1)
		}
	case *ast.Ident:
		if d := f.UniqueDef(x); d != nil {
			return c18f5ForeignUnit(f, d, target, depth+1)
		}
	}
	return nil, ""
}

func c18f5UnitsConverted(o *an.Obl, p *an.Prog) {
	for _, f := range p.Funcs(false, "sweep") {
		ast.Inspect(f.Body, func(n ast.Node) bool {
			if fl, isLit := n.(*ast.FuncLit); isLit && fl != f.Lit {
				return false // literals are functions of their own
			}
			call, ok := n.(*ast.CallExpr)
			if !ok || len(call.Args) != 1 {
				return true
			}
			tv, isConv := f.Info().Types[call.Fun]
			if !isConv || !tv.IsType() {
				return true
			}
			target := c18f5UnitOf(f, call)
			if target == "" {
				return true
			}
			o.Site("%s: conversion %s", f.ID, an.Text(call))
			if w, u := c18f5ForeignUnit(f, call.Args[0], target, 0); w != nil {
				o.FailAt(f.ID+"#relabelled-fee-rate", f.Where(call.Pos()), "%s re-labels %s, a rate in %s, as %s without converting it: use the unit's FeePer… method", an.Text(call), an.Text(w), u, target)
			}
			return true
		})
	}

	// ---- the cap handed to the publisher
	nLit := 0
	for _, cl := range p.CompositeLitsOf(p.LookupType("sweep", "BumpRequest")) {
		if cl.Fn == nil || an.IsTestish(cl.Fn.Filename()) || !strings.HasPrefix(cl.Fn.ID, sw) {
			continue
		}
		nLit++
		f := cl.Fn
		v := c17f4KV(cl.Node.(*ast.CompositeLit), "MaxFeeRate")
		if v == nil {
			o.FailAt(f.ID+"#no-max-fee-rate", cl.Where, "%s builds a BumpRequest without MaxFeeRate", f.ID)
			continue
		}
		o.Site("%s: BumpRequest.MaxFeeRate = %s", f.ID, f.Canon(v))
		call, _ := ast.Unparen(v).(*ast.CallExpr)
		ok := call != nil && an.CalleeID(f.Info(), call) == "lnwallet/chainfee.SatPerVByte.FeePerKWeight" && f.Canon(v) == "$recv.cfg.MaxFeeRate.FeePerKWeight()"
		if !ok {
			o.FailAt(f.ID+"#max-fee-rate", f.Where(v.Pos()), "the cap handed to the publisher is %s, expected the configured maximum converted by its unit's FeePerKWeight(): $recv.cfg.MaxFeeRate.FeePerKWeight()", f.Canon(v))
		}
	}
	if nLit == 0 {
		o.FailAt("sweep.BumpRequest#no-literal", "", "no function of package sweep builds a BumpRequest: the table of this obligation is out of date")
	}
	for _, f := range p.Funcs(false, "sweep") {
		for _, s := range f.Assigns(an.Field(sw+"BumpRequest", "MaxFeeRate", nil), false) {
			o.FailAt(f.ID+"#writes-max-fee-rate", s.Where(), "%s writes the cap of an existing request: %s", f.ID, s.String())
		}
	}
}

// ---------------------------------------------------------------- seed C18/h

// c18f5FnCallee: call is a call of the generic helper fn.<name>.
func c18f5FnCallee(f *an.Func, call *ast.CallExpr, name string) bool {
	id := an.CalleeID(f.Info(), call)
	return strings.HasPrefix(id, "fn") && strings.HasSuffix(id, "."+name)
}

// c18f5ResultsOf returns the single result expressions of the returns of a
// literal with one result; nil when a return has another shape.
func c18f5ResultsOf(lf *an.Func) []ast.Expr {
	var out []ast.Expr
	for _, s := range lf.Returns() {
		rs, _ := s.Node.(*ast.ReturnStmt)
		if rs == nil || len(rs.Results) != 1 {
			return nil
		}
		out = append(out, rs.Results[0])
	}
	return out
}

func c18f5ExtraOutputAgreement(o *an.Obl, p *an.Prog) {
	// ---- the ceiling's side
	f := p.Func(sw + "BumpRequest.MaxFeeRateAllowed")
	calc := f.Calls(an.CalleeIs(sw+"calcSweepTxWeight"), false)
	if needExactly(o, f, "calcSweepTxWeight", calc, 1) {
		c18f5CeilingAddrs(o, f, calc[0])
	}

	// ---- the builder's side
	g := p.Func(sw + "prepareSweepTx")
	ps := g.Params(false)
	if len(ps) < 2 {
		return
	}
	inputs := ps[0]
	nDerive := 0
	for _, fn := range append([]*an.Func{g}, g.Lits...) {
		for _, s := range fn.Calls(an.CalleeNamed("DeriveSweepAddr"), false) {
			nDerive++
			a := fn.ArgCanon(s)
			o.Site("%s inputs=%s change=%s", s.String(), a[0], a[1])
			if a[0] != "$p0" || a[1] != "$p1" {
				o.FailAt(g.ID+"#derive-arguments", s.Where(), "the aux sweeper derives the extra output from (%s, %s), expected the complete input list and the change address of prepareSweepTx", a[0], a[1])
			}
			use := g.Graph().Containing(s.Node, true)
			if use == nil {
				continue
			}
			for _, w := range c17WritesOf(g, inputs) {
				ws, ok := c17SiteOfNode(g, w.Node)
				if !ok {
					o.FailAt(g.ID+"#inputs-rewritten", g.Where(w.Node.Pos()), "the input list is written inside a closure: %s", an.Text(w.Node))
					continue
				}
				if ws.V == use || c17StrictlyAfter(g.Graph(), ws.V)[use] {
					o.FailAt(g.ID+"#derive-after-rewrite", s.Where(), "the aux sweeper is asked after the input list was overwritten by %s", an.Text(w.Node))
				}
			}
		}
	}
	if nDerive != 1 {
		o.FailAt(g.ID+"#derive-count", g.Where(g.Body.Pos()), "expected exactly one DeriveSweepAddr in prepareSweepTx, found %d", nDerive)
	}
	est := g.Calls(an.CalleeIs(sw+"getWeightEstimate"), false)
	if !needExactly(o, g, "getWeightEstimate", est, 1) {
		return
	}
	if a := g.ArgCanon(est[0]); a[0] != "$p0" {
		o.FailAt(g.ID+"#estimated-inputs", est[0].Where(), "the weight is estimated for %s, expected the input list of prepareSweepTx", a[0])
	}
	scripts, _ := ast.Unparen(callArg(est[0], 4)).(*ast.Ident)
	if scripts == nil {
		o.FailAt(g.ID+"#estimated-scripts", est[0].Where(), "the output scripts of the weight estimate are %s, expected a local list", an.Text(callArg(est[0], 4)))
		return
	}
	sobj := c17ObjOfIdent(g, scripts)
	nAppend := 0
	for i, w := range c17WritesOf(g, sobj) {
		o.Site("builder's script list: %s", an.Text(w.Node))
		if i == 0 && w.Tok == token.DEFINE && w.Whole && !w.Tuple {
			cl, _ := ast.Unparen(w.Rhs).(*ast.CompositeLit)
			if cl == nil || len(cl.Elts) != 1 || g.Canon(cl.Elts[0]) != "$p1.DeliveryAddress" {
				o.FailAt(g.ID+"#scripts-definition", g.Where(w.Node.Pos()), "the script list starts as %s, expected the change address alone", an.Text(w.Rhs))
			}
			continue
		}
		// append inside the WhenSome closure of the derived option
		var lit *an.Func
		for _, l := range g.Lits {
			if l.Lit.Pos() <= w.Node.Pos() && w.Node.End() <= l.Lit.End() && (lit == nil || lit.Lit.Pos() < l.Lit.Pos()) {
				lit = l
			}
		}
		call, _ := w.Rhs.(*ast.CallExpr)
		isAppend := lit != nil && w.Tok == token.ASSIGN && w.Whole && !w.Tuple && call != nil && an.CalleeID(g.Info(), call) == "builtin.append" && len(call.Args) == 2 && c18f5SameExpr(g, call.Args[0], scripts)
		if !isAppend {
			o.FailAt(g.ID+"#scripts-rewritten", g.Where(w.Node.Pos()), "the script list of the weight estimate is changed by %s; tabled: the append of the derived extra output's script in the WhenSome closure", an.Text(w.Node))
			continue
		}
		nAppend++
		if c := lit.Canon(call.Args[1]); c != "$lit.p0.TxOut.PkScript" {
			o.FailAt(g.ID+"#appended-script", g.Where(w.Node.Pos()), "the script appended is %s, expected the script of the derived output", c)
		}
		// the closure is the operand of <option>.WhenSome, the option filled
		// from DeriveSweepAddr, and runs before the estimate
		use := g.Graph().Containing(lit.Lit, true)
		var when *ast.CallExpr
		if use != nil {
			use.Inspect(false, func(n ast.Node) bool {
				if c, ok := n.(*ast.CallExpr); ok && len(c.Args) == 1 && ast.Unparen(c.Args[0]) == ast.Expr(lit.Lit) {
					when = c
				}
				return true
			})
		}
		var opt *ast.Ident
		if when != nil {
			if sel, ok := ast.Unparen(when.Fun).(*ast.SelectorExpr); ok && sel.Sel.Name == "WhenSome" {
				opt, _ = ast.Unparen(sel.X).(*ast.Ident)
			}
		}
		if opt == nil {
			o.FailAt(g.ID+"#append-condition", g.Where(w.Node.Pos()), "the append of the extra output's script is not the body of <derived option>.WhenSome")
			continue
		}
		before(o, g, "the append of the derived output's script", []an.Site{{Fn: g, V: use, Node: when}}, "the weight estimate", est)
		for _, ow := range c17WritesOf(g, c17ObjOfIdent(g, opt)) {
			if ow.Tok == token.VAR && ow.Rhs == nil {
				continue
			}
			c := ""
			if ow.Rhs != nil {
				c = g.Canon(ow.Rhs)
				for _, l := range g.Lits {
					if l.Lit.Pos() <= ow.Node.Pos() && ow.Node.End() <= l.Lit.End() {
						c = l.Canon(ow.Rhs)
					}
				}
			}
			o.Site("derived option: %s (%s)", an.Text(ow.Node), c)
			if ow.Tok != token.ASSIGN || !reMatch(`\.DeriveSweepAddr\(\$p0, \$p1\)\.LeftToSome\(\)$`, c) {
				o.FailAt(g.ID+"#derived-option", g.Where(ow.Node.Pos()), "the option that decides the extra output is written by %s, expected DeriveSweepAddr(inputs, change).LeftToSome()", an.Text(ow.Node))
			}
		}
	}
	if nAppend != 1 {
		o.FailAt(g.ID+"#scripts-appends", est[0].Where(), "expected exactly one append of the derived output's script to the script list of the weight estimate, found %d", nAppend)
	}
}

// c18f5CeilingAddrs checks the address list of the weight behind the ceiling.
func c18f5CeilingAddrs(o *an.Obl, f *an.Func, calc an.Site) {
	a := f.ArgCanon(calc)
	if a[0] != "$recv.Inputs" {
		o.FailAt(f.ID+"#weighed-inputs", calc.Where(), "the budget is divided by the weight of %s, expected the request's inputs", a[0])
	}
	addrs, _ := ast.Unparen(callArg(calc, 1)).(*ast.Ident)
	if addrs == nil {
		o.FailAt(f.ID+"#weighed-addresses", calc.Where(), "the output scripts of the weight are %s, expected a local list", an.Text(callArg(calc, 1)))
		return
	}
	aobj := c17ObjOfIdent(f, addrs)
	var appends []an.Site
	for i, w := range c17WritesOf(f, aobj) {
		s, inGraph := c17SiteOfNode(f, w.Node)
		o.Site("ceiling's script list: %s", an.Text(w.Node))
		if i == 0 && w.Tok == token.DEFINE && w.Whole && !w.Tuple {
			cl, _ := ast.Unparen(w.Rhs).(*ast.CompositeLit)
			if cl == nil || len(cl.Elts) != 1 || f.Canon(cl.Elts[0]) != "$recv.DeliveryAddress.DeliveryAddress" {
				o.FailAt(f.ID+"#addresses-definition", f.Where(w.Node.Pos()), "the script list starts as %s, expected the request's delivery address alone", an.Text(w.Rhs))
			}
			continue
		}
		call, _ := w.Rhs.(*ast.CallExpr)
		if !inGraph || w.Tok != token.ASSIGN || !w.Whole || w.Tuple || call == nil || an.CalleeID(f.Info(), call) != "builtin.append" || len(call.Args) != 2 || !c18f5SameExpr(f, call.Args[0], addrs) {
			o.FailAt(f.ID+"#addresses-rewritten", f.Where(w.Node.Pos()), "the script list of the weight is changed by %s; tabled: the append of the extra output's script", an.Text(w.Node))
			continue
		}
		if !an.PkgVar("sweep", "dummyChangePkScript")(f, ast.Unparen(call.Args[1])) {
			o.FailAt(f.ID+"#extra-script", s.Where(), "the extra output is weighed with the script %s, expected the package's P2TR dummy script (the aux sweeper's outputs are P2TR)", f.Canon(call.Args[1]))
		}
		appends = append(appends, s)
	}
	if !need(o, f, "append of the extra output's script", appends, 1) {
		return
	}
	for _, s := range appends {
		flags := c17f4IdentGuardsOf(f, s)
		if len(flags) != 1 {
			o.FailAt(f.ID+"#extra-output-flag", s.Where(), "the append of the extra output's script is guarded by %d boolean locals, expected the one flag `some input has a resolution blob`; guards: %v", len(flags), f.GuardsAt(s))
			continue
		}
		flag := flags[0]
		fobj := c17ObjOfIdent(f, flag)
		onlyGuards(o, f, s, []string{"^" + regexpQuote(flag.Name) + "$"}, "the extra output's script")
		mustDoUnless(o, f, "the append of the extra output's script", appends, []an.Site{calc},
			an.Truth(c17ObjTerm(fobj), false, "no input has a resolution blob"))
		def, _ := f.UniqueDef(flag).(*ast.CallExpr)
		if def == nil {
			o.FailAt(f.ID+"#flag-definition", s.Where(), "the flag %s is not defined once by a call", flag.Name)
			continue
		}
		o.Site("flag %s := %s", flag.Name, f.Canon(def))
		if !c18f5FnCallee(f, def, "Any") || len(def.Args) != 2 {
			o.FailAt(f.ID+"#flag-quantifier", f.Where(def.Pos()), "the flag that adds the extra output to the weight is %s, expected fn.Any over the inputs: the transaction gets the output as soon as ANY input has a blob", f.Canon(def))
			continue
		}
		if c := f.Canon(def.Args[0]); c != "$recv.Inputs" {
			o.FailAt(f.ID+"#flag-range", f.Where(def.Pos()), "the flag quantifies over %s, expected the request's inputs (the list that is weighed and swept)", c)
		}
		fl, _ := ast.Unparen(def.Args[1]).(*ast.FuncLit)
		if fl == nil {
			o.FailAt(f.ID+"#flag-predicate", f.Where(def.Pos()), "the predicate of the flag is %s, expected a literal", an.Text(def.Args[1]))
			continue
		}
		lf := f.LitFunc(fl)
		res := c18f5ResultsOf(lf)
		if len(res) != 1 {
			o.FailAt(f.ID+"#flag-predicate", f.Where(fl.Pos()), "the predicate of the flag has %d plain returns, expected one", len(res))
			continue
		}
		mz, _ := ast.Unparen(res[0]).(*ast.CallExpr)
		var inner *ast.FuncLit
		if mz != nil && c18f5FnCallee(lf, mz, "MapOptionZ") && len(mz.Args) == 2 {
			inner, _ = ast.Unparen(mz.Args[1]).(*ast.FuncLit)
		}
		if inner == nil || lf.Canon(mz.Args[0]) != "$lit.p0.ResolutionBlob()" {
			o.FailAt(f.ID+"#flag-predicate", f.Where(fl.Pos()), "the predicate of the flag returns %s, expected fn.MapOptionZ(<input>.ResolutionBlob(), <blob is not empty>)", lf.Canon(res[0]))
			continue
		}
		in := lf.LitFunc(inner)
		ires := c18f5ResultsOf(in)
		if len(ires) != 1 || !reMatch(`^\(len\(\$lit\.p0\) (> 0|!= 0|>= 1)\)$|^\(0 (<|!=) len\(\$lit\.p0\)\)$`, in.Canon(ires[0])) {
			c := "<several returns>"
			if len(ires) == 1 {
				c = in.Canon(ires[0])
			}
			o.FailAt(f.ID+"#flag-predicate", f.Where(inner.Pos()), "a blob counts when %s, expected len(blob) > 0", c)
		}
	}
}
