package spec

import (
	"go/ast"
	"go/token"
	"strings"

	"lndlint/internal/an"
)

func init() {
	specExtras["C19"] = append(specExtras["C19"], c19f4CachedInboundFee, c19f4CltvBudget)
}

// c19f4Owner returns the function literal g is handed to: the call of the
// parent function that has g's literal among its arguments.
func c19f4Owner(g *an.Func) (parent *an.Func, call *ast.CallExpr) {
	if g.Lit == nil || g.Parent == nil {
		return nil, nil
	}
	ast.Inspect(g.Parent.Body, func(n ast.Node) bool {
		c, ok := n.(*ast.CallExpr)
		if !ok || call != nil {
			return call == nil
		}
		for _, a := range c.Args {
			if ast.Unparen(a) == g.Lit {
				call = c
			}
		}
		return true
	})
	return g.Parent, call
}

// c19f4OptionOf: when c is `<P>.InboundFee.<method>(...)` it returns the
// expression P and the method name.
func c19f4OptionOf(c *ast.CallExpr) (policy ast.Expr, method string) {
	sel, ok := ast.Unparen(c.Fun).(*ast.SelectorExpr)
	if !ok {
		return nil, ""
	}
	opt, ok := ast.Unparen(sel.X).(*ast.SelectorExpr)
	if !ok || opt.Sel.Name != "InboundFee" {
		return nil, ""
	}
	return opt.X, sel.Sel.Name
}

// c19f4SameValue: two expressions denote the same value: the same variable,
// or the same canonical form (locals with a single definition are expanded; a
// local the canonical form cannot resolve only equals itself).
func c19f4SameValue(fa *an.Func, a ast.Expr, fb *an.Func, b ast.Expr) bool {
	if a == nil || b == nil {
		return false
	}
	if oa, ob := c19VarObj(fa, a), c19VarObj(fb, b); oa != nil && oa == ob {
		return true
	}
	ca, cb := fa.Canon(a), fb.Canon(b)
	return ca == cb && !strings.HasPrefix(ca, "$v:")
}

// c19f4IsZeroFee: e is the literal lnwire.Fee{}.
func c19f4IsZeroFee(f *an.Func, e ast.Expr) bool {
	cl, ok := ast.Unparen(e).(*ast.CompositeLit)
	return ok && len(cl.Elts) == 0 && an.TypeID(f.Info().TypeOf(cl)) == "lnwire.Fee"
}

// c19f4CachedInboundFee: the inbound fee of a directed channel is a function
// of the node's current outgoing policy alone (repair 9e1764b).
func c19f4CachedInboundFee(r *an.Run) {
	p := r.Prog
	r.Obl("directed-channel-inbound-fee-follows-the-current-policy", "MIRROR",
		"every value DirectedChannel.InboundFee receives in graph/db is a function of the node's current outgoing policy alone: a write that only happens when the policy's inbound-fee option is set (inside a closure handed to <policy>.InboundFee.WhenSome, or below a test of that option) stores the closure's parameter into a value the same function starts at zero (a DirectedChannel literal without that field, or a local declared without value whose only other use is to fill the literal); every other write has the form <policy>.InboundFee.UnwrapOr(lnwire.Fee{}); where the channel is built, the policy whose presence decides OutPolicySet is the policy whose option is read; in GraphCache.UpdatePolicy each case that marks the outgoing policy as set (OutPolicySet = true) also writes the inbound fee of the same channel from the policy UpdatePolicy was handed, and there is no other write",
		"the graph cache keeps a channel across policy updates: a write made only when the new policy carries the option leaves the previous policy's fee in place when a node withdraws it, so cached and uncached path finding price the hop differently and a stale negative fee makes every route underpay that node (the kv and sql stores rebuild the value from the current policy)", 9,
		func(o *an.Obl) {
			const dc = "graph/db.DirectedChannel"
			dcType := p.LookupType("graph/db", "DirectedChannel")
			fee := an.Field(dc, "InboundFee", nil)
			outSet := an.Field(dc, "OutPolicySet", nil)

			// a literal of the type that leaves the fee at zero
			freshLit := func(g *an.Func, x ast.Expr) *ast.CompositeLit {
				cl := c19LitOf(g, x)
				if cl == nil || an.NamedOf(g.Info().TypeOf(cl)) == nil || an.NamedOf(g.Info().TypeOf(cl)).Obj() != dcType.Obj() {
					return nil
				}
				if kvText(cl, "InboundFee") != "" {
					return nil
				}
				return cl
			}
			// the policy a literal takes OutPolicySet from: `OutPolicySet: P != nil`
			outPolicyOf := func(cl *ast.CompositeLit) ast.Expr {
				for _, el := range cl.Elts {
					kv, ok := el.(*ast.KeyValueExpr)
					if !ok || an.Text(kv.Key) != "OutPolicySet" {
						continue
					}
					if be, ok := ast.Unparen(kv.Value).(*ast.BinaryExpr); ok && be.Op == token.NEQ && an.Text(be.Y) == "nil" {
						return be.X
					}
				}
				return nil
			}
			// conditional: the write at s (in g) happens only when an inbound-fee
			// option is set; returns the policy of that option
			type cond struct {
				policy ast.Expr
				in     *an.Func // function the policy expression is written in
				how    string
			}
			conditional := func(g *an.Func, s an.Site) *cond {
				if par, call := c19f4Owner(g); call != nil {
					if pol, m := c19f4OptionOf(call); pol != nil && m != "UnwrapOr" {
						return &cond{pol, par, "inside " + an.Text(call.Fun)}
					}
				}
				for _, gd := range g.GuardsAt(s) {
					if strings.Contains(gd, "InboundFee") {
						return &cond{nil, g, "below " + gd}
					}
				}
				return nil
			}

			nWrites := 0
			for _, g := range p.Funcs(false, "graph/db") {
				for _, s := range g.Assigns(fee, false) {
					as, ok := s.Node.(*ast.AssignStmt)
					if !ok || len(as.Lhs) != 1 || len(as.Rhs) != 1 || as.Tok != token.ASSIGN {
						o.FailAt(g.Root().ID+"#inbound-fee-write-form", s.Where(), "%s: expected a plain assignment of the whole fee", an.Text(s.Node))
						continue
					}
					nWrites++
					base := ast.Unparen(as.Lhs[0]).(*ast.SelectorExpr).X
					c := conditional(g, s)
					lit := freshLit(g, base)
					o.Site("%s: %s (conditional=%v, target starts at zero=%v)", g.ID, an.Text(as), c != nil, lit != nil)
					if c != nil {
						if lit == nil {
							o.FailAt(g.Root().ID+"#stale-inbound-fee", s.Where(), "%s is written only %s, and %s is not a channel this function built at zero: when the current policy has no inbound fee the previous one stays in place", an.Text(as.Lhs[0]), c.how, an.Text(base))
							continue
						}
						if got := g.Canon(as.Rhs[0]); got != "$lit.p0" || c.policy == nil {
							o.FailAt(g.Root().ID+"#inbound-fee-value", s.Where(), "%s stores %s, expected the fee the option handed to the closure", an.Text(as), got)
						}
						if op := outPolicyOf(lit); op == nil || c.policy == nil || !c19f4SameValue(c.in, op, c.in, c.policy) {
							o.FailAt(g.Root().ID+"#inbound-fee-of-the-out-policy", s.Where(), "the inbound fee is read from %s while OutPolicySet of the same channel is decided by %s", an.Text(c.policy), kvText(lit, "OutPolicySet"))
						}
						continue
					}
					rhs := ast.Unparen(as.Rhs[0])
					if id, ok := rhs.(*ast.Ident); ok {
						if d := g.UniqueDef(id); d != nil {
							rhs = ast.Unparen(d) // `fee := <policy>.InboundFee.UnwrapOr(..)` first
						}
					}
					call, _ := rhs.(*ast.CallExpr)
					var pol ast.Expr
					if call != nil && len(call.Args) == 1 && c19f4IsZeroFee(g, call.Args[0]) {
						if px, m := c19f4OptionOf(call); m == "UnwrapOr" {
							pol = px
						}
					}
					if pol == nil {
						o.FailAt(g.Root().ID+"#inbound-fee-value", s.Where(), "%s: expected <policy>.InboundFee.UnwrapOr(lnwire.Fee{}) (the current policy's fee, or none)", an.Text(as))
					}
				}
			}
			// literals that set the field directly
			for _, cl := range p.CompositeLitsOf(dcType) {
				lit := cl.Node.(*ast.CompositeLit)
				if cl.Fn == nil || kvText(lit, "InboundFee") == "" {
					continue
				}
				nWrites++
				g := c19Innermost(cl.Fn, lit)
				var val ast.Expr
				for _, el := range lit.Elts {
					if kv, ok := el.(*ast.KeyValueExpr); ok && an.Text(kv.Key) == "InboundFee" {
						val = kv.Value
					}
				}
				o.Site("%s: literal InboundFee: %s", g.ID, an.Text(val))
				if call, ok := ast.Unparen(val).(*ast.CallExpr); ok {
					if px, m := c19f4OptionOf(call); m == "UnwrapOr" && len(call.Args) == 1 && c19f4IsZeroFee(g, call.Args[0]) {
						if op := outPolicyOf(lit); op == nil || !c19f4SameValue(g, op, g, px) {
							o.FailAt(g.Root().ID+"#inbound-fee-of-the-out-policy", cl.Where, "the inbound fee is read from %s while OutPolicySet is decided by %s", an.Text(px), kvText(lit, "OutPolicySet"))
						}
						continue
					}
				}
				id, ok := ast.Unparen(val).(*ast.Ident)
				if !ok {
					o.FailAt(g.Root().ID+"#inbound-fee-value", cl.Where, "InboundFee: %s: expected <policy>.InboundFee.UnwrapOr(lnwire.Fee{}) or a local that starts at zero and is filled by <policy>.InboundFee.WhenSome", an.Text(val))
					continue
				}
				objs, defs := c19LocalDefs(cl.Fn, id.Name)
				nZero, nFill := 0, 0
				for _, d := range defs {
					if d.Obj != c19VarObj(g, id) {
						continue
					}
					switch {
					case d.Tok == "zero":
						nZero++
					case d.Tok == "=" && d.Rhs != nil && d.Fn.Canon(d.Rhs) == "$lit.p0":
						par, call := c19f4Owner(d.Fn)
						var pol ast.Expr
						m := ""
						if call != nil {
							pol, m = c19f4OptionOf(call)
						}
						if pol == nil || m != "WhenSome" {
							o.FailAt(g.Root().ID+"#inbound-fee-value", cl.Fn.Where(d.Node.Pos()), "%s %s outside a closure handed to <policy>.InboundFee.WhenSome", id.Name, d.form())
							continue
						}
						nFill++
						o.Site("%s: %s %s inside %s", d.Fn.ID, id.Name, d.form(), an.Text(call.Fun))
						if op := outPolicyOf(lit); op == nil || !c19f4SameValue(par, op, par, pol) {
							o.FailAt(g.Root().ID+"#inbound-fee-of-the-out-policy", cl.Fn.Where(d.Node.Pos()), "the inbound fee is read from %s while OutPolicySet is decided by %s", an.Text(pol), kvText(lit, "OutPolicySet"))
						}
					default:
						o.FailAt(g.Root().ID+"#inbound-fee-value", cl.Fn.Where(d.Node.Pos()), "%s %s: the local that fills InboundFee must start at zero and only receive the fee of the current policy's option", id.Name, d.form())
					}
				}
				if len(objs) != 1 || nZero != 1 || nFill != 1 {
					o.FailAt(g.Root().ID+"#inbound-fee-local", cl.Where, "the local %s filling InboundFee: %d variables of that name, %d zero declarations, %d fills from the option; expected 1/1/1", id.Name, len(objs), nZero, nFill)
				}
			}
			if nWrites < 5 {
				o.FailAt("graph/db.DirectedChannel.InboundFee#writes", "", "found %d places that give DirectedChannel.InboundFee a value in graph/db, expected the cache update (2), the kv store and the sql store (2)", nWrites)
			}

			// GraphCache.UpdatePolicy: OutPolicySet = true and the fee of the
			// policy handed in travel together
			up := p.Func("graph/db.GraphCache.UpdatePolicy")
			notReassigned(o, up, "policy")
			nPairs, nFee := 0, 0
			for _, g := range append([]*an.Func{up}, up.Lits...) {
				fees := g.Assigns(fee, false)
				nFee += len(fees)
				used := map[int]bool{}
				for _, s := range g.Assigns(outSet, false) {
					as, ok := s.Node.(*ast.AssignStmt)
					if !ok || len(as.Rhs) != 1 || an.Text(as.Rhs[0]) != "true" {
						o.FailAt(up.ID+"#out-policy-set", s.Where(), "%s: UpdatePolicy is expected to mark the outgoing policy as set, nothing else", an.Text(s.Node))
						continue
					}
					base := ast.Unparen(as.Lhs[0]).(*ast.SelectorExpr).X
					guards := strings.Join(g.GuardsAt(s), " ; ")
					paired := false
					for i, fs := range fees {
						fa, ok := fs.Node.(*ast.AssignStmt)
						if !ok || len(fa.Rhs) != 1 || used[i] {
							continue
						}
						fb := ast.Unparen(fa.Lhs[0]).(*ast.SelectorExpr).X
						if !c19f4SameValue(g, base, g, fb) || strings.Join(g.GuardsAt(fs), " ; ") != guards {
							continue
						}
						paired, used[i] = true, true
						nPairs++
						o.Site("UpdatePolicy: %s with %s below [%s]", an.Text(as), an.Text(fa), guards)
						frhs := ast.Unparen(fa.Rhs[0])
						if id, ok := frhs.(*ast.Ident); ok {
							if d := g.UniqueDef(id); d != nil {
								frhs = ast.Unparen(d)
							}
						}
						if call, ok := frhs.(*ast.CallExpr); ok {
							if px, _ := c19f4OptionOf(call); px == nil || g.Canon(px) != "$p0" {
								o.FailAt(up.ID+"#inbound-fee-of-the-new-policy", fs.Where(), "%s: the fee cached with the new outgoing policy must be read from the policy UpdatePolicy was handed", an.Text(fa))
							}
						}
					}
					if !paired {
						o.FailAt(up.ID+"#out-policy-without-inbound-fee", s.Where(), "%s below [%s] is not accompanied by a write of the same channel's InboundFee: the cache keeps the fee of the policy that was replaced", an.Text(as), guards)
					}
				}
				for i, fs := range fees {
					if !used[i] {
						o.FailAt(up.ID+"#inbound-fee-without-out-policy", fs.Where(), "%s is not the companion of an OutPolicySet = true in the same case: the inbound fee belongs to the node's outgoing policy only", an.Text(fs.Node))
					}
				}
			}
			if nPairs != 2 || nFee != 2 {
				o.FailAt(up.ID+"#out-policy-cases", up.Where(up.Body.Pos()), "UpdatePolicy: %d cases set the outgoing policy together with its inbound fee and %d writes of InboundFee, expected 2 and 2 (node 1 / edge 1 and node 2 / edge 2)", nPairs, nFee)
			}
		})
}
