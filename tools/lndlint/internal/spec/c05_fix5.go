package spec

import (
	"go/ast"
	"go/token"
	"go/types"
	"strings"

	"lndlint/internal/an"
	"lndlint/internal/flow"
)

func init() {
	specExtras["C05"] = append(specExtras["C05"], c05f5ZeroCsv, c05f5AuxLeafSiblings, c05f5ScriptFlavour, c05f5LeaseSelectedBeforeUse)
}

// c05f5ZeroCsv (repair fe8df03): the delay leaves of the final taproot scripts
// end in `<csv> OP_CHECKSEQUENCEVERIFY`, which leaves the delay itself on the
// stack: with a delay of zero the node's to_local output and every second-level
// output of its own commitment are unspendable.
func c05f5ZeroCsv(r *an.Run) {
	p := r.Prog
	r.Obl("final-taproot-channel-never-gets-a-zero-csv-delay", "GUARD",
		"ChannelReservation.CommitConstraints returns successfully only where the reservation's ChanType.IsTaprootFinal() answered false or the CsvDelay of the commitment parameters it was given was compared unequal to 0, and the failing branch returns ErrCsvDelayZero; within package lnwallet the CsvDelay of a reservation's own contribution (the delay of the node's own commitment) is written only there, from those same parameters, below that test: no funding path installs a peer-chosen delay around it",
		"a to_local or second-level output whose script ends false can never be claimed: the balance and every HTLC resolved through a second-level transaction on the node's own commitment are lost", 9,
		func(o *an.Obl) {
			f := p.Func(lw + "ChannelReservation.CommitConstraints")
			final := an.CallNamed("IsTaprootFinal", canonTerm(`^\$recv\.partialState\.ChanType$`))
			delay := canonTerm(`^\$p1\.CsvDelay$`)
			safe := an.AnyOf("!partialState.ChanType.IsTaprootFinal() or commitParams.CsvDelay != 0",
				an.Truth(final, false, ""), an.Cmp(delay, an.NE, an.IntConst(0), ""))
			succ := f.StrictSuccessReturns()
			if need(o, f, "successful return", succ, 1) {
				guardedAll(o, f, succ, safe)
			}
			// the refusing branch
			var refuse []an.Site
			for _, s := range f.Returns() {
				rs, ok := s.Node.(*ast.ReturnStmt)
				if ok && len(rs.Results) == 1 && strings.HasSuffix(f.Canon(rs.Results[0]), "ErrCsvDelayZero()") {
					refuse = append(refuse, s)
				}
			}
			if need(o, f, "return ErrCsvDelayZero()", refuse, 1) {
				for _, s := range refuse {
					guarded(o, f, s, an.Truth(final, true, "partialState.ChanType.IsTaprootFinal()"))
					guarded(o, f, s, an.Cmp(delay, an.EQ, an.IntConst(0), "commitParams.CsvDelay == 0"))
					// nothing else narrows the refusal
					onlyGuards(o, f, s, []string{`^!\(err != nil\)$`, `IsTaprootFinal\(\)$`, `^commitParams\.CsvDelay == 0$`}, "zero delay refused")
				}
			}
			notReassigned(o, f, "commitParams")
			for _, w := range f.Assigns(canonTerm(`^\$p1(\.CsvDelay)?$|^\*\$p1$`), true) {
				o.FailAt(f.ID+"#parameters-rewritten", w.Where(), "CommitConstraints rewrites the commitment parameters it checks: %s", an.Text(w.Node))
			}
			// the only writer of our own delay
			nW := 0
			for _, fn := range p.Funcs(false, "lnwallet") {
				if fn.Lit != nil {
					continue
				}
				for _, w := range fn.Assigns(an.Field("", "CsvDelay", nil), true) {
					as, ok := w.Node.(*ast.AssignStmt)
					if !ok {
						continue
					}
					for i, l := range as.Lhs {
						sel, ok := an.Strip(fn.Info(), l).(*ast.SelectorExpr)
						if !ok || sel.Sel.Name != "CsvDelay" {
							continue
						}
						base := fn.Canon(sel.X)
						if !strings.Contains(base, "ourContribution") {
							continue
						}
						nW++
						rhs := "?"
						if len(as.Rhs) == len(as.Lhs) {
							rhs = fn.Canon(as.Rhs[i])
						}
						o.Site("%s: %s.CsvDelay = %s", fn.ID, base, rhs)
						if fn.ID != f.ID {
							o.FailAt(fn.ID+"#own-csv-delay-written", w.Where(), "%s sets the CSV delay of the node's own commitment (%s) outside CommitConstraints, where a zero delay on a final-taproot channel is refused", fn.ID, an.Text(as))
							continue
						}
						if rhs != "$p1.CsvDelay" {
							o.FailAt(f.ID+"#installed-delay", w.Where(), "CommitConstraints installs %s as the delay of the node's own commitment, expected the checked parameter ($p1.CsvDelay)", rhs)
						}
						guarded(o, f, w, safe)
					}
				}
			}
			if nW == 0 {
				o.FailAt(f.ID+"#installs-delay", f.Where(f.Body.Pos()), "cannot find where the CSV delay of the node's own commitment is installed")
			}
		})
}

// c05f5EnclosingLoop returns the innermost range / for statement of fn's root
// that contains n.
func c05f5EnclosingLoop(fn *an.Func, n ast.Node) ast.Node {
	var best ast.Node
	ast.Inspect(fn.Root().Body, func(x ast.Node) bool {
		if x == nil {
			return false
		}
		if x.Pos() > n.Pos() || x.End() < n.End() {
			return x.Pos() <= n.Pos()
		}
		switch x.(type) {
		case *ast.RangeStmt, *ast.ForStmt:
			best = x
		}
		return true
	})
	return best
}

// c05f5AuxLeafSiblings (repair 3e91fe3): signer and verifier hand the aux job
// of an HTLC the second-level leaf its second-level transaction was built
// with.
func c05f5AuxLeafSiblings(r *an.Run) {
	p := r.Prog
	r.Obl("aux-jobs-get-the-leaf-their-second-level-transaction-was-built-with", "MIRROR",
		"in genRemoteHtlcSigJobs (signer) and genHtlcSigValidationJobs (verifier) the leaf argument of every NewAuxSigJob / NewAuxVerifyJob call is a variable of the enclosing function that every CreateHtlcSuccessTx / CreateHtlcTimeoutTx call of the same loop (inside the lazy sighash closures too) passes as its leaf: one variable, not a shadow of it; on every path from its per-iteration declaration to the aux job it was assigned, in the function itself (not in a closure that runs later), from a second-level leaf looked up at this HTLC's index in the aux leaves of the commitment being signed / verified",
		"the aux signer and verifier sign and check the second-level transaction of custom channels over the leaf; a verifier that is handed no leaf (the assignment was shadowed inside a closure) checks another sighash than the peer signed", 60,
		func(o *an.Obl) {
			leafIdx := map[string]int{lw + "NewAuxSigJob": 5, lw + "NewAuxVerifyJob": 5}
			nJobs := 0
			for _, fid := range []string{lw + "genRemoteHtlcSigJobs", lw + "genHtlcSigValidationJobs"} {
				f := p.Func(fid)
				info := f.Info()
				var jobs []an.Site
				for callee := range leafIdx {
					jobs = append(jobs, f.Calls(an.CalleeIs(callee), false)...)
				}
				if !need(o, f, "aux job construction", jobs, 1) {
					continue
				}
				for _, s := range jobs {
					nJobs++
					call := s.Node.(*ast.CallExpr)
					k := leafIdx[an.CalleeID(info, call)]
					if k >= len(call.Args) {
						o.FailAt(f.ID+"#aux-job-arity", s.Where(), "%s no longer takes a leaf as argument %d", an.Text(call.Fun), k)
						continue
					}
					id, ok := ast.Unparen(call.Args[k]).(*ast.Ident)
					if !ok {
						o.FailAt(f.ID+"#aux-leaf-not-a-variable", s.Where(), "the leaf of the aux job is %s, expected the variable the second-level transaction was built with", an.Text(call.Args[k]))
						continue
					}
					obj := info.Uses[id]
					loop := c05f5EnclosingLoop(f, call)
					if loop == nil {
						o.FailAt(f.ID+"#aux-job-loop", s.Where(), "the aux job is not built inside a per-HTLC loop")
						continue
					}
					// siblings: every second-level transaction of this loop
					nTx := 0
					for _, fn := range append([]*an.Func{f}, f.Lits...) {
						for _, t := range fn.Calls(an.CalleeIs(lw+"CreateHtlcSuccessTx", lw+"CreateHtlcTimeoutTx"), false) {
							tc := t.Node.(*ast.CallExpr)
							if tc.Pos() < loop.Pos() || tc.End() > loop.End() {
								continue
							}
							nTx++
							last := ast.Unparen(tc.Args[len(tc.Args)-1])
							lid, isID := last.(*ast.Ident)
							o.Site("%s: %s built with leaf %s, aux job gets %s", f.ID, an.Text(tc.Fun), an.Text(last), id.Name)
							if !isID || fn.Info().Uses[lid] != obj {
								o.FailAt(f.ID+"#leaf-of-"+an.Text(tc.Fun), t.Where(), "%s is built with the leaf %s, which is not the variable %s handed to the aux job of the same HTLC (a shadowed or separately computed leaf)", an.Text(tc.Fun), an.Text(last), id.Name)
							}
						}
					}
					if nTx == 0 {
						o.FailAt(f.ID+"#no-second-level-tx", s.Where(), "no CreateHtlcSuccessTx / CreateHtlcTimeoutTx call in the loop of the aux job")
					}
					// the variable is assigned in the function proper, on
					// every path to the job
					var defs []an.Site
					hasDecl := false
					for _, v := range f.Graph().V {
						for _, how := range assignedTo(f, v, obj) {
							if how == "decl" {
								hasDecl = true
								continue
							}
							defs = append(defs, an.Site{Fn: f, V: v, Node: v.Node})
						}
					}
					if len(defs) == 0 {
						o.FailAt(f.ID+"#leaf-never-assigned", s.Where(), "the leaf variable %s handed to the aux job is never assigned in %s itself: the job always receives no leaf", id.Name, f.ID)
						continue
					}
					if hasDecl {
						definitelyAssigned(o, f, s, k, "aux leaf")
					} else if !f.Before(defs, s) {
						o.FailAt(f.ID+"#leaf-unassigned-path", s.Where(), "the aux job can be reached without the leaf having been assigned")
					}
					for _, d := range defs {
						rhs := rhsFor(f, d, obj)
						c := ""
						names := map[string]bool{}
						if rhs != nil {
							c = an.Text(rhs)
							ast.Inspect(rhs, func(x ast.Node) bool {
								if xid, ok := x.(*ast.Ident); ok {
									names[xid.Name] = true
								}
								return true
							})
						}
						srcArg := ""
						if oc, ok := ast.Unparen(rhs).(*ast.CallExpr); ok && len(oc.Args) == 1 {
							srcArg = f.Canon(oc.Args[0])
						}
						okSrc := names["SecondLevelLeaf"] && names["HtlcIndex"] && strings.HasSuffix(srcArg, ".AuxLeaves")
						o.Site("%s: leaf %s = %s over %s", f.ID, id.Name, c, srcArg)
						if !okSrc {
							o.FailAt(f.ID+"#leaf-source", d.Where(), "the leaf is set from %s (over %s), expected the SecondLevelLeaf at this HTLC's index of the commitment's aux leaves", c, srcArg)
						}
						// the map matches the direction of the HTLC
						in, out := names["IncomingHtlcLeaves"], names["OutgoingHtlcLeaves"]
						ctx := strings.ToLower(strings.Join(f.GuardsAt(d), " ; ") + " ; " + enclosingLoopHeader(f, d.Node))
						ctxIn, ctxOut := strings.Contains(ctx, "incominghtlc"), strings.Contains(ctx, "outgoinghtlc")
						if in == out || (in && !ctxIn && ctxOut) || (out && !ctxOut && ctxIn) {
							o.FailAt(f.ID+"#leaf-direction", d.Where(), "the leaf is looked up in the incoming (%v) / outgoing (%v) leaves for an HTLC selected by [%s]", in, out, ctx)
						}
					}
				}
			}
			if nJobs < 3 {
				o.FailAt("aux-jobs#sites", "", "expected the two NewAuxSigJob sites and the NewAuxVerifyJob site, found %d", nJobs)
			}
		})
}

// c05f5IsOptsVariadic: the signature ends in `...input.TaprootScriptOpt`.
func c05f5IsOptsVariadic(fn *types.Func) bool {
	if fn == nil {
		return false
	}
	sig, ok := fn.Type().(*types.Signature)
	if !ok || !sig.Variadic() || sig.Params().Len() == 0 {
		return false
	}
	sl, ok := sig.Params().At(sig.Params().Len() - 1).Type().(*types.Slice)
	return ok && an.TypeID(sl.Elem()) == "input.TaprootScriptOpt"
}

// c05f5ScriptFlavour (seeded change C05/g): final taproot channels use the
// production scripts, staging ones the original scripts; the flavour is an
// option every script constructor takes.  All construction and reconstruction
// sites must select it the same way, by the channel type.
func c05f5ScriptFlavour(r *an.Run) {
	p := r.Prog
	r.Obl("taproot-script-flavour-selected-by-channel-type-everywhere", "MIRROR",
		"every non-test call in lnwallet / contractcourt of a function whose last parameter is `...input.TaprootScriptOpt` spreads an option list into it (`opts...`) that is either the caller's own parameter of that kind, forwarded untouched, or a local list that is only ever extended by input.WithProdScripts(), exactly below ChanType.IsTaprootFinal(): appended on every path to the call on which IsTaprootFinal() answered true, and on none on which it answered false",
		"a sweep descriptor, control block or output script rebuilt with the staging flavour for a final-taproot channel (or vice versa) commits to another taproot output key than the one the signed transaction pays to: the output can never be claimed", 22,
		func(o *an.Obl) {
			final := an.CallNamed("IsTaprootFinal", nil)
			n := 0
			for _, fn := range p.Funcs(false, "lnwallet", "contractcourt") {
				info := fn.Info()
				for _, s := range fn.AllCalls(false) {
					call := s.Node.(*ast.CallExpr)
					callee := an.Callee(info, call)
					if !c05f5IsOptsVariadic(callee) {
						continue
					}
					n++
					sig := callee.Type().(*types.Signature)
					fixed := sig.Params().Len() - 1
					key := fn.Root().ID + "#" + callee.Name()
					if len(call.Args) <= fixed {
						o.FailAt(key+"-flavour-not-selected", s.Where(), "%s calls %s without script options: the staging scripts are built whatever the channel type; every sibling site passes the list it filled below ChanType.IsTaprootFinal()", fn.Root().ID, callee.Name())
						continue
					}
					id, isID := ast.Unparen(call.Args[len(call.Args)-1]).(*ast.Ident)
					if !call.Ellipsis.IsValid() || !isID || len(call.Args) != fixed+1 {
						o.FailAt(key+"-flavour-literal", s.Where(), "%s passes script options to %s other than by spreading one list selected by the channel type: %s", fn.Root().ID, callee.Name(), an.Text(call))
						continue
					}
					obj, _ := info.Uses[id].(*types.Var)
					// (i) pass-through of the caller's own variadic parameter
					root := fn.Root()
					isParam := false
					if c05f5IsOptsVariadic(root.Obj) {
						ps := root.Params(false)
						if len(ps) > 0 && ps[len(ps)-1] == obj {
							isParam = true
						}
					}
					if isParam {
						o.Site("%s: %s(…, %s...) forwards its own option parameter", root.ID, callee.Name(), id.Name)
						for _, st := range c04Overwrites(fn, obj) {
							o.FailAt(key+"-options-rewritten", fn.Where(st.Pos()), "%s changes the script options it forwards: %s", root.ID, an.Text(st))
						}
						continue
					}
					// (ii) a local list
					var appends []an.Site
					bad := false
					for _, v := range fn.Graph().V {
						for _, how := range assignedTo(fn, v, obj) {
							if how == "decl" {
								continue
							}
							d := an.Site{Fn: fn, V: v, Node: v.Node}
							rhs := rhsFor(fn, d, obj)
							ac, _ := ast.Unparen(rhs).(*ast.CallExpr)
							if ac == nil || an.CalleeID(info, ac) != "builtin.append" || len(ac.Args) != 2 || an.Text(ac.Args[0]) != id.Name {
								bad = true
								o.FailAt(key+"-options-source", d.Where(), "the script options are set by %s, expected only `append(%s, input.WithProdScripts())`", an.Text(v.Node), id.Name)
								continue
							}
							oc, _ := ast.Unparen(ac.Args[1]).(*ast.CallExpr)
							if oc == nil || an.CalleeID(info, oc) != "input.WithProdScripts" {
								bad = true
								o.FailAt(key+"-options-source", d.Where(), "the script options are extended by %s, expected input.WithProdScripts()", an.Text(ac.Args[1]))
								continue
							}
							appends = append(appends, d)
						}
					}
					if obj == nil || obj.IsField() || (len(appends) == 0 && !bad) {
						o.FailAt(key+"-flavour-never-selected", s.Where(), "%s spreads %s into %s, a list input.WithProdScripts() is never appended to: final-taproot channels get the staging scripts here", fn.Root().ID, id.Name, callee.Name())
						continue
					}
					o.Site("%s: %s(…, %s...) with WithProdScripts appended below IsTaprootFinal()", fn.Root().ID, callee.Name(), id.Name)
					for _, d := range appends {
						guarded(o, fn, d, an.Truth(final, true, "ChanType.IsTaprootFinal()"))
					}
					if len(appends) > 0 {
						mustDoUnless(o, fn, "the append of input.WithProdScripts()", appends, []an.Site{s}, an.Truth(final, false, "!ChanType.IsTaprootFinal()"))
					}
					// the address of the list does not escape
					ast.Inspect(fn.Root().Body, func(x ast.Node) bool {
						if u, ok := x.(*ast.UnaryExpr); ok && u.Op == token.AND {
							if uid, ok := ast.Unparen(u.X).(*ast.Ident); ok && info.Uses[uid] == obj {
								o.FailAt(key+"-options-escape", fn.Where(u.Pos()), "the address of the script option list is taken: %s", an.Text(u))
							}
						}
						return true
					})
				}
			}
			if n < 8 {
				o.FailAt("TaprootScriptOpt#sites", "", "expected at least 8 calls that take taproot script options, found %d", n)
			}
		})
}

// c05f5LeaseSelectedBeforeUse (seeded change C05/h): `var leaseExpiry uint32;
// if ChanType.HasLeaseExpiration() { leaseExpiry = ThawHeight }` is a
// selection; a script derived from the variable before the selection ran is
// derived for lease expiry 0.
func c05f5LeaseSelectedBeforeUse(r *an.Run) {
	p := r.Prog
	r.Obl("lease-expiry-selected-before-it-is-used", "PATH",
		"in lnwallet and contractcourt, for every variable that is conditionally assigned a channel's ThawHeight (the lease expiry selection), the test that guards the assignment is passed on every path to every other use of the variable, uses inside closures counted where the closure is created",
		"the to_local script of the initiator of a leased channel contains the lease expiry; derived with the still-zero variable it matches no output of the commitment, the node finds no to_local output and never sweeps its main balance", 28,
		func(o *an.Obl) {
			n := 0
			for _, f := range p.Funcs(false, "lnwallet", "contractcourt") {
				if f.Lit != nil {
					continue
				}
				info := f.Info()
				done := map[types.Object]bool{}
				for _, v := range f.Graph().V {
					as, ok := v.Node.(*ast.AssignStmt)
					if !ok || len(as.Lhs) != 1 || len(as.Rhs) != 1 || as.Tok != token.ASSIGN {
						continue
					}
					id, ok := as.Lhs[0].(*ast.Ident)
					if !ok || !strings.HasSuffix(f.Canon(as.Rhs[0]), ".ThawHeight") {
						continue
					}
					obj := info.Uses[id]
					if obj == nil || done[obj] {
						continue
					}
					done[obj] = true
					sel := an.Site{Fn: f, V: v, Node: as}
					// the tests that decide the selection: conditions whose
					// true edge dominates the assignment
					g := f.Graph()
					var tests []an.Site
					for _, c := range g.V {
						if c.Kind != flow.KCond {
							continue
						}
						for _, e := range c.Out {
							if e.Kind == flow.ETrue && !g.Reach(g.Entry, flow.EdgeSet{e: true}, nil)[v] {
								// only the innermost: a test that is itself not
								// dominating every use is what the rule is about
								tests = append(tests, an.Site{Fn: f, V: c, Node: c.Node})
							}
						}
					}
					// keep the tests not already passed at the declaration
					var declV *flow.Vertex
					for _, dv := range g.V {
						for _, how := range assignedTo(f, dv, obj) {
							if how == "decl" {
								declV = dv
							}
						}
					}
					if declV == nil {
						continue // not the declare-then-select idiom
					}
					var own []an.Site
					for _, t := range tests {
						if !f.Before([]an.Site{t}, an.Site{Fn: f, V: declV, Node: declV.Node}) {
							own = append(own, t)
						}
					}
					if len(own) == 0 {
						o.FailAt(f.ID+"#lease-selection-test", sel.Where(), "cannot find the test that guards %s", an.Text(as))
						continue
					}
					n++
					o.Site("%s: %s selected at %s", f.ID, id.Name, sel.Where())
					// every other use
					for _, u := range g.V {
						if u == v || u == declV {
							continue
						}
						used := false
						var at ast.Node
						u.Inspect(true, func(x ast.Node) bool {
							if uid, ok := x.(*ast.Ident); ok && info.Uses[uid] == obj {
								used, at = true, uid
							}
							return true
						})
						if !used {
							continue
						}
						us := an.Site{Fn: f, V: u, Node: u.Node}
						if us.Node == nil {
							us.Node = at
						}
						o.Site("%s: use of %s at %s after the selection", f.ID, id.Name, f.Where(at.Pos()))
						if !f.Before(own, us) {
							o.FailAt(f.ID+"#"+id.Name+"-used-before-selected", f.Where(at.Pos()), "%s is used at %s on a path that has not passed the test selecting it from ThawHeight (%s): the value is still 0 there", id.Name, an.Text(u.Node), an.Text(own[0].Node))
						}
					}
				}
			}
			if n < 5 {
				o.FailAt("lease-selection#sites", "", "expected at least 5 lease-expiry selections, found %d", n)
			}
		})
}
