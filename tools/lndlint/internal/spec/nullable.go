package spec

import (
	"go/ast"
	"go/types"
	"strings"

	"lndlint/internal/an"
	"lndlint/internal/flow"
)

// nullableByPresence: a NULL-able SQL column (sql.NullInt32 & co.) is tested
// by its Valid flag; a branch condition or switch tag that looks at the
// payload (.Int32, .Int64, .String, ...) must sit below `.Valid` of the same
// value.  Comparing the payload alone confuses NULL with the zero value of
// the column (e.g. failure reason 0 = timeout).
func nullableByPresence(r *an.Run, pkgs []string, floor int, why string) {
	p := r.Prog
	r.Obl("nullable-columns-tested-by-presence", "GUARD",
		"in "+strings.Join(pkgs, ", ")+" every branch condition or switch tag that reads the payload of a sql.Null* value is dominated by the Valid flag of that same value",
		why, floor,
		func(o *an.Obl) {
			payload := map[string]bool{"Int16": true, "Int32": true, "Int64": true, "String": true, "Bool": true, "Float64": true, "Time": true, "Byte": true, "V": true}
			for _, f := range p.Funcs(false, pkgs...) {
				info := f.Info()
				for _, v := range f.Graph().V {
					var e ast.Expr
					switch v.Kind {
					case flow.KCond:
						e, _ = v.Node.(ast.Expr)
					case flow.KCase:
						e = v.Tag
					}
					if e == nil {
						continue
					}
					ast.Inspect(e, func(n ast.Node) bool {
						sel, ok := n.(*ast.SelectorExpr)
						if !ok || !payload[sel.Sel.Name] {
							return true
						}
						t := info.TypeOf(sel.X)
						if t == nil {
							return true
						}
						nt, ok := types.Unalias(t).(*types.Named)
						if !ok || nt.Obj().Pkg() == nil || nt.Obj().Pkg().Path() != "database/sql" || !strings.HasPrefix(nt.Obj().Name(), "Null") {
							return true
						}
						x := f.Canon(sel.X)
						s := an.Site{Fn: f, V: v, Node: v.Node}
						fact := an.Truth(canonTerm("^"+regexpQuote(x)+`\.Valid$`), true, an.Text(sel.X)+".Valid")
						ok2, _ := f.Guarded(s, fact)
						o.Site("%s tests %s (guarded by Valid: %v)", f.Where(sel.Pos()), an.Text(sel), ok2)
						if !ok2 {
							o.FailAt(f.Root().ID+"#payload-of-"+an.Text(sel.X)+"-without-valid", f.Where(sel.Pos()), "%s branches on %s without testing %s.Valid: NULL and the column's zero value are confused", f.ID, an.Text(sel), an.Text(sel.X))
						}
						return true
					})
				}
			}
		})
}
