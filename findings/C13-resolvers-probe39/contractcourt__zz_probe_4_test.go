package contractcourt

import (
	"fmt"
	"testing"

	"github.com/btcsuite/btcd/wire/v2"
	"github.com/lightningnetwork/lnd/chainntnfs"
	"github.com/stretchr/testify/require"
)

// probeOutgoingContestOwnTimeout runs an outgoing contest resolver that is
// still in the log although our own timeout spend of the HTLC has confirmed
// (the swap to the timeout resolver did not make it to disk). The spend it
// sees is not a preimage spend, so it has to hand over to the timeout
// resolver, as the uninterrupted run did, instead of parsing a signature as a
// preimage.
func probeOutgoingContestOwnTimeout(t *testing.T,
	ctx *outgoingResolverTestContext, witness wire.TxWitness) {

	t.Helper()

	ctx.resolverResultChan = make(chan resolveResult, 1)
	go func() {
		defer func() {
			if r := recover(); r != nil {
				ctx.resolverResultChan <- resolveResult{
					err: fmt.Errorf("panic: %v", r),
				}
			}
		}()

		require.NoError(t, ctx.resolver.Launch())

		nextResolver, err := ctx.resolver.Resolve()
		ctx.resolverResultChan <- resolveResult{
			nextResolver: nextResolver,
			err:          err,
		}
	}()

	spendTx := &wire.MsgTx{
		TxIn:  []*wire.TxIn{{Witness: witness}},
		TxOut: []*wire.TxOut{{}},
	}
	spendHash := spendTx.TxHash()

	ctx.notifier.SpendChan <- &chainntnfs.SpendDetail{
		SpendingTx:    spendTx,
		SpenderTxHash: &spendHash,
		SpentOutPoint: &wire.OutPoint{},
	}

	result := <-ctx.resolverResultChan
	require.NoError(t, result.err)

	_, ok := result.nextResolver.(*htlcTimeoutResolver)
	require.True(t, ok, "expected the timeout resolver to take over, "+
		"got %T", result.nextResolver)
	require.False(t, ctx.resolver.IsResolved())
}

// TestProbeOutgoingContestOwnTimeoutRemoteCommit: HTLC on the remote party's
// commitment, our direct timeout sweep is <sig> <0> <script>.
func TestProbeOutgoingContestOwnTimeoutRemoteCommit(t *testing.T) {
	defer timeout()()

	ctx := newOutgoingResolverTestContext(t)

	sig := make([]byte, 72)
	probeOutgoingContestOwnTimeout(t, ctx, wire.TxWitness{
		sig, {}, {0xac},
	})
}

// TestProbeOutgoingContestOwnTimeoutLocalCommit: HTLC on our own commitment,
// our second-level timeout tx is <0> <sender sig> <recvr sig> <0> <script>.
func TestProbeOutgoingContestOwnTimeoutLocalCommit(t *testing.T) {
	defer timeout()()

	ctx := newOutgoingResolverTestContext(t)

	sig := make([]byte, 72)
	timeoutTx := &wire.MsgTx{
		TxIn: []*wire.TxIn{{
			Witness: wire.TxWitness{{}, sig, sig, {}, {0xac}},
		}},
		TxOut: []*wire.TxOut{{}},
	}
	ctx.resolver.htlcResolution.SignedTimeoutTx = timeoutTx

	probeOutgoingContestOwnTimeout(t, ctx, timeoutTx.TxIn[0].Witness)
}
