package htlcswitch

import (
	"testing"
	"time"

	"github.com/btcsuite/btcd/btcutil/v2"
	"github.com/lightningnetwork/lnd/channeldb"
	"github.com/lightningnetwork/lnd/clock"
	"github.com/lightningnetwork/lnd/fn/v2"
	"github.com/lightningnetwork/lnd/htlcswitch/hop"
	"github.com/lightningnetwork/lnd/lnwire"
	"github.com/stretchr/testify/require"
)

// probe2OversizedFailure returns a failure message that cannot be encoded into
// the fixed-size onion failure (channel update with a large opaque tail).
func probe2OversizedFailure() lnwire.FailureMessage {
	// A single well-formed TLV record: type 1, length 200.
	extra := append([]byte{0x01, 200}, make([]byte, 200)...)

	return lnwire.NewTemporaryChannelFailure(&lnwire.ChannelUpdate1{
		ExtraOpaqueData: extra,
	})
}

// TestProbe2MailboxFailAddAlwaysResponds: FailAdd removes the Add from the
// mailbox and must then hand a fail to the switch, even if the preferred
// failure message cannot be encoded.
func TestProbe2MailboxFailAddAlwaysResponds(t *testing.T) {
	t.Parallel()

	t.Run("forwarded", func(t *testing.T) {
		probe2MailboxFailAdd(t, NewMockObfuscator())
	})
	t.Run("local", func(t *testing.T) {
		probe2MailboxFailAdd(t, nil)
	})
}

func probe2MailboxFailAdd(t *testing.T, obfuscator hop.ErrorEncrypter) {
	_, err := NewMockObfuscator().EncryptFirstHop(probe2OversizedFailure())
	require.Error(t, err, "probe precondition")

	forwards := make(chan *htlcPacket, 1)
	mailbox := newMemoryMailBox(&mailBoxConfig{
		failMailboxUpdate: func(_,
			_ lnwire.ShortChannelID) lnwire.FailureMessage {

			return probe2OversizedFailure()
		},
		forwardPackets: func(_ <-chan struct{},
			pkts ...*htlcPacket) error {

			for _, pkt := range pkts {
				forwards <- pkt
			}

			return nil
		},
		clock:  clock.NewTestClock(time.Now()),
		expiry: time.Minute,
	})
	mailbox.Start()
	t.Cleanup(mailbox.Stop)

	outID := lnwire.NewShortChanIDFromInt(2)
	pkt := &htlcPacket{
		outgoingChanID: outID,
		outgoingHop: fn.NewLeft[lnwire.ShortChannelID, [33]byte](
			outID,
		),
		incomingChanID: lnwire.NewShortChanIDFromInt(1),
		incomingHTLCID: 7,
		amount:         1000,
		obfuscator:     obfuscator,
		htlc:           &lnwire.UpdateAddHTLC{ID: 7},
	}
	require.NoError(t, mailbox.AddPacket(pkt))

	mailbox.FailAdd(pkt)

	select {
	case fail := <-forwards:
		require.Equal(t, pkt.inKey(), fail.inKey())
		_, ok := fail.htlc.(*lnwire.UpdateFailHTLC)
		require.True(t, ok)

	case <-time.After(time.Second):
		t.Fatalf("Add removed from the mailbox but no fail was " +
			"handed to the switch")
	}
}

// TestProbe2SwitchFailAddPacketAlwaysResponds: failAddPacket must deliver a
// fail to the incoming link.
func TestProbe2SwitchFailAddPacketAlwaysResponds(t *testing.T) {
	t.Parallel()

	alicePeer, err := newMockServer(
		t, "alice", testStartingHeight, nil, testDefaultDelta,
	)
	require.NoError(t, err)

	s, err := initSwitchWithTempDB(t, testStartingHeight)
	require.NoError(t, err)
	require.NoError(t, s.Start())
	defer func() { _ = s.Stop() }()

	chanID1, _, aliceChanID, _ := genIDs()
	aliceLink := newMockChannelLink(
		s, chanID1, aliceChanID, emptyScid, alicePeer, true, false,
		false, false,
	)
	require.NoError(t, s.AddLink(aliceLink))

	pkt := &htlcPacket{
		incomingChanID: aliceChanID,
		incomingHTLCID: 3,
		outgoingChanID: lnwire.NewShortChanIDFromInt(99),
		obfuscator:     NewMockObfuscator(),
		htlc:           &lnwire.UpdateAddHTLC{ID: 3},
	}

	_ = s.failAddPacket(pkt, NewLinkError(probe2OversizedFailure()))

	select {
	case fail := <-aliceLink.packets:
		_, ok := fail.htlc.(*lnwire.UpdateFailHTLC)
		require.True(t, ok)
		require.Equal(t, uint64(3), fail.incomingHTLCID)

	case <-time.After(time.Second):
		t.Fatalf("no fail delivered to the incoming link")
	}
}

// TestProbe2LinkSendHTLCErrorAlwaysResponds: sendHTLCError must fail the
// incoming HTLC back to the peer.
func TestProbe2LinkSendHTLCErrorAlwaysResponds(t *testing.T) {
	t.Parallel()

	const chanAmt = btcutil.SatoshiPerBitcoin * 5
	const chanReserve = btcutil.SatoshiPerBitcoin * 1
	harness, err := newSingleLinkTestHarness(t, chanAmt, chanReserve)
	require.NoError(t, err)
	require.NoError(t, harness.start())

	var (
		//nolint:forcetypeassert
		coreLink = harness.aliceLink.(*channelLink)
		//nolint:forcetypeassert
		aliceMsgs = coreLink.cfg.Peer.(*mockPeer).sentMsgs
	)

	ctx := linkTestContext{
		t:           t,
		aliceSwitch: harness.aliceSwitch,
		aliceLink:   harness.aliceLink,
		bobChannel:  harness.bobChannel,
		aliceMsgs:   aliceMsgs,
	}

	htlc := generateHtlc(t, coreLink, 0)
	ctx.sendHtlcBobToAlice(htlc)
	time.Sleep(200 * time.Millisecond)

	coreLink.sendHTLCError(
		*htlc, channeldb.AddRef{}, NewLinkError(probe2OversizedFailure()),
		NewMockObfuscator(), false,
	)

	select {
	case msg := <-aliceMsgs:
		_, ok := msg.(*lnwire.UpdateFailHTLC)
		require.True(t, ok, "got %T", msg)

	case <-time.After(time.Second):
		t.Fatalf("incoming HTLC got no response at all")
	}
}
