package chancloser

import (
	"bytes"
	"testing"

	"github.com/btcsuite/btcd/btcutil/v2"
	"github.com/btcsuite/btcd/wire/v2"
	"github.com/lightningnetwork/lnd/input"
	"github.com/lightningnetwork/lnd/lntypes"
	"github.com/lightningnetwork/lnd/lnwallet/chainfee"
	"github.com/stretchr/testify/require"
)

// TestProbeLegacyTaprootFeeBaseline: the legacy negotiator of a taproot
// channel must compute its ideal and maximum fee for the transaction it is
// going to sign, a taproot keyspend of the funding output, not for a P2WSH
// multisig spend.
func TestProbeLegacyTaprootFeeBaseline(t *testing.T) {
	t.Parallel()

	localScript := append(
		[]byte{0x51, 0x20}, bytes.Repeat([]byte{0xa1}, 32)...,
	)
	remoteScript := append(
		[]byte{0x51, 0x20}, bytes.Repeat([]byte{0xb1}, 32)...,
	)

	// The weight of the transaction a taproot co-op close produces.
	var we input.TxWeightEstimator
	we.AddWitnessInput(input.TaprootSignatureWitnessSize)
	we.AddTxOutput(&wire.TxOut{PkScript: localScript})
	we.AddTxOutput(&wire.TxOut{PkScript: remoteScript})

	idealFeeRate := chainfee.SatPerKWeight(2500)
	maxFeeRate := chainfee.SatPerKWeight(5000)

	for _, maxRate := range []chainfee.SatPerKWeight{0, maxFeeRate} {
		chanCloser := NewChanCloser(
			ChanCloseCfg{
				Channel:      newMockTaprootChan(t, true),
				MaxFee:       maxRate,
				FeeEstimator: &SimpleCoopFeeEstimator{},
			}, DeliveryAddrWithKey{DeliveryAddress: localScript},
			idealFeeRate, 0, nil, lntypes.Local,
		)
		chanCloser.remoteDeliveryScript = remoteScript
		chanCloser.initFeeBaseline()

		wantIdeal := idealFeeRate.FeeForWeight(we.Weight())
		require.Equal(t, wantIdeal, chanCloser.idealFeeSat,
			"ideal fee isn't the fee of a taproot keyspend close")

		wantMax := wantIdeal * btcutil.Amount(defaultMaxFeeMultiplier)
		if maxRate != 0 {
			wantMax = maxRate.FeeForWeight(we.Weight())
		}
		require.Equal(t, wantMax, chanCloser.maxFee,
			"max fee isn't the fee of a taproot keyspend close")
	}
}
