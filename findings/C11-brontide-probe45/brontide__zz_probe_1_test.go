package brontide

import (
	"bytes"
	"io"
	"testing"

	"github.com/btcsuite/btcd/btcec/v2"
	"github.com/lightningnetwork/lnd/keychain"
	"github.com/stretchr/testify/require"
)

type zzp1Timeout struct{}

func (zzp1Timeout) Error() string   { return "zzp1: i/o timeout" }
func (zzp1Timeout) Timeout() bool   { return true }
func (zzp1Timeout) Temporary() bool { return true }

// zzp1Reader hands out the wrapped bytes and reports a read timeout each time
// the stream position reaches one of the cut offsets.
type zzp1Reader struct {
	r    *bytes.Reader
	pos  int
	cuts map[int]bool
}

func (z *zzp1Reader) Read(p []byte) (int, error) {
	if z.cuts[z.pos] {
		delete(z.cuts, z.pos)
		return 0, zzp1Timeout{}
	}
	for i := 1; i < len(p); i++ {
		if z.cuts[z.pos+i] {
			p = p[:i]
			break
		}
	}
	n, err := z.r.Read(p)
	z.pos += n

	return n, err
}

func zzp1Pair(t *testing.T) (*Machine, *Machine) {
	ip, err := btcec.NewPrivateKey()
	require.NoError(t, err)
	rp, err := btcec.NewPrivateKey()
	require.NoError(t, err)

	i := NewBrontideMachine(
		true, &keychain.PrivKeyECDH{PrivKey: ip}, rp.PubKey(),
	)
	r := NewBrontideMachine(false, &keychain.PrivKeyECDH{PrivKey: rp}, nil)

	a1, err := i.GenActOne()
	require.NoError(t, err)
	require.NoError(t, r.RecvActOne(a1))
	a2, err := r.GenActTwo()
	require.NoError(t, err)
	require.NoError(t, i.RecvActTwo(a2))
	a3, err := i.GenActThree()
	require.NoError(t, err)
	require.NoError(t, r.RecvActThree(a3))

	return i, r
}

func zzp1IsTimeout(err error) bool {
	te, ok := err.(interface{ Timeout() bool })
	return ok && te.Timeout()
}

// TestZZProbe1ReadResumableAfterTimeout: a read deadline that fires at any
// byte offset of a record must leave the read side resumable: a retry after
// the timeout delivers the same messages in the same order.
func TestZZProbe1ReadResumableAfterTimeout(t *testing.T) {
	msgs := [][]byte{
		[]byte("hello"), {}, bytes.Repeat([]byte{0xab}, 300),
	}

	sender, _ := zzp1Pair(t)
	var wire bytes.Buffer
	for _, m := range msgs {
		require.NoError(t, sender.WriteMessage(m))
		_, err := sender.Flush(&wire)
		require.NoError(t, err)
	}
	total := wire.Len()

	// The handshake is not deterministic, so each cut position gets a
	// fresh pair and a fresh stream.
	for cut := 0; cut < total; cut++ {
		sender, receiver := zzp1Pair(t)
		var wire bytes.Buffer
		for _, m := range msgs {
			require.NoError(t, sender.WriteMessage(m))
			_, err := sender.Flush(&wire)
			require.NoError(t, err)
		}

		// Two timeouts: at the cut and three bytes later.
		rd := &zzp1Reader{
			r:    bytes.NewReader(wire.Bytes()),
			cuts: map[int]bool{cut: true, cut + 3: true},
		}

		for idx, want := range msgs {
			var (
				got []byte
				err error
			)
			for tries := 0; tries < 4; tries++ {
				got, err = receiver.ReadMessage(rd)
				if err == nil || !zzp1IsTimeout(err) {
					break
				}
			}
			require.NoError(t, err, "cut=%d msg=%d: read not "+
				"resumable after a timeout", cut, idx)
			require.True(t, bytes.Equal(want, got), "cut=%d "+
				"msg=%d: payload differs", cut, idx)
		}

		// The second timeout may sit exactly at the end of the stream.
		_, err := receiver.ReadMessage(rd)
		if zzp1IsTimeout(err) {
			_, err = receiver.ReadMessage(rd)
		}
		require.ErrorIs(t, err, io.EOF)
	}
}

// TestZZProbe1SplitReadResumable: the same with the split ReadHeader and
// ReadBody calls as used by the peer, where the body buffer of the retry is a
// different one (the peer takes it from a pool).
func TestZZProbe1SplitReadResumable(t *testing.T) {
	msg := bytes.Repeat([]byte{0x5a}, 100)

	for cut := 0; cut < encHeaderSize+len(msg)+macSize; cut++ {
		sender, receiver := zzp1Pair(t)
		var wire bytes.Buffer
		require.NoError(t, sender.WriteMessage(msg))
		_, err := sender.Flush(&wire)
		require.NoError(t, err)
		require.NoError(t, sender.WriteMessage([]byte("next")))
		_, err = sender.Flush(&wire)
		require.NoError(t, err)

		rd := &zzp1Reader{
			r:    bytes.NewReader(wire.Bytes()),
			cuts: map[int]bool{cut: true},
		}

		var got []byte
		for tries := 0; tries < 3; tries++ {
			var pktLen uint32
			pktLen, err = receiver.ReadHeader(rd)
			if err != nil {
				if zzp1IsTimeout(err) {
					continue
				}
				break
			}
			require.EqualValues(t, len(msg)+macSize, pktLen)

			got, err = receiver.ReadBody(rd, make([]byte, pktLen))
			if err == nil || !zzp1IsTimeout(err) {
				break
			}
		}
		require.NoError(t, err, "cut=%d: split read not resumable", cut)
		require.True(t, bytes.Equal(msg, got), "cut=%d", cut)

		got, err = receiver.ReadMessage(rd)
		require.NoError(t, err, "cut=%d: following message", cut)
		require.Equal(t, []byte("next"), got)
	}
}
