package spec

import (
	"go/ast"
	"go/types"
	"regexp"
	"strings"

	"lndlint/internal/an"
)

func init() { specExtras["C04"] = append(specExtras["C04"], c04r5Rules) }

var (
	c04r5RemoteCfg = regexp.MustCompile(`(^|\.)RemoteChanCfg(\.DustLimit)?$`)
	c04r5LocalCfg  = regexp.MustCompile(`(^|\.)LocalChanCfg(\.DustLimit)?$`)
	c04r5Param     = regexp.MustCompile(`^\$p(\d+)(\.DustLimit)?$`)
)

// c04r5Owners resolves whose dust limit the expression e of f denotes:
// "remote" / "local" for <state>.RemoteChanCfg.DustLimit /
// <state>.LocalChanCfg.DustLimit (read directly, through locals, or through a
// parameter, in which case every static call site of f decides), "?" for
// anything else.
func c04r5Owners(p *an.Prog, f *an.Func, e ast.Expr, depth int, out map[string]bool) {
	if depth > 3 {
		out["?"] = true
		return
	}
	e = an.Strip(f.Info(), e)
	if u, ok := e.(*ast.UnaryExpr); ok {
		e = an.Strip(f.Info(), u.X)
	}
	c := f.Canon(e)
	switch {
	case c04r5RemoteCfg.MatchString(c):
		out["remote"] = true
		return
	case c04r5LocalCfg.MatchString(c):
		out["local"] = true
		return
	}
	// a local with several definitions: every one of them counts
	if id, ok := e.(*ast.Ident); ok {
		if obj, isVar := f.Info().Uses[id].(*types.Var); isVar && !obj.IsField() {
			if defs := c05AllDefs(f, obj); len(defs) > 1 {
				for _, d := range defs {
					c04r5Owners(p, f, d, depth+1, out)
				}
				return
			}
		}
	}
	if m := c04r5Param.FindStringSubmatch(c); m != nil {
		root := f.Root()
		idx := 0
		for _, ch := range m[1] {
			idx = idx*10 + int(ch-'0')
		}
		n := 0
		for _, g := range p.Funcs(false) {
			for _, s := range g.Calls(an.CalleeIs(root.ID), false) {
				call := s.Node.(*ast.CallExpr)
				if idx >= len(call.Args) || call.Ellipsis.IsValid() {
					out["?"] = true
					continue
				}
				n++
				c04r5Owners(p, g, call.Args[idx], depth+1, out)
			}
		}
		if n == 0 {
			out["?"] = true
		}
		return
	}
	out["?("+c+")"] = true
}

func c04r5Rules(r *an.Run) {
	p := r.Prog

	r.Obl("dust-limit-belongs-to-the-owner-of-the-commitment", "ROLE",
		"every non-test HtlcIsDust call in lnwallet that names the owner of the commitment as a constant receives that party's dust limit: with lntypes.Remote the value handed over as the dust limit is read from <state>.RemoteChanCfg.DustLimit, with lntypes.Local from <state>.LocalChanCfg.DustLimit (directly, through locals, or through a parameter every caller fills that way)",
		"the commitment of a party is built and its outputs are indexed with that party's dust limit; a reconstruction (legacy breach retribution, signature jobs, restored update log) that trims with the other party's limit disagrees about which HTLCs have an output whenever the two limits differ: the justice transaction spends an output that does not exist or leaves an HTLC output unpunished", 6,
		func(o *an.Obl) {
			for _, f := range p.Funcs(false, "lnwallet") {
				for _, s := range f.Calls(an.CalleeIs(lw+"HtlcIsDust"), false) {
					call := s.Node.(*ast.CallExpr)
					if len(call.Args) != 6 {
						o.FailAt(f.Root().ID+"#HtlcIsDust-arity", s.Where(), "HtlcIsDust no longer takes (chanType, incoming, whoseCommit, feeRate, amount, dustLimit)")
						continue
					}
					a := f.ArgCanon(s)
					want := ""
					switch a[2] {
					case "lntypes.Remote":
						want = "remote"
					case "lntypes.Local":
						want = "local"
					default:
						continue
					}
					got := map[string]bool{}
					c04r5Owners(p, f, call.Args[5], 0, got)
					var keys []string
					for k := range got {
						keys = append(keys, k)
					}
					sortStrings(keys)
					o.Site("%s: HtlcIsDust(…, %s, …, %s) — dust limit of: %s", f.Root().ID, a[2], a[5], strings.Join(keys, ","))
					if len(got) != 1 || !got[want] {
						o.FailAt(f.Root().ID+"#dust-limit-of-"+want+"-commitment", s.Where(),
							"%s decides with HtlcIsDust whether an HTLC has an output on the %s commitment (%s) but hands it %s as the dust limit, which is the limit of: %s; the %s commitment is built with <state>.%sChanCfg.DustLimit",
							f.Root().ID, want, a[2], a[5], strings.Join(keys, ","), want, map[string]string{"remote": "Remote", "local": "Local"}[want])
					}
				}
			}
		})

	// seeded change C04/j
	r.Obl("legacy-revocation-bucket-consulted-before-a-height-is-declared-unknown", "PATH",
		"every return of fetchRevocationLogCompatible is a successful one, or is taken only where the error of the new-bucket lookup was compared unequal to ErrLogEntryNotFound (a real read failure), or is preceded on every path by the lookup of the deprecated bucket (NestedReadBucket(revocationLogBucketDeprecated)): `not found in the new bucket` never ends the search",
		"a channel that was updated before and after the revocation-log format change has its older revoked states only in the deprecated bucket; a lookup that answers ErrLogEntryNotFound for them makes the chain watcher treat the broadcast of such a revoked commitment as `not a breach` and no justice transaction is built although log entry and secret are persisted", 5,
		func(o *an.Obl) {
			f := p.Func("channeldb.fetchRevocationLogCompatible")
			var old []an.Site
			for _, s := range f.Calls(an.CalleeNamed("NestedReadBucket"), false) {
				if a := f.ArgCanon(s); len(a) == 1 && strings.HasSuffix(a[0], "revocationLogBucketDeprecated") {
					old = append(old, s)
				}
			}
			if !need(o, f, "lookup of the deprecated revocation log bucket", old, 1) {
				return
			}
			notFound := an.PkgVar("channeldb", "ErrLogEntryNotFound")
			realFailure := an.AnyOf("err != ErrLogEntryNotFound",
				an.Cmp(an.Any(), an.NE, notFound, ""),
				an.Truth(an.CallTo("errors.Is", nil, an.Any(), notFound), false, ""))
			succ := map[*an.FlowVertex]bool{}
			for _, s := range f.StrictSuccessReturns() {
				succ[s.V] = true
			}
			for _, s := range f.Returns() {
				switch {
				case succ[s.V]:
					o.Site("%s: successful", s.String())
				case f.Before(old, s):
					o.Site("%s: after the deprecated bucket was looked up", s.String())
				default:
					if ok, _ := f.Guarded(s, realFailure); ok {
						o.Site("%s: a failure other than ErrLogEntryNotFound", s.String())
						continue
					}
					o.FailAt(f.ID+"#gives-up-before-deprecated-bucket", s.Where(),
						"fetchRevocationLogCompatible leaves through %s without having looked into the deprecated revocation log bucket, on a path where the new bucket may merely have answered ErrLogEntryNotFound (guards here: %s): revoked states kept only in the deprecated bucket are reported as unknown",
						s.String(), strings.Join(f.GuardsAt(s), " ; "))
				}
			}
		})
}
