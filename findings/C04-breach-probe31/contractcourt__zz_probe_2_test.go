package contractcourt

import (
	"testing"
	"time"

	"github.com/btcsuite/btcd/wire/v2"
	"github.com/lightningnetwork/lnd/channeldb"
	"github.com/lightningnetwork/lnd/lnwallet"
	"github.com/stretchr/testify/require"
)

// TestProbe2HandoffNoSweepableOutput hands the breach arbitrator a breach
// whose commitment has no output above dust at all (both commitment sign
// descriptors nil, no HTLC retribution). newRetributionInfo accepts this since
// the "both commitment outputs dust" fix; the handoff must ACK without
// panicking, and a restart over the same store must not panic either.
func TestProbe2HandoffNoSweepableOutput(t *testing.T) {
	db := channeldb.OpenForTesting(t, t.TempDir())

	contractBreaches := make(chan *ContractBreachEvent)
	brar, err := createTestArbiter(t, contractBreaches, db)
	require.NoError(t, err)

	chanPoint := breachOutPoints[0]
	ack := make(chan error, 1)
	breach := &ContractBreachEvent{
		ChanPoint: chanPoint,
		ProcessACK: func(brarErr error) {
			ack <- brarErr
		},
		BreachRetribution: &lnwallet.BreachRetribution{
			BreachTxHash: wire.NewMsgTx(2).TxHash(),
			BreachHeight: 100,
		},
	}

	// Run the handoff on this goroutine so a panic is observable.
	brar.wg.Add(1)
	require.NotPanics(t, func() {
		brar.handleBreachHandoff(breach)
	})

	select {
	case err := <-ack:
		require.NoError(t, err)
	case <-time.After(5 * time.Second):
		t.Fatalf("no ack")
	}

	// Restart: a second arbitrator over the same database.
	require.NotPanics(t, func() {
		_, err = createTestArbiter(
			t, make(chan *ContractBreachEvent), db,
		)
	})
	require.NoError(t, err)
}

// TestProbe2StartWithEmptyRetribution: RetributionStore.Add explicitly accepts
// a retribution without breached outputs; loading it on start must not panic.
func TestProbe2StartWithEmptyRetribution(t *testing.T) {
	db := channeldb.OpenForTesting(t, t.TempDir())

	ret := retributions[0]
	ret.breachedOutputs = nil
	require.NoError(t, NewRetributionStore(db).Add(&ret))

	var err error
	require.NotPanics(t, func() {
		_, err = createTestArbiter(
			t, make(chan *ContractBreachEvent), db,
		)
	})
	require.NoError(t, err)
}
