package spec

import (
	"go/ast"

	"lndlint/internal/an"
)

func init() {
	specExtras["C20"] = append(specExtras["C20"], c20ZombieStale)
}

// c20ZombieStale: the freshness verdict for a zombie channel (round-3 seed
// C20/e).
func c20ZombieStale(r *an.Run) {
	p := r.Prog
	r.Obl("zombie-channel-update-is-judged-by-its-age", "GUARD",
		"in Builder.IsStaleEdgePolicy every return that can be reached once the channel is known to be a zombie is either the constant true (disabled update under AssumeChannelValid) or the comparison time.Since(timestamp) > ChannelPruneExpiry: the 'unknown edge is fresh' exit and the per-direction timestamp exits lie below !isZombie",
		"a zombie channel is not 'known' (exists is false): falling through to the unknown-edge exit declares every update for it fresh, so an expired, replayed update resurrects the channel and becomes its policy", 4,
		func(o *an.Obl) {
			f := p.Func("graph.Builder.IsStaleEdgePolicy")
			zombie := an.ResultOf(an.CallNamed("HasV1ChannelEdge", an.Any(), an.Any(), an.Any()), 3)
			yes := f.EdgesOf(an.Truth(zombie, true, "isZombie"))
			if len(yes) == 0 {
				o.FailAt(f.ID+"#zombie-test", f.Where(f.Body.Pos()), "IsStaleEdgePolicy no longer tests the zombie result of HasV1ChannelEdge")
				return
			}
			g := f.Graph()
			n := 0
			for e := range yes {
				reach := g.Reach(e.To, nil, nil)
				for _, s := range f.Returns() {
					if !reach[s.V] {
						continue
					}
					n++
					rs := s.Node.(*ast.ReturnStmt)
					c := f.Canon(rs.Results[0])
					o.Site("zombie verdict: return %s", c)
					if c == "true" {
						guarded(o, f, s, an.Truth(an.FieldPath(an.FieldPath(an.Recv(), "cfg"), "AssumeChannelValid"), true, "AssumeChannelValid"))
						continue
					}
					if !reMatch(`^\(?time\.Since\(\$p1\) > \$recv\.cfg\.ChannelPruneExpiry\)?$`, c) {
						o.FailAt(f.ID+"#zombie-verdict", s.Where(), "a zombie channel's update can be answered with `return %s`, expected its age against ChannelPruneExpiry", an.Text(rs.Results[0]))
					}
				}
			}
			if n < 2 {
				o.FailAt(f.ID+"#zombie-returns", f.Where(f.Body.Pos()), "expected two verdict returns for a zombie channel, found %d", n)
			}
			notReassigned(o, f, "timestamp")
		})
}
