package spec

import (
	"go/ast"
	"go/token"
	"go/types"
	"regexp"
	"sort"
	"strings"

	"lndlint/internal/an"
	"lndlint/internal/flow"
)

func init() {
	specExtras["C13"] = append(specExtras["C13"], c13f5Rules)
}

// c13f5Rules: re-executed stages of the resolvers and of the nursery (repairs
// 9285ca5, 59b1d3b, f1e0f11, 77fd96c, 058c8f0 in /repo) and the order of the
// two final writes (seeded change C13/g of the fourth round).
func c13f5Rules(r *an.Run) {
	c13f5IncubateOnce(r)
	c13f5LaunchAgreesWithResolve(r)
	c13f5PublishTolerance(r)
	c13f5SpendWithoutPreimage(r)
	c13f5RelaunchLeavesOutOne(r)
	c13f5FinalWrites(r)
}

// c13f5ObjTerm matches identifiers that refer to obj.
func c13f5ObjTerm(obj types.Object) an.Term {
	return func(f *an.Func, e ast.Expr) bool {
		id, ok := e.(*ast.Ident)
		if !ok || obj == nil {
			return false
		}
		return f.Info().Uses[id] == obj || f.Info().Defs[id] == obj
	}
}

// c13f5CommaOkFalse returns the false edges of the test of `ok` that directly
// follows a comma-ok assignment `v, ok := <rhs>` of f whose right-hand side
// satisfies pred.
func c13f5CommaOkFalse(f *an.Func, pred func(rhs ast.Expr) bool) flow.EdgeSet {
	out := flow.EdgeSet{}
	for _, v := range f.Graph().V {
		as, ok := v.Node.(*ast.AssignStmt)
		if !ok || len(as.Lhs) != 2 || len(as.Rhs) != 1 || !pred(ast.Unparen(as.Rhs[0])) {
			continue
		}
		okID, isID := as.Lhs[1].(*ast.Ident)
		if !isID {
			continue
		}
		obj := f.Info().Defs[okID]
		if obj == nil {
			obj = f.Info().Uses[okID]
		}
		for _, e := range v.Out {
			t := e.To
			if t.Kind != flow.KCond {
				continue
			}
			if cid, isC := ast.Unparen(t.Node.(ast.Expr)).(*ast.Ident); isC && obj != nil && f.Info().Uses[cid] == obj {
				for _, ce := range t.Out {
					if ce.Kind == flow.EFalse {
						out[ce] = true
					}
				}
			}
		}
	}
	return out
}

// c13f5IncubateOnce: an output the nursery already holds is not handed over
// (or filed) a second time.
func c13f5IncubateOnce(r *an.Run) {
	p := r.Prog
	r.Obl("incubating-output-is-not-handed-to-the-nursery-again", "GUARD",
		"every IncubateOutputs call of a resolver that keeps an outputIncubating flag is reached only below !outputIncubating; NurseryStore.enterCrib and enterPreschool write into the channel bucket only after outputKnown(that bucket, the output's OutPoint()) succeeded and answered false; outputKnown ranges over a list holding every state prefix the store files outputs under (every package-level prefix a method of the store builds or recognises an output key with: first argument of prefixOutputKey, source of a copy into a key, prefix of a bytes.HasPrefix), answers true only below bucket.Get(prefixOutputKey(the loop's prefix, its outpoint parameter)) != nil, and answers false only once the list is exhausted",
		"Resolve is re-executed after every restart: the flag is checkpointed exactly to say the hand-over happened, and the nursery moves a stored output on by itself; an output that has left the crib (kindergarten, graduated) is not found under the crib prefix, so a second hand-over files it again, republishes the timeout transaction and makes the resolved channel immature again - the re-executed stage loses the checkpointed progress", 18,
		func(o *an.Obl) {
			// a. resolvers
			n := 0
			for _, f := range p.Funcs(false, "contractcourt") {
				rv := f.Root().Recv()
				if rv == nil {
					continue
				}
				hasFlag := false
				if nt := an.NamedOf(rv.Type()); nt != nil {
					if obj, _, _ := types.LookupFieldOrMethod(nt, true, nt.Obj().Pkg(), "outputIncubating"); obj != nil {
						_, hasFlag = obj.(*types.Var)
					}
				}
				if !hasFlag {
					continue
				}
				for _, s := range f.Calls(an.CalleeNamed("IncubateOutputs"), false) {
					n++
					guarded(o, f, s, an.Truth(an.FieldPath(an.Recv(), "outputIncubating"), false, "!h.outputIncubating"))
				}
			}
			if n < 2 {
				o.FailAt("contractcourt#incubate-sites", "", "expected the IncubateOutputs calls of the two legacy second-level paths (timeout, success), found %d", n)
			}

			// b. the store's two intake functions
			known := cc + "outputKnown"
			for _, fn := range []string{"enterCrib", "enterPreschool"} {
				f := p.Func(cc + "NurseryStore." + fn)
				chk := f.Calls(an.CalleeIs(known), false)
				if !needExactly(o, f, "outputKnown", chk, 1) {
					continue
				}
				a := f.ArgCanon(chk[0])
				if len(a) != 2 || a[1] != "$p1.OutPoint()" {
					o.FailAt(f.ID+"#known-outpoint", chk[0].Where(), "the duplicate test asks about %v, expected the outpoint of the output being filed ($p1.OutPoint())", a)
				}
				unknown := an.Truth(an.ResultOf(an.CallTo(known, nil), 0), false, "!known (outputKnown answered false)")
				nPut := 0
				for _, s := range f.Calls(an.CalleeNamed("Put", "CreateBucketIfNotExists", "CreateBucket"), false) {
					sel, ok := ast.Unparen(s.Node.(*ast.CallExpr).Fun).(*ast.SelectorExpr)
					if !ok {
						continue
					}
					isChan := len(a) == 2 && f.Canon(sel.X) == a[0]
					o.Site("%s: write into %s (channel bucket=%v)", s.String(), f.Canon(sel.X), isChan)
					guarded(o, f, s, unknown)
					if isChan {
						nPut++
					}
				}
				if nPut == 0 {
					o.FailAt(f.ID+"#known-bucket", chk[0].Where(), "no write of %s goes to the bucket the duplicate test looked into (%v)", fn, a)
				}
				var writes []an.Site
				for _, s := range f.Calls(an.CalleeNamed("Put"), false) {
					writes = append(writes, s)
				}
				mustPass(o, f, "outputKnown", chk, an.OkErrNil, writes)
			}

			// c. outputKnown covers every state
			prefixes := map[string]bool{}
			for _, f := range p.Funcs(false, "contractcourt") {
				if rv := f.Root().Recv(); rv == nil || !strings.HasSuffix(an.TypeID(rv.Type()), "NurseryStore") {
					continue
				}
				for _, s := range f.AllCalls(false) {
					c := s.Node.(*ast.CallExpr)
					var arg ast.Expr
					switch id := an.CalleeID(f.Info(), c); {
					case id == cc+"prefixOutputKey" && len(c.Args) == 2:
						arg = c.Args[0]
					case (id == "builtin.copy" || id == "bytes.HasPrefix") && len(c.Args) == 2:
						arg = c.Args[1]
					default:
						continue
					}
					id, ok := ast.Unparen(arg).(*ast.Ident)
					if !ok {
						continue
					}
					if v, isVar := f.Info().Uses[id].(*types.Var); isVar && v.Pkg() != nil && v.Parent() == v.Pkg().Scope() {
						prefixes[v.Name()] = true
					}
				}
			}
			k := p.Func(known)
			var loops []*ast.RangeStmt
			ast.Inspect(k.Body, func(nd ast.Node) bool {
				if rs, ok := nd.(*ast.RangeStmt); ok {
					loops = append(loops, rs)
				}
				return true
			})
			if len(loops) != 1 {
				o.FailAt(k.ID+"#loop", k.Where(k.Body.Pos()), "expected one loop over the state prefixes in outputKnown, found %d", len(loops))
				return
			}
			listed := map[string]bool{}
			if cl, ok := ast.Unparen(loops[0].X).(*ast.CompositeLit); ok {
				for _, el := range cl.Elts {
					if id, isID := ast.Unparen(el).(*ast.Ident); isID {
						listed[id.Name] = true
					}
				}
			}
			o.Site("outputKnown looks under %v; the store files outputs under %v", keys(listed), keys(prefixes))
			if len(prefixes) < 4 {
				o.FailAt(k.ID+"#prefixes", "", "expected at least 4 state prefixes the nursery store builds or recognises output keys with (prefixOutputKey, copy, bytes.HasPrefix), found %v", keys(prefixes))
			}
			for _, pf := range keys(prefixes) {
				if !listed[pf] {
					o.FailAt(k.ID+"#state-not-looked-at-"+pf, k.Where(loops[0].Pos()), "outputKnown does not look under %s, a state the store files outputs under: an output in that state is filed a second time", pf)
				}
			}
			var head, body *flow.Vertex
			for _, v := range k.Graph().V {
				if v.Kind == flow.KRange && v.Node == ast.Node(loops[0]) {
					head = v
					for _, e := range v.Out {
						if e.Kind == flow.ERangeIn {
							body = e.To
						}
					}
				}
			}
			inLoop := map[*flow.Vertex]bool{}
			if head != nil && body != nil {
				inLoop = k.Graph().Reach(body, nil, map[*flow.Vertex]bool{head: true})
			}
			elem := regexp.QuoteMeta(k.Canon(loops[0].X))
			hit := an.Cmp(canonTerm(`^\$p0\.Get\(contractcourt\.prefixOutputKey\(\$elem\(`+elem+`\), \$p1\)\)$`), an.NE, an.Nil(), "chanBucket.Get(prefixOutputKey(prefix, outpoint)) != nil")
			nTrue := 0
			for _, s := range k.Returns() {
				rs, ok := s.Node.(*ast.ReturnStmt)
				if !ok || len(rs.Results) != 2 {
					continue
				}
				switch c := k.Canon(rs.Results[0]); {
				case c == "true":
					nTrue++
					guarded(o, k, s, hit)
				case c == "false" && an.IsNilIdent(k.Info(), rs.Results[1]):
					o.Site("%s: negative answer", s.String())
					if inLoop[s.V] {
						o.FailAt(k.ID+"#negative-before-every-state", s.Where(), "outputKnown answers false before every state prefix was looked under")
					}
				}
			}
			if nTrue != 1 {
				o.FailAt(k.ID+"#positive", k.Where(k.Body.Pos()), "expected one positive answer in outputKnown, found %d", nTrue)
			}
		})
}

// c13f5LaunchAgreesWithResolve: the two entry points of the incoming contest
// resolver take the same decision about an expired HTLC.
func c13f5LaunchAgreesWithResolve(r *an.Run) {
	p := r.Prog
	res := cc + "htlcIncomingContestResolver."
	r.Obl("launch-leaves-an-expired-htlc-to-resolve", "GUARD",
		"htlcIncomingContestResolver.Launch reaches the preimage lookup (findAndapplyPreimage) and the launch of the inner success resolver only below uint32(best height) < h.htlcExpiry, the height being the result of a successful ChainIO.GetBestBlock (or without a ChainIO at all); the comparison with h.htlcExpiry has the same operator in Launch as in Resolve, where it decides to abandon the HTLC",
		"Launch and Resolve are both re-executed after a restart, Launch first: at or past the expiry Resolve abandons the HTLC and records it as timed out whatever is known, so a Launch that still offers it to the sweeper (and settles the invoice) issues the contradictory resolution - claimed and given up at once", 6,
		func(o *an.Obl) {
			l := p.Func(res + "Launch")
			rs := p.Func(res + "Resolve")
			atoms := func(f *an.Func) map[string]string {
				out := map[string]string{}
				for _, v := range f.Graph().V {
					if v.Kind != flow.KCond {
						continue
					}
					c := f.AtomCanon(v)
					if m := regexp.MustCompile(`^\(?uint32\((.*)\) (>=|>|<=|<|==|!=) \$recv\.htlcExpiry\)?$`).FindStringSubmatch(c); m != nil {
						out[m[2]] = m[1]
					}
				}
				return out
			}
			la, ra := atoms(l), atoms(rs)
			o.Site("Launch compares with the expiry by %v, Resolve by %v", la, ra)
			if len(ra) != 1 || len(la) != 1 {
				o.FailAt(l.ID+"#expiry-tests", l.Where(l.Body.Pos()), "expected one comparison of the height with h.htlcExpiry in Launch and one in Resolve, found %v and %v", la, ra)
				return
			}
			for op := range ra {
				if _, same := la[op]; !same {
					o.FailAt(l.ID+"#expiry-operator", l.Where(l.Body.Pos()), "Launch tests the expiry with %v, Resolve with %q: at the boundary height one claims what the other abandons", la, op)
				}
			}
			var targets []an.Site
			targets = append(targets, l.Calls(an.CalleeIs(res+"findAndapplyPreimage"), false)...)
			nLook := len(targets)
			targets = append(targets, l.Calls(an.CalleeIs(cc+"htlcSuccessResolver.Launch"), false)...)
			if nLook != 1 || len(targets) != 2 {
				o.FailAt(l.ID+"#launch-steps", l.Where(l.Body.Pos()), "expected the preimage lookup and the inner Launch in htlcIncomingContestResolver.Launch, found %d sites", len(targets))
				return
			}
			height := canonTerm(`^(uint32\()?\$recv\.ChainIO\.GetBestBlock\(\)#1\)?$`)
			notExpired := an.AnyOf("uint32(bestHeight) < h.htlcExpiry, or no ChainIO",
				an.CmpX(height, an.LT, an.FieldPath(an.Recv(), "htlcExpiry"), ""),
				an.IsNil(an.FieldPath(an.Recv(), "ChainIO"), true, ""))
			for _, t := range targets {
				guarded(o, l, t, notExpired)
			}
			best := l.Calls(an.CalleeNamed("GetBestBlock"), false)
			mustPassUnless(o, l, "ChainIO.GetBestBlock", best, an.OkErrNil, targets, an.IsNil(an.FieldPath(an.Recv(), "ChainIO"), true, "h.ChainIO == nil"))
		})
}

// c13f5FailureReturns returns the returns of f that are reached only through a
// failure edge of the call at s (the edges leaving the test of its error
// result that are not success edges), and the object of the error variable.
func c13f5FailureReturns(f *an.Func, s an.Site) ([]an.Site, types.Object) {
	ok, _ := f.OkEdges(s, an.OkErrNil)
	fail := flow.EdgeSet{}
	var errObj types.Object
	for e := range ok {
		for _, out := range e.From.Out {
			if !ok[out] {
				fail[out] = true
			}
		}
		if be, isBin := ast.Unparen(e.From.Node.(ast.Expr)).(*ast.BinaryExpr); isBin {
			for _, side := range []ast.Expr{be.X, be.Y} {
				if id, isID := ast.Unparen(side).(*ast.Ident); isID && !an.IsNilIdent(f.Info(), id) {
					errObj = f.Info().Uses[id]
				}
			}
		}
	}
	if len(fail) == 0 {
		return nil, errObj
	}
	g := f.Graph()
	without := g.Reach(g.Entry, fail, nil)
	var out []an.Site
	for _, rt := range f.Returns() {
		if !without[rt.V] {
			out = append(out, rt)
		}
	}
	return out, errObj
}

// c13f5PublishTolerance: the publish sites that a restart re-executes agree
// on the errors that mean "already happened".
func c13f5PublishTolerance(r *an.Run) {
	p := r.Prog
	r.Obl("re-executed-publish-tolerates-an-already-spent-transaction", "TABLE",
		"every publish of a commitment or second-level transaction in contractcourt (calls of a PublishTx / PublishTransaction hook outside the breach arbitrator's justice path): every return that is reached only because that publish failed lies below !errors.Is(err, lnwallet.ErrDoubleSpend) (or err != ErrDoubleSpend), err being the publish's own result; the two publishers of second-level transactions (htlcSuccessResolver.resolveLegacySuccessTx and UtxoNursery.sweepCribOutput) tolerate the same set of errors",
		"these steps are re-executed by every restart until their stage is left: once the transaction is confirmed (and its output swept) the wallet answers the re-publish with ErrDoubleSpend; a step that hands that error out never gets past the publish again, the resolver exits on every start and the contract is never resolved - the restarted run does not reach the outcome of the uninterrupted one", 4,
		func(o *an.Obl) {
			tolerated := map[string][]string{}
			n := 0
			for _, f := range p.Funcs(false, "contractcourt") {
				if rv := f.Root().Recv(); rv != nil && strings.HasSuffix(an.TypeID(rv.Type()), "BreachArbitrator") {
					continue
				}
				for _, s := range f.Calls(an.CalleeNamed("PublishTx", "PublishTransaction"), false) {
					n++
					rets, errObj := c13f5FailureReturns(f, s)
					// candidate errors: what the function compares err with
					cands := map[string]bool{"ErrDoubleSpend": true}
					for _, v := range f.Graph().V {
						if v.Kind != flow.KCond {
							continue
						}
						if m := regexp.MustCompile(`lnwallet\.(Err[A-Za-z]+)`).FindStringSubmatch(f.AtomCanon(v)); m != nil {
							cands[m[1]] = true
						}
					}
					var tol []string
					for _, x := range keys(cands) {
						not := an.AnyOf("err is not "+x,
							an.Truth(an.CallTo("errors.Is", nil, c13f5ObjTerm(errObj), an.PkgVar("lnwallet", x)), false, ""),
							an.Cmp(c13f5ObjTerm(errObj), an.NE, an.PkgVar("lnwallet", x), ""))
						all := true
						for _, rt := range rets {
							if ok, _ := f.Guarded(rt, not); !ok {
								all = false
							}
						}
						if all {
							tol = append(tol, x)
						}
					}
					sort.Strings(tol)
					tolerated[f.Root().ID] = tol
					o.Site("%s: %d return(s) only reached when the publish failed; tolerated there: %v", s.String(), len(rets), tol)
					okDS := false
					for _, x := range tol {
						if x == "ErrDoubleSpend" {
							okDS = true
						}
					}
					if !okDS {
						where := s.Where()
						if len(rets) > 0 {
							where = rets[0].Where()
						}
						o.FailAt(f.ID+"#publish-failure-handed-out-for-a-spent-transaction", where, "a failed %s is handed out even when the error is ErrDoubleSpend: after a restart the transaction may be confirmed and spent already, and the step fails on every start", an.Text(s.Node.(*ast.CallExpr).Fun))
					}
				}
			}
			if n < 4 {
				o.FailAt("contractcourt#publish-sites", "", "expected at least 4 publish sites outside the breach arbitrator, found %d", n)
			}
			a, b := cc+"htlcSuccessResolver.resolveLegacySuccessTx", cc+"UtxoNursery.sweepCribOutput"
			ta, okA := tolerated[a]
			tb, okB := tolerated[b]
			if !okA || !okB {
				o.FailAt("contractcourt#second-level-publishers", "", "cannot find the publish of %s (%v) or of %s (%v)", a, okA, b, okB)
			} else if strings.Join(ta, ",") != strings.Join(tb, ",") {
				o.FailAt(a+"#tolerated-errors-differ", p.Func(a).Where(p.Func(a).Body.Pos()), "the success resolver tolerates %v when it publishes its second-level transaction, the nursery %v for the timeout transaction: the same restart situation ends one of them", ta, tb)
			}
		})
}

// c13f5SpendWithoutPreimage: a spend of the HTLC output that carries no
// preimage is recognised and handed to the resolver that can deal with it.
func c13f5SpendWithoutPreimage(r *an.Run) {
	p := r.Prog
	tr := cc + "htlcTimeoutResolver."
	r.Obl("spend-without-preimage-is-recognised-and-handed-to-the-timeout-resolver", "PATH",
		"htlcTimeoutResolver.claimCleanUp indexes the spending input's witness only below index < len(witness), builds the preimage from that element only below len(element) == lntypes.HashSize, and every path on which one of the two tests fails ends in a return wrapping errNoPreimageInSpend; every method of htlcOutgoingContestResolver that calls claimCleanUp returns the embedded timeout resolver with a nil error below errors.Is(that call's error, errNoPreimageInSpend), and no method of the contest resolver other than that one calls claimCleanUp",
		"a contest resolver restored after the hand-over to the timeout resolver had happened sees our own timeout spend at start: indexing its witness unchecked panics (remote commitment) or fails with an invalid preimage length (local commitment) on every restart, so the restarted run never reaches the outcome the uninterrupted one reached through the timeout resolver", 10,
		func(o *an.Obl) {
			f := p.Func(tr + "claimCleanUp")
			g := f.Graph()
			// witness index expressions
			type idxUse struct {
				site an.Site
				w    string
				idx  an.Term
				txt  string
			}
			var uses []idxUse
			exact := func(c string) an.Term { return canonTerm("^" + regexp.QuoteMeta(c) + "$") }
			for _, v := range g.V {
				if v.Node == nil {
					continue
				}
				v := v
				v.Inspect(false, func(nd ast.Node) bool {
					ix, ok := nd.(*ast.IndexExpr)
					if !ok {
						return true
					}
					if t := f.Info().TypeOf(ix.X); t == nil || !strings.HasSuffix(t.String(), ".TxWitness") {
						return true
					}
					u := idxUse{site: an.Site{Fn: f, V: v, Node: ix}, w: f.Canon(ix.X), txt: an.Text(ix.Index)}
					if id, isID := ast.Unparen(ix.Index).(*ast.Ident); isID && f.Info().Uses[id] != nil {
						if _, isVar := f.Info().Uses[id].(*types.Var); isVar {
							u.idx = c13f5ObjTerm(f.Info().Uses[id])
							// the index is not changed once it was compared
							obj := f.Info().Uses[id]
							for e := range f.EdgesOf(an.CmpX(u.idx, an.LT, an.Len(exact(u.w)), "")) {
								after := g.Reach(e.To, nil, nil)
								for _, w := range f.Assigns(c13f5ObjTerm(obj), false) {
									if after[w.V] {
										o.FailAt(f.ID+"#index-changed-after-test", w.Where(), "the witness index %s is assigned after it was compared with the witness length", id.Name)
									}
								}
							}
						}
					}
					if u.idx == nil {
						u.idx = exact(f.Canon(ix.Index))
					}
					uses = append(uses, u)
					return true
				})
			}
			if len(uses) < 2 {
				o.FailAt(f.ID+"#witness-index", f.Where(f.Body.Pos()), "expected the witness of the spending input to be indexed (length test and preimage), found %d index expressions", len(uses))
			}
			noPre := flow.EdgeSet{}
			for _, u := range uses {
				inBounds := an.CmpX(u.idx, an.LT, an.Len(exact(u.w)), "index < len(witness)")
				guarded(o, f, u.site, inBounds)
				for e := range f.EdgesOf(an.CmpX(u.idx, an.GE, an.Len(exact(u.w)), "")) {
					noPre[e] = true
				}
			}
			mk := f.Calls(an.CalleeNamed("MakePreimage"), false)
			if needExactly(o, f, "lntypes.MakePreimage", mk, 1) {
				argE := ast.Unparen(mk[0].Node.(*ast.CallExpr).Args[0])
				var elem an.Term
				for _, u := range uses {
					if ast.Expr(u.site.Node.(*ast.IndexExpr)) == argE {
						elem = an.Index(exact(u.w), u.idx)
					}
				}
				if elem == nil {
					o.FailAt(f.ID+"#preimage-source", mk[0].Where(), "the preimage is built from %s, expected an element of the spending input's witness", an.Text(argE))
				} else {
					guarded(o, f, mk[0], an.CmpX(an.Len(elem), an.EQ, an.PkgVar("lntypes", "HashSize"), "len(witness[index]) == lntypes.HashSize"))
					for e := range f.EdgesOf(an.CmpX(an.Len(elem), an.NE, an.PkgVar("lntypes", "HashSize"), "")) {
						noPre[e] = true
					}
				}
			}
			nRet := 0
			for e := range noPre {
				reach := g.Reach(e.To, nil, nil)
				for _, rt := range f.Returns() {
					if !reach[rt.V] {
						continue
					}
					rs, ok := rt.Node.(*ast.ReturnStmt)
					c := ""
					if ok && len(rs.Results) == 1 {
						c = f.Canon(rs.Results[0])
					}
					nRet++
					o.Site("%s: answer for a witness without preimage: %s", rt.String(), c)
					if !reMatch(`^contractcourt\.errNoPreimageInSpend$|^fmt\.Errorf\("%w[^"]*", contractcourt\.errNoPreimageInSpend\b`, c) {
						o.FailAt(f.ID+"#no-preimage-answer", rt.Where(), "a witness without a preimage at the expected index ends in %s, expected an error wrapping errNoPreimageInSpend (the caller tells the spend apart by it)", c)
					}
				}
				for _, m := range mk {
					if reach[m.V] {
						o.FailAt(f.ID+"#no-preimage-falls-through", m.Where(), "a witness without a preimage at the expected index still reaches MakePreimage")
					}
				}
			}
			if nRet == 0 {
				o.FailAt(f.ID+"#no-preimage-exit", f.Where(f.Body.Pos()), "claimCleanUp has no exit for a witness that holds no preimage at the expected index")
			}

			// the contest resolver's callers
			nCallers := 0
			for _, h := range p.Funcs(false, "contractcourt") {
				rv := h.Root().Recv()
				if rv == nil || !strings.HasSuffix(an.TypeID(rv.Type()), "htlcOutgoingContestResolver") {
					continue
				}
				calls := h.Calls(an.CalleeIs(tr+"claimCleanUp"), false)
				if len(calls) == 0 {
					continue
				}
				nCallers++
				for _, s := range calls {
					o.Site("%s", s.String())
				}
				// the error variable of the call
				var errObj types.Object
				ast.Inspect(h.Body, func(nd ast.Node) bool {
					as, ok := nd.(*ast.AssignStmt)
					if !ok || len(as.Rhs) != 1 || len(as.Lhs) != 1 || ast.Unparen(as.Rhs[0]) != calls[0].Node {
						return true
					}
					if id, isID := as.Lhs[0].(*ast.Ident); isID {
						errObj = h.Info().Defs[id]
						if errObj == nil {
							errObj = h.Info().Uses[id]
						}
					}
					return true
				})
				if len(calls) != 1 || errObj == nil {
					o.FailAt(h.ID+"#claim-error-dropped", calls[0].Where(), "%s calls claimCleanUp %d time(s) without keeping its error in a variable: a spend without preimage cannot be told apart", h.ID, len(calls))
					continue
				}
				isNoPre := an.Truth(an.CallTo("errors.Is", nil, c13f5ObjTerm(errObj), an.PkgVar("contractcourt", "errNoPreimageInSpend")), true, "errors.Is(err, errNoPreimageInSpend)")
				handed := 0
				for _, rt := range h.Returns() {
					rs, ok := rt.Node.(*ast.ReturnStmt)
					if !ok || len(rs.Results) != 2 {
						continue
					}
					under, _ := h.Guarded(rt, isNoPre)
					c := h.Canon(rs.Results[0])
					if under {
						o.Site("%s: below errors.Is(err, errNoPreimageInSpend)", rt.String())
						if c == "$recv.htlcTimeoutResolver" && an.IsNilIdent(h.Info(), rs.Results[1]) {
							handed++
						} else {
							o.FailAt(h.ID+"#spend-without-preimage-not-handed-over", rt.Where(), "for a spend without preimage %s returns (%s, %s), expected the embedded timeout resolver and a nil error", h.ID, c, an.Text(rs.Results[1]))
						}
					} else if c == "$recv.htlcTimeoutResolver" {
						o.FailAt(h.ID+"#hand-over-unconditional", rt.Where(), "%s hands over to the timeout resolver outside errors.Is(err, errNoPreimageInSpend)", h.ID)
					}
				}
				if handed == 0 {
					o.FailAt(h.ID+"#spend-without-preimage-unhandled", calls[0].Where(), "%s calls claimCleanUp but has no return of the timeout resolver below errors.Is(err, errNoPreimageInSpend): our own timeout spend seen after a restart is a permanent error", h.ID)
				}
				// who calls this method returns its results unchanged
				for _, cf := range p.Funcs(false, "contractcourt") {
					for _, cs := range cf.Calls(an.CalleeIs(h.ID), false) {
						if _, isRet := cs.V.Node.(*ast.ReturnStmt); !isRet || cs.V.Kind != flow.KReturn {
							o.FailAt(cf.ID+"#spend-result-rewritten", cs.Where(), "%s does not return the results of %s directly", cf.ID, h.ID)
						} else {
							o.Site("%s returns the results of %s", cs.String(), h.ID)
						}
					}
				}
			}
			if nCallers != 1 {
				o.FailAt(cc+"htlcOutgoingContestResolver#claim-callers", "", "expected exactly one method of the outgoing contest resolver calling claimCleanUp (the one telling a spend without preimage apart), found %d", nCallers)
			}
		})
}

// c13f5RelaunchLeavesOutOne: the relaunch after a restart.
func c13f5RelaunchLeavesOutOne(r *an.Run) {
	p := r.Prog
	arb := cc + "ChannelArbitrator."
	r.Obl("relaunch-leaves-out-only-the-resolver-it-cannot-supplement", "PATH",
		"relaunchResolvers: the loop over the stored resolvers (the result of FetchUnresolvedContracts) is left only when every one was looked at (no return, break or goto out of it); each iteration adds the resolver to the list of resolvers to launch, except on the not-found edge of the HTLC lookup htlcMap[HtlcPoint()]; an HTLC resolver is added only after Supplement; the list handed to resolveContracts is that list (plus the re-created anchor resolver), and every successful end of the function passes resolveContracts",
		"after a restart the resolvers exist only in the log: a relaunch that gives up at the first resolver whose HTLC it cannot find leaves the commit sweep, anchor, breach and all other HTLC resolvers of the channel unlaunched on every start, so none of the outcomes of the uninterrupted run is reached; a resolver launched without its HTLC acts on incomplete data", 8,
		func(o *an.Obl) {
			f := p.Func(arb + "relaunchResolvers")
			g := f.Graph()
			// the stored resolvers: the result of FetchUnresolvedContracts
			var stored types.Object
			for _, s := range f.Calls(an.CalleeNamed("FetchUnresolvedContracts"), false) {
				if as, ok := s.V.Node.(*ast.AssignStmt); ok && len(as.Lhs) == 2 {
					if id, isID := as.Lhs[0].(*ast.Ident); isID {
						stored = f.Info().Defs[id]
						if stored == nil {
							stored = f.Info().Uses[id]
						}
					}
				}
			}
			var loop *ast.RangeStmt
			ast.Inspect(f.Body, func(nd ast.Node) bool {
				if rs, ok := nd.(*ast.RangeStmt); ok && stored != nil {
					if id, isID := ast.Unparen(rs.X).(*ast.Ident); isID && f.Info().Uses[id] == stored {
						loop = rs
					}
				}
				return true
			})
			if loop == nil {
				o.FailAt(f.ID+"#loop", f.Where(f.Body.Pos()), "cannot find the loop over the stored resolvers (the result of FetchUnresolvedContracts)")
				return
			}
			// the iteration's resolver: the loop's element, directly or
			// through a local defined as stored[key]
			var isIter func(e ast.Expr, depth int) bool
			isIter = func(e ast.Expr, depth int) bool {
				e = ast.Unparen(e)
				switch x := e.(type) {
				case *ast.Ident:
					if loop.Value != nil {
						if vid, ok := loop.Value.(*ast.Ident); ok && f.Info().Defs[vid] != nil && f.Info().Uses[x] == f.Info().Defs[vid] {
							return true
						}
					}
					if d := f.UniqueDef(x); d != nil && depth < 3 {
						return isIter(d, depth+1)
					}
				case *ast.IndexExpr:
					xid, ok1 := ast.Unparen(x.X).(*ast.Ident)
					kid, ok2 := ast.Unparen(x.Index).(*ast.Ident)
					lk, ok3 := loop.Key.(*ast.Ident)
					return ok1 && ok2 && ok3 && f.Info().Uses[xid] == stored && f.Info().Uses[kid] == f.Info().Defs[lk]
				}
				return false
			}
			var head, body *flow.Vertex
			for _, v := range g.V {
				if v.Kind == flow.KRange && v.Node == ast.Node(loop) {
					head = v
					for _, e := range v.Out {
						if e.Kind == flow.ERangeIn {
							body = e.To
						}
					}
				}
			}
			if head == nil || body == nil {
				o.FailAt(f.ID+"#loop-shape", f.Where(loop.Pos()), "cannot read the loop over the stored resolvers")
				return
			}
			inLoop := g.Reach(body, nil, map[*flow.Vertex]bool{head: true})
			for _, rt := range f.Returns() {
				if inLoop[rt.V] {
					o.FailAt(f.ID+"#relaunch-aborted", rt.Where(), "the relaunch loop can be left by %s: the resolvers not yet looked at (and those collected so far) are never launched", an.Text(rt.Node))
				}
			}
			// appends of the iteration's resolver
			var adds []an.Site
			var listObj types.Object
			for _, v := range g.V {
				as, ok := v.Node.(*ast.AssignStmt)
				if !ok || !inLoop[v] || len(as.Lhs) != 1 || len(as.Rhs) != 1 || !isAppend(f, as.Rhs[0]) {
					continue
				}
				c := as.Rhs[0].(*ast.CallExpr)
				if len(c.Args) != 2 || !isIter(c.Args[1], 0) {
					continue
				}
				id, isID := as.Lhs[0].(*ast.Ident)
				base, isBase := ast.Unparen(c.Args[0]).(*ast.Ident)
				if !isID || !isBase || f.Info().Uses[id] != f.Info().Uses[base] {
					continue
				}
				if listObj != nil && listObj != f.Info().Uses[id] {
					o.FailAt(f.ID+"#two-lists", f.Where(as.Pos()), "the iteration's resolver is collected in two different lists")
				}
				listObj = f.Info().Uses[id]
				adds = append(adds, an.Site{Fn: f, V: v, Node: as})
			}
			if !need(o, f, "append(list, resolver) in the relaunch loop", adds, 1) {
				return
			}
			for _, s := range f.Calls(an.CalleeIs(arb+"resolveContracts"), false) {
				if inLoop[s.V] {
					o.FailAt(f.ID+"#relaunch-loop-left-early", f.Where(loop.Pos()), "the relaunch loop can be left (break / goto) before every stored resolver was looked at")
				}
			}
			// the not-found edge of the HTLC lookup
			skip := c13f5CommaOkFalse(f, func(rhs ast.Expr) bool {
				ix, isIx := rhs.(*ast.IndexExpr)
				return isIx && inLoop[g.Containing(ix, false)] && reMatch(`\.HtlcPoint\(\)$`, f.Canon(ix.Index))
			})
			for e := range skip {
				o.Site("%s: not-found edge of the HTLC lookup, tested at %s", f.ID, f.Where(e.From.Pos()))
			}
			if len(skip) != 1 {
				o.FailAt(f.ID+"#htlc-lookup", f.Where(loop.Pos()), "expected one HTLC lookup `htlc, ok := htlcMap[resolver.HtlcPoint()]` tested right away in the relaunch loop, found %d", len(skip))
			}
			stop := map[*flow.Vertex]bool{head: true}
			for _, a := range adds {
				stop[a.V] = true
			}
			o.Site("%s: every iteration adds the resolver to the launch list unless its HTLC is not found", f.ID)
			if g.Reach(body, skip, stop)[head] {
				o.FailAt(f.ID+"#resolver-left-out", f.Where(loop.Pos()), "an iteration of the relaunch loop can complete without adding its resolver to the launch list although its HTLC was found (or it needs none)")
			}
			// an HTLC resolver is supplemented before it is added
			sup := f.Calls(an.CalleeNamed("Supplement"), false)
			if need(o, f, "Supplement", sup, 1) {
				for _, a := range adds {
					if f.Before(sup, a) {
						o.Site("%s: after Supplement", a.String())
						continue
					}
					// the branch of the resolvers that are no HTLC resolvers:
					// below the false edge of the type assertion's ok
					notHtlc := false
					if cut := c13f5CommaOkFalse(f, func(rhs ast.Expr) bool {
						ta, isTA := rhs.(*ast.TypeAssertExpr)
						return isTA && ta.Type != nil && isIter(ta.X, 0) && strings.HasSuffix(an.TypeID(f.Info().TypeOf(ta.Type)), "htlcContractResolver")
					}); len(cut) > 0 {
						notHtlc = !g.Reach(g.Entry, cut, nil)[a.V]
					}
					o.Site("%s: not an HTLC resolver = %v", a.String(), notHtlc)
					if !notHtlc {
						o.FailAt(f.ID+"#launched-without-htlc", a.Where(), "a resolver is added to the launch list without Supplement although it may be an HTLC resolver")
					}
				}
			}
			// what is launched
			rc := f.Calls(an.CalleeIs(arb+"resolveContracts"), false)
			if needExactly(o, f, "resolveContracts", rc, 1) {
				arg, isID := ast.Unparen(rc[0].Node.(*ast.CallExpr).Args[0]).(*ast.Ident)
				okFlow := false
				if isID {
					argObj := f.Info().Uses[arg]
					if argObj == listObj {
						okFlow = true
					}
					for _, w := range f.Assigns(c13f5ObjTerm(argObj), false) {
						as := w.Node.(*ast.AssignStmt)
						if inLoop[w.V] || len(as.Rhs) != 1 {
							continue
						}
						if id, isR := ast.Unparen(as.Rhs[0]).(*ast.Ident); isR && f.Info().Uses[id] == listObj && as.Tok == token.ASSIGN {
							okFlow = true
							o.Site("%s: the launch list replaces the stored list", w.String())
							if !f.Before([]an.Site{w}, rc[0]) {
								o.FailAt(f.ID+"#launch-list-late", w.Where(), "resolveContracts can be reached without the launch list having replaced the stored list")
							}
						}
					}
				}
				if !okFlow {
					o.FailAt(f.ID+"#launched-list", rc[0].Where(), "resolveContracts is given %s, which is not the list the loop collected the launchable resolvers in", an.Text(rc[0].Node.(*ast.CallExpr).Args[0]))
				}
				mustPass(o, f, "resolveContracts", rc, an.OkPassed, f.StrictSuccessReturns())
			}
		})
}

// c13f5FinalWrites: the order of the two durable writes that finish a
// channel.
func c13f5FinalWrites(r *an.Run) {
	p := r.Prog
	r.Obl("arbitrator-log-wiped-only-after-the-channel-is-marked-fully-closed", "PATH",
		"every non-test WipeHistory call of an arbitrator log in contractcourt is reached only after a successful MarkChanFullyClosed of the channel point the function was given, in the same function; the log wiped is the one of the arbitrator registered under that channel point",
		"the two writes are separate transactions: while the channel is still pending-close in the channel database a restart re-creates its arbitrator from the log; with the log already wiped that arbitrator starts from the default stage, finds no resolutions and stays there - the channel is pending close forever, whereas a closed channel with a left-over log is harmless", 3,
		func(o *an.Obl) {
			n := 0
			for _, f := range p.Funcs(false, "contractcourt") {
				ws := f.Calls(an.CalleeNamed("WipeHistory"), false)
				if len(ws) == 0 {
					continue
				}
				n += len(ws)
				marks := f.Calls(an.CalleeNamed("MarkChanFullyClosed"), false)
				if !need(o, f, "MarkChanFullyClosed", marks, 1) {
					continue
				}
				mustPass(o, f, "MarkChanFullyClosed", marks, an.OkErrNil, ws)
				for _, m := range marks {
					if a := f.ArgCanon(m); len(a) != 1 || a[0] != "&$p0" {
						o.FailAt(f.ID+"#closed-channel", m.Where(), "the channel marked fully closed is %v, expected the channel point the function was given", a)
					}
				}
				for _, w := range ws {
					sel, ok := ast.Unparen(w.Node.(*ast.CallExpr).Fun).(*ast.SelectorExpr)
					if !ok {
						continue
					}
					lc := f.Canon(sel.X)
					o.Site("%s: log %s", w.String(), lc)
					if !reMatch(`\[\$p0\]\.log$`, lc) {
						o.FailAt(f.ID+"#wiped-log", w.Where(), "the log wiped is %s, expected the log of the arbitrator registered under the channel point that was marked closed", lc)
					}
				}
			}
			if n < 1 {
				o.FailAt("contractcourt#wipe-sites", "", "no WipeHistory call found in contractcourt: the anchor moved")
			}
		})
}
